"""Deterministic seed heaps (json-able) for the kernel BFS."""
import itertools

from . import kernel as K

LABELS = {1: [['a'], [None]], 2: [['a', 'b'], ['a', None], ['p', 'p*']], 3: [['a', 'b', 'c'], [None, 'b', None], ['(x.y)', 'b*', 'c']],
          4: [['a', 'b', 'c', 'd'], [None, None, 'c', 'd*']]}


def legjson(l):
    return dict(charges=[list(c) for c in l.charges], sizes=list(l.sizes), qconj=l.qconj, name=l.name)


def tensor_specs(ch, legs, dtype='float64', max_q=2, labels_idx=0, pats=None, zero_variant=True):
    """All tensor specs for a leg tuple: reachable qtotals (zero first) x block patterns."""
    out = []
    qts = K.reachable_qtotals(legs)
    zero = tuple(0 for _ in K.mods(ch))
    qts = sorted(qts, key=lambda q: (q != zero, q))[:max_q]
    rank = len(legs)
    lab = LABELS[rank][labels_idx % len(LABELS[rank])]
    for q in qts:
        blocks = K.allowed_blocks(legs, q)
        if not blocks:
            continue
        for pname, idxs in K.block_patterns(blocks):
            if pats is not None and pname not in pats and not (pname == 'subset'):
                continue
            present = [list(blocks[i]) for i in idxs]
            spec = dict(ch=ch, legs=[legjson(l) for l in legs], qtotal=list(q), present=present, dtype=dtype, labels=lab, variant=0)
            out.append(spec)
            if zero_variant and pname in ('first', 'subset') and len(idxs) == 1 and len(blocks) >= 2:
                # a stored-but-zero block next to a real one, blocks stored in reverse order
                z = dict(spec)
                z['zero_blocks'] = [list(blocks[-1])]
                z['unsorted_qdata'] = True
                out.append(z)
    return out


def partner_spec(spec, kind, variant=1):
    """Second operand for binary operations: 'conj' = contractible with every leg, 'same' = addable."""
    legs = [K.LegSpec(spec['ch'], l['charges'], l['sizes'], l['qconj'], l['name']) for l in spec['legs']]
    if kind == 'conj':
        l2 = [l.conj() for l in legs]
        q = [(-x) % m if m > 1 else -x for x, m in zip(spec['qtotal'], K.mods(spec['ch']))]
        labels = [None if s is None else (s[:-1] if s.endswith('*') else s + '*') for s in spec['labels']]
        if any(s is not None and '(' in s for s in spec['labels']):
            labels = [None] * len(legs)
    elif kind == 'twin':
        # same physical charges, but the first leg stored with the opposite sign convention (flip_charges_qconj):
        # `test_equal` legs, so linear combinations are allowed
        l2 = [legs[0].twin()] + legs[1:]
        q = spec['qtotal']
        labels = spec['labels']
    else:
        l2 = legs
        q = spec['qtotal']
        labels = spec['labels']
    blocks = K.allowed_blocks(l2, tuple(q))
    # different pattern from the first operand: all blocks but the first (or all if only one)
    present = [list(b) for b in (blocks[1:] if len(blocks) > 1 else blocks)]
    return dict(ch=spec['ch'], legs=[legjson(l) for l in l2], qtotal=list(q), present=present, dtype=spec['dtype'], labels=labels, variant=variant)


def leg_tuples(ch, rank, tier):
    lib = K.leg_library(ch, small=(tier == 'quick' and rank >= 2))
    if rank == 1:
        return [(l,) for l in lib]
    if rank == 2:
        return list(itertools.product(lib, lib))
    # rank >= 3: strength-2 covering over leg features: every pair (leg x on axis i, leg y on axis j) occurs
    small = K.leg_library(ch, small=True)
    n = len(small)
    tuples = []
    for a in range(n):
        for b in range(n):
            idx = [a, b] + [(a + (k + 1) * b + k) % n for k in range(rank - 2)]
            tuples.append(tuple(small[i] for i in idx))
    return tuples


def seeds(ch, tier, ranks=(1, 2, 3), dtypes=('float64', 'complex128'), pair_kinds=('conj', 'same', 'twin')):
    """List of (seed heap, family name)."""
    out = []
    for rank in ranks:
        for ti, legs in enumerate(leg_tuples(ch, rank, tier)):
            if any(l.ind_len == 0 for l in legs):
                continue
            dtype = dtypes[ti % len(dtypes)]
            specs = tensor_specs(ch, legs, dtype, max_q=2 if rank <= 2 else 1, labels_idx=ti,
                                 pats=None if rank <= 2 else ('all', 'allbutfirst', 'checker'))
            for si, spec in enumerate(specs):
                out.append(([spec], 'r%d' % rank))
                if rank <= 2 or si == 0:
                    for kind in pair_kinds:
                        if kind == 'twin' and (not K.mods(ch) or si % 3):
                            continue
                        out.append(([spec, partner_spec(spec, kind)], 'r%d+%s' % (rank, kind)))
    return out
