"""BFS over operation histories of real npc.Arrays with a dense shadow; oracles for C01 (dense/labels/legs),
C02 (invariants, qtotal rule) and C03 (operands, legs and unrelated heap members unchanged)."""
import traceback

import numpy as np

from . import kernel as K
from . import kops
from .kops import OPS, Entry, OpError, Shadow

# Operations documented to return shallow copies / views that share block data with the operand
# (copy(deep=False), "A shallow copy of self ...", replace_label(s) = copy(deep=False).ireplace_label).
SHARING_OPS = {'copy', 'labels', 'squeeze_addleg', 'gauge', 'sort_legcharge', 'as_completely_blocked', 'unary_blockwise'}
MAX_HEAP = 3


def tol_for(*dtypes):
    t = 1e-10
    for d in dtypes:
        if np.dtype(d) in (np.dtype(np.float32), np.dtype(np.complex64)):
            t = 1e-4
    return t


def compare(arr, sh, opname, focus):
    """Compare a real array with its expected shadow. Returns list of (cat, key, msg)."""
    out = []
    if 'C01' in focus:
        try:
            d = arr.to_ndarray()
        except Exception as e:  # noqa: BLE001
            return [('C01', opname + ':to_ndarray-raises', '%s: %s' % (type(e).__name__, e))]
        if tuple(d.shape) != tuple(sh.dense.shape):
            out.append(('C01', opname + ':shape', 'shape %s, numpy gives %s' % (d.shape, sh.dense.shape)))
        else:
            tol = tol_for(arr.dtype, sh.dense.dtype)
            ref = np.abs(sh.dense).max() if sh.dense.size else 0.0
            if d.size and np.abs(d - sh.dense).max() > tol * (1 + ref):
                bad = np.argwhere(np.abs(d - sh.dense) > tol * (1 + ref))[0]
                out.append(('C01', opname + ':values', 'dense result differs from numpy at %s: got %r expected %r' % (tuple(bad), d[tuple(bad)], sh.dense[tuple(bad)])))
        if list(arr._labels) != list(sh.labels):
            out.append(('C01', opname + ':labels', 'labels %r, documented rule gives %r' % (arr._labels, sh.labels)))
        for k, (l, sl) in enumerate(zip(arr.legs, sh.legs)):
            phys = kops.valid(sh.ch, np.asarray(l.to_qflat()).reshape(l.ind_len, l.chinfo.qnumber) * l.qconj)
            if l.qconj != sl.qconj:
                out.append(('C01', opname + ':leg-qconj', 'leg %d has qconj %d, expected %d' % (k, l.qconj, sl.qconj)))
            elif phys.shape[0] != sl.n or (phys.size and not np.array_equal(phys, sl.phys.reshape(phys.shape))):
                out.append(('C01', opname + ':leg-charges', 'leg %d carries charges %s, expected %s' % (k, phys.tolist(), sl.phys.tolist())))
        if len(arr.legs) != len(sh.legs):
            out.append(('C01', opname + ':rank', 'rank %d expected %d' % (len(arr.legs), len(sh.legs))))
    if 'C02' in focus:
        q = tuple(int(x) for x in np.asarray(arr.qtotal).tolist())
        if q != tuple(sh.qtotal):
            out.append(('C02', opname + ':qtotal', 'qtotal %s, documented function of the operands gives %s' % (q, sh.qtotal)))
        for m in K.array_invariants(arr):
            out.append(('C02', opname + ':invariant:' + m.split(':')[0][:40].replace(' ', '_'), m))
    return out


def compare_scalar(val, exp, opname, tol=1e-9):
    try:
        v = complex(val)
    except Exception:  # noqa: BLE001
        return [('C01', opname + ':scalar-type', 'returned %r instead of a scalar' % (val,))]
    e = complex(np.asarray(exp).reshape(-1)[0]) if np.asarray(exp).size else 0j
    if abs(v - e) > tol * (1 + abs(e)):
        return [('C01', opname + ':scalar', 'returned %r, numpy gives %r' % (val, e))]
    return []


class Snapshot:
    """Observable content of every heap member + fingerprints of every reachable leg object."""

    def __init__(self, heap):
        self.obs = [K.observable(e.arr) for e in heap]
        self.legs = {}
        for e in heap:
            for i, l in K.all_legs(e.arr).items():
                self.legs[i] = (l, K.leg_fingerprint(l))
        self.qtotal_objs = [e.arr.qtotal for e in heap]


def memory_shared(a, b):
    if a._qdata is b._qdata or a._data is b._data:
        return True
    for x in a._data:
        for y in b._data:
            if np.shares_memory(x, y):
                return True
    return False


def check_unchanged(heap, snap, target, opname, groups):
    """C03: every heap member except `target` is observably unchanged; no leg object changed at all.

    groups[i] = id of documented data-sharing group of entry i (or None)."""
    out = []
    for i, (l, fp) in snap.legs.items():
        if K.leg_fingerprint(l) != fp:
            out.append(('C03', opname + ':leg-object-mutated', 'a LegCharge object that existed before the operation was modified (%r)' % (l,)))
            break
    for i, e in enumerate(heap[:len(snap.obs)]):
        if i == target or (target is not None and e.arr is heap[target].arr):
            continue
        try:
            now = K.observable(e.arr)
        except Exception as ex:  # noqa: BLE001
            out.append(('C03', opname + ':operand-corrupted', 'heap member %d is unusable after the operation: %s' % (i, ex)))
            continue
        msg = K.observable_equal(snap.obs[i], now)
        if msg is None:
            inv = K.array_invariants(e.arr)
            if inv:
                out.append(('C03', opname + ':operand-corrupted', 'heap member %d violates its invariants after an operation on another object: %s' % (i, inv[0])))
            continue
        if target is not None and groups[i] is not None and groups[i] == groups[target] and msg.startswith('values changed'):
            # documented pit-fall of shallow copies: block data is shared.  Everything else must be intact.
            inv = K.array_invariants(e.arr)
            if inv:
                out.append(('C03', opname + ':sharer-corrupted', 'shallow copy (member %d) is inconsistent after an in-place operation on its sharer: %s' % (i, inv[0])))
            continue
        what = 'operand' if target is None else 'bystander'
        out.append(('C03', '%s:%s-changed' % (opname, what), 'heap member %d changed although the operation %s: %s' % (
            i, 'is not in-place' if target is None else 'was called on member %d' % target, msg)))
    return out


class Heap:
    def __init__(self, entries):
        self.entries = entries
        self.groups = [None] * len(entries)
        self._next_group = 1

    def shadows(self):
        for e, g in zip(self.entries, self.groups):
            e.sh.share = g
        for i, e in enumerate(self.entries):  # the same object twice on the heap shares everything
            for j, f in enumerate(self.entries[:i]):
                if e.arr is f.arr:
                    e.sh.share = f.sh.share = ('same', j)
        return [e.sh for e in self.entries]


def apply(heap, op, focus, tier='quick'):
    """Apply one op to the heap (real + model). Returns list of (cat, key, msg) violations.  Raises nothing."""
    name = op[0]
    impl = OPS[name]
    shs = heap.shadows()
    snap = Snapshot(heap.entries) if 'C03' in focus else None
    try:
        res = impl.run(heap.entries, op)
    except OpError as e:
        return [(e.cat, e.key, e.msg)], None
    except Exception as e:  # noqa: BLE001
        return [('C01', name + ':raises:' + type(e).__name__, 'operation %r inside its documented domain raised %s: %s\n%s' % (op, type(e).__name__, e, traceback.format_exc()[-1200:]))], None
    out = []
    try:
        kind = res['kind']
        target = res.get('target') if kind == 'inplace' else None
        if kind == 'scalar':
            exp = impl.model(shs, op)
            if not (isinstance(exp, tuple) and exp[0] == 'scalar'):
                out.append(('C01', name + ':scalar-vs-array', 'returned a scalar where an Array is expected'))
            elif 'C01' in focus:
                # single-precision operands (after astype) accumulate in single precision
                single = any(np.dtype(sh.dense.dtype) in (np.dtype(np.float32), np.dtype(np.complex64)) for sh in shs)
                out += compare_scalar(res['val'], exp[1], name, 1e-4 if single else 1e-9)
            new_entry = None
        else:
            arr = heap.entries[target].arr if kind == 'inplace' else res['arr']
            if name == 'combine_legs':
                exp = kops.check_combine(shs[op[1]], arr, *res['combine'])
            elif name == 'as_completely_blocked':
                exp = kops.check_blocked(shs[op[1]], arr, res['enc'])
            elif name == 'sort_legcharge':
                exp = kops.check_sort(shs[op[1]], arr, res['perm'], op)
            else:
                exp = impl.model(shs, op)
            if isinstance(exp, tuple):
                out.append(('C01', name + ':array-vs-scalar', 'returned an Array where a scalar is expected'))
                exp = kops.shadow_from_real(arr, shs[0].ch)
            if kind == 'inplace' and res.get('ret') is not None and res['ret'] is not arr:
                out.append(('C01', name + ':inplace-returns-other', 'in-place method did not return self'))
            out += compare(arr, exp, name, focus)
            # re-synchronise the shadow's structural info (block structure of new legs) from the real result
            try:
                real_sh = kops.shadow_from_real(arr, shs[0].ch)
                for k, l in enumerate(exp.legs):
                    if k < len(real_sh.legs):
                        if l.struct is None:
                            l.struct = real_sh.legs[k].struct
                        if l.sub is None and real_sh.legs[k].sub is not None:
                            # a pipe we did not model (e.g. kept through an op): take the real sub-structure
                            l.sub = real_sh.legs[k].sub
            except Exception:  # noqa: BLE001
                pass
            new_entry = Entry(arr, exp)
        if 'C03' in focus:
            out += check_unchanged(heap.entries, snap, target, name, heap.groups)
    except OpError as e:
        out.append((e.cat, e.key, e.msg))
        new_entry = None
        kind = 'failed'
    except Exception as e:  # noqa: BLE001
        out.append(('C01', name + ':oracle-crash:' + type(e).__name__, 'checking the result of %r failed: %s\n%s' % (op, e, traceback.format_exc()[-1500:])))
        new_entry = None
        kind = 'failed'
    if out:
        return out, None
    # commit
    if kind == 'inplace':
        for e in heap.entries:
            if e.arr is heap.entries[target].arr:
                e.sh = new_entry.sh  # the same object may sit on the heap twice
        # sharers of the target: their values may have changed (documented); re-read their dense shadow
        g = heap.groups[target]
        if g is not None:
            for i, e in enumerate(heap.entries):
                if i != target and heap.groups[i] == g:
                    e.sh.dense = e.arr.to_ndarray().copy()
    elif kind == 'new' and new_entry is not None:
        share = res.get('share')
        grp = None
        if share is not None and name in SHARING_OPS:
            if heap.groups[share] is None:
                heap.groups[share] = heap._next_group
                heap._next_group += 1
            grp = heap.groups[share]
        if len(heap.entries) < MAX_HEAP:
            heap.entries.append(new_entry)
            heap.groups.append(grp)
        else:
            heap.entries[-1] = new_entry
            heap.groups[-1] = grp
    return [], res


def enabled_ops(heap, tier, opnames=None):
    shs = heap.shadows()
    out = []
    for name, impl in OPS.items():
        if opnames is not None and name not in opnames:
            continue
        if name == 'as_completely_blocked':
            continue
        for inst in impl.instances(shs, tier):
            out.append(inst)
    return out


def canon(heap):
    ks = tuple(K.structure_key(e.arr) for e in heap.entries)
    alias = tuple(heap.groups)
    ident = tuple(tuple(e.arr is f.arr for f in heap.entries) for e in heap.entries)
    return (ks, alias, ident)


def build_seed(seed):
    """seed = json-able description of the initial heap: list of tensor specs."""
    entries = []
    for spec in seed:
        legspecs = [K.LegSpec(spec['ch'], l['charges'], l['sizes'], l['qconj'], l.get('name', '')) for l in spec['legs']]
        arr, dense = K.make_array(legspecs, spec['qtotal'], [tuple(b) for b in spec['present']], np.dtype(spec['dtype']), spec.get('labels'),
                                  [tuple(b) for b in spec.get('zero_blocks', [])], spec.get('variant', 0), spec.get('unsorted_qdata', False))
        sh = kops.shadow_from_real(arr, spec['ch'])
        entries.append(Entry(arr, sh))
    return Heap(entries)


def replay(seed, ops, focus, tier='quick'):
    """Rebuild the heap from the seed and apply `ops`; returns (heap, violations of the last step)."""
    heap = build_seed(seed)
    viol = []
    for op in ops:
        viol, _ = apply(heap, op, focus, tier)
        if viol:
            break
    return heap, viol


def check_seed(heap, focus):
    """The constructed seed tensors themselves must be consistent (guards the harness)."""
    out = []
    for e in heap.entries:
        out += compare(e.arr, e.sh, 'seed', focus)
        for m in K.array_invariants(e.arr):
            out.append(('C02', 'seed:invariant', m))
    return out


def _round(x):
    """Round to 10 significant digits (results of the integer-valued patterns are exact anyway)."""
    x = np.asarray(x)
    if x.dtype.kind in 'iub':
        return x
    with np.errstate(all='ignore'):
        if x.dtype.kind == 'c':
            return _round(x.real) + 1j * _round(x.imag)
        mag = np.where(x == 0, 1.0, 10.0 ** np.floor(np.log10(np.abs(np.where(x == 0, 1.0, x)))))
        return np.round(x / mag, 9) * mag


def digest(heap, res, viol):
    """Observable outcome of one transition, hashable and comparable between two interpreter processes."""
    import hashlib
    if viol:
        cat, key, msg = viol[0]
        if ':raises:' in key:
            return 'exc:' + key.split(':raises:')[1]
        return 'viol:' + key
    if res is None:
        return 'none'
    if res['kind'] == 'scalar':
        v = complex(res['val'])
        return ('float', [v.real, v.imag])  # compared with a tolerance (norms of float32 data are not exact)
    arr = heap.entries[res['target']].arr if res['kind'] == 'inplace' else res['arr']
    legs = tuple((tuple(np.asarray(l.to_qflat()).reshape(-1).tolist()), int(l.qconj), tuple(np.asarray(l.slices).tolist())) for l in arr.legs)
    blocks = tuple(sorted(tuple(r) for r in np.asarray(arr._qdata).tolist()))
    h = hashlib.sha1()
    d = arr.to_ndarray()
    h.update(np.ascontiguousarray(_round(d).astype(np.complex128) + 0.0).tobytes())  # (+0.0: no negative zeros)
    # (the dtype of a tensor without any stored block is derived differently by the two implementations; the property
    # speaks about legs, labels, total charge, block structure and values, so it is not compared in that case)
    dtype = None  # (not part of the property; e.g. int + int gives int64 in pure Python, float64 in the compiled kernel)
    return (res['kind'], legs, tuple(arr._labels), tuple(np.asarray(arr.qtotal).tolist()), blocks, dtype, tuple(d.shape), h.hexdigest()[:16])


def bfs(seed, depth, focus, tier, opnames=None, max_states=None, digests=None):
    """Explicit-state BFS from one seed heap. Every transition is executed on real objects (rebuilt by replay)."""
    heap0 = build_seed(seed)
    v0 = check_seed(heap0, focus)
    stats = dict(states=1, transitions=0, traces=0, evaluations=0, capped=False)
    viol = []
    if v0:
        return stats, [dict(cat=c, key=k, msg=m, ops=[]) for c, k, m in v0], set(), set()
    seen = {canon(heap0)}
    frontier = [()]
    keys = set()
    outcomes = set()
    for d in range(depth):
        new = []
        for hist in frontier:
            heap, _ = replay(seed, hist, focus, tier)
            ops = enabled_ops(heap, tier, opnames)
            h2 = None
            for op in ops:
                if max_states is not None and stats['states'] >= max_states:
                    stats['capped'] = True
                    break
                if h2 is None:
                    # fresh real objects for this transition (rebuilt by replaying the history) ...
                    h2, _ = replay(seed, hist, focus, tier)
                    n0, groups0, next0 = len(h2.entries), list(h2.groups), h2._next_group
                    key0 = tuple(K.structure_key(e.arr) for e in h2.entries)
                v, res = apply(h2, op, focus, tier)
                stats['transitions'] += 1
                stats['traces'] += 1
                stats['evaluations'] += 1
                if digests is not None:
                    digests.append((repr(tuple(hist) + (op,)), digest(h2, res, v)))
                if v:
                    for (c, k, m) in v:
                        if len(viol) < 30:
                            viol.append(dict(cat=c, key=k, msg=m, ops=list(hist) + [op]))
                    h2 = None
                    continue
                outcomes.add(op[0] + ':' + (res['kind'] if res else '?'))
                c = canon(h2)
                nontriv = any(len(e.arr._data) >= 2 for e in h2.entries)
                if nontriv:
                    keys.add(hash((op[0], c)))
                if c not in seen:
                    seen.add(c)
                    stats['states'] += 1
                    if d + 1 < depth:
                        new.append(tuple(hist) + (op,))
                # ... which are reused for the next transition only if this one provably left the pre-state untouched
                # (not in-place, nothing replaced, and even the unobservable structure - block order, flags - is unchanged)
                reusable = (not v and res is not None and res['kind'] in ('new', 'scalar') and n0 < MAX_HEAP
                            and len(h2.entries) in (n0, n0 + 1)
                            and tuple(K.structure_key(e.arr) for e in h2.entries[:n0]) == key0)
                if reusable:
                    del h2.entries[n0:]
                    h2.groups = list(groups0)
                    h2._next_group = next0
                else:
                    h2 = None
        frontier = new
    return stats, viol, keys, outcomes
