"""Build configurations: Cython extension rebuilt from the current tree + symlink overlay.

CY: overlay package whose linalg/_npc_helper*.so is compiled from /repo's *current* .pyx.
PY: same sources, TENPY_NO_CYTHON=1.
"""
import hashlib
import os
import shutil
import subprocess
import sys
import tempfile

REPO = os.environ.get('VERIF_REPO', '/repo')
VERIF = os.path.dirname(os.path.dirname(os.path.abspath(__file__)))
BUILD = os.path.join(VERIF, '.build')
PY = '/venv/bin/python'
_SRC = ['tenpy/linalg/_npc_helper.pyx', 'tenpy/linalg/_cblas_mkl.pxd', 'setup.py']


def pyx_sha():
    h = hashlib.sha256()
    for f in _SRC:
        p = os.path.join(REPO, f)
        h.update(f.encode())
        if os.path.exists(p):
            with open(p, 'rb') as fh:
                h.update(fh.read())
    return h.hexdigest()[:20]


def build_so(verbose=False):
    """Return path of a _npc_helper .so built from the current tree (content-addressed cache).

    Returns None if the extension does not compile (callers decide what that means)."""
    sha = pyx_sha()
    sodir = os.path.join(BUILD, 'so')
    os.makedirs(sodir, exist_ok=True)
    target = os.path.join(sodir, sha + '.so')
    failed = os.path.join(sodir, sha + '.failed')
    if os.path.exists(target):
        os.utime(target)
        return target
    if os.path.exists(failed):
        return None
    tmp = tempfile.mkdtemp(prefix='tenpy_verif_build_')
    try:
        for f in _SRC:
            dst = os.path.join(tmp, f)
            os.makedirs(os.path.dirname(dst), exist_ok=True)
            shutil.copy(os.path.join(REPO, f), dst)
        open(os.path.join(tmp, 'tenpy', '__init__.py'), 'w').close()
        open(os.path.join(tmp, 'tenpy', 'linalg', '__init__.py'), 'w').close()
        env = dict(os.environ)
        env.pop('TENPY_OPTIMIZE', None)
        env.pop('PYTHONPATH', None)
        r = subprocess.run([PY, 'setup.py', 'build_ext', '--inplace'], cwd=tmp, env=env,
                           stdout=subprocess.PIPE, stderr=subprocess.STDOUT, text=True)
        sos = [f for f in os.listdir(os.path.join(tmp, 'tenpy', 'linalg')) if f.endswith('.so')]
        if r.returncode != 0 or not sos:
            with open(failed, 'w') as fh:
                fh.write(r.stdout[-5000:])
            if verbose:
                print(r.stdout[-3000:], file=sys.stderr)
            return None
        tmp_target = target + '.%d.tmp' % os.getpid()
        shutil.copy(os.path.join(tmp, 'tenpy', 'linalg', sos[0]), tmp_target)
        os.replace(tmp_target, target)
    finally:
        shutil.rmtree(tmp, ignore_errors=True)
    # keep at most 3 cached binaries
    olds = sorted((os.path.getmtime(os.path.join(sodir, f)), f) for f in os.listdir(sodir) if f.endswith('.so'))
    for _, f in olds[:-3]:
        try:
            os.remove(os.path.join(sodir, f))
        except OSError:
            pass
    return target


def _so_name():
    import sysconfig
    return '_npc_helper' + sysconfig.get_config_var('EXT_SUFFIX')


def make_overlay(so_path):
    """Create a symlink overlay of /repo/tenpy whose compiled helper is `so_path` (or absent)."""
    ovroot = os.path.join(BUILD, 'ov')
    os.makedirs(ovroot, exist_ok=True)
    # remove overlays of dead processes
    for d in os.listdir(ovroot):
        pid = d.split('_')[0]
        if pid.isdigit() and not os.path.exists('/proc/' + pid):
            shutil.rmtree(os.path.join(ovroot, d), ignore_errors=True)
    ov = tempfile.mkdtemp(prefix='%d_' % os.getpid(), dir=ovroot)
    src = os.path.join(REPO, 'tenpy')
    dst = os.path.join(ov, 'tenpy')
    os.mkdir(dst)
    for e in os.listdir(src):
        if e in ('__pycache__',):
            continue
        if e == 'linalg':
            os.mkdir(os.path.join(dst, e))
            for f in os.listdir(os.path.join(src, e)):
                if f.endswith('.so') or f == '__pycache__' or f.endswith('.cpp') or f.endswith('.c'):
                    continue
                os.symlink(os.path.join(src, e, f), os.path.join(dst, e, f))
            if so_path is not None:
                os.symlink(so_path, os.path.join(dst, e, _so_name()))
        else:
            os.symlink(os.path.join(src, e), os.path.join(dst, e))
    return ov


def base_env(overlay, config='CY', optimize=None, seed=0):
    env = dict(os.environ)
    env['PYTHONPATH'] = overlay + os.pathsep + VERIF
    env['PYTHONHASHSEED'] = '0'
    env['PYTHONDONTWRITEBYTECODE'] = '1'
    for k in ('OMP_NUM_THREADS', 'OPENBLAS_NUM_THREADS', 'MKL_NUM_THREADS', 'NUMEXPR_NUM_THREADS'):
        env[k] = '1'
    env['TENPY_VERIF'] = '1'
    env['VERIF_SEED'] = str(seed)
    env['VERIF_CONFIG'] = config
    if config == 'PY':
        env['TENPY_NO_CYTHON'] = '1'
    else:
        env.pop('TENPY_NO_CYTHON', None)
    if optimize is None:
        env.pop('TENPY_OPTIMIZE', None)
    else:
        env['TENPY_OPTIMIZE'] = str(optimize)
    return env
