#!/bin/sh
# builds the LD_PRELOAD shim into /verif/.build/crashfs_shim.so (offline, gcc only)
set -e
HERE="$(cd "$(dirname "$0")" && pwd)"
OUT="$HERE/../../.build"
mkdir -p "$OUT"
gcc -O2 -fPIC -shared -o "$OUT/crashfs_shim.so.tmp" "$HERE/shim.c" -ldl
mv "$OUT/crashfs_shim.so.tmp" "$OUT/crashfs_shim.so"
