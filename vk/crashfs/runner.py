"""Crash-injection server for C18 (must be started with LD_PRELOAD=<shim> and CRASHFS_DIR=<dir>).

Reads JSON commands from stdin, answers with one JSON line each.  Every *process lifetime* of a simulation
(fresh run or resume) is executed in a forked child of this warmed process; the child arms the libc shim so
that it is killed immediately before (or in the middle of) the n-th file-system operation of its s-th call of
`Simulation.save_results`.  Afterwards the files left on disk are classified by really loading them.
"""
import ctypes
import json
import os
import signal
import sys
import time
import warnings

import numpy as np

_lib = ctypes.CDLL(None)
_lib.crashfs_arm.argtypes = [ctypes.c_long, ctypes.c_long]
_lib.crashfs_log.argtypes = [ctypes.c_char_p]
_lib.crashfs_count.restype = ctypes.c_long


def _sim_class(base_name):
    """Subclass of the real simulation class whose save_results() is bracketed by shim control calls."""
    from tenpy.simulations.simulation import Simulation
    from tenpy.tools.misc import find_subclass
    Base = find_subclass(Simulation, base_name)
    name = 'Crash' + base_name
    for c in Base.__subclasses__():
        if c.__name__ == name:
            return c

    def save_results(self, results=None):
        ctl = CONTROL
        ctl['save_calls'] += 1
        s = ctl['save_calls']
        if ctl.get('sigint_at_save') == s and ctl.get('sigint_before'):
            os.kill(os.getpid(), signal.SIGINT)
        if ctl.get('record'):
            _lib.crashfs_reset()
            _lib.crashfs_log(('%s.%d' % (ctl['record'], s)).encode())
            _lib.crashfs_arm(-1, -1)
        elif ctl.get('crash_save') == s:
            _lib.crashfs_reset()
            _lib.crashfs_arm(ctl['crash_n'], ctl.get('crash_tear', -1))
        try:
            res = Base.save_results(self, results)
        finally:
            _lib.crashfs_disarm()
            if ctl.get('record'):
                _lib.crashfs_log(None)
        # acknowledged: the call returned
        with open(ctl['ackfile'], 'a') as f:
            f.write('%d %s\n' % (s, json.dumps(checkpoint_id(self.results))))
        return res

    return type(name, (Base,), {'save_results': save_results})


CONTROL = {}


def checkpoint_id(results):
    """Identify which checkpoint a results dict belongs to: (number of sweeps / steps recorded, finished flag)."""
    n = None
    rd = results.get('resume_data') or {}
    if 'sweeps' in rd:  # total number of sweeps, continues to count after a resume (sweep_stats restart)
        return [int(rd['sweeps']), bool(results.get('finished_run', False))]
    if 'evolved_time' in rd:
        return [int(round(1000 * float(np.real(rd['evolved_time'])))), bool(results.get('finished_run', False))]
    for key in ('sweep_stats', 'update_stats'):
        if key in results and results[key]:
            d = results[key]
            k = sorted(d.keys())[0]
            n = len(d[k])
            break
    if n is None and 'measurements' in results and results['measurements']:
        d = results['measurements']
        n = len(d[sorted(d.keys())[0]])
    return [n, bool(results.get('finished_run', False))]


def child_main(cmd):
    import logging
    logging.disable(logging.CRITICAL)
    warnings.simplefilter('ignore')
    CONTROL.clear()
    CONTROL.update(save_calls=0, ackfile=cmd['ackfile'])
    if cmd.get('record'):
        CONTROL['record'] = cmd['record']
    if cmd.get('crash'):
        CONTROL.update(crash_save=cmd['crash']['save'], crash_n=cmd['crash']['n'], crash_tear=cmd['crash'].get('tear', -1))
    cls = _sim_class(cmd['sim_class'])
    import tenpy
    if cmd['kind'] == 'fresh':
        params = json.loads(json.dumps(cmd['params']))
        sim = cls(params)
        with sim:
            sim.run()
    else:
        from tenpy.simulations import simulation
        from tenpy.tools import hdf5_io
        res = hdf5_io.load(cmd['file'])
        sim = cls.from_saved_checkpoint(checkpoint_results=res)
        with sim:
            sim.resume_run()
    return 0


def classify(path):
    """absent | placeholder | torn | ['complete', n, finished] -- by really loading the file (in a forked child)."""
    if not os.path.exists(path):
        return 'absent'
    r, w = os.pipe()
    pid = os.fork()
    if pid == 0:
        os.close(r)
        out = 'torn'
        try:
            import logging
            logging.disable(logging.CRITICAL)
            warnings.simplefilter('ignore')
            from tenpy.tools import hdf5_io
            try:
                with open(path, 'rb') as f:
                    head = f.read(40)
                if head.startswith(b'simulation initialized on'):
                    out = 'placeholder'
                else:
                    res = hdf5_io.load(path)
                    cid = checkpoint_id(res)
                    # a loadable file must carry usable content
                    energies = None
                    if 'sweep_stats' in res and 'E' in res['sweep_stats']:
                        energies = [float(np.real(x)) for x in res['sweep_stats']['E']]
                    out = ['complete', cid[0], cid[1], energies, ('psi' in res) or ('resume_data' in res)]
            except BaseException as e:  # noqa: BLE001
                out = 'torn'
        finally:
            os.write(w, json.dumps(out).encode())
            os._exit(0)
    os.close(w)
    data = b''
    while True:
        chunk = os.read(r, 65536)
        if not chunk:
            break
        data += chunk
    os.close(r)
    _, status = os.waitpid(pid, 0)
    if not data:
        return 'torn'  # loading crashed the interpreter
    return json.loads(data.decode())


def run_process(cmd):
    t0 = time.time()
    pid = os.fork()
    if pid == 0:
        code = 3
        try:
            # children must not answer on the server's stdout
            devnull = os.open(os.devnull, os.O_WRONLY)
            os.dup2(devnull, 1)
            os.dup2(devnull, 2)
            code = child_main(cmd)
        except SystemExit as e:
            code = int(e.code or 0)
        except KeyboardInterrupt:
            code = 4
        except BaseException as e:  # noqa: BLE001
            try:
                with open(cmd['ackfile'] + '.err', 'a') as f:
                    import traceback
                    f.write(traceback.format_exc())
            except Exception:  # noqa: BLE001
                pass
            code = 5
        finally:
            os._exit(code)
    deadline = time.time() + cmd.get('timeout', 120)
    status = None
    while time.time() < deadline:
        p, st = os.waitpid(pid, os.WNOHANG)
        if p == pid:
            status = st
            break
        time.sleep(0.002)
    if status is None:
        os.kill(pid, signal.SIGKILL)
        os.waitpid(pid, 0)
        return dict(exit='timeout', wall=time.time() - t0)
    if os.WIFSIGNALED(status):
        ex = 'signal%d' % os.WTERMSIG(status)
    else:
        ex = os.WEXITSTATUS(status)
    return dict(exit=ex, wall=time.time() - t0)


def main():
    import logging
    logging.disable(logging.CRITICAL)
    warnings.simplefilter('ignore')
    import tenpy  # noqa: F401  (warm up before forking)
    import tenpy.simulations.ground_state_search  # noqa: F401
    import tenpy.simulations.time_evolution  # noqa: F401
    try:
        import h5py  # noqa: F401
    except ImportError:
        pass
    sys.stdout.write(json.dumps(dict(ready=True)) + '\n')
    sys.stdout.flush()
    for line in sys.stdin:
        line = line.strip()
        if not line:
            continue
        cmd = json.loads(line)
        if cmd['kind'] == 'quit':
            break
        if cmd['kind'] == 'classify':
            ans = dict(states=[classify(p) for p in cmd['paths']])
        else:
            ans = run_process(cmd)
        sys.stdout.write(json.dumps(ans) + '\n')
        sys.stdout.flush()


if __name__ == '__main__':
    main()
