/* LD_PRELOAD shim: counts file-system operations on paths below $CRASHFS_DIR, logs them, and can kill the process
 * immediately before the n-th operation (optionally after writing only a prefix of the n-th write: torn write).
 *
 * Control (from the same process, via ctypes on the already loaded library):
 *   crashfs_arm(long kill_at, long tear_bytes)   kill_at < 0: never kill; tear_bytes < 0: kill before the op
 *   crashfs_reset()                              op counter := 0
 *   crashfs_count()                              number of counted operations so far
 *   crashfs_log(const char *path)                append one line per counted op to this file (NULL: off)
 */
#define _GNU_SOURCE
#include <dlfcn.h>
#include <errno.h>
#include <fcntl.h>
#include <stdarg.h>
#include <stdio.h>
#include <stdlib.h>
#include <string.h>
#include <sys/stat.h>
#include <sys/types.h>
#include <sys/uio.h>
#include <unistd.h>

#define MAXFD 4096
static char g_dir[1024];
static int g_dirlen = -1;
static char g_fdmark[MAXFD];
static char g_fdpath[MAXFD][256];
static long g_count = 0, g_kill_at = -1, g_tear = -1;
static int g_logfd = -1;
static int g_active = 0;

static void init_dir(void) {
    if (g_dirlen >= 0) return;
    const char *d = getenv("CRASHFS_DIR");
    if (!d) { g_dirlen = 0; return; }
    strncpy(g_dir, d, sizeof(g_dir) - 1);
    g_dirlen = strlen(g_dir);
}
static int under(const char *path) {
    init_dir();
    if (!g_active || g_dirlen == 0 || !path) return 0;
    return strncmp(path, g_dir, g_dirlen) == 0;
}
static ssize_t (*real_write)(int, const void *, size_t);
static void logop(const char *op, const char *path, long a, long b) {
    if (g_logfd < 0) return;
    char buf[700];
    int n = snprintf(buf, sizeof buf, "%ld %s %s %ld %ld\n", g_count, op, path ? path : "-", a, b);
    if (!real_write) real_write = dlsym(RTLD_NEXT, "write");
    real_write(g_logfd, buf, n);
}
/* returns 1 if the process must die before this op, 2 if it must tear this write */
static int step(const char *op, const char *path, long a, long b) {
    g_count++;
    logop(op, path, a, b);
    if (g_kill_at >= 0 && g_count == g_kill_at) return (g_tear >= 0) ? 2 : 1;
    return 0;
}
static void die(void) { _exit(137); }

void crashfs_arm(long kill_at, long tear) { g_kill_at = kill_at; g_tear = tear; g_active = 1; }
void crashfs_disarm(void) { g_active = 0; g_kill_at = -1; }
void crashfs_reset(void) { g_count = 0; }
long crashfs_count(void) { return g_count; }
void crashfs_log(const char *path) {
    int (*ropen)(const char *, int, ...) = dlsym(RTLD_NEXT, "open");
    int (*rclose)(int) = dlsym(RTLD_NEXT, "close");
    if (g_logfd >= 0) { rclose(g_logfd); g_logfd = -1; }
    if (path) g_logfd = ropen(path, O_WRONLY | O_CREAT | O_APPEND, 0644);
}

static void mark(int fd, const char *path) {
    if (fd >= 0 && fd < MAXFD) { g_fdmark[fd] = 1; strncpy(g_fdpath[fd], path, 255); g_fdpath[fd][255] = 0; }
}
static int marked(int fd) { return g_active && fd >= 0 && fd < MAXFD && g_fdmark[fd]; }

#define OPEN_BODY(NAME, CALL)                                                         \
    int flags_w = (flags & (O_WRONLY | O_RDWR | O_CREAT | O_TRUNC)) != 0;              \
    if (under(path) && flags_w) {                                                     \
        if (step(NAME, path, flags, 0)) die();                                        \
        int fd = CALL;                                                                \
        if (fd >= 0) mark(fd, path);                                                  \
        return fd;                                                                    \
    }                                                                                 \
    return CALL;

int open(const char *path, int flags, ...) {
    static int (*real)(const char *, int, ...);
    if (!real) real = dlsym(RTLD_NEXT, "open");
    mode_t mode = 0;
    if (flags & (O_CREAT | O_TMPFILE)) { va_list ap; va_start(ap, flags); mode = va_arg(ap, int); va_end(ap); }
    OPEN_BODY("open", real(path, flags, mode))
}
int open64(const char *path, int flags, ...) {
    static int (*real)(const char *, int, ...);
    if (!real) real = dlsym(RTLD_NEXT, "open64");
    mode_t mode = 0;
    if (flags & (O_CREAT | O_TMPFILE)) { va_list ap; va_start(ap, flags); mode = va_arg(ap, int); va_end(ap); }
    OPEN_BODY("open", real(path, flags, mode))
}
int openat(int dirfd, const char *path, int flags, ...) {
    static int (*real)(int, const char *, int, ...);
    if (!real) real = dlsym(RTLD_NEXT, "openat");
    mode_t mode = 0;
    if (flags & (O_CREAT | O_TMPFILE)) { va_list ap; va_start(ap, flags); mode = va_arg(ap, int); va_end(ap); }
    OPEN_BODY("open", real(dirfd, path, flags, mode))
}
int openat64(int dirfd, const char *path, int flags, ...) {
    static int (*real)(int, const char *, int, ...);
    if (!real) real = dlsym(RTLD_NEXT, "openat64");
    mode_t mode = 0;
    if (flags & (O_CREAT | O_TMPFILE)) { va_list ap; va_start(ap, flags); mode = va_arg(ap, int); va_end(ap); }
    OPEN_BODY("open", real(dirfd, path, flags, mode))
}
int creat(const char *path, mode_t mode) {
    static int (*real)(const char *, mode_t);
    if (!real) real = dlsym(RTLD_NEXT, "creat");
    int flags = O_CREAT | O_WRONLY | O_TRUNC;
    OPEN_BODY("open", real(path, mode))
}
int close(int fd) {
    static int (*real)(int);
    if (!real) real = dlsym(RTLD_NEXT, "close");
    if (marked(fd)) {
        if (step("close", g_fdpath[fd], fd, 0)) die();
        g_fdmark[fd] = 0;
    } else if (fd >= 0 && fd < MAXFD) g_fdmark[fd] = 0;
    return real(fd);
}
ssize_t write(int fd, const void *buf, size_t n) {
    if (!real_write) real_write = dlsym(RTLD_NEXT, "write");
    if (marked(fd)) {
        int s = step("write", g_fdpath[fd], (long)n, -1);
        if (s == 1) die();
        if (s == 2) { size_t k = (size_t)g_tear < n ? (size_t)g_tear : n; if (k) real_write(fd, buf, k); die(); }
    }
    return real_write(fd, buf, n);
}
ssize_t pwrite(int fd, const void *buf, size_t n, off_t off) {
    static ssize_t (*real)(int, const void *, size_t, off_t);
    if (!real) real = dlsym(RTLD_NEXT, "pwrite");
    if (marked(fd)) {
        int s = step("pwrite", g_fdpath[fd], (long)n, (long)off);
        if (s == 1) die();
        if (s == 2) { size_t k = (size_t)g_tear < n ? (size_t)g_tear : n; if (k) real(fd, buf, k, off); die(); }
    }
    return real(fd, buf, n, off);
}
ssize_t pwrite64(int fd, const void *buf, size_t n, off64_t off) {
    static ssize_t (*real)(int, const void *, size_t, off64_t);
    if (!real) real = dlsym(RTLD_NEXT, "pwrite64");
    if (marked(fd)) {
        int s = step("pwrite", g_fdpath[fd], (long)n, (long)off);
        if (s == 1) die();
        if (s == 2) { size_t k = (size_t)g_tear < n ? (size_t)g_tear : n; if (k) real(fd, buf, k, off); die(); }
    }
    return real(fd, buf, n, off);
}
ssize_t writev(int fd, const struct iovec *iov, int cnt) {
    static ssize_t (*real)(int, const struct iovec *, int);
    if (!real) real = dlsym(RTLD_NEXT, "writev");
    if (marked(fd)) {
        long tot = 0; for (int i = 0; i < cnt; i++) tot += iov[i].iov_len;
        int s = step("writev", g_fdpath[fd], tot, cnt);
        if (s == 1) die();
        if (s == 2) {
            if (!real_write) real_write = dlsym(RTLD_NEXT, "write");
            long left = g_tear;
            for (int i = 0; i < cnt && left > 0; i++) { size_t k = (size_t)left < iov[i].iov_len ? (size_t)left : iov[i].iov_len; real_write(fd, iov[i].iov_base, k); left -= k; }
            die();
        }
    }
    return real(fd, iov, cnt);
}
int ftruncate(int fd, off_t len) {
    static int (*real)(int, off_t);
    if (!real) real = dlsym(RTLD_NEXT, "ftruncate");
    if (marked(fd)) { if (step("ftruncate", g_fdpath[fd], (long)len, 0)) die(); }
    return real(fd, len);
}
int ftruncate64(int fd, off64_t len) {
    static int (*real)(int, off64_t);
    if (!real) real = dlsym(RTLD_NEXT, "ftruncate64");
    if (marked(fd)) { if (step("ftruncate", g_fdpath[fd], (long)len, 0)) die(); }
    return real(fd, len);
}
int fsync(int fd) {
    static int (*real)(int);
    if (!real) real = dlsym(RTLD_NEXT, "fsync");
    if (marked(fd)) { if (step("fsync", g_fdpath[fd], 0, 0)) die(); }
    return real(fd);
}
int fdatasync(int fd) {
    static int (*real)(int);
    if (!real) real = dlsym(RTLD_NEXT, "fdatasync");
    if (marked(fd)) { if (step("fsync", g_fdpath[fd], 0, 0)) die(); }
    return real(fd);
}
int rename(const char *a, const char *b) {
    static int (*real)(const char *, const char *);
    if (!real) real = dlsym(RTLD_NEXT, "rename");
    if (under(a) || under(b)) { if (step("rename", a, 0, 0)) die(); logop("  ->", b, 0, 0); }
    return real(a, b);
}
int renameat(int ad, const char *a, int bd, const char *b) {
    static int (*real)(int, const char *, int, const char *);
    if (!real) real = dlsym(RTLD_NEXT, "renameat");
    if (under(a) || under(b)) { if (step("rename", a, 0, 0)) die(); logop("  ->", b, 0, 0); }
    return real(ad, a, bd, b);
}
int renameat2(int ad, const char *a, int bd, const char *b, unsigned int fl) {
    static int (*real)(int, const char *, int, const char *, unsigned int);
    if (!real) real = dlsym(RTLD_NEXT, "renameat2");
    if (under(a) || under(b)) { if (step("rename", a, 0, 0)) die(); logop("  ->", b, 0, 0); }
    return real(ad, a, bd, b, fl);
}
int unlink(const char *p) {
    static int (*real)(const char *);
    if (!real) real = dlsym(RTLD_NEXT, "unlink");
    if (under(p)) { if (step("unlink", p, 0, 0)) die(); }
    return real(p);
}
int unlinkat(int d, const char *p, int fl) {
    static int (*real)(int, const char *, int);
    if (!real) real = dlsym(RTLD_NEXT, "unlinkat");
    if (under(p)) { if (step("unlink", p, 0, 0)) die(); }
    return real(d, p, fl);
}
int mkdir(const char *p, mode_t m) {
    static int (*real)(const char *, mode_t);
    if (!real) real = dlsym(RTLD_NEXT, "mkdir");
    if (under(p)) { if (step("mkdir", p, 0, 0)) die(); }
    return real(p, m);
}
int rmdir(const char *p) {
    static int (*real)(const char *);
    if (!real) real = dlsym(RTLD_NEXT, "rmdir");
    if (under(p)) { if (step("rmdir", p, 0, 0)) die(); }
    return real(p);
}
