"""Runs inside a configured interpreter (overlay on PYTHONPATH): enumerate units, run them, dump results.

usage: python -m vk.driver <ID> <tier> <seed> <config-label> <jobs> <outfile> [--replay file]
"""
import importlib
import json
import os
import pickle
import sys
import time


def load_check(pid):
    return importlib.import_module('checks.' + pid.lower())


def main(argv):
    pid, tier, seed, label, jobs, outfile = argv[:6]
    from vk.pool import _die_with_parent
    _die_with_parent()
    seed = int(seed)
    jobs = int(jobs)
    replay = None
    if '--replay' in argv:
        replay = argv[argv.index('--replay') + 1]
    os.environ['VERIF_TIER'] = tier
    t0 = time.time()
    mod = load_check(pid)
    out = {'label': label, 'results': [], 'errors': [], 'meta': {}}
    import tenpy
    from tenpy.tools import optimization
    out['meta'] = {
        'tenpy_file': tenpy.__file__,
        'have_cython': bool(optimization.have_cython_functions),
        'helper_file': (os.path.realpath(sys.modules['tenpy.linalg._npc_helper'].__file__) if 'tenpy.linalg._npc_helper' in sys.modules else None),
        'optimize': int(optimization._level),
    }
    if replay is not None:
        with open(replay) as fh:
            rp = json.load(fh)
        res = mod.replay(rp['case'])
        out['results'].append((0, 'ok', res))
        with open(outfile, 'wb') as fh:
            pickle.dump(out, fh)
        return 0
    units = mod.units(tier, seed, label)
    out['meta']['n_units'] = len(units)
    if hasattr(mod, 'selfcheck'):
        # "prove you own the nondeterminism": replay one unit twice, identical observations
        sc = mod.selfcheck(tier, seed, label)
        if sc:
            out['errors'].append('selfcheck: ' + str(sc))
    from vk.pool import run_units
    timeout = float(getattr(mod, 'UNIT_TIMEOUT', 900.0))
    if tier == 'thorough':
        timeout *= 3.0  # thorough units are several times larger; the limit only has to catch hangs
    last = [time.time()]

    def progress(done, total):
        if time.time() - last[0] > 30:
            last[0] = time.time()
            print('  [%s/%s] %d/%d units  %.0fs' % (pid, label, done, total, time.time() - t0), file=sys.stderr, flush=True)

    for idx, st, payload in run_units(mod.run_unit, units, jobs, timeout=timeout, progress=progress):
        if st != 'ok':
            payload = {'unit': repr(units[idx])[:500], 'error': payload}
        out['results'].append((idx, st, payload))
    out['results'].sort(key=lambda r: r[0])
    out['meta']['wall_s'] = time.time() - t0
    with open(outfile, 'wb') as fh:
        pickle.dump(out, fh)
    return 0


if __name__ == '__main__':
    sys.exit(main(sys.argv[1:]))
