"""Known findings: committed file, never written at run time."""
import fnmatch
import json
import os

PATH = os.path.join(os.path.dirname(os.path.dirname(os.path.abspath(__file__))), 'known_findings.json')


def load():
    if not os.path.exists(PATH):
        return {'findings': [], 'fixed': []}
    with open(PATH) as fh:
        return json.load(fh)


def match(pid, key):
    """Return the open finding entry that lists this violation key, or None."""
    for f in load().get('findings', []):
        if f.get('property') != pid:
            continue
        if f.get('key') == key:
            return f
        pat = f.get('match')
        if pat and fnmatch.fnmatchcase(key, pat):
            return f
    return None
