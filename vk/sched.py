"""Cooperative scheduler + stateless, deviation-bounded exploration of thread schedules of *real* code.

Logical threads are real Python threads, but only the holder of the baton runs.  Every operation of the
controlled primitives (CQueue, CEvent, CThread, PDict) is a scheduling point: the running thread registers the
operation it is about to perform (with an `enabled` predicate and whether a timeout may fire) and the scheduler
picks which pending operation happens next.  A run is fully determined by its list of choices, so an explorer
can enumerate all runs whose number of *deviations* (preemptions of a runnable thread, timeouts fired although
something else could run, injected faults) is within a bound.
"""
import collections
import queue as _queue
import sys
import threading as _threading


class Abort(BaseException):
    """Raised inside logical threads to unwind an aborted execution (deadlock / horizon / divergence)."""


class _T:
    def __init__(self, tid, name):
        self.tid = tid
        self.name = name
        self.sem = _threading.Semaphore(0)
        self.pending = None  # (kind, enabled_fn, can_timeout)
        self.grant = None
        self.finished = False
        self.real = None
        self.exc = None


class Scheduler:
    def __init__(self, prefix=(), horizon=4000, trace_filter=None):
        self.prefix = list(prefix)
        self.horizon = horizon
        self.tracer = self._make_tracer(trace_filter) if trace_filter is not None else None
        self.trace = []  # per choice point: dict(n=#options, chosen=idx, costs=[...], descr=[...])
        self.threads = []
        self.by_ident = {}
        self.aborted = None
        self.npoints = 0
        self.log = []  # (tid, kind, grant) sequence = the schedule as executed
        main = _T(0, 'main')
        main.real = _threading.current_thread()
        self.threads.append(main)
        self.by_ident[_threading.get_ident()] = main
        self.current = main

    def _make_tracer(self, trace_filter):
        """Line-granular scheduling points: in every frame whose code object passes `trace_filter`, each source line
        is a scheduling point of the executing logical thread (sys.settrace 'line' events)."""
        S = self

        def local(frame, event, arg):
            if event == 'line':
                S.point('line:%s:%d' % (frame.f_code.co_name, frame.f_lineno))
            return local

        def glob(frame, event, arg):
            return local if trace_filter(frame.f_code) else None

        return glob

    # ------------------------------------------------------------------ choice bookkeeping
    def _choose(self, descr, costs):
        i = len(self.trace)
        if i < len(self.prefix):
            c = self.prefix[i]
            if c >= len(descr):
                self._abort('divergence: replayed choice %d out of range at point %d (%r)' % (c, i, descr))
        else:
            c = 0
        self.trace.append(dict(n=len(descr), chosen=c, costs=list(costs), descr=list(descr)))
        return c

    def choose(self, n, kind='fault'):
        """Environment choice inside a thread (fault injection): option 0 is the default, others cost 1."""
        if self.aborted:
            raise Abort()
        me = self._me()
        c = self._choose(['%s:%s:%d' % (me.name, kind, k) for k in range(n)], [0] + [1] * (n - 1))
        if c:
            self.log.append((me.tid, kind, c))
        return c

    def _me(self):
        return self.by_ident[_threading.get_ident()]

    def _abort(self, why):
        if self.aborted is None:
            self.aborted = why
        for t in self.threads:
            if not t.finished:
                t.sem.release()
        raise Abort()

    # ------------------------------------------------------------------ scheduling points
    def point(self, kind, enabled=None, can_timeout=False):
        if self.aborted:
            raise Abort()
        me = self._me()
        me.pending = (kind, enabled, can_timeout)
        self._dispatch(me)
        me.pending = None
        self.log.append((me.tid, kind, me.grant))
        return me.grant

    def _options(self, me):
        go, to = [], []
        order = [me] + [t for t in self.threads if t is not me]
        for t in order:
            if t.finished or t.pending is None:
                continue
            kind, en, can_to = t.pending
            if en is None or en():
                go.append((t, 'go'))
            elif can_to:
                to.append((t, 'timeout'))
        opts = go + to
        costs = []
        me_runnable = bool(go) and go[0][0] is me
        for (t, what) in opts:
            if what == 'go':
                costs.append(1 if (me_runnable and t is not me) else 0)
            else:
                costs.append(1 if go else 0)
        return opts, costs

    def _dispatch(self, me):
        self.npoints += 1
        if self.npoints > self.horizon:
            self._abort('horizon: more than %d scheduling points (livelock or non-terminating polling)' % self.horizon)
        opts, costs = self._options(me)
        if not opts:
            self._abort('deadlock: no thread can make progress; blocked at ' +
                        ', '.join('%s:%s' % (t.name, t.pending[0]) for t in self.threads if not t.finished and t.pending))
        if len(opts) == 1:
            c = 0
        else:
            c = self._choose(['%s:%s:%s' % (t.name, t.pending[0], w) for t, w in opts], costs)
        t, what = opts[c]
        t.grant = what
        if t is me:
            return
        self.current = t
        t.sem.release()
        if me.finished:
            return
        me.sem.acquire()
        if self.aborted:
            raise Abort()

    # ------------------------------------------------------------------ thread life cycle
    def spawn(self, target, name):
        t = _T(len(self.threads), name)
        self.threads.append(t)
        t.pending = ('begin', None, False)

        def body():
            self.by_ident[_threading.get_ident()] = t
            t.sem.acquire()
            try:
                if self.aborted:
                    raise Abort()
                t.pending = None
                self.log.append((t.tid, 'begin', 'go'))
                if self.tracer is not None:
                    sys.settrace(self.tracer)
                target()
            except Abort:
                pass
            except BaseException as e:  # noqa: BLE001  (thread dies; like threading's excepthook)
                t.exc = e
            finally:
                sys.settrace(None)
                if not self.aborted:
                    # a thread stays 'alive' for a while after its last synchronisation operation
                    try:
                        self.point('thread.exit')
                    except Abort:
                        pass
                t.finished = True
                t.pending = None
                if not self.aborted:
                    try:
                        self._dispatch(t)
                    except Abort:
                        pass

        t.real = _threading.Thread(target=body, name='verif-' + name, daemon=True)
        t.real.start()
        return t

    def drain(self):
        """Called by the main logical thread at the end: let all other threads run to completion."""
        me = self._me()
        others = [t for t in self.threads if t is not me]
        if all(t.finished for t in others):
            return
        self.point('wait_all_threads', enabled=lambda: all(t.finished for t in others))

    def shutdown(self):
        """Make sure no real thread of this execution survives (after abort or completion)."""
        if self.aborted is None and any(not t.finished for t in self.threads[1:]):
            self.aborted = 'shutdown'
        for t in self.threads[1:]:
            if not t.finished:
                t.sem.release()
        for t in self.threads[1:]:
            t.real.join(5.0)
        return [t.name for t in self.threads[1:] if t.real.is_alive()]


# ---------------------------------------------------------------------- controlled primitives
_S = [None]


def current():
    return _S[0]


class CEvent:
    def __init__(self):
        self._flag = False

    def set(self):
        current().point('event.set')
        self._flag = True

    def is_set(self):
        current().point('event.is_set')
        return self._flag

    def clear(self):
        current().point('event.clear')
        self._flag = False

    def wait(self, timeout=None):
        r = current().point('event.wait', enabled=lambda: self._flag, can_timeout=timeout is not None)
        return r == 'go'


class CThread:
    def __init__(self, target=None, name=None, daemon=None, args=(), kwargs=None):
        self._target = target
        self._args = args
        self._kwargs = kwargs or {}
        self.name = name or 'thread'
        self.daemon = daemon
        self._t = None

    def start(self):
        S = current()
        S.point('thread.start')
        self._t = S.spawn(lambda: self._target(*self._args, **self._kwargs), self.name)

    def join(self, timeout=None):
        t = self._t
        current().point('thread.join', enabled=lambda: t.finished, can_timeout=timeout is not None)

    def is_alive(self):
        current().point('thread.is_alive')
        return self._t is not None and not self._t.finished


class CQueue:
    def __init__(self, maxsize=0):
        self.maxsize = maxsize
        self.items = collections.deque()
        self.unfinished = 0

    def _full(self):
        return self.maxsize > 0 and len(self.items) >= self.maxsize

    def put(self, item, block=True, timeout=None):
        if not block:
            current().point('queue.put_nowait')
            if self._full():
                raise _queue.Full
        else:
            r = current().point('queue.put', enabled=lambda: not self._full(), can_timeout=timeout is not None)
            if r == 'timeout':
                raise _queue.Full
        self.items.append(item)
        self.unfinished += 1

    def get(self, block=True, timeout=None):
        if not block:
            current().point('queue.get_nowait')
            if not self.items:
                raise _queue.Empty
        else:
            r = current().point('queue.get', enabled=lambda: bool(self.items), can_timeout=timeout is not None)
            if r == 'timeout':
                raise _queue.Empty
        return self.items.popleft()

    def put_nowait(self, item):
        return self.put(item, block=False)

    def get_nowait(self):
        return self.get(block=False)

    def task_done(self):
        current().point('queue.task_done')
        if self.unfinished <= 0:
            raise ValueError('task_done() called too many times')
        self.unfinished -= 1

    def join(self):
        current().point('queue.join', enabled=lambda: self.unfinished == 0)

    def empty(self):
        current().point('queue.empty')
        return not self.items

    def full(self):
        current().point('queue.full')
        return self._full()

    def qsize(self):
        current().point('queue.qsize')
        return len(self.items)


class PDict(dict):
    """dict whose accesses are scheduling points (for dictionaries shared between threads)."""

    def __contains__(self, k):
        current().point('dict.contains')
        return dict.__contains__(self, k)

    def __getitem__(self, k):
        current().point('dict.get')
        return dict.__getitem__(self, k)

    def __setitem__(self, k, v):
        current().point('dict.set')
        dict.__setitem__(self, k, v)

    def __delitem__(self, k):
        current().point('dict.del')
        dict.__delitem__(self, k)

    def clear(self):
        current().point('dict.clear')
        dict.clear(self)


class _NS:
    pass


def namespaces():
    """Replacement objects for the names `queue` and `threading` inside tenpy.tools.thread."""
    q = _NS()
    q.Queue = CQueue
    q.Empty = _queue.Empty
    q.Full = _queue.Full
    th = _NS()
    th.Event = CEvent
    th.Thread = CThread
    th.current_thread = _threading.current_thread
    th.get_ident = _threading.get_ident
    return q, th


# ---------------------------------------------------------------------- one execution / exploration
class Execution:
    def __init__(self, trace, log, aborted, result, leaked, npoints):
        self.trace = trace
        self.log = log
        self.aborted = aborted
        self.result = result
        self.leaked = leaked
        self.npoints = npoints

    @property
    def choices(self):
        return [p['chosen'] for p in self.trace]


def run_once(body, prefix=(), horizon=4000, trace_filter=None):
    """Run `body()` (the main logical thread) under a fresh scheduler replaying `prefix`, then defaults."""
    S = Scheduler(prefix, horizon, trace_filter)
    _S[0] = S
    result = None
    try:
        try:
            if S.tracer is not None:
                sys.settrace(S.tracer)
            try:
                result = body(S)
            finally:
                sys.settrace(None)
            S.drain()
        except Abort:
            pass
    finally:
        leaked = S.shutdown()
        _S[0] = None
    return Execution(S.trace, S.log, S.aborted if S.aborted != 'shutdown' else None, result, leaked, S.npoints)


def explore(body, bound, check, max_exec=None, horizon=4000, trace_filter=None):
    """Enumerate all executions of `body` with at most `bound` deviations; call check(execution) on each.

    Returns dict(executions=..., capped=bool, max_points=...)."""
    stats = dict(executions=0, capped=False, max_points=0, choice_points=0)
    stack = [((), 0)]
    while stack:
        prefix, _cost0 = stack.pop()
        if max_exec is not None and stats['executions'] >= max_exec:
            stats['capped'] = True
            break
        x = run_once(body, prefix, horizon, trace_filter)
        stats['executions'] += 1
        stats['max_points'] = max(stats['max_points'], x.npoints)
        stats['choice_points'] += len(x.trace)
        check(x)
        # cost of the prefix part
        cost = 0
        chosen = x.choices
        for i, p in enumerate(x.trace):
            if i >= len(prefix):
                for alt in range(p['n']):
                    if alt == p['chosen']:
                        continue
                    c = cost + p['costs'][alt]
                    if c <= bound:
                        stack.append((tuple(chosen[:i]) + (alt,), c))
            cost += p['costs'][p['chosen']]
    return stats
