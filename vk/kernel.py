"""Kernel universe for C01-C06: charge infos, leg library, tensors with controlled block patterns, dense shadows,
independent invariant checker and fingerprints of tensors / legs."""
import itertools

import numpy as np

# --------------------------------------------------------------------------------------------- charge infos

CHINFOS_QUICK = ['none', 'U1', 'Z2', 'Z3', 'U1xZ2', 'Z2xZ3']
CHINFOS_THOROUGH = CHINFOS_QUICK + ['Z4', 'Z5', 'U1xU1', 'U1xZ2xZ3']
_MODS = {'none': [], 'U1': [1], 'Z2': [2], 'Z3': [3], 'U1xZ2': [1, 2], 'Z2xZ3': [2, 3], 'Z4': [4], 'Z5': [5], 'U1xU1': [1, 1],
         'U1xZ2xZ3': [1, 2, 3]}
_chinfo_cache = {}


def chinfo(name):
    import tenpy.linalg.np_conserved as npc
    if name not in _chinfo_cache:
        mods = _MODS[name]
        _chinfo_cache[name] = npc.ChargeInfo(mods, ['q%d' % i for i in range(len(mods))])
    return _chinfo_cache[name]


def mods(name):
    return list(_MODS[name])


def _embed(name, q):
    """Map an integer 'seed charge' q in {-1,0,1,2} to a charge vector of the given ChargeInfo (deterministic,
    distinct seed charges stay distinct where the group allows it)."""
    m = _MODS[name]
    out = []
    for j, mod in enumerate(m):
        v = q if j == 0 else (q * (j + 1) + (1 if q > 0 else 0))
        out.append(v % mod if mod > 1 else v)
    return tuple(out)


# leg patterns: (name, seed charges per block, block sizes, features)
LEG_PATTERNS = [
    ('sorted', (-1, 1), (1, 2), {'blocked'}),
    ('sorted3', (-1, 0, 1), (1, 1, 1), {'blocked', 'size1'}),
    ('unsorted', (1, 0, -1), (1, 2, 1), {'unsorted'}),
    ('dupadj', (0, 0, 1), (1, 1, 1), {'dup', 'notbunched'}),
    ('dupsep', (1, 0, 1), (1, 1, 2), {'dup', 'unsorted'}),
    ('single', (0,), (2,), {'blocked', 'oneblock'}),
    ('one', (1,), (1,), {'blocked', 'oneblock', 'size1'}),
    ('zero2', (0, 0), (2, 1), {'dup', 'notbunched', 'samecharge'}),
]
LEG_PATTERNS_SMALL = ['sorted', 'unsorted', 'dupadj', 'dupsep', 'one']


class LegSpec:
    """Model of a leg: block slices, block charges, qconj.  `phys[i]` = qconj * charge of flat index i (mod)."""

    def __init__(self, ch, charges, sizes, qconj, name=''):
        self.ch = ch
        self.charges = [tuple(c) for c in charges]
        self.sizes = list(sizes)
        self.qconj = qconj
        self.name = name

    @property
    def ind_len(self):
        return sum(self.sizes)

    def slices(self):
        return [0] + list(np.cumsum(self.sizes))

    def phys(self):
        m = _MODS[self.ch]
        rows = []
        for c, s in zip(self.charges, self.sizes):
            p = tuple((self.qconj * x) % mod if mod > 1 else self.qconj * x for x, mod in zip(c, m))
            rows += [p] * s
        return rows

    def make(self):
        import tenpy.linalg.np_conserved as npc
        ci = chinfo(self.ch)
        ch = np.array(self.charges, dtype=np.int64).reshape(len(self.sizes), ci.qnumber)
        return npc.LegCharge.from_qind(ci, self.slices(), ch, self.qconj)

    def key(self):
        return (self.ch, tuple(self.charges), tuple(self.sizes), self.qconj)

    def conj(self):
        return LegSpec(self.ch, self.charges, self.sizes, -self.qconj, self.name + '^c')

    def twin(self):
        """Same physical charges, opposite stored sign (flip_charges_qconj)."""
        m = _MODS[self.ch]
        ch = [tuple((-x) % mod if mod > 1 else -x for x, mod in zip(c, m)) for c in self.charges]
        return LegSpec(self.ch, ch, self.sizes, -self.qconj, self.name + '^t')

    def __repr__(self):
        return 'Leg(%s %s%s sizes=%s q=%+d)' % (self.ch, self.name, self.charges, self.sizes, self.qconj)


def leg_library(ch, small=False):
    out = []
    for name, seeds, sizes, feat in LEG_PATTERNS:
        if small and name not in LEG_PATTERNS_SMALL:
            continue
        for qconj in (1, -1):
            out.append(LegSpec(ch, [_embed(ch, q) for q in seeds], sizes, qconj, name))
    # de-duplicate (for the trivial charge info many patterns coincide)
    seen, res = set(), []
    for l in out:
        if l.key() not in seen:
            seen.add(l.key())
            res.append(l)
    return res


# --------------------------------------------------------------------------------------------- tensors


def fill_value(idx, dtype, variant=0):
    """Injective, non-zero, small-integer valued pattern (exact in every dtype)."""
    v = 1 + variant * 3
    for k, i in enumerate(idx):
        v += i * (7 ** k)
    v = v % 997 + 1
    if np.issubdtype(dtype, np.complexfloating):
        w = 1
        for k, i in enumerate(reversed(idx)):
            w += i * (5 ** k)
        return complex(v, (w % 13) - 6)
    return v


def allowed_blocks(legspecs, qtotal):
    """All tuples of block indices whose charges add up to qtotal (the charge rule)."""
    if not legspecs:
        return [()]
    ch = legspecs[0].ch
    m = _MODS[ch]
    res = []
    for qi in itertools.product(*[range(len(l.sizes)) for l in legspecs]):
        tot = [0] * len(m)
        for l, b in zip(legspecs, qi):
            for j in range(len(m)):
                tot[j] += l.qconj * l.charges[b][j]
        tot = tuple(t % mod if mod > 1 else t for t, mod in zip(tot, m))
        if tot == tuple(qtotal):
            res.append(qi)
    return res


def reachable_qtotals(legspecs):
    ch = legspecs[0].ch
    m = _MODS[ch]
    res = set()
    for qi in itertools.product(*[range(len(l.sizes)) for l in legspecs]):
        tot = [0] * len(m)
        for l, b in zip(legspecs, qi):
            for j in range(len(m)):
                tot[j] += l.qconj * l.charges[b][j]
        res.add(tuple(t % mod if mod > 1 else t for t, mod in zip(tot, m)))
    return sorted(res)


def block_patterns(blocks, full_subsets_upto=3):
    """Block presence patterns: all subsets when few blocks, else a fixed family."""
    n = len(blocks)
    pats = []
    if n <= full_subsets_upto:
        for r in range(n + 1):
            for sub in itertools.combinations(range(n), r):
                pats.append(('subset', sub))
    else:
        pats.append(('all', tuple(range(n))))
        pats.append(('none', ()))
        pats.append(('first', (0,)))
        pats.append(('last', (n - 1,)))
        pats.append(('allbutfirst', tuple(range(1, n))))
        pats.append(('checker', tuple(range(0, n, 2))))
    return pats


_dense_cache = {}


def dense_from_spec(legspecs, blocks_present, dtype, variant=0):
    key = (tuple(l.key() for l in legspecs), tuple(map(tuple, blocks_present)), str(np.dtype(dtype)), variant)
    if key not in _dense_cache:
        if len(_dense_cache) > 20000:
            _dense_cache.clear()
        _dense_cache[key] = _dense_from_spec(legspecs, blocks_present, dtype, variant)
    return _dense_cache[key].copy()


def _dense_from_spec(legspecs, blocks_present, dtype, variant=0):
    shape = tuple(l.ind_len for l in legspecs)
    d = np.zeros(shape, dtype=dtype)
    sl = [l.slices() for l in legspecs]
    for qi in blocks_present:
        ranges = [range(sl[k][b], sl[k][b + 1]) for k, b in enumerate(qi)]
        for idx in itertools.product(*ranges):
            d[idx] = fill_value(idx, dtype, variant)
    return d


def make_array(legspecs, qtotal, present, dtype=np.float64, labels=None, zero_blocks=(), variant=0, unsorted_qdata=False):
    """Build a real npc.Array with exactly the blocks `present` stored (values from the injective pattern) and the
    blocks `zero_blocks` stored but exactly zero.  Returns (array, dense)."""
    import tenpy.linalg.np_conserved as npc
    legs = [l.make() for l in legspecs]
    dense = dense_from_spec(legspecs, present, dtype, variant)
    a = npc.Array(legs, dtype, qtotal, labels)
    data, qdata = [], []
    sl = [l.slices() for l in legspecs]
    stored = list(present) + [z for z in zero_blocks if z not in present]
    # default: blocks stored in the library's canonical order (lexsort, last leg most significant) with a truthful
    # `_qdata_sorted = True`, so that code which *trusts* the flag is exercised; `unsorted_qdata`: reversed, flag False
    stored.sort(key=lambda qi: tuple(reversed(qi)))
    if unsorted_qdata:
        stored = stored[::-1]
    for qi in stored:
        s = tuple(slice(sl[k][b], sl[k][b + 1]) for k, b in enumerate(qi))
        data.append(np.array(dense[s], dtype=dtype, order='C'))
        qdata.append(qi)
    a._data = data
    a._qdata = np.array(qdata, dtype=np.intp).reshape(len(qdata), len(legspecs))
    a._qdata_sorted = (not unsorted_qdata) or len(qdata) <= 1
    return a, dense


# --------------------------------------------------------------------------------------------- invariants (C02)


def leg_invariants(leg, where=''):
    """Independent check of a LegCharge / LegPipe; returns list of messages."""
    import tenpy.linalg.np_conserved as npc
    out = []
    sl = np.asarray(leg.slices)
    ch = np.asarray(leg.charges)
    qn = leg.chinfo.qnumber
    if sl.ndim != 1 or sl[0] != 0 or np.any(np.diff(sl) < 0):
        out.append(where + 'slices not monotone from 0: %s' % (sl,))
        return out
    if leg.ind_len != sl[-1] or leg.block_number != len(sl) - 1:
        out.append(where + 'ind_len/block_number inconsistent with slices')
    if ch.shape != (len(sl) - 1, qn):
        out.append(where + 'charges shape %s does not match %d blocks x %d charges' % (ch.shape, len(sl) - 1, qn))
        return out
    mod = np.asarray(leg.chinfo.mod)
    for j in range(qn):
        if mod[j] > 1 and (np.any(ch[:, j] < 0) or np.any(ch[:, j] >= mod[j])):
            out.append(where + 'charge outside [0,mod): %s' % (ch[:, j],))
    if leg.qconj not in (1, -1):
        out.append(where + 'qconj=%r' % (leg.qconj,))
    if len(ch) and qn:
        is_sorted = all(tuple(ch[i][::-1]) <= tuple(ch[i + 1][::-1]) for i in range(len(ch) - 1))
        # tenpy sorts with lexsort(charges.T): last charge is the primary key
        if leg.sorted and not is_sorted:
            out.append(where + 'claims sorted=True but charges are %s' % (ch.tolist(),))
        is_bunched = all(tuple(ch[i]) != tuple(ch[i + 1]) for i in range(len(ch) - 1))
        if leg.bunched and not is_bunched:
            out.append(where + 'claims bunched=True but adjacent blocks share a charge: %s' % (ch.tolist(),))
    if isinstance(leg, npc.LegPipe):
        sub = leg.legs
        if leg.subshape != tuple(l.ind_len for l in sub):
            out.append(where + 'pipe subshape %s != incoming lengths' % (leg.subshape,))
        if leg.subqshape != tuple(l.block_number for l in sub):
            out.append(where + 'pipe subqshape mismatch')
        qm = np.asarray(leg.q_map)
        n_in = len(sub)
        if qm.ndim != 2 or qm.shape[1] != 3 + n_in:
            out.append(where + 'q_map has shape %s' % (qm.shape,))
        else:
            # rows partition the pipe: for each outgoing block the [b_j, b_{j+1}) ranges tile 0..block size
            tot = 0
            for row in qm:
                b0, b1, I = row[0], row[1], row[2]
                size = 1
                for k in range(n_in):
                    size *= sub[k].slices[row[3 + k] + 1] - sub[k].slices[row[3 + k]]
                if b1 - b0 != size:
                    out.append(where + 'q_map row %s: slice length %d != product of incoming block sizes %d' % (row, b1 - b0, size))
                tot += size
                # charge rule
                q = np.zeros(qn, dtype=np.int64)
                for k in range(n_in):
                    q += sub[k].qconj * np.asarray(sub[k].charges)[row[3 + k]]
                q = leg.chinfo.make_valid(leg.qconj * q) if qn else q
                if qn and not np.array_equal(q, ch[I]):
                    out.append(where + 'q_map row %s: fused charge %s != pipe block charge %s' % (row, q, ch[I]))
            if tot != leg.ind_len:
                out.append(where + 'q_map rows cover %d indices, pipe has %d' % (tot, leg.ind_len))
            if len(set(map(tuple, qm[:, 3:]))) != len(qm):
                out.append(where + 'q_map lists a combination of incoming blocks twice')
            if len(qm) != int(np.prod(leg.subqshape)):
                out.append(where + 'q_map has %d rows, expected %d' % (len(qm), int(np.prod(leg.subqshape))))
        for k, l in enumerate(sub):
            out += leg_invariants(l, where + 'pipe.legs[%d]: ' % k)
    return out


def array_invariants(a, run_test_sanity=True):
    """Independent invariant checker for an npc.Array (C02). Returns list of messages (empty = consistent)."""
    out = []
    rank = len(a.legs)
    if a.rank != rank or tuple(a.shape) != tuple(l.ind_len for l in a.legs):
        out.append('rank/shape inconsistent with legs: rank=%r shape=%r' % (a.rank, a.shape))
    if len(a._labels) != rank:
        out.append('labels list has wrong length: %r' % (a._labels,))
    else:
        lab = [l for l in a._labels if l is not None]
        if len(lab) != len(set(lab)):
            out.append('duplicate labels %r' % (a._labels,))
    for k, l in enumerate(a.legs):
        if l.chinfo != a.chinfo:
            out.append('leg %d has a different ChargeInfo' % k)
        out += leg_invariants(l, 'leg %d: ' % k)
    qd = np.asarray(a._qdata)
    if qd.ndim != 2 or qd.shape != (len(a._data), rank):
        out.append('_qdata shape %s for %d blocks, rank %d' % (qd.shape, len(a._data), rank))
        return out
    if not np.issubdtype(qd.dtype, np.integer):
        out.append('_qdata dtype %s' % qd.dtype)
    if len(qd) and not qd.flags['C_CONTIGUOUS']:
        out.append('_qdata not C-contiguous')
    rows = [tuple(r) for r in qd.tolist()]
    if len(set(rows)) != len(rows):
        out.append('duplicate block entries in _qdata: %s' % (rows,))
    qtotal = np.asarray(a.qtotal)
    qn = a.chinfo.qnumber
    if qtotal.shape != (qn,):
        out.append('qtotal shape %s' % (qtotal.shape,))
    elif qn and not np.array_equal(a.chinfo.make_valid(qtotal.copy()), qtotal):
        out.append('qtotal %s not valid for mod %s' % (qtotal, a.chinfo.mod))
    for row, block in zip(rows, a._data):
        if any(r < 0 or r >= a.legs[k].block_number for k, r in enumerate(row)):
            out.append('_qdata row %s out of range' % (row,))
            continue
        shp = tuple(int(a.legs[k].slices[r + 1] - a.legs[k].slices[r]) for k, r in enumerate(row))
        if tuple(block.shape) != shp:
            out.append('block %s has shape %s, legs say %s' % (row, block.shape, shp))
        if block.dtype != a.dtype:
            out.append('block %s has dtype %s, array dtype %s' % (row, block.dtype, a.dtype))
        if qn:
            q = np.zeros(qn, dtype=np.int64)
            for k, r in enumerate(row):
                q += a.legs[k].qconj * np.asarray(a.legs[k].charges)[r]
            if not np.array_equal(a.chinfo.make_valid(q), a.chinfo.make_valid(qtotal.copy())):
                out.append('block %s violates the charge rule: charges sum to %s, qtotal %s' % (row, q, qtotal))
    if a._qdata_sorted and len(rows) > 1:
        # lexsort(_qdata.T): last column is the primary key
        keys = [r[::-1] for r in rows]
        if any(keys[i] > keys[i + 1] for i in range(len(keys) - 1)):
            out.append('claims _qdata_sorted=True but rows are %s' % (rows,))
    if run_test_sanity and not out:
        try:
            a.test_sanity()
        except Exception as e:  # noqa: BLE001
            out.append('own test_sanity() fails: %s: %s' % (type(e).__name__, e))
    return out


# --------------------------------------------------------------------------------------------- fingerprints (C03)


def leg_fingerprint(leg):
    import tenpy.linalg.np_conserved as npc
    fp = [type(leg).__name__, np.asarray(leg.slices).tobytes(), np.asarray(leg.charges).tobytes(), np.asarray(leg.charges).shape,
          int(leg.qconj), bool(leg.sorted), bool(leg.bunched), int(leg.ind_len)]
    if isinstance(leg, npc.LegPipe):
        fp += [np.asarray(leg.q_map).tobytes(), np.asarray(leg.q_map_slices).tobytes(), np.asarray(leg._perm).tobytes() if leg._perm is not None else None,
               tuple(leg.subshape), tuple(leg_fingerprint(l) for l in leg.legs)]
    return tuple(fp)


def all_legs(a, out=None):
    """All LegCharge objects reachable from an array (including inside pipes)."""
    import tenpy.linalg.np_conserved as npc
    out = {} if out is None else out
    stack = list(a.legs)
    while stack:
        l = stack.pop()
        if id(l) in out:
            continue
        out[id(l)] = l
        if isinstance(l, npc.LegPipe):
            stack.extend(l.legs)
    return out


def observable(a):
    """Observable content of an array: (dense, labels, qtotal, per-leg physical charges, qconj)."""
    return dict(dense=a.to_ndarray().copy(), labels=list(a._labels), qtotal=np.array(a.qtotal).copy(),
                legs=[(np.asarray(l.to_qflat()) * l.qconj, int(l.qconj)) for l in a.legs], dtype=a.dtype, shape=tuple(a.shape))


def observable_equal(o1, o2, exact_values=True):
    """Compare two observables; returns None or a message."""
    if o1['shape'] != o2['shape']:
        return 'shape %s -> %s' % (o1['shape'], o2['shape'])
    if o1['labels'] != o2['labels']:
        return 'labels %s -> %s' % (o1['labels'], o2['labels'])
    if not np.array_equal(o1['qtotal'], o2['qtotal']):
        return 'qtotal %s -> %s' % (o1['qtotal'], o2['qtotal'])
    if o1['dtype'] != o2['dtype']:
        return 'dtype %s -> %s' % (o1['dtype'], o2['dtype'])
    for k, ((p1, q1), (p2, q2)) in enumerate(zip(o1['legs'], o2['legs'])):
        if q1 != q2 or not np.array_equal(p1, p2):
            return 'leg %d charges/qconj changed' % k
    if not np.array_equal(o1['dense'], o2['dense']):
        return 'values changed (max diff %g)' % np.abs(o1['dense'] - o2['dense']).max()
    return None


def structure_key(a):
    """Canonical structural state of an array (control flow of the kernels depends on exactly this)."""
    import tenpy.linalg.np_conserved as npc
    legs = []
    for l in a.legs:
        legs.append((type(l).__name__, tuple(np.asarray(l.slices).tolist()), tuple(map(tuple, np.asarray(l.charges).tolist())), int(l.qconj),
                     bool(l.sorted), bool(l.bunched),
                     tuple(x.ind_len for x in l.legs) if isinstance(l, npc.LegPipe) else None))
    rows = [tuple(r) for r in np.asarray(a._qdata).tolist()]
    zero = tuple(bool(np.all(b == 0)) for b in a._data)
    return (tuple(legs), tuple(np.asarray(a.qtotal).tolist()), tuple(rows), zero, str(a.dtype), tuple(a._labels), bool(a._qdata_sorted))
