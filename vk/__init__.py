"""Verification kit for tenpy: explicit-state / bounded-exhaustive exploration of the real code."""
