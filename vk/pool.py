"""Small fork-based worker pool with per-unit timeouts (a hanging unit is reported, not waited for)."""
import multiprocessing as mp
import os
import signal
import time
import traceback


def _die_with_parent():
    try:
        import ctypes
        ctypes.CDLL(None).prctl(1, signal.SIGKILL)  # PR_SET_PDEATHSIG
    except Exception:  # noqa: BLE001
        pass


def _worker(conn, func):
    _die_with_parent()
    while True:
        try:
            msg = conn.recv()
        except EOFError:
            return
        if msg is None:
            return
        idx, unit = msg
        try:
            t0 = time.time()
            res = func(unit)
            if isinstance(res, dict):
                res['_wall'] = time.time() - t0
            conn.send((idx, 'ok', res))
        except BaseException as e:  # noqa: BLE001
            conn.send((idx, 'exc', '%s: %s\n%s' % (type(e).__name__, e, traceback.format_exc()[-4000:])))


class _Slot:
    def __init__(self, ctx, func):
        self.parent, child = ctx.Pipe()
        self.proc = ctx.Process(target=_worker, args=(child, func), daemon=True)
        self.proc.start()
        child.close()
        self.job = None
        self.deadline = None

    def kill(self):
        try:
            os.kill(self.proc.pid, signal.SIGKILL)
        except OSError:
            pass
        self.proc.join(5)
        self.parent.close()


def _expired(s, timeout):
    """The time limit of a unit is meant to catch hangs, not a busy machine: while the machine is overloaded
    (load average above the number of cores) the clock of the unit runs proportionally slower; hard cap 8x."""
    now = time.monotonic()
    try:
        load = os.getloadavg()[0]
    except OSError:
        load = 0.0
    ncpu = os.cpu_count() or 1
    s.used += (now - s.tick) * min(1.0, ncpu / max(load, 1.0e-9))
    s.tick = now
    return s.used > timeout or now - s.started > 8 * timeout


def run_units(func, units, jobs, timeout=900.0, progress=None):
    """Yield (index, status, payload); status in {'ok','exc','timeout','died'}."""
    ctx = mp.get_context('fork')
    jobs = max(1, min(jobs, len(units))) if units else 0
    slots = [_Slot(ctx, func) for _ in range(jobs)]
    nxt = 0
    done = 0
    total = len(units)
    try:
        while done < total:
            for i, s in enumerate(slots):
                if s.job is None and nxt < total:
                    s.job = nxt
                    s.used, s.tick, s.started = 0.0, time.monotonic(), time.monotonic()
                    s.parent.send((nxt, units[nxt]))
                    nxt += 1
            ready = mp.connection.wait([s.parent for s in slots if s.job is not None], timeout=1.0)
            for i, s in enumerate(slots):
                if s.job is None:
                    continue
                if s.parent in ready:
                    try:
                        idx, st, payload = s.parent.recv()
                    except (EOFError, OSError):
                        idx, st, payload = s.job, 'died', 'worker process died (exit code %r)' % s.proc.exitcode
                        s.kill()
                        slots[i] = _Slot(ctx, func)
                        s = slots[i]
                    s.job = None
                    done += 1
                    yield idx, st, payload
                elif _expired(s, timeout):
                    idx = s.job
                    s.kill()
                    slots[i] = _Slot(ctx, func)
                    done += 1
                    yield idx, 'timeout', 'unit exceeded %.0f s' % timeout
                elif not s.proc.is_alive():
                    idx = s.job
                    code = s.proc.exitcode
                    s.kill()
                    slots[i] = _Slot(ctx, func)
                    done += 1
                    yield idx, 'died', 'worker process died (exit code %r)' % code
            if progress:
                progress(done, total)
    finally:
        for s in slots:
            try:
                s.parent.send(None)
            except Exception:  # noqa: BLE001
                pass
        for s in slots:
            s.proc.join(2)
            if s.proc.is_alive():
                s.kill()
