"""Operation alphabet of the tensor kernel with dense numpy reference models (shared by C01, C02, C03, C04).

A *heap* is a list of entries (real npc.Array + dense Shadow).  An operation instance is a json-able tuple
``(opname, params...)``; `enabled_ops(shadows)` lists the instances whose documented precondition holds in the
current state (computed from the shadows only), `apply(heap, op)` runs the real operation and the numpy model.
"""
import itertools

import numpy as np

from . import kernel as K


# ------------------------------------------------------------------------------------------------ shadows

class ShLeg:
    def __init__(self, phys, qconj, sub=None, struct=None):
        phys = np.asarray(phys, dtype=np.int64)
        self.phys = phys.reshape(len(phys), -1) if len(phys) else np.zeros((0, 0), np.int64)
        self.qconj = int(qconj)
        self.sub = sub  # None or (list of ShLeg, imap: (n, n_in) incoming index tuple of every pipe index)
        self.struct = struct  # (slices tuple, charges tuple) of the real leg: needed for contractibility (same blocks)

    @property
    def n(self):
        return len(self.phys)

    def conj(self, ch):
        sub = None
        if self.sub is not None:
            sub = ([l.conj(ch) for l in self.sub[0]], self.sub[1], self.sub[2])
        return ShLeg(valid(ch, -self.phys), -self.qconj, sub, self.struct)

    def take(self, idx):
        return ShLeg(self.phys[idx], self.qconj, None, None)


class Shadow:
    def __init__(self, dense, legs, labels, qtotal, ch):
        self.dense = dense
        self.legs = legs
        self.labels = list(labels)
        self.qtotal = tuple(int(x) for x in qtotal)
        self.ch = ch
        self.share = None  # id of data-sharing group (shallow copies)

    @property
    def rank(self):
        return self.dense.ndim

    def copy(self):
        s = Shadow(self.dense.copy(), list(self.legs), self.labels, self.qtotal, self.ch)
        return s


def valid(ch, q):
    m = K.mods(ch)
    q = np.asarray(q, dtype=np.int64)
    if q.size == 0:
        return q
    out = q.copy()
    for j, mod in enumerate(m):
        if mod > 1:
            out[..., j] = np.mod(out[..., j], mod)
    return out


def shleg_from_real(leg, ch):
    import tenpy.linalg.np_conserved as npc
    qflat = np.asarray(leg.to_qflat()).reshape(leg.ind_len, leg.chinfo.qnumber)
    phys = valid(ch, qflat * leg.qconj)
    sub = None
    if isinstance(leg, npc.LegPipe):
        subs = [shleg_from_real(l, ch) for l in leg.legs]
        n_in = len(leg.legs)
        imap = np.zeros((leg.ind_len, n_in), dtype=np.int64)
        seen = np.zeros(leg.ind_len, dtype=bool)
        for idx in itertools.product(*[range(l.ind_len) for l in leg.legs]):
            j = int(leg.map_incoming_flat(np.array(idx, dtype=np.intp)))
            imap[j] = idx
            seen[j] = True
        sub = (subs, imap, bool(np.all(seen)))
    struct = (tuple(np.asarray(leg.slices).tolist()), tuple(map(tuple, np.asarray(leg.charges).tolist())))
    return ShLeg(phys, leg.qconj, sub, struct)


def shadow_from_real(a, ch):
    return Shadow(a.to_ndarray().copy(), [shleg_from_real(l, ch) for l in a.legs], a._labels, np.asarray(a.qtotal).tolist(), ch)


class Entry:
    def __init__(self, arr, sh):
        self.arr = arr
        self.sh = sh


# ------------------------------------------------------------------------------------------------ label rules (own implementation)

def conj_label(lbl):
    """'a' -> 'a*', 'a*' -> 'a', '(a.(b*.c))' -> '(a*.(b.c*))' ; written independently of the library."""
    if lbl is None:
        return None
    out = []
    i = 0
    n = len(lbl)
    while i < n:
        c = lbl[i]
        if c in '(.)':
            out.append(c)
            i += 1
        else:
            j = i
            while j < n and lbl[j] not in '(.)':
                j += 1
            name = lbl[i:j]
            out.append(name[:-1] if name.endswith('*') else name + '*')
            i = j
    return ''.join(out)


def combine_label(labels, axes):
    return '(' + '.'.join(l if l is not None else '?%d' % ax for l, ax in zip(labels, axes)) + ')'


def split_label(lbl, count):
    if lbl is None or not (lbl.startswith('(') and lbl.endswith(')')):
        return [None] * count
    parts, depth, beg = [], 0, 1
    for i in range(1, len(lbl) - 1):
        c = lbl[i]
        if c == '(':
            depth += 1
        elif c == ')':
            depth -= 1
        elif c == '.' and depth == 0:
            parts.append(lbl[beg:i])
            beg = i + 1
    parts.append(lbl[beg:len(lbl) - 1])
    return [None if p.startswith('?') else p for p in parts]


def drop_duplicates(la, lb):
    la, lb = list(la), list(lb)
    for i, l in enumerate(la):
        if l is not None and l in lb:
            lb[lb.index(l)] = None
            la[i] = None
    return la + lb


# ------------------------------------------------------------------------------------------------ helpers

def contractible(l1, l2):
    """Documented precondition of contraction: same block structure and charges, opposite qconj."""
    return l1.struct is not None and l1.struct == l2.struct and l1.qconj == -l2.qconj


def same_leg(l1, l2):
    """`test_equal`: same block structure and same physical charges (qconj*charges)."""
    if l1.n != l2.n or l1.struct is None or l2.struct is None or l1.struct[0] != l2.struct[0]:
        return False
    return np.array_equal(l1.phys, l2.phys)


def qadd(ch, *qs):
    tot = np.zeros(len(K.mods(ch)), dtype=np.int64)
    for q in qs:
        tot = tot + np.asarray(q, dtype=np.int64)
    return tuple(int(x) for x in valid(ch, tot))


def qneg(ch, q):
    return tuple(int(x) for x in valid(ch, -np.asarray(q, dtype=np.int64)))


class OpError(Exception):
    """Raised by `apply` when the real operation misbehaves: (category, key, message)."""

    def __init__(self, cat, key, msg):
        super().__init__(msg)
        self.cat = cat
        self.key = key
        self.msg = msg


# (all factors are exactly representable and keep small-integer data exact in float32/complex64 as well,
#  also under division: 1/(1+1j) = 0.5-0.5j)
SCALARS = {'2': 2, 'm1': -1, 'half': 0.5, 'zero': 0, 'cplx': 1 + 1j}


# ------------------------------------------------------------------------------------------------ op table

OPS = {}


def op(name, arity=1, inplace=False, newres=True):
    def deco(cls):
        cls.name = name
        cls.arity = arity
        cls.inplace = inplace
        OPS[name] = cls()
        return cls
    return deco


class Base:
    def instances(self, shs, tier):
        """Yield op tuples enabled in the state given by the list of shadows."""
        return []

    # run(heap, params) -> result: dict(kind='new'|'inplace'|'scalar'|'multi', ...)


def _axes_perms(rank):
    return list(itertools.permutations(range(rank)))


@op('copy')
class _Copy(Base):
    def instances(self, shs, tier):
        for i in range(len(shs)):
            yield ('copy', i, True)
            yield ('copy', i, False)

    def run(self, heap, p):
        _, i, deep = p
        return dict(kind='new', arr=heap[i].arr.copy(deep=deep), share=(None if deep else i))

    def model(self, shs, p):
        return shs[p[1]].copy()


@op('conj')
class _Conj(Base):
    def instances(self, shs, tier):
        for i in range(len(shs)):
            yield ('conj', i, False)
            yield ('conj', i, True)

    def run(self, heap, p):
        _, i, inplace = p
        if inplace:
            r = heap[i].arr.iconj()
            return dict(kind='inplace', target=i, ret=r)
        return dict(kind='new', arr=heap[i].arr.conj())

    def model(self, shs, p):
        s = shs[p[1]]
        return Shadow(np.conj(s.dense), [l.conj(s.ch) for l in s.legs], [conj_label(l) for l in s.labels], qneg(s.ch, s.qtotal), s.ch)


@op('complex_conj')
class _CConj(Base):
    def instances(self, shs, tier):
        for i in range(len(shs)):
            if np.iscomplexobj(shs[i].dense):
                yield ('complex_conj', i)

    def run(self, heap, p):
        return dict(kind='new', arr=heap[p[1]].arr.complex_conj())

    def model(self, shs, p):
        s = shs[p[1]]
        return Shadow(np.conj(s.dense), list(s.legs), s.labels, s.qtotal, s.ch)


@op('transpose')
class _Transpose(Base):
    def instances(self, shs, tier):
        for i, s in enumerate(shs):
            if s.rank < 2:
                continue
            perms = _axes_perms(s.rank) if s.rank <= 3 else [tuple(range(1, s.rank)) + (0,), (1, 0) + tuple(range(2, s.rank)), tuple(reversed(range(s.rank)))]
            for perm in perms:
                if perm == tuple(range(s.rank)):
                    continue
                yield ('transpose', i, list(perm), False, False)
                if perm[0] != 0:
                    yield ('transpose', i, list(perm), True, False)
            if all(l is not None for l in s.labels):
                yield ('transpose', i, list(reversed(range(s.rank))), False, True)
            yield ('transpose', i, None, False, False)

    def run(self, heap, p):
        _, i, perm, inplace, by_label = p
        a = heap[i].arr
        axes = perm
        if by_label and perm is not None:
            axes = [a._labels[k] for k in perm]
        if inplace:
            r = a.itranspose(axes)
            return dict(kind='inplace', target=i, ret=r)
        return dict(kind='new', arr=a.transpose(axes))

    def model(self, shs, p):
        s = shs[p[1]]
        perm = p[2] if p[2] is not None else list(reversed(range(s.rank)))
        return Shadow(np.transpose(s.dense, perm), [s.legs[k] for k in perm], [s.labels[k] for k in perm], s.qtotal, s.ch)


@op('swapaxes')
class _Swap(Base):
    def instances(self, shs, tier):
        for i, s in enumerate(shs):
            if s.rank >= 2:
                yield ('swapaxes', i, 0, s.rank - 1)

    def run(self, heap, p):
        r = heap[p[1]].arr.iswapaxes(p[2], p[3])
        return dict(kind='inplace', target=p[1], ret=r)

    def model(self, shs, p):
        s = shs[p[1]]
        perm = list(range(s.rank))
        perm[p[2]], perm[p[3]] = perm[p[3]], perm[p[2]]
        return Shadow(np.transpose(s.dense, perm), [s.legs[k] for k in perm], [s.labels[k] for k in perm], s.qtotal, s.ch)


@op('tensordot', arity=2)
class _Tensordot(Base):
    def instances(self, shs, tier):
        for i, a in enumerate(shs):
            for j, b in enumerate(shs):
                pairs = [(x, y) for x in range(a.rank) for y in range(b.rank) if contractible(a.legs[x], b.legs[y])]
                for (x, y) in pairs:
                    yield ('tensordot', i, j, [x], [y], 'idx')
                # two-axis contractions (distinct axes)
                for (x1, y1), (x2, y2) in itertools.combinations(pairs, 2):
                    if x1 != x2 and y1 != y2:
                        yield ('tensordot', i, j, [x1, x2], [y1, y2], 'idx')
                        yield ('tensordot', i, j, [x2, x1], [y2, y1], 'idx')
                        break
                # integer axes
                for n in (1, 2):
                    if a.rank >= n and b.rank >= n and all(contractible(a.legs[a.rank - n + k], b.legs[k]) for k in range(n)):
                        yield ('tensordot', i, j, n, None, 'int')
                # label axes
                for (x, y) in pairs[:2]:
                    if a.labels[x] is not None and b.labels[y] is not None:
                        yield ('tensordot', i, j, [x], [y], 'label')
                # axes=0 is an outer product (documented)
                if a.rank + b.rank <= 4 and tier != 'quick':
                    yield ('tensordot', i, j, 0, None, 'int')

    def run(self, heap, p):
        import tenpy.linalg.np_conserved as npc
        _, i, j, ax, bx, mode = p
        a, b = heap[i].arr, heap[j].arr
        if mode == 'int':
            r = npc.tensordot(a, b, axes=ax)
        elif mode == 'label':
            r = npc.tensordot(a, b, axes=([a._labels[x] for x in ax], [b._labels[y] for y in bx]))
        else:
            r = npc.tensordot(a, b, axes=(ax, bx))
        if isinstance(r, npc.Array):
            return dict(kind='new', arr=r)
        return dict(kind='scalar', val=r)

    def model(self, shs, p):
        _, i, j, ax, bx, mode = p
        a, b = shs[i], shs[j]
        if mode == 'int':
            n = ax
            ax = list(range(a.rank - n, a.rank))
            bx = list(range(n))
        d = np.tensordot(a.dense, b.dense, axes=(ax, bx))
        ra = [k for k in range(a.rank) if k not in ax]
        rb = [k for k in range(b.rank) if k not in bx]
        if not ra and not rb:
            return ('scalar', d)
        labels = drop_duplicates([a.labels[k] for k in ra], [b.labels[k] for k in rb])
        return Shadow(d, [a.legs[k] for k in ra] + [b.legs[k] for k in rb], labels, qadd(a.ch, a.qtotal, b.qtotal), a.ch)


@op('outer', arity=2)
class _Outer(Base):
    def instances(self, shs, tier):
        for i, a in enumerate(shs):
            for j, b in enumerate(shs):
                if a.rank + b.rank <= 4:
                    yield ('outer', i, j)

    def run(self, heap, p):
        import tenpy.linalg.np_conserved as npc
        return dict(kind='new', arr=npc.outer(heap[p[1]].arr, heap[p[2]].arr))

    def model(self, shs, p):
        a, b = shs[p[1]], shs[p[2]]
        d = np.multiply.outer(a.dense, b.dense)
        return Shadow(d, a.legs + b.legs, drop_duplicates(a.labels, b.labels), qadd(a.ch, a.qtotal, b.qtotal), a.ch)


@op('inner', arity=2)
class _Inner(Base):
    def instances(self, shs, tier):
        for i, a in enumerate(shs):
            for j, b in enumerate(shs):
                if a.rank != b.rank:
                    continue
                if all(contractible(x, y) for x, y in zip(a.legs, b.legs)):
                    yield ('inner', i, j, 'range', False)
                    if a.rank >= 2:
                        yield ('inner', i, j, 'explicit', False)
                if all(same_leg(x, y) and x.qconj == y.qconj for x, y in zip(a.legs, b.legs)):
                    yield ('inner', i, j, 'range', True)
                    if all(l is not None for l in a.labels) and a.labels == b.labels:
                        yield ('inner', i, j, 'labels', True)

    def run(self, heap, p):
        import tenpy.linalg.np_conserved as npc
        _, i, j, mode, do_conj = p
        a, b = heap[i].arr, heap[j].arr
        if mode == 'explicit':
            r = a.rank
            axes = (list(range(r))[::-1], list(range(r))[::-1])
        else:
            axes = mode
        return dict(kind='scalar', val=npc.inner(a, b, axes=axes, do_conj=do_conj))

    def model(self, shs, p):
        _, i, j, mode, do_conj = p
        a, b = shs[i], shs[j]
        x = np.conj(a.dense) if do_conj else a.dense
        return ('scalar', np.sum(x * b.dense))


@op('trace')
class _Trace(Base):
    def instances(self, shs, tier):
        for i, a in enumerate(shs):
            for x in range(a.rank):
                for y in range(a.rank):
                    if x != y and contractible(a.legs[x], a.legs[y]):
                        yield ('trace', i, x, y)

    def run(self, heap, p):
        import tenpy.linalg.np_conserved as npc
        r = npc.trace(heap[p[1]].arr, p[2], p[3])
        if isinstance(r, npc.Array):
            return dict(kind='new', arr=r)
        return dict(kind='scalar', val=r)

    def model(self, shs, p):
        a = shs[p[1]]
        d = np.trace(a.dense, axis1=p[2], axis2=p[3])
        if a.rank == 2:
            return ('scalar', d)
        keep = [k for k in range(a.rank) if k not in (p[2], p[3])]
        return Shadow(d, [a.legs[k] for k in keep], [a.labels[k] for k in keep], a.qtotal, a.ch)


def _addable(a, b):
    return a.rank == b.rank and a.qtotal == b.qtotal and all(same_leg(x, y) for x, y in zip(a.legs, b.legs))


@op('add', arity=2)
class _Add(Base):
    def instances(self, shs, tier):
        for i, a in enumerate(shs):
            for j, b in enumerate(shs):
                if not _addable(a, b):
                    continue
                # labels: when both fully labelled with the same set in different order the library transposes `b`
                if a.labels != b.labels and None not in a.labels and None not in b.labels and set(a.labels) == set(b.labels):
                    continue  # (exercised separately by 'add_transposed')
                for kind in ('add', 'sub', 'iadd', 'isub', 'iadd_prefactor', 'binary_blockwise', 'bb_subtract', 'ibb_general'):
                    yield ('add', i, j, kind)

    def run(self, heap, p):
        _, i, j, kind = p
        a, b = heap[i].arr, heap[j].arr
        if kind == 'add':
            return dict(kind='new', arr=a + b)
        if kind == 'sub':
            return dict(kind='new', arr=a - b)
        if kind == 'binary_blockwise':
            return dict(kind='new', arr=a.binary_blockwise(np.add, b))
        if kind == 'bb_subtract':
            return dict(kind='new', arr=a.binary_blockwise(np.subtract, b))
        if kind == 'ibb_general':  # any function with f(0, 0) = 0 is allowed; not symmetric, not linear in one block alone
            r = a.ibinary_blockwise(lambda x, y: y - 2 * x, b)
            return dict(kind='inplace', target=i, ret=r)
        if kind == 'iadd':
            a += b
            return dict(kind='inplace', target=i, ret=a)
        if kind == 'isub':
            a -= b
            return dict(kind='inplace', target=i, ret=a)
        r = a.iadd_prefactor_other(2, b)
        return dict(kind='inplace', target=i, ret=r)

    def model(self, shs, p):
        _, i, j, kind = p
        a, b = shs[i], shs[j]
        if kind in ('add', 'iadd', 'binary_blockwise'):
            d = a.dense + b.dense
        elif kind in ('sub', 'isub', 'bb_subtract'):
            d = a.dense - b.dense
        elif kind == 'ibb_general':
            d = b.dense - 2 * a.dense
        else:
            d = a.dense + 2 * b.dense
        if kind in ('iadd', 'isub', 'iadd_prefactor', 'ibb_general'):
            d = d.astype(np.result_type(a.dense.dtype, b.dense.dtype))
        return Shadow(d, list(a.legs), a.labels, a.qtotal, a.ch)


@op('scale')
class _Scale(Base):
    def instances(self, shs, tier):
        for i, a in enumerate(shs):
            for sc in ('2', 'zero', 'cplx', 'm1'):
                for kind in ('mul', 'rmul', 'imul', 'div', 'idiv', 'neg', 'iscale_prefactor'):
                    if kind in ('div', 'idiv') and sc == 'zero':
                        continue
                    if kind == 'neg' and sc != 'm1':
                        continue
                    if sc == 'm1' and kind != 'neg':
                        continue
                    if np.issubdtype(a.dense.dtype, np.integer) and (sc == 'cplx' or kind in ('div', 'idiv')):
                        continue
                    if sc == 'cplx' and kind in ('imul', 'idiv', 'iscale_prefactor') and not np.iscomplexobj(a.dense) and tier == 'quick':
                        continue
                    yield ('scale', i, sc, kind)

    def run(self, heap, p):
        _, i, sc, kind = p
        a = heap[i].arr
        s = SCALARS[sc]
        if kind == 'mul':
            return dict(kind='new', arr=a * s)
        if kind == 'rmul':
            return dict(kind='new', arr=s * a)
        if kind == 'div':
            return dict(kind='new', arr=a / s)
        if kind == 'neg':
            return dict(kind='new', arr=-a)
        if kind == 'imul':
            a *= s
            return dict(kind='inplace', target=i, ret=a)
        if kind == 'idiv':
            a /= s
            return dict(kind='inplace', target=i, ret=a)
        r = a.iscale_prefactor(s)
        return dict(kind='inplace', target=i, ret=r)

    def model(self, shs, p):
        _, i, sc, kind = p
        a = shs[i]
        s = SCALARS[sc]
        if kind in ('div', 'idiv'):
            d = a.dense / s
        elif kind == 'neg':
            d = -a.dense
        else:
            d = a.dense * s
        return Shadow(d, list(a.legs), a.labels, a.qtotal, a.ch)


def _groupings(rank, tier):
    """Leg groupings for combine_legs: list of (groups, new_axes or None)."""
    out = []
    if rank == 1:
        out.append(([[0]], None))
    if rank == 2:
        out += [([[0, 1]], None), ([[1, 0]], None), ([[0], [1]], None), ([[1]], None), ([[0]], [1])]
    if rank == 3:
        out += [([[0, 1]], None), ([[1, 2]], None), ([[0, 2]], None), ([[2, 0]], None), ([[1, 0]], None), ([[0, 1, 2]], None), ([[2, 0, 1]], None),
                ([[0], [1, 2]], None), ([[1, 2]], [0]), ([[0, 1]], [1]), ([[2], [1, 0]], [1, 0])]
    if rank == 4:
        out += [([[0, 1], [2, 3]], None), ([[0, 3], [1, 2]], None), ([[1, 2]], None), ([[3, 1], [2, 0]], [1, 0]), ([[0, 1, 2]], None), ([[2, 3]], [0])]
    return out


@op('combine_legs')
class _Combine(Base):
    def instances(self, shs, tier):
        for i, a in enumerate(shs):
            if a.rank > 4:
                continue
            for groups, new_axes in _groupings(a.rank, tier):
                for qc in (None, 1, -1):
                    if qc is not None and len(groups) > 1 and tier == 'quick' and qc == 1:
                        continue
                    yield ('combine_legs', i, groups, new_axes, qc, False)
            if a.rank >= 2 and all(l is not None for l in a.labels):
                yield ('combine_legs', i, [[0, 1]], None, -1, True)

    def run(self, heap, p):
        _, i, groups, new_axes, qc, by_label = p
        a = heap[i].arr
        g = groups
        if by_label:
            g = [[a._labels[k] for k in grp] for grp in groups]
        kw = {}
        if new_axes is not None:
            kw['new_axes'] = new_axes
        if qc is not None:
            kw['qconj'] = [qc] * len(groups)
        return dict(kind='new', arr=a.combine_legs(g, **kw), combine=(groups, new_axes, qc))

    def model(self, shs, p):
        return None  # the result is checked structurally in `check_combine` (needs the pipe of the real result)


def check_combine(a_sh, res, groups, new_axes, qc):
    """Oracle for combine_legs given the real result `res` (npc.Array): returns expected Shadow or raises OpError.

    Entry (i_0..i_n) of the operand must land at the index `pipe.map_incoming_flat` says; the pipe itself must be a
    bijection obeying the fusion rule; non-combined legs keep their relative order."""
    import tenpy.linalg.np_conserved as npc
    rank = a_sh.rank
    combined = [k for g in groups for k in g]
    # expected positions (documented default: position of the first leg of each group, after removing the others)
    if new_axes is None:
        first = {g[0]: gi for gi, g in enumerate(groups)}
        order = []
        for k in range(rank):
            if k in first:
                order.append(('g', first[k]))
            elif k not in combined:
                order.append(('l', k))
    else:
        n_res = rank - len(combined) + len(groups)
        order = [None] * n_res
        for gi, pos in enumerate(new_axes):
            order[pos] = ('g', gi)
        rest = [k for k in range(rank) if k not in combined]
        it = iter(rest)
        for t in range(n_res):
            if order[t] is None:
                order[t] = ('l', next(it))
    if res.rank != len(order):
        raise OpError('C01', 'combine_legs:rank', 'result rank %d, expected %d' % (res.rank, len(order)))
    exp_labels, exp_legs = [], []
    shape = []
    for pos, (kind, x) in enumerate(order):
        if kind == 'l':
            exp_labels.append(a_sh.labels[x])
            exp_legs.append(a_sh.legs[x])
            shape.append(a_sh.legs[x].n)
        else:
            g = groups[x]
            exp_labels.append(combine_label([a_sh.labels[k] for k in g], g))
            pipe = res.legs[pos]
            if not isinstance(pipe, npc.LegPipe):
                raise OpError('C01', 'combine_legs:not-a-pipe', 'leg %d of the result is not a LegPipe' % pos)
            want_q = qc if qc is not None else a_sh.legs[g[0]].qconj
            if pipe.qconj != want_q:
                raise OpError('C01', 'combine_legs:qconj', 'pipe qconj %d, documented %d' % (pipe.qconj, want_q))
            sl = shleg_from_real(pipe, a_sh.ch)
            subs, imap, bij = sl.sub
            if not bij or len(set(map(tuple, imap.tolist()))) != len(imap) or len(imap) != int(np.prod([a_sh.legs[k].n for k in g])):
                raise OpError('C01', 'combine_legs:map-not-bijective', 'map_incoming_flat of the new pipe is not a bijection')
            # fusion rule: physical charge of the pipe index = sum of the physical charges of the incoming indices
            tot = np.zeros_like(sl.phys)
            for t, k in enumerate(g):
                tot = tot + a_sh.legs[k].phys[imap[:, t]]
            if sl.phys.size and not np.array_equal(valid(a_sh.ch, tot), sl.phys):
                raise OpError('C01', 'combine_legs:fusion-rule', 'charges of the pipe are not the sum of the incoming charges')
            exp_legs.append(ShLeg(sl.phys, pipe.qconj, ([a_sh.legs[k] for k in g], imap, True), sl.struct))
            shape.append(len(imap))
    # dense: place entries
    d = np.zeros(shape, dtype=a_sh.dense.dtype)
    src_axes = []
    for (kind, x) in order:
        src_axes.append([x] if kind == 'l' else groups[x])
    tr = np.transpose(a_sh.dense, [k for ax in src_axes for k in ax])
    # now reshape groups C-style then permute by inverse imap
    newshape = [int(np.prod([a_sh.dense.shape[k] for k in ax])) for ax in src_axes]
    tr = tr.reshape(newshape)
    for pos, (kind, x) in enumerate(order):
        if kind == 'g':
            g = groups[x]
            imap = exp_legs[pos].sub[1]
            flat = np.ravel_multi_index(tuple(imap[:, t] for t in range(len(g))), [a_sh.legs[k].n for k in g]) if len(imap) else np.zeros(0, dtype=np.int64)
            tr = np.take(tr, flat, axis=pos)
    d = tr
    return Shadow(d, exp_legs, exp_labels, a_sh.qtotal, a_sh.ch)


@op('split_legs')
class _Split(Base):
    def instances(self, shs, tier):
        for i, a in enumerate(shs):
            pipes = [k for k, l in enumerate(a.legs) if l.sub is not None]
            if not pipes:
                continue
            if a.rank - len(pipes) + sum(len(a.legs[k].sub[0]) for k in pipes) <= 6:
                yield ('split_legs', i, None)
            for k in pipes[:2]:
                if a.rank - 1 + len(a.legs[k].sub[0]) <= 6:
                    yield ('split_legs', i, [k])

    def run(self, heap, p):
        return dict(kind='new', arr=heap[p[1]].arr.split_legs(p[2]))

    def model(self, shs, p):
        a = shs[p[1]]
        axes = p[2] if p[2] is not None else [k for k, l in enumerate(a.legs) if l.sub is not None]
        d = a.dense
        legs, labels = [], []
        # process from the last axis so that positions stay valid
        newd = d
        for k in sorted(axes, reverse=True):
            subs, imap, _ = a.legs[k].sub
            dims = [s.n for s in subs]
            flat = np.ravel_multi_index(tuple(imap[:, t] for t in range(len(subs))), dims) if len(imap) else np.zeros(0, dtype=np.int64)
            # newd along axis k is indexed by pipe index j; want array indexed by flat incoming index
            inv = np.zeros(int(np.prod(dims)), dtype=np.int64)
            inv[flat] = np.arange(len(flat))
            newd = np.take(newd, inv, axis=k)
            newd = newd.reshape(newd.shape[:k] + tuple(dims) + newd.shape[k + 1:])
        for k in range(a.rank):
            if k in axes:
                subs = a.legs[k].sub[0]
                legs += list(subs)
                labels += split_label(a.labels[k], len(subs))
            else:
                legs.append(a.legs[k])
                labels.append(a.labels[k])
        return Shadow(newd, legs, labels, a.qtotal, a.ch)


@op('take_slice')
class _TakeSlice(Base):
    def instances(self, shs, tier):
        for i, a in enumerate(shs):
            if a.rank < 2:
                continue  # (the result must keep at least one leg)
            for k in range(a.rank):
                n = a.legs[k].n
                for idx in sorted({0, n - 1, n // 2}):
                    if 0 <= idx < n:
                        yield ('take_slice', i, [idx], [k])
            if a.rank >= 3 and a.legs[0].n and a.legs[a.rank - 1].n:
                yield ('take_slice', i, [a.legs[0].n - 1, 0], [0, a.rank - 1])
                if all(l is not None for l in a.labels):
                    yield ('take_slice', i, [0, a.legs[0].n - 1], [a.rank - 1, 0])

    def run(self, heap, p):
        import tenpy.linalg.np_conserved as npc
        r = heap[p[1]].arr.take_slice(p[2], p[3])
        if isinstance(r, npc.Array):
            return dict(kind='new', arr=r)
        return dict(kind='scalar', val=r)

    def model(self, shs, p):
        a = shs[p[1]]
        idx = [slice(None)] * a.rank
        q = np.asarray(a.qtotal, dtype=np.int64)
        for ind, ax in zip(p[2], p[3]):
            idx[ax] = ind
            q = q - a.legs[ax].phys[ind] if q.size else q
        d = a.dense[tuple(idx)]
        keep = [k for k in range(a.rank) if k not in p[3]]
        if not keep:
            return ('scalar', d)
        return Shadow(d, [a.legs[k] for k in keep], [a.labels[k] for k in keep], valid(a.ch, q).tolist(), a.ch)


@op('sort_legcharge')
class _SortLC(Base):
    def instances(self, shs, tier):
        for i, a in enumerate(shs):
            if a.rank == 0 or a.rank > 4:
                continue
            yield ('sort_legcharge', i, True, True)
            yield ('sort_legcharge', i, True, False)
            yield ('sort_legcharge', i, False, True)
            if a.rank >= 2:
                yield ('sort_legcharge', i, [True] + [False] * (a.rank - 1), [False] * (a.rank - 1) + [True])
            yield ('as_completely_blocked', i)

    def run(self, heap, p):
        a = heap[p[1]].arr
        if p[0] == 'as_completely_blocked':
            enc, r = a.as_completely_blocked()
            if r is a:
                return dict(kind='new', arr=r, enc=list(enc), same=True, share=p[1])
            return dict(kind='new', arr=r, enc=list(enc), same=False)
        perm, r = a.sort_legcharge(p[2], p[3])
        return dict(kind='new', arr=r, perm=perm, share=p[1])

    def model(self, shs, p):
        return None  # checked in check_sort


OPS['as_completely_blocked'] = OPS['sort_legcharge']


def check_blocked(a_sh, res, enc):
    """Oracle for as_completely_blocked: the legs listed in `enc` are encapsulated in single-leg pipes (reversible),
    every leg of the result is blocked by charge."""
    for k, l in enumerate(res.legs):
        ch = np.asarray(l.charges)
        if len(set(map(tuple, ch.tolist()))) != len(ch) and ch.shape[1]:
            raise OpError('C01', 'as_completely_blocked:not-blocked', 'leg %d of the result is not blocked by charge: %s' % (k, ch.tolist()))
    if not enc:
        return a_sh.copy()
    exp = check_combine(a_sh, res, [[k] for k in enc], None, None)
    return exp


def check_sort(a_sh, res, perm, p):
    """Oracle for sort_legcharge (documented: res.to_ndarray() == a.to_ndarray()[np.ix_(*perm)])."""
    if len(perm) != a_sh.rank:
        raise OpError('C01', p[0] + ':perm', 'returned %d permutations for rank %d' % (len(perm), a_sh.rank))
    perms = []
    for k, pm in enumerate(perm):
        pm = np.asarray(pm)
        if sorted(pm.tolist()) != list(range(a_sh.legs[k].n)):
            raise OpError('C01', p[0] + ':perm', 'perm[%d]=%s is not a permutation' % (k, pm))
        perms.append(pm)
    d = a_sh.dense[np.ix_(*perms)] if a_sh.rank else a_sh.dense
    legs = []
    for k, pm in enumerate(perms):
        sl = shleg_from_real(res.legs[k], a_sh.ch)
        legs.append(ShLeg(a_sh.legs[k].phys[pm], a_sh.legs[k].qconj, None, sl.struct))
    exp = Shadow(d, legs, a_sh.labels, a_sh.qtotal, a_sh.ch)
    # promised structure
    if p[0] == 'as_completely_blocked':
        want = [(True, True)] * a_sh.rank
    else:
        so = p[2] if isinstance(p[2], list) else [p[2]] * a_sh.rank
        bu = p[3] if isinstance(p[3], list) else [p[3]] * a_sh.rank
        want = list(zip(so, bu))
    for k, (so, bu) in enumerate(want):
        ch = np.asarray(res.legs[k].charges)
        if so and len(ch) and ch.shape[1]:
            keys = [tuple(r[::-1]) for r in ch.tolist()]
            if any(keys[t] > keys[t + 1] for t in range(len(keys) - 1)):
                raise OpError('C01', p[0] + ':not-sorted', 'leg %d of the result is not sorted by charge: %s' % (k, ch.tolist()))
        if bu and len(ch) > 1:
            if any(tuple(ch[t]) == tuple(ch[t + 1]) for t in range(len(ch) - 1)):
                raise OpError('C01', p[0] + ':not-bunched', 'leg %d of the result has adjacent blocks of equal charge: %s' % (k, ch.tolist()))
    return exp


def _masks(n):
    """A small family of masks for a leg of length n."""
    out = []
    if n >= 1:
        out.append([True] * n)
    if n >= 2:
        out.append([True] + [False] * (n - 1))
        out.append([False] * (n - 1) + [True])
        out.append([k % 2 == 0 for k in range(n)])
        out.append([k % 2 == 1 for k in range(n)])
    if n >= 3:
        out.append([False] + [True] * (n - 1))
    return out


@op('iproject')
class _Project(Base):
    def instances(self, shs, tier):
        for i, a in enumerate(shs):
            for k in range(a.rank):
                for m in _masks(a.legs[k].n):
                    yield ('iproject', i, m, k, 'bool')
                n = a.legs[k].n
                if n >= 2:
                    yield ('iproject', i, [n - 1, 0], k, 'int')
            if a.rank >= 2 and tier != 'quick':
                for m0 in _masks(a.legs[0].n)[1:3]:
                    for m1 in _masks(a.legs[-1].n)[1:3]:
                        yield ('iproject', i, [m0, m1], [0, a.rank - 1], 'multi')

    def run(self, heap, p):
        _, i, m, k, mode = p
        a = heap[i].arr
        if mode == 'bool':
            r = a.iproject(np.array(m, dtype=bool), k)
        elif mode == 'int':
            r = a.iproject(np.array(m, dtype=np.intp), k)
        else:
            r = a.iproject([np.array(x, dtype=bool) for x in m], k)
        return dict(kind='inplace', target=i, ret=None)

    def model(self, shs, p):
        _, i, m, k, mode = p
        a = shs[i]
        if mode == 'multi':
            masks, axes = m, k
        else:
            masks, axes = [m], [k]
        d = a.dense
        legs = list(a.legs)
        for mk, ax in zip(masks, axes):
            if mode == 'int':
                mb = np.zeros(a.legs[ax].n, dtype=bool)
                mb[np.array(mk)] = True
            else:
                mb = np.array(mk, dtype=bool)
            d = np.compress(mb, d, axis=ax)
            legs[ax] = ShLeg(a.legs[ax].phys[mb], a.legs[ax].qconj, None, None)
        return Shadow(d, legs, a.labels, a.qtotal, a.ch)


@op('permute')
class _Permute(Base):
    def instances(self, shs, tier):
        for i, a in enumerate(shs):
            for k in range(a.rank):
                n = a.legs[k].n
                if n < 2 or n > 4:
                    continue
                perms = list(itertools.permutations(range(n)))
                if tier == 'quick' or a.rank > 2:
                    perms = [perms[1], perms[-1], perms[len(perms) // 2]]
                for pm in perms:
                    if list(pm) != list(range(n)):
                        yield ('permute', i, list(pm), k)

    def run(self, heap, p):
        return dict(kind='new', arr=heap[p[1]].arr.permute(np.array(p[2]), p[3]))

    def model(self, shs, p):
        a = shs[p[1]]
        pm = np.array(p[2])
        legs = list(a.legs)
        legs[p[3]] = ShLeg(a.legs[p[3]].phys[pm], a.legs[p[3]].qconj, None, None)
        return Shadow(np.take(a.dense, pm, axis=p[3]), legs, a.labels, a.qtotal, a.ch)


@op('scale_axis')
class _ScaleAxis(Base):
    def instances(self, shs, tier):
        for i, a in enumerate(shs):
            if np.issubdtype(a.dense.dtype, np.integer):
                continue
            for k in range(a.rank):
                yield ('scale_axis', i, k, False, 'real')
                yield ('scale_axis', i, k, True, 'real')
                if tier != 'quick' or k == a.rank - 1:
                    yield ('scale_axis', i, k, False, 'cplx')
                    if np.iscomplexobj(a.dense):
                        yield ('scale_axis', i, k, True, 'cplx')
            if a.rank and a.labels[0] is not None:
                yield ('scale_axis', i, 'label0', False, 'real')

    @staticmethod
    def _s(n, kind):
        s = 1.0 + np.arange(n) * 0.5
        if kind == 'cplx':
            s = s * (1 + 0.5j)
        return s

    def run(self, heap, p):
        _, i, k, inplace, kind = p
        a = heap[i].arr
        ax = a._labels[0] if k == 'label0' else k
        n = a.shape[0 if k == 'label0' else k]
        s = self._s(n, kind)
        if inplace:
            r = a.iscale_axis(s, ax)
            return dict(kind='inplace', target=i, ret=r)
        return dict(kind='new', arr=a.scale_axis(s, ax))

    def model(self, shs, p):
        _, i, k, inplace, kind = p
        a = shs[i]
        ax = 0 if k == 'label0' else k
        s = self._s(a.legs[ax].n, kind)
        shp = [1] * a.rank
        shp[ax] = len(s)
        return Shadow(a.dense * s.reshape(shp), list(a.legs), a.labels, a.qtotal, a.ch)


@op('astype')
class _Astype(Base):
    def instances(self, shs, tier):
        for i, a in enumerate(shs):
            for dt in ('complex128', 'float64') + (('float32', 'complex64', 'int64') if tier != 'quick' else ()):
                if np.iscomplexobj(a.dense) and not dt.startswith('complex'):
                    continue
                if dt == 'int64' and not np.issubdtype(a.dense.dtype, np.integer):
                    continue
                yield ('astype', i, dt)

    def run(self, heap, p):
        return dict(kind='new', arr=heap[p[1]].arr.astype(np.dtype(p[2])))

    def model(self, shs, p):
        a = shs[p[1]]
        return Shadow(a.dense.astype(np.dtype(p[2])), list(a.legs), a.labels, a.qtotal, a.ch)


@op('purge_sortq')
class _Purge(Base):
    def instances(self, shs, tier):
        for i in range(len(shs)):
            yield ('purge_sortq', i, 'ipurge_zeros')
            yield ('purge_sortq', i, 'isort_qdata')
            yield ('purge_sortq', i, 'make_contiguous')

    def run(self, heap, p):
        a = heap[p[1]].arr
        if p[2] == 'ipurge_zeros':
            r = a.ipurge_zeros()
        elif p[2] == 'isort_qdata':
            r = a.isort_qdata()
            r = a
        else:
            r = a._imake_contiguous()
        return dict(kind='inplace', target=p[1], ret=None)

    def model(self, shs, p):
        return shs[p[1]].copy()


@op('norm')
class _Norm(Base):
    def instances(self, shs, tier):
        for i, a in enumerate(shs):
            for o in ('None', '0', '1', '2', 'inf'):
                yield ('norm', i, o)

    def run(self, heap, p):
        import tenpy.linalg.np_conserved as npc
        o = {'None': None, '0': 0, '1': 1, '2': 2, 'inf': np.inf, '-inf': -np.inf}[p[2]]
        return dict(kind='scalar', val=npc.norm(heap[p[1]].arr, o))

    def model(self, shs, p):
        a = shs[p[1]]
        o = {'None': None, '0': 0, '1': 1, '2': 2, 'inf': np.inf, '-inf': -np.inf}[p[2]]
        x = a.dense.reshape(-1).astype(np.complex128 if np.iscomplexobj(a.dense) else np.float64)
        if x.size == 0:
            return ('scalar', 0.0)
        return ('scalar', np.linalg.norm(x, o))


@op('squeeze_addleg')
class _Squeeze(Base):
    def instances(self, shs, tier):
        for i, a in enumerate(shs):
            ones = [k for k in range(a.rank) if a.legs[k].n == 1]
            if ones and a.rank > len(ones):
                yield ('squeeze_addleg', i, 'squeeze', None)
            for k in ones[:2]:
                if a.rank > 1:
                    yield ('squeeze_addleg', i, 'squeeze', k)
            if a.rank <= 3 and 'triv' not in a.labels:
                for ax in sorted({0, a.rank}):
                    for qc in (1, -1):
                        yield ('squeeze_addleg', i, 'add_trivial_leg', [ax, qc])

    def run(self, heap, p):
        import tenpy.linalg.np_conserved as npc
        a = heap[p[1]].arr
        if p[2] == 'squeeze':
            r = a.squeeze() if p[3] is None else a.squeeze(p[3])
            if isinstance(r, npc.Array):
                return dict(kind='new', arr=r)
            return dict(kind='scalar', val=r)
        ax, qc = p[3]
        return dict(kind='new', arr=a.add_trivial_leg(ax, 'triv', qc), share=p[1])  # documented: possibly shallow

    def model(self, shs, p):
        a = shs[p[1]]
        if p[2] == 'squeeze':
            axes = [k for k in range(a.rank) if a.legs[k].n == 1] if p[3] is None else [p[3]]
            q = np.asarray(a.qtotal, dtype=np.int64)
            for k in axes:
                q = q - a.legs[k].phys[0] if q.size else q
            keep = [k for k in range(a.rank) if k not in axes]
            d = a.dense.reshape([a.legs[k].n for k in keep])
            if not keep:
                return ('scalar', d)
            return Shadow(d, [a.legs[k] for k in keep], [a.labels[k] for k in keep], valid(a.ch, q).tolist(), a.ch)
        ax, qc = p[3]
        qn = len(K.mods(a.ch))
        leg = ShLeg(np.zeros((1, qn), dtype=np.int64), qc, None, None)
        legs = list(a.legs)
        legs.insert(ax, leg)
        labels = list(a.labels)
        labels.insert(ax, 'triv')
        return Shadow(np.expand_dims(a.dense, ax), legs, labels, a.qtotal, a.ch)


@op('labels')
class _Labels(Base):
    def instances(self, shs, tier):
        for i, a in enumerate(shs):
            if a.rank == 0:
                continue
            yield ('labels', i, 'iset', ['x%d' % k for k in range(a.rank)])
            yield ('labels', i, 'iset', [None] * a.rank)
            if a.rank >= 2:
                yield ('labels', i, 'iset', ['p', 'p*'] + [None] * (a.rank - 2))
            if a.labels[0] is not None:
                yield ('labels', i, 'ireplace', [a.labels[0], 'new'])
                yield ('labels', i, 'replace', [a.labels[0], 'new2'])
                yield ('labels', i, 'idrop', [a.labels[0]])
            yield ('labels', i, 'idrop', None)

    def run(self, heap, p):
        a = heap[p[1]].arr
        if p[2] == 'iset':
            a.iset_leg_labels(p[3])
        elif p[2] == 'ireplace':
            a.ireplace_label(p[3][0], p[3][1])
        elif p[2] == 'replace':
            return dict(kind='new', arr=a.replace_label(p[3][0], p[3][1]), share=p[1])
        else:
            a.idrop_labels(p[3])
        return dict(kind='inplace', target=p[1], ret=None, labels_only=True)

    def model(self, shs, p):
        a = shs[p[1]].copy()
        if p[2] == 'iset':
            a.labels = list(p[3])
        elif p[2] in ('ireplace', 'replace'):
            a.labels = [p[3][1] if l == p[3][0] else l for l in a.labels]
        elif p[3] is None:
            a.labels = [None] * a.rank
        else:
            a.labels = [None if l in p[3] else l for l in a.labels]
        return a


@op('concatenate', arity=2)
class _Concat(Base):
    def instances(self, shs, tier):
        for i, a in enumerate(shs):
            for j, b in enumerate(shs):
                if a.rank != b.rank or a.qtotal != b.qtotal or a.rank == 0:
                    continue
                for ax in range(a.rank):
                    if all(same_leg(a.legs[k], b.legs[k]) for k in range(a.rank) if k != ax) and a.legs[ax].qconj == b.legs[ax].qconj \
                            and a.labels == b.labels:
                        yield ('concatenate', i, j, ax)

    def run(self, heap, p):
        import tenpy.linalg.np_conserved as npc
        return dict(kind='new', arr=npc.concatenate([heap[p[1]].arr, heap[p[2]].arr], axis=p[3]))

    def model(self, shs, p):
        a, b = shs[p[1]], shs[p[2]]
        ax = p[3]
        legs = list(a.legs)
        legs[ax] = ShLeg(np.concatenate([a.legs[ax].phys, b.legs[ax].phys], axis=0) if a.legs[ax].phys.size or b.legs[ax].phys.size
                         else np.zeros((a.legs[ax].n + b.legs[ax].n, 0), np.int64), a.legs[ax].qconj, None, None)
        return Shadow(np.concatenate([a.dense, b.dense], axis=ax), legs, a.labels, a.qtotal, a.ch)


@op('gauge')
class _Gauge(Base):
    def instances(self, shs, tier):
        for i, a in enumerate(shs):
            if not K.mods(a.ch) or a.rank == 0:
                continue
            for ax in sorted({0, a.rank - 1}):
                yield ('gauge', i, ax, None)
                yield ('gauge', i, ax, [1] * len(K.mods(a.ch)))
                yield ('gauge', i, ax, [1] * len(K.mods(a.ch)), 'flip')  # new_qconj = -old qconj
                yield ('gauge', i, ax, None, 'flip')

    def run(self, heap, p):
        a = heap[p[1]].arr
        if len(p) > 4:
            r = a.gauge_total_charge(p[2], p[3], new_qconj=-a.legs[p[2]].qconj)
        else:
            r = a.gauge_total_charge(p[2], p[3])
        return dict(kind='new', arr=r, share=p[1])

    def model(self, shs, p):
        a = shs[p[1]]
        newq = np.zeros(len(K.mods(a.ch)), dtype=np.int64) if p[3] is None else np.asarray(p[3], dtype=np.int64)
        newq = valid(a.ch, newq)
        delta = newq - np.asarray(a.qtotal, dtype=np.int64)
        legs = list(a.legs)
        l = a.legs[p[2]]
        # the physical charge (qconj * charge) of every index is shifted by the change of the total charge,
        # whatever direction the new leg is given
        legs[p[2]] = ShLeg(valid(a.ch, l.phys + delta), -l.qconj if len(p) > 4 else l.qconj, None, None)
        return Shadow(a.dense.copy(), legs, a.labels, newq.tolist(), a.ch)


def _index_forms(n):
    """Index forms for an axis of length n (json-able descriptors)."""
    forms = [('int', 0), ('int', -1), ('slice', [None, None, None])]
    if n >= 2:
        forms += [('slice', [1, None, None]), ('slice', [None, None, -1]), ('slice', [None, None, 2]), ('mask', [k % 2 == 0 for k in range(n)]),
                  ('arr', [n - 1, 0]), ('arr', [0, n - 1])]
    if n >= 3:
        forms += [('slice', [1, -1, None]), ('arr', [2, 0, 1][:n])]
    if n >= 2:  # (appended last: positions of the forms above are used by the two-axis instances)
        forms += [('arr', [-1, 0]), ('arr', [0, -1])]
    if n >= 3:
        forms += [('arr', [-2, 0, -1])]
    return forms


def _mk_index(f):
    kind, v = f
    if kind == 'int':
        return v
    if kind == 'slice':
        return slice(*v)
    if kind == 'mask':
        return np.array(v, dtype=bool)
    return np.array(v, dtype=np.intp)


@op('getitem')
class _GetItem(Base):
    def instances(self, shs, tier):
        for i, a in enumerate(shs):
            if a.rank == 0 or a.rank > 3 or any(l.n == 0 for l in a.legs):
                continue
            for k in range(a.rank):
                for f in _index_forms(a.legs[k].n):
                    idx = [('slice', [None, None, None])] * a.rank
                    idx[k] = f
                    yield ('getitem', i, [list(x) for x in idx], False)
            if a.rank >= 2:
                f0 = _index_forms(a.legs[0].n)
                f1 = _index_forms(a.legs[a.rank - 1].n)
                for x in f0[:1] + f0[3:6]:
                    for y in f1[:2] + f1[4:7]:
                        idx = [('slice', [None, None, None])] * a.rank
                        idx[0], idx[-1] = x, y
                        yield ('getitem', i, [list(t) for t in idx], False)
                yield ('getitem', i, [list(f0[0])], True)  # a[0, ...]
                yield ('getitem', i, [list(f1[1])], 'tail')  # a[..., -1]

    @staticmethod
    def build(idx, ell):
        t = tuple(_mk_index(tuple(f)) for f in idx)
        if ell is True:
            return t + (Ellipsis,)
        if ell == 'tail':
            return (Ellipsis,) + t
        return t

    def run(self, heap, p):
        import tenpy.linalg.np_conserved as npc
        a = heap[p[1]].arr
        r = a[self.build(p[2], p[3])]
        if isinstance(r, npc.Array):
            return dict(kind='new', arr=r)
        return dict(kind='scalar', val=r)

    def model(self, shs, p):
        a = shs[p[1]]
        idx = [tuple(f) for f in p[2]]
        full = [('slice', [None, None, None])] * a.rank
        if p[3] is True:
            full[:len(idx)] = idx
        elif p[3] == 'tail':
            full[a.rank - len(idx):] = idx
        else:
            full = idx
        d = a.dense
        legs, labels = [], []
        q = np.asarray(a.qtotal, dtype=np.int64)
        # apply axis by axis (outer indexing semantics, documented for npc: each index acts on its own axis)
        out_ax = 0
        for k, f in enumerate(full):
            ind = _mk_index(f)
            if f[0] == 'int':
                d = np.take(d, ind, axis=out_ax)
                q = q - a.legs[k].phys[ind] if q.size else q
            else:
                if f[0] == 'slice':
                    sel = np.arange(a.legs[k].n)[ind]
                elif f[0] == 'mask':
                    sel = np.nonzero(ind)[0]
                else:
                    sel = ind
                d = np.take(d, sel, axis=out_ax)
                legs.append(ShLeg(a.legs[k].phys[sel], a.legs[k].qconj, None, None))
                labels.append(a.labels[k])
                out_ax += 1
        if not legs:
            return ('scalar', d)
        return Shadow(d, legs, labels, valid(a.ch, q).tolist(), a.ch)


@op('setitem')
class _SetItem(Base):
    def instances(self, shs, tier):
        for i, a in enumerate(shs):
            if a.rank == 0 or a.rank > 3 or any(l.n == 0 for l in a.legs):
                continue
            # scalar assignment to a single entry: only entries inside a charge-allowed block are in the domain
            nz = np.argwhere(a.dense != 0)
            if len(nz):
                yield ('setitem', i, 'entry', [int(x) for x in nz[0]])
                yield ('setitem', i, 'entry', [int(x) for x in nz[-1]])
            # assignment of an Array to a slice: take from another heap member of equal legs
            for j, b in enumerate(shs):
                # the source must not share block data with the target (documented pit-fall of shallow copies)
                if j != i and _addable(a, b) and a.labels == b.labels and not (a.share is not None and a.share == b.share):
                    yield ('setitem', i, 'full', j)
                    for k in range(a.rank):
                        if a.legs[k].n >= 2:
                            yield ('setitem', i, 'slice', [j, k])
                            # index arrays (unsorted / counted from the end): a[idx] = b[idx] and a[idx] = ndarray
                            n = a.legs[k].n
                            for arr in ([n - 1, 0], [-1, 0]) + (([2, 0, 1], [-2, 0, -1]) if n >= 3 else ()):
                                yield ('setitem', i, 'arr', [j, k, list(arr), False])
                            yield ('setitem', i, 'arr', [j, k, [n - 1, 0] if n < 3 else [1, 2, 0], True])
                            break

    def run(self, heap, p):
        a = heap[p[1]].arr
        if p[2] == 'entry':
            a[tuple(p[3])] = 42
        elif p[2] == 'full':
            a[(slice(None),) * a.rank] = heap[p[3]].arr
        elif p[2] == 'arr':
            j, k, arr, flat = p[3]
            idx = [slice(None)] * a.rank
            idx[k] = np.array(arr, dtype=np.intp)
            src = heap[j].arr[tuple(idx)]
            a[tuple(idx)] = src.to_ndarray() if flat else src
        else:
            j, k = p[3]
            idx = [slice(None)] * a.rank
            idx[k] = slice(1, None)
            a[tuple(idx)] = heap[j].arr[tuple(idx)]
        return dict(kind='inplace', target=p[1], ret=None)

    def model(self, shs, p):
        a = shs[p[1]].copy()
        if p[2] == 'entry':
            a.dense[tuple(p[3])] = 42
        elif p[2] == 'full':
            a.dense[...] = shs[p[3]].dense
        elif p[2] == 'arr':
            j, k, arr, _flat = p[3]
            idx = [slice(None)] * a.rank
            idx[k] = np.array(arr, dtype=np.intp)
            a.dense[tuple(idx)] = shs[j].dense[tuple(idx)]
        else:
            j, k = p[3]
            idx = [slice(None)] * a.rank
            idx[k] = slice(1, None)
            a.dense[tuple(idx)] = shs[j].dense[tuple(idx)]
        return a


@op('unary_blockwise')
class _Unary(Base):
    def instances(self, shs, tier):
        for i, a in enumerate(shs):
            yield ('unary_blockwise', i, 'real', False)
            if np.iscomplexobj(a.dense):  # (np.imag of a real array is a read-only array: a numpy matter)
                yield ('unary_blockwise', i, 'imag', False)
            yield ('unary_blockwise', i, 'square', True)
            yield ('unary_blockwise', i, 'conj', True)

    def run(self, heap, p):
        a = heap[p[1]].arr
        f = {'real': np.real, 'imag': np.imag, 'square': np.square, 'conj': np.conj}[p[2]]
        if p[3]:
            r = a.iunary_blockwise(f)
            return dict(kind='inplace', target=p[1], ret=r)
        # documented: "makes a shallow copy first"; np.real / np.imag return views of the operand's blocks
        return dict(kind='new', arr=a.unary_blockwise(f), share=p[1])

    def model(self, shs, p):
        a = shs[p[1]]
        f = {'real': np.real, 'imag': np.imag, 'square': np.square, 'conj': np.conj}[p[2]]
        return Shadow(f(a.dense), list(a.legs), a.labels, a.qtotal, a.ch)


@op('extend')
class _Extend(Base):
    def instances(self, shs, tier):
        for i, a in enumerate(shs):
            for k in range(min(a.rank, 2)):
                yield ('extend', i, k, 2)

    def run(self, heap, p):
        return dict(kind='new', arr=heap[p[1]].arr.extend(p[2], p[3]))

    def model(self, shs, p):
        a = shs[p[1]]
        k, extra = p[2], p[3]
        pad = [(0, 0)] * a.rank
        pad[k] = (0, extra)
        qn = len(K.mods(a.ch))
        legs = list(a.legs)
        legs[k] = ShLeg(np.concatenate([a.legs[k].phys.reshape(a.legs[k].n, qn), np.zeros((extra, qn), np.int64)], axis=0), a.legs[k].qconj, None, None)
        return Shadow(np.pad(a.dense, pad), legs, a.labels, a.qtotal, a.ch)


@op('charge_change')
class _ChargeChange(Base):
    """drop_charge / change_charge: results live in another ChargeInfo, so they do not join the heap; the dense
    values must be unchanged, the result consistent, and (C03) the operand and its legs untouched."""

    def instances(self, shs, tier):
        for i, a in enumerate(shs):
            qn = len(K.mods(a.ch))
            if qn == 0:
                continue
            yield ('charge_change', i, 'drop', None)
            yield ('charge_change', i, 'drop', 0)
            yield ('charge_change', i, 'drop', 'q0')
            if K.mods(a.ch)[0] in (1, 4):  # U(1) -> Z2, Z4 -> Z2 (the new group must be a quotient of the old one)
                yield ('charge_change', i, 'change', 0)
            if qn >= 2:
                yield ('charge_change', i, 'drop', qn - 1)

    def run(self, heap, p):
        a = heap[p[1]].arr
        if p[2] == 'drop':
            r = a.drop_charge(p[3])
        else:
            r = a.change_charge(p[3], 2, 'changed')
        inv = K.array_invariants(r)
        if inv:
            raise OpError('C02', 'charge_change:%s:invariant' % p[2], inv[0])
        if r.get_leg_labels() != a.get_leg_labels():
            raise OpError('C01', 'charge_change:%s:labels' % p[2], 'labels changed')
        return dict(kind='scalar', val=complex(np.sum(r.to_ndarray() * (1 + np.arange(r.to_ndarray().size).reshape(r.shape)))))

    def model(self, shs, p):
        d = shs[p[1]].dense
        return ('scalar', np.sum(d * (1 + np.arange(d.size).reshape(d.shape))))
