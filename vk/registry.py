"""Static per-property metadata (kept free of tenpy imports: the orchestrator reads it)."""

# configs: list of (label, config, optimize) ; label is passed to check.units(tier, seed, label)
CY = ('CY', 'CY', None)
PYC = ('PY', 'PY', None)

REGISTRY = {}


def reg(pid, level, quick, thorough, finalize=False):
    REGISTRY[pid] = dict(level=level, configs={'quick': quick, 'thorough': thorough}, finalize=finalize)


reg('C15', 'exploration', [CY], [CY])
reg('C20', 'model_checking', [CY], [CY])
