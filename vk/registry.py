"""Per-property metadata, read from checks/cXX.json (no tenpy import: the orchestrator reads it).

checks/cXX.json keys:
  level      : evidence level (exploration | fault_enumeration | model_checking)
  configs    : {"quick": [[label, "CY"|"PY", optimize-level-or-null], ...], "thorough": [...]}
  finalize   : optional bool; if true, checks/cXX_finalize.py:finalize(by_label, tier, seed) is called
  rule, assumptions, technique, level_text, level_note, engine, design_ref : texts for evidence / MANIFEST
"""
import glob
import json
import os

HERE = os.path.dirname(os.path.dirname(os.path.abspath(__file__)))
REGISTRY = {}
for _f in sorted(glob.glob(os.path.join(HERE, 'checks', 'c[0-9][0-9].json'))):
    _m = json.load(open(_f))
    _pid = os.path.basename(_f)[:-5].upper()
    _m['configs'] = {t: [tuple(c) for c in cs] for t, cs in _m['configs'].items()}
    REGISTRY[_pid] = _m
