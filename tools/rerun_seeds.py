#!/venv/bin/python
"""rerun_seeds.py [--jobs N] [--only PREFIX] [--from NAME] [--tier quick] : regression of the detection matrix.

For every kept seeded change /verif/seeded/<name>/ (patch.diff against /repo HEAD): scratch worktree of /repo HEAD under
/tmp, apply the patch, run the check of its property against the mutated tree (VERIF_REPO=<worktree>), record exit code
and violation keys in /verif/seeded/<name>/last_run.json, remove the worktree.  Nothing here is used by a registered
check; /repo itself is never touched.
"""
import json
import os
import re
import subprocess
import sys
import time

args = sys.argv[1:]
jobs = args[args.index('--jobs') + 1] if '--jobs' in args else '8'
only = args[args.index('--only') + 1] if '--only' in args else ''
start = args[args.index('--from') + 1] if '--from' in args else ''
tier = args[args.index('--tier') + 1] if '--tier' in args else 'quick'
root = '/verif/seeded'
env = dict(os.environ, OMP_NUM_THREADS='1', OPENBLAS_NUM_THREADS='1')
summary = []
for name in sorted(os.listdir(root)):
    d = os.path.join(root, name)
    if name < start or not name.startswith(only) or not os.path.exists(os.path.join(d, 'patch.diff')):
        continue
    meta = json.load(open(os.path.join(d, 'meta.json')))
    pid = meta['property']
    wt = '/tmp/seedrun_%d_%s' % (os.getpid(), name)
    subprocess.run(['git', '-C', '/repo', 'worktree', 'add', '-f', wt, 'HEAD'], capture_output=True)
    t0 = time.time()
    try:
        ap = subprocess.run(['git', '-C', wt, 'apply', os.path.join(d, 'patch.diff')], capture_output=True, text=True)
        if ap.returncode != 0:
            res = dict(applies=False, error=ap.stderr[-500:])
        else:
            out, rc = '', 0
            for chk in meta.get('checks', [pid]):  # (a change can break a neighbouring property first: meta['checks'])
                p = subprocess.run(['./vcheck', chk, '--tier', tier, '--jobs', jobs, '--no-evidence'], cwd='/verif',
                                   env=dict(env, VERIF_REPO=wt), capture_output=True, text=True)
                out += p.stdout + p.stderr
                rc = max(rc, p.returncode)
            keys = re.findall(r'^\s+key=(.*?) cases=', out, re.M)
            res = dict(applies=True, exit=rc, violation_lines=len(re.findall(r'^VIOLATION property=', out, re.M)),
                       keys=keys[:12], summary=(re.findall(r'^C\d\d tier=.*$', out, re.M) or [''])[-1])
    finally:
        subprocess.run(['git', '-C', '/repo', 'worktree', 'remove', '--force', wt], capture_output=True)
    res.update(property=pid, tier=tier, repo_head=subprocess.run(['git', '-C', '/repo', 'rev-parse', '--short', 'HEAD'], capture_output=True, text=True).stdout.strip(),
               verif_head=subprocess.run(['git', '-C', '/verif', 'rev-parse', '--short', 'HEAD'], capture_output=True, text=True).stdout.strip(),
               wall=round(time.time() - t0, 1))
    json.dump(res, open(os.path.join(d, 'last_run.json'), 'w'), indent=1)
    caught = res.get('exit') == 1 and res.get('violation_lines', 0) > 0
    summary.append((name, caught, meta.get('detected_by_check')))
    print('%-55s %s (recorded: %s) %s' % (name, 'CAUGHT' if caught else 'MISSED' if res.get('applies') else 'PATCH-DOES-NOT-APPLY',
                                           meta.get('detected_by_check'), res.get('keys', [])[:2]), flush=True)
print('caught %d / %d' % (sum(1 for s in summary if s[1]), len(summary)))
