#!/bin/bash
# usage: tools/try_seed.sh <PID> <dir with patch.diff demo.py meta.json> [extra vcheck args]
# Applies the patch in a scratch worktree of /repo HEAD, runs demo (clean/mutated), then the check against the mutated tree.
PID=$1; D=$2; shift 2
WT=/tmp/seedtry_$$
git -C /repo worktree add -f $WT HEAD >/dev/null 2>&1
export OMP_NUM_THREADS=1 OPENBLAS_NUM_THREADS=1
echo "== demo on clean tree"; (cd $WT && PYTHONPATH=$WT TENPY_NO_CYTHON=1 timeout 600 /venv/bin/python $D/demo.py >/dev/null 2>&1; echo "exit $?")
if ! git -C $WT apply $D/patch.diff; then echo "PATCH DOES NOT APPLY"; git -C /repo worktree remove --force $WT; exit 2; fi
echo "== demo on mutated tree"; (cd $WT && PYTHONPATH=$WT TENPY_NO_CYTHON=1 timeout 600 /venv/bin/python $D/demo.py >/dev/null 2>&1; echo "exit $?")
echo "== check $PID on mutated tree"
(cd /verif && VERIF_REPO=$WT ./vcheck $PID --no-evidence "$@" 2>&1 | grep -E "^VIOLATION|key=|^$PID tier" | cut -c1-220 | head -12)
git -C /repo worktree remove --force $WT
