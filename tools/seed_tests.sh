#!/bin/bash
# usage: tools/seed_tests.sh <dir with patch.diff> : run the repository tests that exercise the patched files, with the patch applied (CY tests use the stale .so of /repo only for .py patches -> we run with TENPY_NO_CYTHON=1 like the patch author and additionally with the compiled helper built from the mutated tree via the overlay)
D=$1
WT=/tmp/seedtest_$$
git -C /repo worktree add -f $WT HEAD >/dev/null 2>&1
git -C $WT apply $D/patch.diff || { echo "PATCH DOES NOT APPLY"; git -C /repo worktree remove --force $WT; exit 2; }
files=$(grep '^+++ b/' $D/patch.diff | sed 's#+++ b/##')
tests=""
for f in $files; do
  case $f in
    *tools/cache.py|*tools/thread.py|*tools/events.py) tests="$tests tests/export_import_test/test_cache.py tests/test_tools.py";;
    *linalg/np_conserved.py|*linalg/charges.py) tests="$tests tests/test_np_conserved.py tests/test_charges.py";;
    *linalg/truncation.py) tests="$tests tests/test_truncation.py tests/test_tebd.py";;
    *linalg/krylov_based.py|*linalg/sparse.py) tests="$tests tests/test_krylov_based.py tests/test_sparse.py";;
    *models/lattice.py) tests="$tests tests/test_lattice.py tests/test_model.py";;
    *models/model.py) tests="$tests tests/test_model.py";;
    *networks/site.py) tests="$tests tests/test_site.py";;
    *networks/terms.py) tests="$tests tests/test_terms.py tests/test_mpo.py";;
    *networks/mps.py) tests="$tests tests/test_mps.py";;
    *networks/mpo.py) tests="$tests tests/test_mpo.py";;
    *algorithms/*) tests="$tests tests/test_$(basename $f)";;
    *tools/hdf5_io.py) tests="$tests tests/export_import_test";;
    *simulations/*) tests="$tests tests/test_simulation.py";;
  esac
done
tests=$(echo $tests | tr ' ' '\n' | sort -u | while read t; do [ -e $WT/$t ] && echo $t; done | tr '\n' ' ')
echo "tests: $tests"
(cd $WT && OMP_NUM_THREADS=1 PYTHONPATH=$WT TENPY_NO_CYTHON=1 /venv/bin/python -m pytest -q -x -p no:cacheprovider $tests 2>&1 | tail -2)
git -C /repo worktree remove --force $WT
