#!/venv/bin/python
"""keep_seed.py <PID> <srcdir> <name> <detected: yes|no|after-strengthening> "<keys / note>" : store a confirmed seeded change."""
import json
import os
import shutil
import sys

pid, src, name, detected, note = sys.argv[1:6]
dst = os.path.join('/verif/seeded', name)
os.makedirs(dst, exist_ok=True)
for f in ('patch.diff', 'demo.py'):
    shutil.copy(os.path.join(src, f), os.path.join(dst, f))
meta = json.load(open(os.path.join(src, 'meta.json')))
meta['property'] = pid
meta['confirmed_by_main'] = 'demo.py exits 0 on /repo HEAD and non-zero with patch.diff applied (scratch worktree, tools/try_seed.sh); check run with VERIF_REPO=<mutated worktree>'
meta['detected_by_check'] = detected
meta['detection_note'] = note
json.dump(meta, open(os.path.join(dst, 'meta.json'), 'w'), indent=1)
print('kept', dst)
