#!/venv/bin/python
"""Regenerate MANIFEST.json from vk/registry.py + vk/rules.json (keeps the manifest valid at all times)."""
import json
import os
import sys

HERE = os.path.dirname(os.path.dirname(os.path.abspath(__file__)))
sys.path.insert(0, HERE)
from vk.registry import REGISTRY  # noqa: E402

rules = REGISTRY
READY = set(open(os.path.join(HERE, 'checks', 'ready.txt')).read().split())
props = [json.loads(l) for l in open(os.path.join(HERE, 'properties.jsonl'))]
baseline = json.load(open('/root/.vp/BASELINE.json'))['cmd'].replace(' --junitxml=<file>', '')

checks = []
na = []
for p in props:
    pid = p['id']
    if pid in REGISTRY and pid in READY:
        r = rules[pid]
        checks.append(dict(
            property_id=pid,
            quick_cmd='./vcheck %s --tier quick' % pid,
            thorough_cmd='./vcheck %s --tier thorough' % pid,
            evidence_file='evidence/%s.json' % pid,
            replay_cmd_template='./vcheck %s --replay {path}' % pid,
            engine=r.get('engine', 'vk'),
            level_claimed=dict(category=REGISTRY[pid]['level'], text=r['level_text'], design_ref=r.get('design_ref', 'DESIGN.md §3 ' + pid)),
            level_note=r['level_note'],
            technique=r['technique'],
        ))
    else:
        na.append(dict(property_id=pid, reason=rules.get(pid, {}).get('na_reason', 'check not built yet in this session (bounded exhaustive check designed in DESIGN.md §3, not yet implemented); not claimed')))

man = dict(
    version=1,
    setup_cmd='./vcheck --setup',
    hooks=dict(guard='TENPY_VERIF', enable='no source hooks: all instrumentation is substituted from the harness (module attributes, LD_PRELOAD shim); checks run /repo sources through a symlink overlay with a freshly built Cython helper',
               baseline_off_cmd=baseline, source_commits=[], add_only=True),
    engines=[
        dict(name='vcheck', path='vcheck', serves_properties=sorted(READY), kind_free_text='orchestrator: builds the CY/PY/optimization-level configurations from the current tree (Cython helper rebuilt from the current .pyx, symlink overlay), shards work units over all cores with per-unit time-outs, merges coverage, matches known findings, writes evidence and replay files'),
        dict(name='kernel-bfs', path='vk/kengine.py', serves_properties=['C01', 'C02', 'C03', 'C04'], kind_free_text='explicit-state BFS over operation histories of real npc.Arrays (heap of <=3 tensors) with numpy shadow models (vk/kops.py), canonical structural state keys, invariant checker and leg fingerprints (vk/kernel.py)'),
        dict(name='sched', path='vk/sched.py', serves_properties=['C20'], kind_free_text='cooperative scheduler for real Python threads + stateless deviation-bounded enumeration of schedules (preemptions, timeouts, injected faults), deadlock / horizon / thread-leak detection, prefix replay'),
        dict(name='crashfs', path='vk/crashfs', serves_properties=['C18'], kind_free_text='LD_PRELOAD libc shim (kill before / tear the n-th file-system operation) + warmed fork server running real Simulation process lifetimes; explicit-state search over crash/resume histories with abstract file states'),
        dict(name='grid', path='vk/pool.py', serves_properties=sorted(READY), kind_free_text='exhaustive product enumeration with per-case oracle on a fork pool'),
    ],
    checks=checks,
    not_applicable=na,
    notes='See DESIGN.md. Known findings in known_findings.json.',
)
with open(os.path.join(HERE, 'MANIFEST.json'), 'w') as fh:
    json.dump(man, fh, indent=1)
import jsonschema
jsonschema.validate(man, json.load(open('/root/.vp/MANIFEST.schema.json')))
es = json.load(open('/root/.vp/EVIDENCE.schema.json'))
for c in checks:
    f = os.path.join(HERE, c['evidence_file'])
    if os.path.exists(f):
        jsonschema.validate(json.load(open(f)), es)
    else:
        print('missing evidence', f)
print('MANIFEST ok: %d checks, %d not_applicable' % (len(checks), len(na)))
