#!/venv/bin/python
"""Regenerate the table of seeded changes in DESIGN.md (between the markers) from seeded/*/meta.json."""
import glob
import json
import os

HERE = os.path.dirname(os.path.dirname(os.path.abspath(__file__)))
rows = []
for d in sorted(glob.glob(os.path.join(HERE, 'seeded', '*'))):
    m = json.load(open(os.path.join(d, 'meta.json')))
    what = (m.get('what_breaks') or '').replace('|', '/').replace('\n', ' ')
    if len(what) > 230:
        what = what[:227] + '...'
    note = (m.get('detection_note') or '').replace('|', '/').replace('\n', ' ')
    rows.append('| `%s` | %s | %s | %s | %s |' % (os.path.basename(d), m.get('property'), what, m.get('detected_by_check'), note))
table = ['| seeded change (`seeded/<name>/`) | property | what it breaks | detected | how (violation keys) / why not |', '|---|---|---|---|---|'] + rows
p = os.path.join(HERE, 'DESIGN.md')
s = open(p).read()
a, b = '<!-- seeded-table-begin -->', '<!-- seeded-table-end -->'
assert a in s and b in s
s = s[:s.index(a) + len(a)] + '\n' + '\n'.join(table) + '\n' + s[s.index(b):]
open(p, 'w').write(s)
n = len(rows)
print('%d seeded changes: %s' % (n, {k: sum(1 for r in rows if '| %s |' % k in r) for k in ('yes', 'after-strengthening', 'no')}))
