"""C09 -- MPS transformations implement the documented map on states.

Explicit-state BFS over histories of transformations of a real `MPS` (finite / segment / infinite, several site
families, non-uniform bond dimensions, forms B / A / mixed).  Next to the real object a dense shadow
(`c09_dense.Shadow`: tensor + site order/grouping + norm) is advanced by plain numpy (full kron operators with
explicit Jordan-Wigner strings, index permutations with fermionic signs, linear combinations); after every
transition the tensor denoted by the real MPS (own contraction of `get_B`) must equal the shadow, `norm` must be
tracked as documented, `norm_test`/singular values must be canonical where promised, and a returned
`TruncationError` must bound the overlap.  States are identified by (bc, sites, forms, chi, flags); the first BFS
level uses the full alphabet, deeper levels a core alphabet (one representative per transformation variant).
"""
import contextlib
import io
import itertools
import logging
import traceback
import warnings

import numpy as np

from checks import c09_dense as D
from checks.c09_dense import Shadow, bsize

UNIT_TIMEOUT = 1500.0
TOL = {'finite': 1e-9, 'segment': 1e-9, 'infinite': 2e-6}
COEFFS = [(1.0, 1.0), (0.6, -0.8j), (2.0, 0.5), (0.0, 1.0), (1.0, 0.0), (-1.0, 1.5 + 0.5j)]
FAMILIES = ['spin', 'spin0', 'ferm', 'fermP', 'ferm0', 'fb', 'sf', 'spin1']


class Viol(Exception):
    """A property violation; `cont` = (psi, shadow) if the exploration can continue behind it."""

    def __init__(self, key, what, cont=None):
        super().__init__(what)
        self.key, self.what, self.cont = key, what, cont


def form_spec(form, L):
    """Argument of convert_form for the form variant of a start state ('mix' = a different form on every site)."""
    return [('A', 'C', 'B', 'G')[i % 4] for i in range(L)] if form == 'mix' else form


def tup(x):
    return tuple(tup(y) for y in x) if isinstance(x, (list, tuple)) else x


# ------------------------------------------------------------------------------------------------ start states

def fam_sites(fam, tier):
    from tenpy.networks import site as S
    big = tier != 'quick'
    if fam == 'spin':
        return [S.SpinHalfSite('Sz')] * 4, [0], (2, 3, 2)
    if fam == 'spin0':
        return [S.SpinHalfSite(None)] * (4 if big else 3), [], (2, 3, 2) if big else (2, 2)
    if fam == 'ferm':
        return [S.FermionSite('N')] * 4, [2], (2, 3, 2)
    if fam == 'fermP':
        return [S.FermionSite('parity')] * (4 if big else 3), [1], (2, 3, 2) if big else (2, 2)
    if fam == 'ferm0':
        return [S.FermionSite(None)] * 3, [], (2, 2)
    if fam == 'fb':
        f, b = fb_sites()
        return ([f, b, f, b], [1, 1], (2, 3, 2)) if big else ([f, b, f], [1, 0], (2, 2))
    if fam == 'sf':
        return [S.SpinHalfFermionSite('N', 'Sz')] * 3, [3, 1], (3, 3)
    if fam == 'spin1':
        return [S.SpinSite(1.0, 'Sz')] * 3, [0], (2, 3)
    raise ValueError(fam)


def fb_sites():
    """Fermion and boson site with two independent Z2 charges (fermion parity, boson parity)."""
    from tenpy.networks import site as S
    f, b = S.FermionSite('parity'), S.BosonSite(2, 'parity')
    S.set_common_charges([f, b], 'independent')
    return f, b


def inf_spec(fam):
    """Unit cell of the infinite start state: (sites, charges of the bond left of each site, qtotal of each B)."""
    from tenpy.networks import site as S
    if fam == 'spin':
        return [S.SpinHalfSite('Sz')] * 2, [[[0], [2]], [[-1], [1], [1]]], [[0], [0]]
    if fam == 'spin0':
        return [S.SpinHalfSite(None)] * 3, [[[]] * 2, [[]] * 3, [[]] * 2], [[]] * 3
    if fam == 'ferm':
        return [S.FermionSite('N')] * 2, [[[0], [1]], [[0], [1], [1]]], [[0], [1]]
    if fam == 'fermP':
        return [S.FermionSite('parity')] * 3, [[[0], [1]], [[0], [1], [1]], [[0], [1]]], [[0]] * 3
    if fam == 'ferm0':
        return [S.FermionSite(None)] * 2, [[[]] * 2, [[]] * 3], [[]] * 2
    if fam == 'fb':
        return list(fb_sites()), [[[0, 0], [1, 0], [0, 1]], [[0, 0], [1, 0], [1, 1], [0, 1]]], [[0, 0], [0, 0]]
    if fam == 'sf':
        return ([S.SpinHalfFermionSite('N', 'Sz')] * 2,
                [[[0, 0], [0, 0]], [[0, 0], [-1, 1], [1, 1]]], [[1, -1], [1, 1]])
    if fam == 'spin1':
        return [S.SpinSite(1.0, 'Sz')] * 2, [[[0], [2]], [[0], [0], [2]]], [[0], [0]]
    raise ValueError(fam)


def sector_vector(sites, sector, ranks, rng):
    """Random complex vector in a charge sector whose Schmidt rank at cut b is at most ranks[b-1]."""
    dims = [s.dim for s in sites]
    chinfo = sites[0].leg.chinfo
    v = rng.standard_normal(dims) + 1j * rng.standard_normal(dims)
    mask = np.ones(dims, bool)
    if chinfo.qnumber:
        qs = [s.leg.to_qflat() for s in sites]
        want = chinfo.make_valid(np.array(sector))
        for idx in np.ndindex(*dims):
            q = chinfo.make_valid(np.sum([qs[k][i] for k, i in enumerate(idx)], axis=0))
            mask[idx] = np.all(q == want)
    v = v * mask
    for b in range(1, len(dims)):
        u, s, vh = np.linalg.svd(v.reshape(int(np.prod(dims[:b])), -1), full_matrices=False)
        k = ranks[b - 1]
        v = ((u[:, :k] * s[:k]) @ vh[:k]).reshape(dims) * mask
    return v


def finite_state(fam, tier, rng, form):
    import tenpy.linalg.np_conserved as npc
    from tenpy.networks.mps import MPS
    sites, sector, ranks = fam_sites(fam, tier)
    v = sector_vector(sites, sector, ranks, rng)
    arr = npc.Array.from_ndarray(v, [s.leg for s in sites], labels=['p%d' % i for i in range(len(sites))], cutoff=1e-13)
    psi = MPS.from_full(sites, arr, form=None, normalize=False, unit_cell_width=len(sites))
    psi.convert_form(form_spec(form, psi.L))
    sh = Shadow('finite', v[None, ..., None], sites, [1] * len(sites), 1.0)
    sh.normalize()
    return psi, sh


def infinite_state(fam, rng, form):
    import tenpy.linalg.np_conserved as npc
    from tenpy.networks.mps import MPS
    sites, bonds, qtot = inf_spec(fam)
    chinfo = sites[0].leg.chinfo
    L = len(sites)
    legs = [npc.LegCharge.from_qflat(chinfo, np.array(b, dtype=int).reshape(len(b), chinfo.qnumber)) for b in bonds]

    def fn(shape):
        return rng.standard_normal(shape) + 1j * rng.standard_normal(shape)

    Bs = [npc.Array.from_func(fn, [legs[i], sites[i].leg, legs[(i + 1) % L].conj()], dtype=complex,
                              qtotal=qtot[i] if chinfo.qnumber else None, labels=['vL', 'p', 'vR']) for i in range(L)]
    T = Bs[0].to_ndarray()
    for B in Bs[1:]:
        T = np.tensordot(T, B.to_ndarray(), axes=(-1, 0))
    psi = MPS(sites, Bs, [np.ones(len(b)) for b in bonds], bc='infinite', form=None, unit_cell_width=L)
    psi.canonical_form()
    psi.norm = 0.8
    psi.convert_form(form_spec(form, L))
    sh = Shadow('infinite', T, sites, [1] * L, 0.8)
    sh.normalize(keep_norm=True)
    if not D.imps_data(sh.T, 1)[1]:
        raise RuntimeError('start state %s is (nearly) non-injective' % fam)
    return psi, sh


def build(start, seed):
    """-> (psi, shadow, ctx); ctx['phi'] is a second state of the family used by `add`."""
    fam, bc, form, tier = start
    rng = np.random.default_rng([seed, FAMILIES.index(fam), ['finite', 'segment', 'infinite'].index(bc)])
    with warnings.catch_warnings():
        warnings.simplefilter('ignore')
        if bc == 'infinite':
            psi, sh = infinite_state(fam, rng, form)
            ctx = {}
        else:
            psi, sh = finite_state(fam, tier, rng, form)
            phi, phish = finite_state(fam, tier, rng, 'B')
            phi.norm = 0.7
            phish.norm = 0.7
            ctx = dict(phi=phi, phish=phish)
        check(psi, sh, 'start')
        if bc == 'segment':
            first, last = (1, psi.L - 2) if psi.L >= 4 else (1, psi.L - 1)
            psi, sh, _ = step(psi, sh, ('segment', first, last), ctx)
            psi.convert_form(form_spec(form, psi.L))
    ctx['rng_seed'] = seed
    return psi, sh, ctx


# ------------------------------------------------------------------------------------------------ checks

def psi_T(psi, what):
    try:
        T = D.psi_tensor(psi)
    except Exception as e:  # noqa: BLE001
        raise Viol(what + ':result-unusable:' + type(e).__name__, 'get_B / get_SL of the result raise %r' % (e,))
    if not np.all(np.isfinite(T)):
        raise Viol(what + ':result-nan', 'tensors of the result contain nan/inf')
    return T


def check(psi, sh, what, signfree=False, canonical=True, check_norm=True, check_tnorm=True):
    """The real MPS denotes the shadow state; `what` prefixes the violation key."""
    bc = sh.bc
    tol = TOL[bc]
    if psi.bc != bc or psi.L != sh.L or D.site_blocks(psi.sites)[1] != sh.blocks:
        raise Viol(what + ':sites', 'bc/sites of the result %s %r, expected %s %r' % (psi.bc, psi.sites, bc, sh.blocks))
    if [s.dim for s in D.site_blocks(psi.sites)[0]] != [s.dim for s in sh.elem] or \
            [repr(s) for s in D.site_blocks(psi.sites)[0]] != [repr(s) for s in sh.elem]:
        raise Viol(what + ':sites', '`sites` of the result do not follow the transformation: %r' % (psi.sites,))
    T = psi_T(psi, what)
    if T.shape[1:-1] != sh.T.shape[1:-1] or (bc != 'infinite' and T.shape != sh.T.shape):
        raise Viol(what + ':shape', 'dense shape %r, expected %r' % (T.shape, sh.T.shape))
    if bc == 'infinite':
        eta, _, rho = D.imps_data(T, sh.window())
        nrm = np.sqrt(abs(eta))
        diff = np.abs(rho - sh.rho()[2]).max()
    else:
        nrm = np.linalg.norm(T)
        diff = np.linalg.norm(T - sh.T)
        if signfree and np.linalg.norm(T + sh.T) < diff:
            diff = np.linalg.norm(T + sh.T)
            sh.T = -sh.T
    if diff > tol:
        raise Viol(what + ':state', 'state of the result differs from the dense reference by %.3g' % diff)
    if check_tnorm and abs(nrm - 1) > tol:
        raise Viol(what + ':tensor-norm', 'tensors of the result are not normalised (%.12g)' % nrm)
    if check_norm and abs(psi.norm - sh.norm) > tol * max(1.0, abs(sh.norm)):
        raise Viol(what + ':norm', 'psi.norm = %.12g, expected %.12g' % (psi.norm, sh.norm))
    if canonical:
        with warnings.catch_warnings():
            warnings.simplefilter('ignore')
            nt = np.abs(psi.norm_test()).max()
        if not nt < max(1e-7, tol):
            raise Viol(what + ':norm_test', 'norm_test() = %.3g where canonical form is promised' % nt)
        if bc != 'infinite':
            starts = np.cumsum([1] + [bsize(b) for b in sh.blocks])
            for b in range(1, sh.L):
                ref = np.linalg.svd(sh.T.reshape(int(np.prod(sh.T.shape[:starts[b]])), -1), compute_uv=False)
                S = np.sort(np.asarray(psi.get_SL(b)))[::-1]
                m = max(len(S), len(ref))
                d = np.abs(np.pad(S, (0, m - len(S))) - np.pad(ref, (0, m - len(ref)))).max()
                if d > 1e-7:
                    raise Viol(what + ':schmidt-values', 'singular values on bond %d differ from dense ones by %.3g' % (b, d))
    try:
        psi.test_sanity()
    except Exception as e:  # noqa: BLE001
        ok = None
        try:
            ok = (psi.copy(), sh)
        except Exception:  # noqa: BLE001
            pass
        raise Viol(what + ':test_sanity:' + type(e).__name__, 'the result represents the right state but fails its own '
                   'test_sanity(): %r' % (e,), cont=ok)


def exact_jw(psi, i):
    """JW string from the charges is documented to be exact up to a sign lost if B's have non-trivial qtotal."""
    if psi.bc != 'finite':
        return False
    return not np.any(psi._B[0].get_leg('vL').to_qflat()) and not any(np.any(B.qtotal) for B in psi._B[:i])


def state_key(psi, sh):
    bnd = psi.segment_boundaries[0] is not None
    return (psi.bc, tuple(repr(s) for s in psi.sites), tuple(psi.form), tuple(psi.chi), sh.zeroS, bnd,
            int(psi._B[0].get_leg('vL').qconj), sh.parent is not None)


# ------------------------------------------------------------------------------------------------ operators

_OP_INFO = {}


def op_info(site):
    """name -> (dense matrix, unitary?, needs JW?) for every operator of the site."""
    if id(site) not in _OP_INFO:
        out = {}
        for name in sorted(site.opnames):
            M = site.get_op(name).to_ndarray()
            out[name] = (M, np.allclose(M @ M.conj().T, np.eye(len(M)), atol=1e-12), site.op_needs_JW(name))
        _OP_INFO[id(site)] = (site, out)
    return _OP_INFO[id(site)][1]


def pick(site, unitary):
    """First (sorted) bosonic operator name that is (non-)unitary and invertible, not proportional to Id."""
    for name, (M, uni, jw) in op_info(site).items():
        if jw or uni != unitary or np.allclose(M, M[0, 0] * np.eye(len(M))):
            continue
        if abs(np.linalg.det(M)) > 1e-6:
            return name
    return 'Id'


def n_site_op(sites, kind, seed):
    """Deterministic charge-conserving operator on the given sites (labels p0, p0*, ...): 'G' generic, 'U' unitary,
    'T' = 'G' with the legs in reversed order.  Returns (npc operator, dense matrix)."""
    import tenpy.linalg.np_conserved as npc
    n = len(sites)
    rng = np.random.default_rng([seed, 77, n])
    legs = [s.leg for s in sites] + [s.leg.conj() for s in sites]
    labels = ['p%d' % k for k in range(n)] + ['p%d*' % k for k in range(n)]
    d = int(np.prod([s.dim for s in sites]))

    def fn(shape):
        return rng.standard_normal(shape) + 1j * rng.standard_normal(shape)

    G = npc.Array.from_func(fn, legs, dtype=complex, labels=labels)
    if kind == 'U':
        g = G.to_ndarray().reshape(d, d)
        mask = npc.Array.from_func(np.ones, legs, dtype=float).to_ndarray().reshape(d, d) != 0
        w, v = np.linalg.eigh(g + g.conj().T)
        G = npc.Array.from_ndarray((((v * np.exp(0.3j * w)) @ v.conj().T) * mask).reshape(G.shape), legs, labels=labels, cutoff=1e-12)
    mat = G.to_ndarray().reshape(d, d)
    return (G.transpose(labels[::-1]) if kind == 'T' else G), mat


# ------------------------------------------------------------------------------------------------ shadow helpers

def roll_blocks(sh, s):
    """Infinite shadow with the unit cell moved by s MPS sites to the right (new blocks = blocks[-s:] + ...)."""
    s %= sh.L
    if s:
        k = sum(bsize(b) for b in sh.blocks[sh.L - s:])
        sh.T = D.roll_cell(sh.T, k)
        sh.elem = sh.elem[sh.n - k:] + sh.elem[:sh.n - k]
        sh.blocks = sh.blocks[sh.L - s:] + sh.blocks[:sh.L - s]
    sh._cache = None


def at_front(sh, i, fn):
    """Apply fn(shadow) with MPS site i moved to position 0 (needed for infinite states when the support crosses
    the unit-cell boundary); finite states are passed through unchanged (i must then be handled by fn)."""
    if sh.bc == 'infinite' and i % sh.L:
        roll_blocks(sh, -i)
        fn(sh, 0)
        roll_blocks(sh, i)
    else:
        fn(sh, i % sh.L if sh.bc == 'infinite' else i)


def apply_on(sh, i, mat, m):
    """Apply matrix `mat` acting on the m elementary sites starting at plain MPS site i."""
    def fn(s, j):
        dims = [e.dim for e in s.elem]
        O = np.kron(np.kron(np.eye(int(np.prod(dims[:j]))), mat), np.eye(int(np.prod(dims[j + m:]))))
        s.T = D.apply_full(s.T, O)
    at_front(sh, i, fn)


def vl_signs(psi, sh, site):
    """Segment: JW string of the part left of the segment, read off the charges of the outer left leg."""
    signs = site.charge_to_JW_signs(psi.outer_virtual_legs()[0].to_qflat())
    sh.T = sh.T * np.asarray(signs).reshape([-1] + [1] * (sh.T.ndim - 1))


def finish(sh, renorm):
    """Normalise the shadow after a non-unitary map; returns True if the result is outside the domain:
    the state was destroyed, or (infinite) the transfer matrix became degenerate (cat state / nilpotent)."""
    if sh.bc != 'infinite':
        if np.linalg.norm(sh.T) < 1e-7:
            return True
    else:
        eta, ok, _ = D.imps_data(sh.T, 1)
        if not ok or eta < 1e-12:
            return True
    sh.normalize(keep_norm=renorm)
    return False


# ------------------------------------------------------------------------------------------------ transitions

def trunc_check(what, candidates, psi2, err):
    """Documented meaning of a returned TruncationError; returns True if something was discarded.

    `candidates`: shadows of the exact (untruncated) result; err.ov must bound the overlap with (one of) them."""
    from tenpy.linalg.truncation import TruncationError
    if not isinstance(err, TruncationError):
        raise Viol(what + ':no-trunc-err', 'returned %r instead of a TruncationError' % (err,))
    if not err.eps >= 0 or not err.ov <= 1 + 1e-12:
        raise Viol(what + ':trunc-err-range', 'TruncationError(eps=%r, ov=%r)' % (err.eps, err.ov))
    if err.eps < 1e-20:
        return False
    if psi2.bc != 'infinite':
        T = psi_T(psi2, what)
        ov = max(abs(np.vdot(c.T, T)) ** 2 / (np.linalg.norm(T) ** 2 * np.linalg.norm(c.T) ** 2) for c in candidates)
        if ov < err.ov - 1e-9:
            raise Viol(what + ':overlap-below-bound', 'overlap^2 with the exact result %.10g < reported bound ov=%.10g' % (ov, err.ov))
    return True


class Leaf(Exception):
    pass


def reanchor(psi2, sh2, what, normalised=True):
    """After a genuine truncation the exact result is unknown: continue from the state actually produced.

    (A truncated infinite MPS is neither normalised nor canonical any more: it is not explored further; the same
    holds for group_split, which documents nothing about the normalisation after a truncation.)"""
    T = psi_T(psi2, what)
    psi2.test_sanity()
    if sh2.bc == 'infinite' or not (normalised or abs(np.linalg.norm(T) - 1) < TOL[sh2.bc]):
        raise Leaf('truncated')
    sh2.T = T
    if abs(np.linalg.norm(T) - 1) > TOL[sh2.bc]:
        raise Viol(what + ':tensor-norm', 'tensors of the truncated result are not normalised (%.12g)' % np.linalg.norm(T))
    sh2.norm = psi2.norm
    sh2._cache = None


METHOD = {'op': 'apply_local_op', 'op2': 'apply_local_op', 'op3': 'apply_local_op', 'prod': 'apply_product_op',
          'term': 'apply_local_term', 'swap': 'swap_sites', 'perm': 'permute_sites', 'add': 'add',
          'group': 'group_sites', 'split': 'group_split', 'chi': 'enlarge_chi', 'compress': 'compress_svd',
          'inv': 'spatial_inversion', 'cell': 'enlarge_mps_unit_cell', 'roll': 'roll_mps_unit_cell',
          'form': 'convert_form', 'segment': 'extract_segment', 'enl': 'extract_enlarged_segment',
          'gauge': 'gauge_total_charge', 'copy': 'copy'}


def step(psi, sh, act, ctx):
    """Apply one transformation to a copy of the real MPS and to the shadow, check, return (psi2, sh2, outcome).

    psi2 is None when the transition has no successor state (documented rejection, destroyed state, leaf)."""
    import tenpy.linalg.np_conserved as npc
    kind = act[0]
    bc = sh.bc
    psi2, sh2 = psi.copy(), sh.copy()
    seed = ctx.get('rng_seed', 0)
    # canonical: True = the method promises canonical form, None = preserves it, False = a truncation destroyed it
    canonical, signfree, check_norm = None, False, True
    what = METHOD[kind] + ':' + bc

    def expect_reject(call, why):
        try:
            call()
        except ValueError:
            return None, None, 'rejected:' + why
        raise Viol(what + ':not-rejected:' + why, '%r on %s should raise ValueError (%s)' % (act, bc, why))

    def destroyed(call):
        try:
            call()
        except Exception:  # noqa: BLE001  (outside the domain: op|psi> = 0, or an infinite state without a clear
            pass           # gap of the transfer matrix; any outcome is accepted)
        return None, None, 'destroyed-or-degenerate'

    if kind == 'op':
        _, i, opname, unitary, renorm = act
        site = sh.elem[i]
        M, is_unitary, need = op_info(site)[opname]
        call = lambda: psi2.apply_local_op(i, opname, unitary=unitary, renormalize=renorm, understood_infinite=True)  # noqa: E731
        if need and (bc == 'infinite' or getattr(site, 'charge_to_JW_parity', None) is None):
            return expect_reject(call, 'JW-string-impossible')
        sh2.T = D.apply_full(sh.T, D.embed(sh.elem, {i: M}, jw_upto=i if need else None))
        if need and bc == 'segment':
            vl_signs(psi, sh2, site)
        if finish(sh2, renorm):
            return destroyed(call)
        signfree = need and not exact_jw(psi, i)
        canonical = None if (unitary or (unitary is None and is_unitary)) else True
        call()
    elif kind in ('op2', 'op3'):
        _, i, okind, unitary, renorm = act
        m = 2 if kind == 'op2' else 3
        op, mat = n_site_op([psi.sites[(i + k) % psi.L] for k in range(m)], okind, seed)
        apply_on(sh2, i, mat, m)
        call = lambda: psi2.apply_local_op(i, op, unitary=unitary, renormalize=renorm, understood_infinite=True)  # noqa: E731
        if finish(sh2, renorm):
            return destroyed(call)
        canonical = None if (unitary or (unitary is None and okind == 'U')) else True
        call()
    elif kind == 'prod':
        _, names, unitary, renorm = act
        sh2.T = D.apply_full(sh.T, D.kron_all([op_info(s)[names[k % len(names)]][0] for k, s in enumerate(sh.elem)]))
        call = lambda: psi2.apply_product_op(list(names), unitary=unitary, renormalize=renorm)  # noqa: E731
        if finish(sh2, renorm):
            return destroyed(call)
        canonical = None if unitary else True
        call()
    elif kind == 'term':
        _, term, autoJW, off, renorm = act
        imin = min(p for _, p in term) + off
        rel = [(nm, p + off - imin) for nm, p in term]
        njw = [0]

        def fn(s, j):
            O, njw[0] = D.term_operator(s.elem, [(nm, p + j) for nm, p in rel], autoJW)
            s.T = D.apply_full(s.T, O)
        at_front(sh2, imin, fn)
        odd = njw[0] % 2 == 1
        call = lambda: psi2.apply_local_term([tuple(t) for t in term], autoJW=autoJW, i_offset=off, renormalize=renorm)  # noqa: E731
        if odd and (bc == 'infinite' or getattr(psi.get_site(imin), 'charge_to_JW_parity', None) is None):
            return expect_reject(call, 'JW-string-impossible')
        if odd and bc == 'segment':
            vl_signs(psi, sh2, sh.elem[0])
        if finish(sh2, renorm):
            return destroyed(call)
        signfree = odd and not exact_jw(psi, imin)
        canonical = True
        call()
    elif kind == 'swap':
        _, i, skind, chi_max = act

        def fn(s, j):
            o = list(range(s.L))
            o[j], o[j + 1] = o[j + 1], o[j]
            s.T, s.elem, s.blocks = D.permute_blocks(s.T, s.elem, s.blocks, o, {'none': None, 'explicit': 'auto'}.get(skind, skind))
        at_front(sh2, i, fn)
        sop = {'auto': 'auto', 'none': None, 'autoInv': 'autoInv'}.get(skind)
        if skind == 'explicit':  # the recipe of the doc-string of swap_sites
            sL, sR = psi.sites[i], psi.sites[i + 1]
            dense = np.diag((-1.0) ** np.outer(sL.JW_exponent, sR.JW_exponent).reshape(sL.dim * sR.dim))
            sop = npc.Array.from_ndarray(dense.reshape([sL.dim, sR.dim, sL.dim, sR.dim]),
                                         [sL.leg, sR.leg, sL.leg.conj(), sR.leg.conj()], labels=['p1', 'p0', 'p0*', 'p1*'])
        err = psi2.swap_sites(i, sop, None if chi_max is None else {'chi_max': chi_max})
        sh2.parent = None
        if trunc_check(what, [sh2], psi2, err):
            reanchor(psi2, sh2, what)
            canonical = False
    elif kind == 'perm':
        _, perm, chi_max = act
        perm = list(perm)
        order, inverse = perm, [perm.index(k) for k in range(sh.L)]
        doc = psi.permute_sites.__doc__ or ''
        if 'permute_sites(perm)[perm[i]] = psi[i]' in doc.replace('``', ''):   # (documented: new[i] = old[perm[i]])
            order, inverse = inverse, order
        sh2.T, sh2.elem, sh2.blocks = D.permute_blocks(sh.T, sh.elem, sh.blocks, order, 'auto')
        alt = sh.copy()     # the inverse convention, to pin down (and explore behind) a mix-up of perm and its inverse
        alt.T, alt.elem, alt.blocks = D.permute_blocks(sh.T, sh.elem, sh.blocks, inverse, 'auto')
        sh2.parent = alt.parent = None
        err = psi2.permute_sites(perm) if chi_max is None else psi2.permute_sites(perm, 'auto', {'chi_max': chi_max})
        if trunc_check(what, [sh2, alt], psi2, err):
            reanchor(psi2, sh2, what)
            sh2.elem, sh2.blocks = D.site_blocks(psi2.sites)
            canonical = False
        elif inverse != order:
            try:
                check(psi2, sh2, what, canonical=False)
            except Viol as v:
                if v.key.split(':')[-1] not in ('state', 'sites'):
                    raise
                try:
                    check(psi2, alt, what, canonical=False)
                except Viol:
                    raise v
                alt.canon = sh.canon
                raise Viol(what + ':inverse-convention', 'the result is the permutation by the inverse of the documented '
                           'one: new site j = old site %r[j], doc-string: %s' % (
                               inverse, [ln.strip() for ln in doc.split('\n') if 'such that' in ln][:1]), cont=(psi2, alt))
    elif kind == 'add':
        _, okind, ci = act
        alpha, beta = COEFFS[ci]
        if okind == 'U':
            uname = pick(sh.elem[1], True)
            other = psi.copy()
            other.apply_local_op(1, uname, unitary=True, understood_infinite=True)
            other.norm = 0.7
            To = D.apply_full(sh.T, D.embed(sh.elem, {1: op_info(sh.elem[1])[uname][0]})) * 0.7
        else:
            other = ctx['phi'].copy()
            To = ctx['phish'].T * ctx['phish'].norm
            if okind == 'fixA':
                other.convert_form('A')
            elif okind == 'fixG':
                other.gauge_total_charge()
        sh2.T = alpha * sh.norm * sh.T + beta * To
        sh2.norm = 1.0
        sh2.normalize()
        sh2.zeroS = False
        canonical = True
        psi2 = psi.add(other, alpha, beta)
        if psi2.chinfo.qnumber and np.any(psi2.get_total_charge() != psi.get_total_charge()):
            raise Viol(what + ':total-charge', 'sum has total charge %r, self %r' % (psi2.get_total_charge(), psi.get_total_charge()))
    elif kind == 'group':
        n = act[1]
        sh2.blocks = [tuple(sh.blocks[k:k + n]) for k in range(0, sh.L, n)]
        sh2.parent = None
        if sh.L % n:
            what += ':L%n!=0'
        psi2.group_sites(n)
    elif kind == 'split':
        sh2.blocks = [c for b in sh.blocks for c in b]
        err = psi2.group_split(None if act[1] is None else {'chi_max': act[1]})
        if trunc_check(what, [sh2], psi2, err):
            reanchor(psi2, sh2, what, normalised=False)
            canonical = False
    elif kind == 'chi':
        extra = chi_pattern(psi, act[1])
        rng = np.random.default_rng([seed, 5])
        psi_B = psi.copy()
        psi_B.convert_form('B')
        try:
            perms = psi2.enlarge_chi(extra, random_fct=lambda size: rng.standard_normal(size))
        except ValueError as e:
            if 'Gram-Schmidt' in str(e):   # more extra states of one charge than the block (p.vR) can hold
                return None, None, 'rejected:no-room-for-extra-charges'
            raise
        sh2.zeroS = True
        for b, S_new in enumerate(psi2._S):  # documented: new_S = concatenate(old_S, zeros)[perm]
            add = extra[b]
            want = np.concatenate([psi_B._S[b], np.zeros(add if isinstance(add, int) else (0 if add is None else add.ind_len))])
            if perms[b] is not None:
                want = want[perms[b]]
            if len(S_new) != len(want) or np.abs(S_new - want).max() > 1e-12:
                raise Viol(what + ':singular-values', 'new S on bond %d is not concatenate(old_S, zeros)[perm]' % b)
    elif kind == 'compress':
        _, method, chi_max = act
        tp = {} if chi_max is None else {'chi_max': chi_max}
        if method == 'svd':
            err = psi2.compress_svd(tp)
        else:
            err = psi2.compress(dict(compression_method=method, trunc_params=tp, max_trunc_err=None))
        sh2.zeroS = False
        if method == 'variational':   # returns the maximal two-site error only: no bound on the total overlap
            what = 'compress-variational:' + bc
            if chi_max is not None and chi_max < max(psi.chi):
                reanchor(psi2, sh2, what)
                canonical = False
        elif trunc_check(what, [sh2], psi2, err):
            if chi_max is not None and max(psi2.chi) > chi_max:
                raise Viol(what + ':chi_max', 'chi = %r after compression with chi_max=%d' % (psi2.chi, chi_max))
            reanchor(psi2, sh2, what)
            canonical = False
        elif bc == 'finite':
            canonical = True
    elif kind == 'inv':
        T, sh2.elem, sh2.blocks = D.permute_blocks(sh.T, sh.elem, sh.blocks, list(range(sh.L))[::-1], None)
        sh2.T = np.moveaxis(np.moveaxis(T, -1, 0), 1, -1)
        sh2.parent = None
        if psi.segment_boundaries[0] is not None:
            what += ':with-segment_boundaries'
        psi2.spatial_inversion()
    elif kind == 'cell':
        f = act[1]
        for _ in range(f - 1):
            sh2.T = np.tensordot(sh2.T, sh.T, axes=(-1, 0))
        sh2.elem, sh2.blocks = sh.elem * f, sh.blocks * f
        check_norm = False   # nothing documented about `norm` (per unit cell) when the unit cell changes
        psi2.enlarge_mps_unit_cell(f)
    elif kind == 'roll':
        roll_blocks(sh2, act[1])
        if any(f != (0.0, 1.0) for f in psi.form):
            what += ':form!=B'
        psi2.roll_mps_unit_cell(act[1])
    elif kind == 'form':
        f = act[1].split(',') if isinstance(act[1], str) and ',' in act[1] else act[1]   # 'A,C,B' = one form per site
        psi2.convert_form(f)
        if list(psi2.form) != list(psi._parse_form(f)):
            raise Viol(what + ':form-attribute', 'form = %r after convert_form(%r)' % (psi2.form, f))
    elif kind == 'segment':
        _, first, last = act
        psi2 = psi.extract_segment(first, last)
        m = last - first + 1
        if bc == 'infinite':
            tmp = sh.copy()
            roll_blocks(tmp, -first)
            rho = D.imps_data(tmp.T, m)[2]
            elem = [tmp.elem[k % tmp.n] for k in range(m)]
        else:
            Tm = np.moveaxis(sh.T, list(range(1 + first, 2 + last)), list(range(m)))
            Tm = Tm.reshape(int(np.prod(Tm.shape[:m])), -1)
            rho = Tm @ Tm.conj().T
            elem = sh.elem[first:last + 1]
        T = psi_T(psi2, what)
        Ts = np.moveaxis(T, 0, -2).reshape(rho.shape[0], -1)
        d = np.abs(Ts @ Ts.conj().T - rho).max()
        if d > TOL[bc]:
            raise Viol(what + ':state', 'reduced density matrix of the segment differs from the source by %.3g' % d)
        # the outer Schmidt bases are not observable from the dense source: continue from the extracted tensor
        sh2 = Shadow('segment', T, elem, [1] * m, sh.norm)
        sh2.parent, sh2.canon = (psi, first, last), sh.canon
    elif kind == 'enl':
        parent, first, last = sh.parent
        kw = dict(add_unitcells=act[2]) if act[1] == 'add' else dict(new_first_last=tuple(act[2]))
        res, nf, nl = psi.extract_enlarged_segment(parent, parent, first, last, **kw)
        if act[1] == 'nfl' and (nf, nl) != tuple(act[2]):
            raise Viol(what + ':new_first_last', 'returned (%d, %d) for new_first_last=%r' % (nf, nl, act[2]))
        T = sh.T
        for j in range(first - 1, nf - 1, -1):
            T = np.tensordot(parent.get_B(j, 'A').transpose(['vL', 'p', 'vR']).to_ndarray(), T, axes=(-1, 0))
        for j in range(last + 1, nl + 1):
            T = np.tensordot(T, parent.get_B(j, 'B').transpose(['vL', 'p', 'vR']).to_ndarray(), axes=(-1, 0))
        Tr = psi_T(res, what)
        if Tr.shape != T.shape or np.linalg.norm(Tr - T) > 1e-8:
            raise Viol(what + ':state', 'enlarged segment (%d, %d) differs from A..A psi_segment B..B%s' % (
                nf, nl, '' if Tr.shape != T.shape else ' by %.3g' % np.linalg.norm(Tr - T)))
        return None, None, 'leaf'
    elif kind == 'gauge':
        q = None if act[1] == 'zero' else psi.chinfo.make_valid(psi.get_total_charge() + 1)
        psi2.gauge_total_charge(q)
        want = psi.chinfo.make_valid(np.zeros(psi.chinfo.qnumber, int) if q is None else q)
        if np.any(psi2.get_total_charge() != want):
            raise Viol(what + ':total-charge', 'get_total_charge() = %r after gauging to %r' % (psi2.get_total_charge(), want))
    elif kind != 'copy':
        raise ValueError(act)
    sh2._cache = None
    sh2.canon = sh.canon if canonical is None else canonical
    if bc == 'infinite' and canonical and any(a < b for a, b in zip(psi2.chi, psi.chi)):
        # canonical_form_infinite1 projected to a smaller chi (rank-deficient input, C07): only the state is checked
        # (norm bookkeeping and exactness of the canonical form are not), and the result is not explored further
        check(psi2, sh2, what, canonical=False, check_norm=False, check_tnorm=False)
        return None, None, 'projected'
    check(psi2, sh2, what, signfree=signfree, canonical=sh2.canon, check_norm=check_norm)
    if not check_norm:
        sh2.norm = psi2.norm
    return psi2, sh2, 'ok'


def chi_pattern(psi, pid):
    """extra_legs for enlarge_chi: 0 alternating ints, 1 all ones, 2 explicit LegCharges (copies of existing charges)."""
    import tenpy.linalg.np_conserved as npc
    nb = psi.L + 1 if psi.finite else psi.L
    if pid == 0:
        extra = [(k % 3) for k in range(nb)]
    elif pid == 1:
        extra = [1] * nb
    else:
        extra = []
        for b in range(nb):
            leg = psi._B[b].get_leg('vL') if b < psi.L else psi._B[-1].get_leg('vR').conj()
            extra.append(npc.LegCharge.from_qflat(psi.chinfo, leg.to_qflat()[[0, -1]], qconj=1) if b % 2 else None)
    if psi.finite:
        extra[0] = extra[-1] = 0 if pid != 2 else None
    return extra


# ------------------------------------------------------------------------------------------------ alphabet

def alphabet(psi, sh, ctx, full):
    """Transformations offered in a state (inside the documented domain of each method)."""
    L, bc = sh.L, sh.bc
    fin = bc != 'infinite'
    acts = []
    if L == 1:
        return [('split', None)] if not sh.plain else []
    nb = L - 1 if fin else L        # bonds that can be swapped
    if sh.zeroS:   # exactly zero singular values are stored: only transformations that never divide by S are defined
        acts = [('swap', 0, 'auto', None), ('group', 2)] + ([('compress', 'svd', None)] if bc == 'finite' else [])
        if sh.plain:
            acts += [('op', 0, pick(sh.elem[0], False), None, False), ('op', L - 1, pick(sh.elem[-1], True), None, False)]
        return acts + ([('roll', 1), ('cell', 2)] if not fin and sh.window(sh.n * 2) > sh.n * 2 else [])
    if sh.plain:
        infos = [op_info(s) for s in sh.elem]
        nu = [pick(s, True) for s in sh.elem]
        nn = [pick(s, False) for s in sh.elem]
        ferm = [sorted(n for n, v in inf.items() if v[2] and n != 'JW' and not n.startswith('JW')) for inf in infos]
        # --- apply_local_op
        if full:
            for i in range(L):
                acts += [('op', i, n, None, False) for n in infos[i] if n != 'Id']
            i = L - 1
            acts += [('op', i, nu[i], True, False), ('op', i, nu[i], False, False), ('op', i, nu[i], None, True),
                     ('op', 0, nn[0], False, False), ('op', 0, nn[0], None, True), ('op', 0, nn[0], False, True)]
            for i in range(nb if fin else L):
                acts += [('op2', i, 'U', None, False), ('op2', i, 'G', None, False)]
            acts += [('op2', 0, 'U', True, False), ('op2', 0, 'T', None, True), ('op2', nb - 1, 'G', False, True)]
            if L >= 3:
                acts += [('op3', 0, 'G', None, False), ('op3', L - 3 if fin else L - 1, 'U', None, False)]
        else:
            acts += [('op', 0, nn[0], None, False), ('op', L - 1, nu[L - 1], None, False), ('op2', nb - 1, 'G', None, False)]
            if ferm[1]:
                acts.append(('op', 1, ferm[1][0], None, False))
        # --- apply_product_op (names must exist on every site)
        if len({repr(s) for s in sh.elem}) == 1:
            prods = [((nn[0],), None, False), ((nu[0],), None, False)]
            if full:
                prods += [((nu[0],), True, False), ((nn[0],), False, True), (('Id', nn[0]) * (L // 2), None, False) if L % 2 == 0
                          else (('Id', nn[0], nu[0])[:L] + ('Id',) * (L - 3), None, False)]
        else:
            prods = [(tuple(nn), None, False)] + ([(tuple(nu), None, True), (tuple(nu), True, False)] if full else [])
        acts += [('prod',) + p for p in prods]
        # --- apply_local_term
        pairs = [(i, j) for i in range(L) for j in range(L)] if full else [(0, L - 1), (L - 1, 0), (1, 1)]
        for i, j in pairs:
            a, b = nn[i], nn[j]
            acts.append(('term', ((a, i), (b, j)), True, 0, False))
            if ferm[i] and ferm[j]:
                cd, c = ferm[i][-1], ferm[j][0]
                acts.append(('term', ((cd, i), (c, j)), True, 0, False))
                if full and i != j:
                    acts.append(('term', ((cd, i), (ferm[j][-1], j)), True, 0, False))
        if full:
            off = 1 if not fin else L - 2
            acts += [('term', ((nn[0], 0),), True, 0, True), ('term', ((nn[off % L], 0), (nu[(1 + off) % L], 1)), True, off, False)]
            for i in range(L):
                if ferm[i]:
                    acts += [('term', ((ferm[i][0], i),), True, 0, False), ('term', ((ferm[i][-1], i),), False, 0, False)]
            if L >= 3 and ferm[0] and ferm[2]:
                acts += [('term', ((ferm[0][-1], 0), (nn[1], 1), (ferm[2][0], 2)), True, 0, False),
                         ('term', ((ferm[2][0], 2), (ferm[0][-1], 0), (nn[1], 1)), True, 0, True)]
        elif ferm[0]:
            acts.append(('term', ((ferm[0][0], 0),), True, 0, False))
        # --- add
        if fin:
            others = ['U']
            if bc == 'finite' and [repr(s) for s in psi.sites] == [repr(s) for s in ctx['phi'].sites] and \
                    np.all(psi.get_total_charge(True) == ctx['phi'].get_total_charge(True)) and \
                    psi._B[0].get_leg('vL').qconj == 1:
                others += ['fix', 'fixA'] + (['fixG'] if psi.chinfo.qnumber else [])
            combos = [(o, c) for o in others for c in range(len(COEFFS))] if full else [(others[-1], 1), ('U', 5)]
            acts += [('add', o, c) for o, c in combos]
        # --- segments
        if bc == 'finite':
            segs = [(f, l) for f in range(L) for l in range(f + 1, L)] if full else [(1, L - 1)]
            acts += [('segment', f, l) for f, l in segs if (f, l) != (0, L - 1) or full]
        elif bc == 'infinite' and sh.n <= 3:
            acts += [('segment', f, l) for f, l in ([(0, L - 1), (1, L), (0, 2 * L - 1), (-1, 1)] if full else [(1, L)])]
        if bc == 'segment' and sh.parent is not None:
            parent, first, last = sh.parent
            if parent.bc == 'finite':
                opts = [('add', 0)] + [('nfl', (a, b)) for a in (first - 1, first) for b in (last, last + 1)
                                       if 0 <= a and b < parent.L and (a, b) != (first, last)]
            else:
                opts = [('add', k) for k in (0, 1) if -k * parent.L <= first] + [('nfl', (first - 1, last)), ('nfl', (first, last + 2))]
            acts += [('enl',) + o for o in (opts if full else opts[:2])]
        if fin and psi.chinfo.qnumber and psi.segment_boundaries[0] is None:
            acts += [('gauge', 'zero')] + ([('gauge', 'q')] if full else [])
    # --- transformations also offered on grouped states
    kinds = ['auto'] + (['none', 'explicit'] if full and fin else []) + \
        (['autoInv'] if full and sh.plain and all(np.any(s.JW_exponent) for s in sh.elem) else [])
    for i in (range(nb) if full else [0, nb - 1]):
        acts += [('swap', i, k, None) for k in kinds if k != 'explicit' or (sh.plain and i + 1 < L)]
        if full or i == 0:
            acts.append(('swap', i, 'auto', 2))
    if L <= 4:
        perms = list(itertools.permutations(range(L)))
        if not full:
            perms = [tuple(range(1, L)) + (0,), tuple(range(L))[::-1]]
        acts += [('perm', p, None) for p in perms] + [('perm', perms[-1], 2)]
    acts += [('group', n) for n in ((2, 3) if full else (2,)) if n <= L]
    if not sh.plain and all(b != 1 for b in sh.blocks):
        acts += [('split', None), ('split', 2)]
    if all(B.get_leg('vL').qconj == 1 for B in psi._B):   # documented for extra legs "with qconj=+1"
        acts += [('chi', 0)] + ([('chi', 1), ('chi', 2)] if full else [])
    if bc != 'segment':
        acts += [('compress', 'svd', None), ('compress', 'svd', 2)]
        if full:
            acts += [('compress', 'SVD', 2)] + ([('compress', 'variational', None), ('compress', 'variational', 2)] if L > 2 else [])
    acts.append(('inv',))
    if not fin:
        acts += [('cell', f) for f in ((2, 3) if full else (2,)) if sh.window(sh.n * f) > sh.n * f]
        acts += [('roll', s) for s in (list(range(1, L)) + [-1, L] if full else [1])]
    forms = ['A', 'B', 'C', 'G', 'Th', (0.25, 0.75), ','.join((['A', 'C', 'B', 'G'] * L)[1:L + 1])] if full else ['A', ','.join((['B', 'A'] * L)[:L])]
    acts += [('form', f) for f in forms]
    if full:
        acts.append(('copy',))
    return list(dict.fromkeys(acts))


# ------------------------------------------------------------------------------------------------ explorer

def explore(start, seed, depth):
    res = dict(evaluations=0, states=0, transitions=0, traces=0, keys=set(), outcomes=set(), violations=[], samples=[])
    vkeys = set()

    def record(key, what_, hist):
        if key not in vkeys and len(res['violations']) < 20:
            vkeys.add(key)
            res['violations'].append(dict(key=key, what=what_, case=dict(start=list(start), seed=seed, history=hist)))

    try:
        psi, sh, ctx = build(start, seed)
    except Viol as v:
        record('start:' + v.key, v.what, [])
        return res
    except Exception as e:  # noqa: BLE001
        record('start:exception:' + type(e).__name__, 'building the start state raised %r\n%s' % (e, traceback.format_exc()[-1200:]), [])
        return res
    seen = {state_key(psi, sh)}
    frontier = [(psi, sh, [])]
    for d in range(depth):
        nxt = []
        for psi, sh, hist in frontier:
            for act in alphabet(psi, sh, ctx, d == 0):
                res['transitions'] += 1
                h2 = hist + [act]
                out = run_step(psi, sh, act, ctx, record, h2)
                if out is None:
                    continue
                psi2, sh2, oc = out
                res['outcomes'].add(act[0] + ':' + oc)
                if d == 0:
                    res['keys'].add('%s|%s' % (start[:3], act))
                if psi2 is None:
                    continue
                k = state_key(psi2, sh2)
                if k not in seen:
                    seen.add(k)
                    nxt.append((psi2, sh2, h2))
        frontier = nxt
        if d == 0 and frontier:
            res['samples'].append(dict(start=list(start), history=frontier[len(frontier) // 2][2]))
    res['states'] = len(seen)
    res['evaluations'] = res['traces'] = res['transitions']
    return res


def run_step(psi, sh, act, ctx, record, hist):
    with warnings.catch_warnings(), contextlib.redirect_stdout(io.StringIO()):
        warnings.simplefilter('ignore')
        try:
            return step(psi, sh, act, ctx)
        except Leaf as e:
            return None, None, str(e)
        except Viol as v:
            record(v.key, '%s after history %r: %s' % (act, hist[:-1], v.what), hist)
            if v.cont is not None:
                return v.cont + ('violation',)
        except Exception as e:  # noqa: BLE001
            slug = '-'.join(''.join(c if c.isalnum() else ' ' for c in str(e).split('\n')[0]).split()[:6])
            key = '%s:%s:exception:%s:%s' % (METHOD[act[0]], sh.bc, type(e).__name__, slug)
            record(key, '%r after %r raised %r\n%s' % (act, hist[:-1], e, traceback.format_exc()[-1200:]), hist)
    return None


# ------------------------------------------------------------------------------------------------ interface

def units(tier, seed, label):
    us = []
    for fam in FAMILIES:
        for bc in ('finite', 'segment', 'infinite'):
            for form in ('B', 'A', 'mix'):
                if tier != 'quick' or (bc, form) != ('infinite', 'A'):   # (time budget of the quick tier)
                    us.append((fam, bc, form, tier, seed))
    return us


def run_unit(unit):
    fam, bc, form, tier, seed = unit
    logging.disable(logging.WARNING)
    res = explore((fam, bc, form, tier), seed, 2 if tier == 'quick' else 3)
    res['keys'] = sorted(res['keys'])
    res['outcomes'] = sorted(res['outcomes'])
    return res


def replay(case):
    start = tuple(case['start'])
    res = dict(evaluations=0, violations=[])
    logging.disable(logging.WARNING)

    def record(key, what_, hist):
        res['violations'].append(dict(key=key, what=what_, case=case))

    try:
        psi, sh, ctx = build(start, case['seed'])
    except Exception as e:  # noqa: BLE001
        record('start:' + getattr(e, 'key', 'exception:' + type(e).__name__), str(e), [])
        return res
    hist = []
    for act in case['history']:
        act = tup(act)
        hist.append(act)
        res['evaluations'] += 1
        out = run_step(psi, sh, act, ctx, record, hist)
        if out is None or out[0] is None:
            break
        psi, sh, _ = out
    return res
