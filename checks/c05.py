"""C05 -- matrix factorizations are exact, structured and charge-compatible.

Exhaustive grid: rank-2 tensors over the leg library (and rank-3 tensors combined to matrices, so legs are pipes)
x reachable total charges x block-presence patterns (missing blocks, one-sided sectors, exact zero / rank-deficient
blocks) x {real, complex}, times the option lattices of svd / qr / lq / eigh / eig / eigvals(h) / expm / pinv /
polar / orthogonal_columns.  Values: VERIF_SEED-keyed well-conditioned numbers (the seed changes values only).
"""
import itertools
import os
import warnings
import zlib

import numpy as np

from vk import kernel as K

UNIT_TIMEOUT = 1800.0
TOL = 1e-9


class Bad(Exception):
    def __init__(self, key, msg):
        super().__init__(msg)
        self.key = key
        self.msg = msg


def rng_for(seed, *what):
    return np.random.default_rng([seed, zlib.crc32(repr(what).encode())])


def build(ch, l1, l2, qtotal, present, dtype, seed, deficient=None, labels=('a', 'b')):
    """Array with legs (l1, l2), the given stored blocks filled with seeded generic values."""
    import tenpy.linalg.np_conserved as npc
    legs = [l1.make(), l2.make()]
    rng = rng_for(seed, ch, l1.key(), l2.key(), qtotal, present, str(dtype))
    a = npc.Array(legs, np.dtype(dtype), list(qtotal), list(labels))
    data, qdata = [], []
    s1, s2 = l1.slices(), l2.slices()
    for bi, (q1, q2) in enumerate(present):
        shp = (s1[q1 + 1] - s1[q1], s2[q2 + 1] - s2[q2])
        blk = rng.uniform(0.5, 1.5, shp) * rng.choice([-1.0, 1.0], shp)
        if np.dtype(dtype).kind == 'c':
            blk = blk + 1j * rng.uniform(0.5, 1.5, shp) * rng.choice([-1.0, 1.0], shp)
        blk = blk + 2.0 * np.eye(*shp)  # well conditioned
        if deficient == 'zerocol' and bi == 0 and shp[1] >= 1:
            blk[:, 0] = 0.0
        if deficient == 'zeroblock' and bi == 0:
            blk[...] = 0.0
        data.append(np.ascontiguousarray(blk.astype(dtype)))
        qdata.append((q1, q2))
    a._data = data
    a._qdata = np.array(qdata, dtype=np.intp).reshape(len(qdata), 2)
    a._qdata_sorted = len(qdata) <= 1
    return a


def matrices(ch, tier):
    """Yield json-able matrix descriptors."""
    lib = K.leg_library(ch, small=(tier == 'quick'))
    out = []
    for i1, l1 in enumerate(lib):
        for i2, l2 in enumerate(lib):
            qts = K.reachable_qtotals([l1, l2])
            zero = tuple(0 for _ in K.mods(ch))
            qts = sorted(qts, key=lambda q: (q != zero, q))[:2]
            for q in qts:
                blocks = K.allowed_blocks([l1, l2], q)
                if not blocks:
                    continue
                for pname, idxs in K.block_patterns(blocks):
                    if not idxs:
                        continue
                    present = [list(blocks[i]) for i in idxs]
                    for dt in (('float64', 'complex128')[(i1 + i2 + len(idxs)) % 2],):
                        out.append(dict(ch=ch, l1=i1, l2=i2, q=list(q), present=present, dtype=dt, deficient=None))
                    if pname in ('all', 'subset') and len(idxs) == len(blocks):
                        out.append(dict(ch=ch, l1=i1, l2=i2, q=list(q), present=present, dtype='float64', deficient='zerocol'))
                        if len(blocks) >= 2:
                            out.append(dict(ch=ch, l1=i1, l2=i2, q=list(q), present=present, dtype='complex128', deficient='zeroblock'))
    return out


def dense_of(a):
    return a.to_ndarray()


def isclose(x, y, tol=TOL):
    x, y = np.asarray(x), np.asarray(y)
    if x.shape != y.shape:
        return False
    if x.size == 0:
        return True
    return bool(np.abs(x - y).max() <= tol * (1 + np.abs(y).max()))


def finite(*arrs):
    for x in arrs:
        x = np.asarray(x)
        if x.size and not np.all(np.isfinite(x)):
            return False
    return True


def herm(x):
    return np.conj(np.transpose(x))


# ----------------------------------------------------------------------------------------------- per-function oracles

def chk_svd(a, ev):
    import tenpy.linalg.np_conserved as npc
    A = dense_of(a)
    sv = np.linalg.svd(A, compute_uv=False) if A.size else np.zeros(0)
    ci = a.chinfo
    qn = ci.qnumber
    qt_opts = [[None, None]]
    if qn:
        one = ci.make_valid(np.ones(qn, dtype=np.int64))
        qt_opts += [[one, None], [None, one], [one, ci.make_valid(a.qtotal - one)]]
    for qtotal_LR in qt_opts:
        for inner_qconj in (1, -1):
            for cutoff in (None, 0.0, 1e-8, 'mid'):
                ev[0] += 1
                cval = cutoff
                if cutoff == 'mid':
                    nz = np.sort(sv[sv > 1e-6])
                    if len(nz) < 2 or nz[1] - nz[0] < 1e-3:
                        continue
                    cval = 0.5 * (nz[0] + nz[1])
                opt = 'qtotal_LR=%s,inner_qconj=%d,cutoff=%s' % ([None if q is None else list(q) for q in qtotal_LR], inner_qconj, cutoff)
                if cval is not None and not np.any(sv > cval + 1e-9):
                    continue  # no singular value above the cutoff: the library raises by design
                U, S, VH = npc.svd(a, cutoff=cval, qtotal_LR=qtotal_LR, inner_labels=['i', 'i*'], inner_qconj=inner_qconj)
                if not finite(S, U.to_ndarray(), VH.to_ndarray()):
                    raise Bad('svd:nan', 'NaN/inf in svd result (%s)' % opt)
                for m in K.array_invariants(U) + K.array_invariants(VH):
                    raise Bad('svd:invariant', '%s (%s)' % (m, opt))
                if np.any(S < 0):
                    raise Bad('svd:negative-S', 'negative singular value (%s)' % opt)
                try:
                    rec = npc.tensordot(U.scale_axis(S, 1), VH, axes=1)
                except Exception as e:  # noqa: BLE001
                    raise Bad('svd:not-contractible', 'U and VH are not contractible: %s (%s)' % (e, opt))
                if U.get_leg_labels() != ['a', 'i'] or VH.get_leg_labels() != ['i*', 'b']:
                    raise Bad('svd:labels', 'labels %r %r' % (U.get_leg_labels(), VH.get_leg_labels()))
                R = rec.to_ndarray()
                kept_ref = sv if cval is None else sv[sv > cval]
                err2 = float(np.sum(sv ** 2) - np.sum(kept_ref ** 2))
                if cval is None or cval == 0.0:
                    if not isclose(R, A):
                        raise Bad('svd:reconstruction', 'U S VH != a (%s)' % opt)
                elif abs(np.linalg.norm(R - A) ** 2 - err2) > 1e-8 * (1 + np.sum(sv ** 2)):
                    raise Bad('svd:cutoff-error', '|U S VH - a|^2 = %g, discarded weight %g (%s)' % (np.linalg.norm(R - A) ** 2, err2, opt))
                Ud, Vd = U.to_ndarray(), VH.to_ndarray()
                if not isclose(herm(Ud) @ Ud, np.eye(len(S))) or not isclose(Vd @ herm(Vd), np.eye(len(S))):
                    raise Bad('svd:not-isometric', 'U or VH is not an isometry (%s)' % opt)
                nzS = np.sort(S[S > 1e-10])
                nzref = np.sort(kept_ref[kept_ref > 1e-10])
                if len(nzS) != len(nzref) or (len(nzS) and np.abs(nzS - nzref).max() > 1e-8 * (1 + nzref.max())):
                    raise Bad('svd:singular-values', 'singular values %s, numpy %s (%s)' % (nzS, nzref, opt))
                if cval is not None and np.any(S <= cval):
                    raise Bad('svd:cutoff-kept', 'kept a singular value <= cutoff (%s)' % opt)
                exp_L = qtotal_LR[0] if qtotal_LR[0] is not None else (ci.make_valid(a.qtotal - qtotal_LR[1]) if qtotal_LR[1] is not None else ci.make_valid(None))
                exp_R = ci.make_valid(a.qtotal - exp_L)
                if not np.array_equal(U.qtotal, exp_L) or not np.array_equal(VH.qtotal, exp_R):
                    raise Bad('svd:qtotal', 'U.qtotal=%s VH.qtotal=%s requested %s %s (%s)' % (U.qtotal, VH.qtotal, exp_L, exp_R, opt))
                if VH.legs[0].qconj != inner_qconj:
                    raise Bad('svd:inner_qconj', 'VH.legs[0].qconj=%d (%s)' % (VH.legs[0].qconj, opt))
    # values only
    ev[0] += 1
    S2 = npc.svd(a, compute_uv=False)
    nz = np.sort(S2[S2 > 1e-10])
    ref = np.sort(sv[sv > 1e-10])
    if len(nz) != len(ref) or (len(nz) and np.abs(nz - ref).max() > 1e-8 * (1 + ref.max())):
        raise Bad('svd:compute_uv=False', 'singular values differ from numpy')
    # full matrices
    ev[0] += 1
    U, S, VH = npc.svd(a, full_matrices=True)
    Ud, Vd = U.to_ndarray(), VH.to_ndarray()
    if Ud.shape != (A.shape[0],) * 2 or Vd.shape != (A.shape[1],) * 2:
        raise Bad('svd:full_matrices:shape', 'shapes %s %s' % (Ud.shape, Vd.shape))
    if not isclose(herm(Ud) @ Ud, np.eye(A.shape[0])) or not isclose(Vd @ herm(Vd), np.eye(A.shape[1])):
        stored = len(a._data)
        raise Bad('svd:full_matrices:not-unitary', 'U or VH is not unitary with full_matrices=True (%d blocks stored)' % stored)


def chk_qr(a, ev):
    import tenpy.linalg.np_conserved as npc
    A = dense_of(a)
    ci = a.chinfo
    qn = ci.qnumber
    blocked = all(l.is_blocked() and l.is_sorted() for l in a.legs)
    qts = [None] + ([ci.make_valid(np.ones(qn, dtype=np.int64)), a.qtotal.copy()] if qn else [])
    for fname in ('qr', 'lq'):
        for mode in ('reduced', 'complete'):
            for cutoff in (None, 1e-10):
                if cutoff is not None and mode == 'complete':
                    continue
                for pos in (False, True):
                    for qtQ in qts:
                        for inner_qconj in (1, -1):
                            ev[0] += 1
                            opt = '%s(mode=%s,cutoff=%s,pos_diag=%s,qtotal_Q=%s,inner_qconj=%d)' % (fname, mode, cutoff, pos, None if qtQ is None else list(qtQ), inner_qconj)
                            if fname == 'qr':
                                Q, R = npc.qr(a, mode=mode, inner_labels=['i', 'i*'], cutoff=cutoff, pos_diag_R=pos, qtotal_Q=qtQ, inner_qconj=inner_qconj)
                            else:
                                R, Q = npc.lq(a, mode=mode, inner_labels=['i', 'i*'], cutoff=cutoff, pos_diag_L=pos, qtotal_Q=qtQ, inner_qconj=inner_qconj)
                            Qd, Rd = Q.to_ndarray(), R.to_ndarray()
                            if not finite(Qd, Rd):
                                raise Bad('%s:nan' % fname, 'NaN/inf in the result of %s' % opt)
                            for m in K.array_invariants(Q) + K.array_invariants(R):
                                raise Bad('%s:invariant' % fname, '%s (%s)' % (m, opt))
                            try:
                                rec = npc.tensordot(Q, R, axes=1) if fname == 'qr' else npc.tensordot(R, Q, axes=1)
                            except Exception as e:  # noqa: BLE001
                                raise Bad('%s:not-contractible' % fname, '%s (%s)' % (e, opt))
                            if not isclose(rec.to_ndarray(), A, 1e-8):
                                raise Bad('%s:reconstruction' % fname, 'Q R != a for %s' % opt)
                            QQ = herm(Qd) @ Qd if fname == 'qr' else Qd @ herm(Qd)
                            if not isclose(QQ, np.eye(QQ.shape[0])):
                                raise Bad('%s:not-isometric' % fname, 'Q is not an isometry for %s' % opt)
                            if mode == 'complete':
                                QQ2 = Qd @ herm(Qd) if fname == 'qr' else herm(Qd) @ Qd
                                if Qd.shape[0] != Qd.shape[1] or not isclose(QQ2, np.eye(QQ2.shape[0])):
                                    raise Bad('%s:complete-not-unitary' % fname, 'Q is not unitary for %s' % opt)
                            expQ = ci.make_valid(qtQ)
                            if not np.array_equal(Q.qtotal, expQ) or not np.array_equal(ci.make_valid(Q.qtotal + R.qtotal), a.qtotal):
                                raise Bad('%s:qtotal' % fname, 'Q.qtotal=%s R.qtotal=%s for %s' % (Q.qtotal, R.qtotal, opt))
                            inner = R.legs[0] if fname == 'qr' else R.legs[1]
                            if fname == 'qr' and inner.qconj != inner_qconj:
                                raise Bad('qr:inner_qconj', 'R.legs[0].qconj=%d for %s' % (inner.qconj, opt))
                            if blocked and fname == 'qr':
                                for row, blk in zip(R._qdata, R._data):
                                    if blk.size and np.abs(np.tril(blk, -1)).max() > 1e-10:
                                        raise Bad('qr:R-not-triangular', 'a block of R is not upper triangular for %s' % opt)
                                    if pos and blk.size:
                                        dg = np.diag(blk)
                                        if np.any(dg.real < -1e-12) or np.abs(dg.imag).max() > 1e-12:
                                            raise Bad('qr:pos_diag_R', 'diagonal of R not non-negative for %s' % opt)


def hermitian_from(a):
    """H = a + a^dagger for a square `a` with contractible legs and zero total charge (else None)."""
    l0, l1 = a.legs
    try:
        l0.test_contractible(l1)
    except ValueError:
        return None
    if np.any(a.qtotal != 0):
        return None
    return a + a.conj().itranspose()


def chk_eig(a, ev):
    import tenpy.linalg.np_conserved as npc
    h = hermitian_from(a)
    if h is None:
        return
    H = dense_of(h)
    wref = np.linalg.eigvalsh(H)
    for sort in (None, 'm>', 'm<', '>', '<'):
        for UPLO in ('L', 'U'):
            ev[0] += 1
            opt = 'eigh(sort=%s,UPLO=%s)' % (sort, UPLO)
            W, V = npc.eigh(h, UPLO=UPLO, sort=sort)
            Vd = V.to_ndarray()
            if not finite(W, Vd):
                raise Bad('eigh:nan', opt)
            if not isclose(H @ Vd, Vd * W[np.newaxis, :], 1e-8):
                raise Bad('eigh:eigenpairs', 'a v != w v for %s' % opt)
            if not isclose(herm(Vd) @ Vd, np.eye(len(W))) or Vd.shape[0] != Vd.shape[1]:
                raise Bad('eigh:not-unitary', 'V not unitary for %s' % opt)
            if not isclose(np.sort(W), wref, 1e-8):
                raise Bad('eigh:eigenvalues', 'eigenvalues differ from numpy for %s' % opt)
            if V.get_leg_labels() != ['a', 'eig']:
                raise Bad('eigh:labels', repr(V.get_leg_labels()))
            try:
                npc.tensordot(h, V, axes=1)
                npc.tensordot(V.conj(), V, axes=[0, 0])
            except Exception as e:  # noqa: BLE001
                raise Bad('eigh:not-contractible', '%s for %s' % (e, opt))
            # order inside each charge block of the new leg
            leg = V.legs[1]
            if sort in ('>', '<') and leg.is_blocked():
                for b in range(leg.block_number):
                    w = W[leg.slices[b]:leg.slices[b + 1]]
                    d = np.diff(w)
                    if (sort == '<' and np.any(d < -1e-12)) or (sort == '>' and np.any(d > 1e-12)):
                        raise Bad('eigh:sort-order', 'eigenvalues not sorted %r inside a block' % sort)
            ev[0] += 1
            W2 = npc.eigvalsh(h, UPLO=UPLO, sort=sort)
            if not isclose(np.sort(W2), wref, 1e-8):
                raise Bad('eigvalsh:eigenvalues', 'for %s' % opt)
    # general matrix
    if np.any(a.qtotal != 0):
        return
    A = dense_of(a)
    ev[0] += 1
    W, V = npc.eig(a)
    Vd = V.to_ndarray()
    if not finite(W, Vd):
        raise Bad('eig:nan', 'eig')
    if not isclose(A @ Vd, Vd * W[np.newaxis, :], 1e-7):
        raise Bad('eig:eigenpairs', 'a v != w v')
    wr = np.linalg.eigvals(A)
    for w in W:
        if np.abs(wr - w).min() > 1e-6 * (1 + np.abs(wr).max()):
            raise Bad('eig:eigenvalues', 'eigenvalue %r not found by numpy' % (w,))
    ev[0] += 1
    W3 = npc.eigvals(a)
    if len(W3) != len(wr) or any(np.abs(wr - w).min() > 1e-6 * (1 + np.abs(wr).max()) for w in W3):
        raise Bad('eigvals:eigenvalues', 'differ from numpy')
    # expm
    import scipy.linalg
    ev[0] += 1
    E = npc.expm(0.3 * a)
    if not isclose(E.to_ndarray(), scipy.linalg.expm(0.3 * A), 1e-8):
        raise Bad('expm:values', 'expm differs from scipy.linalg.expm')
    if E.get_leg_labels() != a.get_leg_labels() or not np.array_equal(E.qtotal, a.qtotal):
        raise Bad('expm:labels-qtotal', 'labels/qtotal changed')
    for l1, l2 in zip(E.legs, a.legs):
        try:
            l1.test_equal(l2)
        except Exception as e:  # noqa: BLE001
            raise Bad('expm:legs', str(e))


def chk_pinv_polar(a, ev, deficient):
    import tenpy.linalg.np_conserved as npc
    A = dense_of(a)
    if not A.size or np.linalg.svd(A, compute_uv=False).max() < 1e-9:
        return  # zero matrix: svd with a cutoff raises by design
    ev[0] += 1
    P = npc.pinv(a, cutoff=1e-12)
    Pd = P.to_ndarray()
    if not finite(Pd):
        raise Bad('pinv:nan', 'NaN in pinv')
    if Pd.shape != A.T.shape:
        raise Bad('pinv:shape', str(Pd.shape))
    for name, lhs, rhs in (('A P A = A', A @ Pd @ A, A), ('P A P = P', Pd @ A @ Pd, Pd), ('(A P)^+ = A P', herm(A @ Pd), A @ Pd), ('(P A)^+ = P A', herm(Pd @ A), Pd @ A)):
        if not isclose(lhs, rhs, 1e-7):
            raise Bad('pinv:moore-penrose', 'identity %s violated' % name)
    try:
        npc.tensordot(a, P, axes=1)
        npc.tensordot(P, a, axes=1)
    except Exception as e:  # noqa: BLE001
        raise Bad('pinv:not-contractible', str(e))
    for left in (False, True):
        ev[0] += 1
        u, p, s = npc.polar(a, left=left, inner_labels=['i', 'i*'])
        ud, pd = u.to_ndarray(), p.to_ndarray()
        if not finite(ud, pd, s):
            raise Bad('polar:nan', 'left=%s' % left)
        rec = (pd @ ud) if left else (ud @ pd)
        if not isclose(rec, A, 1e-8):
            raise Bad('polar:reconstruction', 'u p != a (left=%s)' % left)
        if not isclose(pd, herm(pd), 1e-8) or (pd.size and np.linalg.eigvalsh(0.5 * (pd + herm(pd))).min() < -1e-8):
            raise Bad('polar:p-not-psd', 'p is not Hermitian positive semi-definite (left=%s)' % left)
        if deficient is None and np.linalg.matrix_rank(A) == min(A.shape):
            iso = (herm(ud) @ ud) if A.shape[0] >= A.shape[1] else (ud @ herm(ud))
            if not isclose(iso, np.eye(iso.shape[0]), 1e-8):
                raise Bad('polar:u-not-isometric', 'left=%s' % left)
        try:
            npc.tensordot(p, u, axes=1) if left else npc.tensordot(u, p, axes=1)
        except Exception as e:  # noqa: BLE001
            raise Bad('polar:not-contractible', '%s (left=%s)' % (e, left))


def chk_ortho(a, ev):
    import tenpy.linalg.np_conserved as npc
    A = dense_of(a)
    M, N = A.shape
    if M <= N or np.linalg.matrix_rank(A) != N:
        return
    ev[0] += 1
    o = npc.orthogonal_columns(a, 'o')
    od = o.to_ndarray()
    if od.shape != (M, M - N):
        raise Bad('orthogonal_columns:shape', 'shape %s expected %s' % (od.shape, (M, M - N)))
    if not isclose(herm(od) @ od, np.eye(M - N)) or not isclose(herm(od) @ A, np.zeros((M - N, N)), 1e-8):
        raise Bad('orthogonal_columns:not-orthogonal', 'columns not orthonormal / not orthogonal to a')
    for m in K.array_invariants(o):
        raise Bad('orthogonal_columns:invariant', m)
    try:
        npc.tensordot(o.conj(), a, axes=[0, 0])
    except Exception as e:  # noqa: BLE001
        raise Bad('orthogonal_columns:not-contractible', str(e))


CHECKS = [('svd', chk_svd), ('qr', chk_qr), ('eig', chk_eig)]


def run_matrix(desc, seed, lib, piped=False):
    warnings.simplefilter('ignore')
    l1, l2 = lib[desc['l1']], lib[desc['l2']]
    a = build(desc['ch'], l1, l2, tuple(desc['q']), [tuple(b) for b in desc['present']], desc['dtype'], seed, desc['deficient'])
    if piped:
        # legs become pipes: combine each leg with a trivial-charge leg of length 2 in front / behind
        import tenpy.linalg.np_conserved as npc
        ci = a.chinfo
        t = npc.LegCharge.from_qflat(ci, [ci.make_valid(None)] * 2, 1)
        b = npc.Array.from_func(lambda shape: np.arange(1.0, 1 + int(np.prod(shape))).reshape(shape) / 3.0, [t, t.conj()], labels=['x', 'y'])
        big = npc.outer(b, a).itranspose(['x', 'a', 'b', 'y'])
        a = big.combine_legs([['x', 'a'], ['b', 'y']], qconj=[l1.qconj, l2.qconj]).iset_leg_labels(['a', 'b'])
    ev = [0]
    viol = []
    fns = list(CHECKS) + [('pinv_polar', lambda x, e: chk_pinv_polar(x, e, desc['deficient'])), ('ortho', chk_ortho)]
    for name, fn in fns:
        try:
            fn(a, ev)
        except Bad as e:
            viol.append((e.key, e.msg))
        except Exception as e:  # noqa: BLE001
            import traceback
            viol.append(('%s:exception:%s' % (name, type(e).__name__), traceback.format_exc()[-900:]))
    return ev[0], viol


def units(tier, seed, label):
    us = []
    chs = K.CHINFOS_QUICK if tier == 'quick' else K.CHINFOS_THOROUGH
    for ch in chs:
        n = len(matrices(ch, tier))
        stride = 1
        if tier == 'quick':
            stride = 2 if ch in ('U1', 'Z3', 'U1xZ2') else 4
        chunk = 80 if tier == 'quick' else 40
        for a in range(0, n, chunk):
            us.append((ch, a, min(n, a + chunk), stride, tier, seed, False))
        for a in range(0, n, chunk * 4):
            us.append((ch, a, min(n, a + chunk * 4), stride * 6, tier, seed, True))
    return us


def run_unit(unit):
    ch, a, b, stride, tier, seed, piped = unit
    lib = K.leg_library(ch, small=(tier == 'quick'))
    ms = matrices(ch, tier)
    ev = 0
    viol = []
    keys = set()
    sample = None
    for i in range(a, b):
        if i % stride:
            continue
        d = ms[i]
        n, v = run_matrix(d, seed, lib, piped)
        ev += n
        for key, msg in v:
            if len(viol) < 10:
                viol.append(dict(key=key, what='matrix %r%s: %s' % (d, ' (legs as pipes)' if piped else '', msg), case=dict(desc=d, seed=seed, tier=tier, piped=piped)))
        l1, l2 = lib[d['l1']], lib[d['l2']]
        nblocks = len(K.allowed_blocks([l1, l2], tuple(d['q'])))
        if d['deficient'] or len(d['present']) < nblocks or l1.name in ('unsorted', 'dupadj', 'dupsep', 'zero2') or l2.name in ('unsorted', 'dupadj', 'dupsep', 'zero2') or piped:
            keys.add('%s:%d:%s' % (ch, i, piped))
        sample = dict(d, legs=[repr(l1), repr(l2)], piped=piped)
    return dict(evaluations=ev, keys=keys, violations=viol, samples=[sample] if sample else [])


def replay(case):
    d = case['desc']
    lib = K.leg_library(d['ch'], small=(case['tier'] == 'quick'))
    n, v = run_matrix(d, case['seed'], lib, case.get('piped', False))
    return dict(evaluations=n, violations=[dict(key=k, what=m, case=case) for k, m in v])
