"""C14 -- time evolution applies exp(-iHt) with correct time and error accounting.

Parts (every case is one deterministic run of a real tenpy engine on a 4..8 site chain, reference = dense numpy):
  schedule : suzuki_trotter_decomposition x suzuki_trotter_time_steps, symbolic (exact rationals over the named
             constants) for every order and N_steps 0..6: equals the N-fold repetition of one step with adjacent
             same-parity steps merged; sums to N_steps on even and on odd bonds.
  ladder   : untruncated evolution to a fixed T with dt = T/n, n in (2, 4, 8); error against expm(-iHT) psi0 (for
             time dependent engines: against the documented product of exp(-i dt H(t_k))) shrinks with the documented
             order p (ratio of the two finest errors >= 2^(p-0.6), or error < 1e-11); charge sector, norm and energy
             conservation.
  hist     : every composition of N_total <= 3 (4 thorough) steps into calls of run / run_evolution /
             prepare_evolve+evolve (plus calls with 0 steps and calls that change dt): evolved_time exact, final
             state independent of the split (untruncated), reported truncation error = sum of the errors of the
             intercepted truncations (truncated), TEBD per-bond errors likewise.
"""
import copy
import itertools
import logging
import traceback
import warnings
from fractions import Fraction

import numpy as np
import scipy.linalg

UNIT_TIMEOUT = 900.0
T_LADDER = 0.25
N_LADDER = (2, 4, 8)
DT_HIST = 0.0625  # dyadic: all sums of time steps are exact in binary floating point
START = 0.25
START_EPS = 2.0 ** -10
NO_TRUNC = dict(chi_max=400, svd_min=1e-14, trunc_cut=None)
TRUNC = dict(chi_max=2, svd_min=1e-14, trunc_cut=None)
EXACT = 1e-11  # below this error only smallness is required

# name -> (module, class, options, order p, flags); flags: nn = needs H_bond, unitary = built from unitary gates /
# tangent-space projection (norm exactly conserved in real time), tdvp = energy exactly conserved,
# src = where the engine takes the error of one truncation step from, td = time dependent variant (value: its static
# counterpart), slow = shorter histories, expand = prepare_evolve enlarges the bonds (Krylov / random expansion)
ENGINES = {}


def _eng(name, module, cls, opt, p, **flags):
    ENGINES[name] = dict(module=module, cls=cls, opt=opt, p=p, nn=False, unitary=False, tdvp=False, td=False, src='truncate', prod_ok=True, slow=False, expand=False)
    ENGINES[name].update(flags)


QR_OPT = dict(cbe_expand=8.0, cbe_min_block_increase=8)  # expansion large enough to represent every state of <= 8 sites
for _o, _n in ((1, '1'), (2, '2'), (4, '4'), ('4_opt', '4opt')):
    _eng('tebd' + _n, 'tebd', 'TEBDEngine', dict(order=_o), 4 if _o == '4_opt' else _o, nn=True, unitary=True)
    if _o in (2, 4):
        _eng('qrtebd' + _n, 'tebd', 'QRBasedTEBDEngine', dict(order=_o, **QR_OPT), _o, nn=True, unitary=True, src='qr', slow=_o == 4)
for _o in (1, 2):
    for _a in ('I', 'II'):
        for _c in ('SVD', 'variational', 'zip_up'):
            _eng('mpo%d%s%s' % (_o, _a, _c), 'mpo_evolution', 'ExpMPOEvolution', dict(order=_o, approximation=_a, compression_method=_c), _o,
                 src='apply' if _c == 'variational' else 'truncate', slow=_c == 'variational')
# single-site TDVP cannot leave the manifold of its start state: order claim only from states of maximal bond dimension
_TDVP = dict(unitary=True, tdvp=True, slow=True)
_eng('tdvp1', 'tdvp', 'SingleSiteTDVPEngine', {}, 2, prod_ok=False, **_TDVP)
_eng('tdvp2', 'tdvp', 'TwoSiteTDVPEngine', {}, 2, prod_ok='nn', **_TDVP)
_eng('tdvp1xR', 'tdvp', 'SingleSiteTDVPEngine', dict(Krylov_params=dict(expansion_dim=2, mpo=None)), 2, prod_ok=False, expand=True, **_TDVP)
_eng('tdvp1xH', 'tdvp', 'SingleSiteTDVPEngine', dict(Krylov_params=dict(expansion_dim=1, apply_mpo_options=dict(compression_method='SVD', trunc_params=dict(NO_TRUNC)))),
     2, prod_ok=False, expand=True, **_TDVP)
_eng('td_tebd2', 'tebd', 'TimeDependentTEBD', dict(order=2), 2, nn=True, unitary=True, td='tebd2', slow=True)
_eng('td_tebd4', 'tebd', 'TimeDependentTEBD', dict(order=4), 4, nn=True, unitary=True, td='tebd4', slow=True)
_eng('td_mpo2IISVD', 'mpo_evolution', 'TimeDependentExpMPOEvolution', dict(order=2, approximation='II', compression_method='SVD'), 2, td='mpo2IISVD', slow=True)
_eng('td_mpo1Izip_up', 'mpo_evolution', 'TimeDependentExpMPOEvolution', dict(order=1, approximation='I', compression_method='zip_up'), 1, td='mpo1Izip_up', slow=True)
_eng('td_tdvp1', 'tdvp', 'TimeDependentSingleSiteTDVP', {}, 2, prod_ok=False, td='tdvp1', **_TDVP)
_eng('td_tdvp2', 'tdvp', 'TimeDependentTwoSiteTDVP', {}, 2, prod_ok='nn', td='tdvp2', **_TDVP)
RAMP = 0.8
DT_UNIT = {False: 1.0, True: -1j, 'c': 1.0 - 0.5j}  # `imag` flag of a case -> direction of the time step in the complex plane
DT_NAME = {False: 'real', True: 'imag', 'c': 'complex'}
# the bookkeeping code of these is shared with an engine that is in the quick tier (same class, other order / MPO approximation)
HIST_THOROUGH_ONLY = {'qrtebd4', 'td_tebd4', 'tdvp1xR', 'tdvp1xH', 'mpo1IISVD', 'mpo1IIvariational', 'mpo1IIzip_up', 'mpo2ISVD', 'mpo2Ivariational', 'mpo2Izip_up'}


def _kinds(name):
    from checks import c14_models as M
    return M.NN_KINDS if ENGINES[name]['nn'] else M.KINDS


# ---------------------------------------------------------------- units

def histories(nmax, methods):
    """Every composition of N = 1..nmax into calls (method, n_steps, dt-factor) + calls with 0 steps + dt changes."""
    out = []
    for N in range(1, nmax + 1):
        for cuts in itertools.product((0, 1), repeat=N - 1):
            parts, cur = [], 1
            for c in cuts:
                if c:
                    parts.append(cur)
                    cur = 1
                else:
                    cur += 1
            parts.append(cur)
            for ms in itertools.product(methods, repeat=len(parts)):
                out.append([(m, n, 1.0) for m, n in zip(ms, parts)])
    for m in methods:
        out += [[(m, 0, 1.0)], [(m, 0, 1.0), (m, 1, 1.0)], [(m, 2, 1.0), (m, 0, 1.0)]]
    for m1, m2 in itertools.product(methods, repeat=2):
        out.append([(m1, 1, 1.0), (m2, 2, 0.5)])
    return out


def units(tier, seed, label):
    quick = tier == 'quick'
    us = [('schedule', seed)]
    names = sorted(ENGINES)
    for ie, name in enumerate(names):
        kinds = _kinds(name)
        for ik, kind in enumerate(kinds):
            for L in (4, 6) if quick else (4, 6, 8):
                for imag in (False, True):
                    if ENGINES[name]['td'] and imag:
                        continue
                    if quick:
                        # every engine on every model at L=4 in real time; L=6 and imaginary time on a rotating subset
                        if (L == 6 or imag) and (ie + ik + imag) % len(kinds) != 0:
                            continue
                        if L == 6 and imag:
                            continue
                    elif L == 8 and ((ie + ik) % len(kinds) != 0 or imag):
                        continue
                    us.append(('ladder', name, kind, L, imag, tier, seed))
    for ie, name in enumerate(names):
        kinds = _kinds(name)
        if quick and name in HIST_THOROUGH_ONLY:
            continue
        # histories: one model per engine (rotating), thorough two for the fast engines; imaginary dt for every third engine in
        # quick, imaginary and general complex dt in thorough (a time dependent H(t) is only defined for real t)
        for ik in range(1 if quick or ENGINES[name]['slow'] else 2):
            if ENGINES[name]['td']:
                dts = (False,)
            elif quick:
                dts = (False, True) if ie % 3 == 0 else (False,)
            else:
                dts = (False, True, 'c') if ENGINES[name]['slow'] else ((False, True), (False, 'c'))[ik]
            for imag in dts:
                for trunc in (False,) if 'SingleSite' in ENGINES[name]['cls'] else (False, True):  # (single-site TDVP never truncates)
                    us.append(('hist', name, kinds[(ie + ik) % len(kinds)], imag, trunc, tier, seed))
    cost = lambda u: (u[0] != 'hist', u[0] == 'schedule', -u[3] if u[0] == 'ladder' else 0)
    return sorted(us, key=cost)


# ---------------------------------------------------------------- schedule arithmetic (exact)

SYMBOLS = {  # order -> (names of the irrational constants, time step j as rational linear form over (1, *constants))
    1: ((), [(1,)]),
    2: ((), [(Fraction(1, 2),), (1,)]),
    4: (('t1',), [(0, Fraction(1, 2)), (0, 1), (Fraction(1, 2), Fraction(-3, 2)), (1, -4)]),
    '4_opt': (('a1', 'b1', 'a2', 'b2'), [(0, 1, 0, 0, 0), (0, 0, 1, 0, 0), (0, 0, 0, 1, 0), (0, 0, 0, 0, 1), (Fraction(1, 2), -1, 0, -1, 0),
                                         (1, 0, -2, 0, -2), (0, 2, 0, 0, 0)]),
}
CONSTANTS = dict(t1=1.0 / (4.0 - 4.0 ** (1.0 / 3.0)), a1=0.095848502741203681182, b1=0.42652466131587616168, a2=-0.078111158921637922695,
                 b2=-0.12039526945509726545)


def _merge(seq):
    """Merge adjacent steps acting on the same bond parity: list of (parity, linear form)."""
    out = []
    for par, form in seq:
        if out and out[-1][0] == par:
            out[-1] = (par, tuple(a + b for a, b in zip(out[-1][1], form)))
        else:
            out.append((par, tuple(Fraction(x) for x in form)))
    return out


def check_schedule(order, N):
    from tenpy.algorithms.tebd import TEBDEngine
    names, forms = SYMBOLS[order]
    steps = TEBDEngine.suzuki_trotter_time_steps(order)
    if len(steps) != len(forms):
        return 'suzuki_trotter_time_steps(%r) has %d entries, documented %d' % (order, len(steps), len(forms))
    for j, (s, form) in enumerate(zip(steps, forms)):
        val = float(form[0]) + sum(float(c) * CONSTANTS[n] for c, n in zip(form[1:], names))
        if abs(s - val) > 4e-16:
            return 'time step %d of order %r is %r, documented value %r' % (j, order, s, val)
    dec = TEBDEngine.suzuki_trotter_decomposition(order, N)
    one = TEBDEngine.suzuki_trotter_decomposition(order, 1)
    for j, k in list(dec) + list(one):
        if not (0 <= j < len(forms)) or k not in (0, 1):
            return 'invalid entry (%r, %r) in the decomposition' % (j, k)
    seq = [(k, forms[j]) for j, k in dec]
    if any(a[0] == b[0] for a, b in zip(seq, seq[1:])):
        return 'consecutive steps on the same bond parity are not merged: %s' % (dec,)
    ref = _merge([(k, forms[j]) for j, k in one] * N)
    if _merge(seq) != ref:
        return 'decomposition for N_steps=%d differs from %d repetitions of one step (merged): %s' % (N, N, dec)
    zero = tuple([Fraction(0)] * len(names))
    for par in (0, 1):
        tot = tuple(sum((Fraction(form[i]) for k, form in seq if k == par), Fraction(0)) for i in range(len(names) + 1))
        if tot != (Fraction(N),) + zero:
            return 'time steps on %s bonds sum to %s, not N_steps=%d' % (('even', 'odd')[par], tot, N)
    return None


def run_schedule(unit):
    from tenpy.algorithms.tebd import TEBDEngine
    viol, keys, ev = [], [], 0
    for order in SYMBOLS:
        for N in range(0, 7):
            ev += 1
            keys.append('schedule:%s:%d' % (order, N))
            try:
                msg = check_schedule(order, N)
            except Exception as e:  # noqa: BLE001
                msg = 'exception %s: %s' % (type(e).__name__, e)
            if msg:
                viol.append(dict(key='schedule:order=%s:%s' % (order, msg.split(' ')[0]), what='order %r N_steps %d: %s' % (order, N, msg),
                                 case=dict(part='schedule', order=order, N=N)))
    for bad in (0, 3, '4opt'):
        ev += 1
        for fn, args in ((TEBDEngine.suzuki_trotter_time_steps, (bad,)), (TEBDEngine.suzuki_trotter_decomposition, (bad, 2))):
            try:
                fn(*args)
                viol.append(dict(key='schedule:unknown-order-accepted', what='%s%r did not raise ValueError' % (fn.__name__, args), case=dict(part='schedule', order=bad, N=2)))
            except ValueError:
                pass
    return dict(evaluations=ev, keys=keys, violations=viol[:20], samples=[dict(part='schedule', order='4_opt', N=3)])


# ---------------------------------------------------------------- running one engine history

class Recorder:
    """Records the error of every truncation performed while active, by wrapping module / class attributes:
    truncation.truncate (used by svd_theta), tebd.decompose_theta_qr_based, MPO.apply.  No hook in the repo."""

    def __init__(self):
        self.events = []  # (source, eps, TEBD bond index or None)
        self.eng = None

    def _bond(self):
        idx = getattr(self.eng, '_update_index', None)
        return None if idx is None else int(idx[1])

    def __enter__(self):
        from tenpy.algorithms import tebd
        from tenpy.linalg import truncation
        from tenpy.networks.mpo import MPO
        self._saved = [(truncation, 'truncate', truncation.truncate), (tebd, 'decompose_theta_qr_based', tebd.decompose_theta_qr_based), (MPO, 'apply', MPO.apply)]
        rec = self

        def truncate(S, options):
            res = rec._saved[0][2](S, options)
            rec.events.append(('truncate', float(res[2].eps), rec._bond()))
            return res

        def decompose_theta_qr_based(*a, **kw):
            res = rec._saved[1][2](*a, **kw)
            rec.events.append(('qr', float(res[4].eps), rec._bond()))
            return res

        def apply(mpo, psi, options):
            res = rec._saved[2][2](mpo, psi, options)
            rec.events.append(('apply', float(res.eps), None))
            return res

        truncation.truncate, tebd.decompose_theta_qr_based, MPO.apply = truncate, decompose_theta_qr_based, apply
        return self

    def __exit__(self, *exc):
        for obj, name, orig in self._saved:
            setattr(obj, name, orig)

    def total(self, src, start=0):
        return float(sum(e[1] for e in self.events[start:] if e[0] == src))


def run_history(name, kind, L, which, seed, dt, history, trunc=False, ramp=None, start=START, model_time=None, preserve_norm=False, psi=None, model=None):
    """Build a fresh engine and execute `history` = [(method, n_steps, dt-factor), ...] on it."""
    import importlib
    from checks import c14_models as M
    from tenpy.linalg.truncation import TruncationError
    spec = ENGINES[name]
    cls = getattr(importlib.import_module('tenpy.algorithms.' + spec['module']), spec['cls'])
    np.random.seed(seed)  # (random Krylov expansion draws from the global generator)
    if model is None:
        model = M.make_model(kind, L, ramp, start if model_time is None else model_time)
    v0 = None
    if psi is None:
        psi, v0, _ = M.make_state(kind, L, which, seed)
    q0 = psi.get_total_charge().tolist()
    opts = dict(copy.deepcopy(spec['opt']), dt=dt, N_steps=1, start_time=start, trunc_params=dict(TRUNC if trunc else NO_TRUNC), max_trunc_err=10.0,
                start_trunc_err=TruncationError(START_EPS, 1.0 - 2.0 * START_EPS))
    if preserve_norm is not None:
        opts['preserve_norm'] = preserve_norm
    returned = []
    snapshots = []
    with Recorder() as rec:
        eng = cls(psi, model, opts)
        rec.eng = eng
        for method, n, f in history:
            d = dt * f
            mark = len(rec.events)
            snapshots.append((psi.copy(), eng.evolved_time))
            if method == 'run':
                eng.options['dt'] = d
                eng.options['N_steps'] = n
                eng.run()
            elif method == 'run_evolution':
                eng.run_evolution(n, d)
            else:
                eng.prepare_evolve(d)
                ret = eng.evolve(n, d)
                returned.append((float(ret.eps), rec.total(spec['src'], mark)))
    bonds = None
    if spec['module'] == 'tebd':
        bonds = [float(e.eps) for e in eng.trunc_err_bonds]
    return dict(v=M.to_dense(psi), v0=v0, time=eng.evolved_time, eps=float(eng.trunc_err.eps), rec=rec, returned=returned, bonds=bonds,
                snapshots=snapshots, q0=q0, qtotal=psi.get_total_charge().tolist())


def _exc_violation(name, e, case):
    tb = traceback.extract_tb(e.__traceback__)
    where = next((f for f in reversed(tb) if '/tenpy/' in f.filename), tb[-1])
    return dict(key='exception:%s:%s:%s' % (name, type(e).__name__, where.name),
                what='%s %s: %s: %s\n%s' % (name, case, type(e).__name__, e, ''.join(traceback.format_exception(type(e), e, e.__traceback__))[-1200:]), case=case)


# ---------------------------------------------------------------- accuracy ladder

def ladder_states(name, kind, tier):
    from checks import c14_models as M
    spec = ENGINES[name]
    states = [('rand', 0)] + ([] if tier == 'quick' else [('rand', 1)])
    prods = [('prod', 0)] + ([] if tier == 'quick' else [('prod', 1)])
    # from a product state the order claim needs a two-site / gate scheme whose steps contain H|psi> (see DESIGN)
    if spec['prod_ok'] is True or (spec['prod_ok'] == 'nn' and kind in M.NN_KINDS):
        return [(s, True) for s in prods + states]
    return [(s, False) for s in prods] + [(s, True) for s in states]


def check_ladder(name, kind, L, which, imag, seed, require_order=True):
    """-> (violations, nontrivial, n_runs, outcome)."""
    from checks import c14_models as M
    spec = ENGINES[name]
    case = dict(part='ladder', engine=name, kind=kind, L=L, which=list(which), imag=imag, seed=seed, require_order=require_order)
    tag = '%s:%s' % (name, DT_NAME[imag])
    viol = []
    ramp = RAMP if spec['td'] else None
    unit = DT_UNIT[imag]
    errs, runs = [], 0
    H0 = M.dense_H(kind, L, START, ramp or 0.0)
    hnorm = np.linalg.norm(H0, 2)
    pn = False if (imag or spec['unitary']) else None
    for n in N_LADDER if require_order else N_LADDER[:1]:
        dt = T_LADDER / n * unit
        # (time dependent variants: the model is handed over at time 0 and must be re-initialised at start_time)
        r = run_history(name, kind, L, which, seed, dt, [('run', n, 1.0)], ramp=ramp, model_time=0.0 if spec['td'] else None, preserve_norm=pn)
        runs += 1
        v0, v = r['v0'], r['v']
        if spec['td']:
            ref = v0
            for k in range(n):
                ref = scipy.linalg.expm(-1j * dt * M.dense_H(kind, L, START + k * dt, ramp)) @ ref
        else:
            ref = scipy.linalg.expm(-1j * dt * n * H0) @ v0
        errs.append(float(np.linalg.norm(v - ref)))
        mask = M.sector_mask(M.make_site(kind), L, M.PRODUCT_STATES[kind](L)[which[1]])
        if np.abs(v[~mask]).max() != 0.0 or r['qtotal'] != r['q0']:
            viol.append(dict(key='charge:%s:left-sector' % tag, what='%s: evolved state has weight %.3g outside the charge sector of the start state' % (case, np.abs(v[~mask]).max()), case=case))
        if r['time'] != START + n * dt:
            viol.append(dict(key='time:%s:%s' % (spec['cls'], DT_NAME[imag]), what='%s: evolved_time=%r after %d steps of %r from %r' % (case, r['time'], n, dt, START), case=case))
        if not imag and spec['unitary'] and abs(np.linalg.norm(v) - 1.0) > 1e-10:
            viol.append(dict(key='norm:%s:not-conserved' % tag, what='%s: norm %.15g after real-time evolution with unitary steps' % (case, np.linalg.norm(v)), case=case))
        if not imag and spec['tdvp'] and not spec['td']:
            dE = abs((v.conj() @ H0 @ v).real / np.linalg.norm(v) ** 2 - (v0.conj() @ H0 @ v0).real)
            if dE > 1e-9 * max(1.0, hnorm):
                viol.append(dict(key='energy:%s:not-conserved' % tag, what='%s: energy drift %.3g (n=%d)' % (case, dE, n), case=case))
        if spec['td'] and which[0] == 'rand' and n == N_LADDER[0]:
            # a time-independent parameter must reproduce the static engine
            a = run_history(name, kind, L, which, seed, dt, [('run', n, 1.0)], ramp=0.0, model_time=0.0, preserve_norm=pn)
            b = run_history(spec['td'], kind, L, which, seed, dt, [('run', n, 1.0)], preserve_norm=pn)
            runs += 2
            if np.linalg.norm(a['v'] - b['v']) > 1e-10:
                viol.append(dict(key='static:%s:differs-from-static-engine' % name, what='%s: |psi_td - psi_static| = %.3g for a time-independent parameter' % (case, np.linalg.norm(a['v'] - b['v'])), case=case))
    thr = 2.0 ** (spec['p'] - 0.6)
    if require_order:
        # "error O(t dt^p)" is an asymptotic claim: the finest pair of step sizes decides (coarser ratios can be spoiled by a
        # competing dt^(p+1) term), errors below EXACT only need to be small
        if min(errs[-2:]) > EXACT and not errs[-2] / errs[-1] >= thr:
            viol.append(dict(key='order:%s:%s' % (tag, 'no-convergence' if errs[0] / errs[-1] < 1.2 else 'below-documented-order'),
                             what='%s: errors %s for dt=T/%s; last ratio %.3g < %.3g required for order %d' % (case, errs, list(N_LADDER), errs[-2] / errs[-1], thr, spec['p']), case=case))
        if not all(np.isfinite(errs)):
            viol.append(dict(key='order:%s:nan' % tag, what='%s: errors %s' % (case, errs), case=case))
    outcome = 'exact' if max(errs) <= EXACT else ('converging' if require_order else 'conservation-only')
    return viol, bool(require_order and errs[0] > EXACT), runs, outcome


def run_ladder(unit):
    _, name, kind, L, imag, tier, seed = unit
    viol, keys, outcomes, ev = [], [], set(), 0
    for which, req in ladder_states(name, kind, tier):
        if not req and (imag or tier == 'quick' and ENGINES[name]['prod_ok'] == 'nn'):
            continue
        case = dict(part='ladder', engine=name, kind=kind, L=L, which=list(which), imag=imag, seed=seed, require_order=req)
        try:
            vs, nontrivial, runs, outcome = check_ladder(name, kind, L, which, imag, seed, req)
        except Exception as e:  # noqa: BLE001
            vs, nontrivial, runs, outcome = [_exc_violation(name, e, case)], False, 1, 'exception'
        ev += runs
        viol += vs
        outcomes.add(outcome)
        if nontrivial or not req:
            keys.append('ladder:%s:%s:%d:%s%d:%s' % (name, kind, L, which[0], which[1], DT_NAME[imag]))
    return dict(evaluations=ev, keys=keys, outcomes=sorted(outcomes), violations=viol[:20], samples=[case])


# ---------------------------------------------------------------- histories: time and error bookkeeping

def _classify(got, start, total):
    if total > 0 and abs(got - (start + 2 * total)) <= 1e-12 * max(1.0, got):
        return 'double-counted'
    if total > 0 and abs(got - start) <= 1e-15:
        return 'not-accumulated'
    return 'mismatch'


def check_history(name, kind, imag, trunc, history, seed, ref_cache=None, model=None):
    """One history on a fresh engine.  -> (violations, nontrivial, runs)."""
    from checks import c14_models as M
    spec = ENGINES[name]
    L, which = 4, ('rand', 0)
    dt = DT_HIST * DT_UNIT[imag]
    ramp = RAMP if spec['td'] else None
    case = dict(part='hist', engine=name, kind=kind, imag=imag, trunc=trunc, history=[list(h) for h in history], seed=seed)
    tag = '%s:%s' % (spec['cls'], DT_NAME[imag])
    methods = set(h[0] for h in history)
    viol = []
    r = run_history(name, kind, L, which, seed, dt, history, trunc=trunc, ramp=ramp, model=model)
    runs = 1
    expected_time = START
    for _m, n, f in history:
        expected_time = expected_time + n * (dt * f)
    if r['time'] != expected_time:
        viol.append(dict(key='time:%s' % tag, what='%s: evolved_time=%r, expected start_time + sum(N_steps*dt) = %r' % (case, r['time'], expected_time), case=case))
    N = sum(h[1] for h in history)
    changes_dt = any(h[2] != 1.0 for h in history)
    if not np.all(np.isfinite(r['v'])):
        viol.append(dict(key='state:%s:nan' % tag, what='%s: state contains NaN' % (case,), case=case))
    elif not trunc:
        if changes_dt:
            # the call after the change of dt must act like the same call of a fresh engine on the same state
            psi_mid, t_mid = r['snapshots'][-1]
            ref = run_history(name, kind, L, which, seed, dt * history[-1][2], [history[-1][:2] + (1.0,)], ramp=ramp, start=t_mid, psi=psi_mid)['v']
            runs += 1
            why = 'after a change of dt the engine differs from a fresh engine'
        else:
            ref_cache = {} if ref_cache is None else ref_cache
            if N not in ref_cache:
                ref_cache[N] = run_history(name, kind, L, which, seed, dt, [('run', N, 1.0)], ramp=ramp)['v'] if N else M.make_state(kind, L, which, seed)[1]
                runs += 1
            ref = ref_cache[N]
            why = 'final state depends on the split into calls (reference: one run() with N_steps=%d)' % N
        d = np.linalg.norm(r['v'] - ref)
        if d > 1e-10 * max(1.0, np.linalg.norm(ref)):
            viol.append(dict(key='split:%s:%s' % (tag, 'dt-change' if changes_dt else 'state-differs'), what='%s: %s, distance %.3g' % (case, why, d), case=case))
        if imag is False and spec['unitary'] and abs(np.linalg.norm(r['v']) - 1.0) > 1e-10:
            viol.append(dict(key='norm:%s:not-conserved' % tag, what='%s: norm %.15g' % (case, np.linalg.norm(r['v'])), case=case))
    rec, src = r['rec'], spec['src']
    total = rec.total(src)
    tol = lambda x: 1e-12 * max(abs(x), 1e-3)
    for got, want in r['returned']:
        if not abs(got - want) <= tol(want):
            viol.append(dict(key='trunc_err:%s:evolve-return:%s' % (spec['cls'], _classify(got, 0.0, want)), what='%s: evolve() returned eps=%r, the truncations of this call sum to %r' % (case, got, want), case=case))
    if 'evolve' not in methods:
        want = START_EPS + total
        if not abs(r['eps'] - want) <= tol(want):
            viol.append(dict(key='trunc_err:%s:%s' % (spec['cls'], _classify(r['eps'], START_EPS, total)),
                             what='%s: eng.trunc_err.eps=%r, start_trunc_err.eps + sum of the %d recorded truncation errors = %r' % (case, r['eps'], len(rec.events), want), case=case))
    if r['bonds'] is not None:
        want = [float(sum(e[1] for e in rec.events if e[0] == src and e[2] == b)) for b in range(1, L)]
        if len(r['bonds']) != L - 1 or any(not abs(g - w) <= tol(w) for g, w in zip(r['bonds'], want)):
            viol.append(dict(key='trunc_err_bonds:%s' % spec['cls'], what='%s: trunc_err_bonds=%r, recorded per bond %r' % (case, r['bonds'], want), case=case))
    return viol, (total > 0 if trunc else N > 0), runs


def run_hist(unit):
    from checks import c14_models as M
    _, name, kind, imag, trunc, tier, seed = unit
    methods = ('run', 'run_evolution') if ENGINES[name]['td'] else ('run', 'run_evolution', 'evolve')
    hs = histories((3 if tier == 'quick' else 4) - ENGINES[name]['slow'], methods)
    if ENGINES[name]['expand']:
        # (a second expansion of bonds that were just expanded is an operation of MPS.subspace_expansion, not of C14)
        hs = [h for h in hs if all(n > 0 for _m, n, _f in h)]
    model = None if ENGINES[name]['td'] else M.make_model(kind, 4)  # (time dependent engines re-create / modify their model)
    viol, ev, nontrivial, cache, seen = [], 0, 0, {}, set()
    for h in hs:
        try:
            vs, nt, runs = check_history(name, kind, imag, trunc, h, seed, cache, model)
        except Exception as e:  # noqa: BLE001
            vs, nt, runs = [_exc_violation(name, e, dict(part='hist', engine=name, kind=kind, imag=imag, trunc=trunc, history=[list(x) for x in h], seed=seed))], False, 1
        ev += runs
        nontrivial += bool(nt)
        for v in vs:  # one example per key and unit
            if v['key'] not in seen:
                seen.add(v['key'])
                viol.append(v)
    return dict(evaluations=ev, traces=len(hs), nontrivial_count=nontrivial, violations=viol[:20],
                samples=[dict(part='hist', engine=name, kind=kind, imag=imag, trunc=trunc, history=[list(x) for x in hs[len(hs) // 2]])])


# ---------------------------------------------------------------- entry points

def _quiet():
    warnings.simplefilter('ignore')
    logging.disable(logging.CRITICAL)


def run_unit(unit):
    _quiet()
    return dict(schedule=run_schedule, ladder=run_ladder, hist=run_hist)[unit[0]](unit)


def replay(case):
    _quiet()
    part = case['part']
    if part == 'schedule':
        res = run_schedule(('schedule', 0))
        res['violations'] = [v for v in res['violations'] if v['case'] == case]
        return res
    name = case['engine']
    try:
        if part == 'ladder':
            vs, _, runs, _ = check_ladder(name, case['kind'], case['L'], tuple(case['which']), case['imag'], case['seed'], case['require_order'])
        else:
            vs, _, runs = check_history(name, case['kind'], case['imag'], case['trunc'], [tuple(h) for h in case['history']], case['seed'])
    except Exception as e:  # noqa: BLE001
        vs, runs = [_exc_violation(name, e, case)], 1
    return dict(evaluations=runs, violations=vs)
