"""C02 -- kernel check, see checks/kcommon.py, vk/kengine.py, vk/kops.py (operation alphabet + numpy models)."""
import os

from checks import kcommon

FOCUS = 'C02'
UNIT_TIMEOUT = 1800.0


def units(tier, seed, label):
    return kcommon.plan(tier, FOCUS, label)


def run_unit(unit):
    return kcommon.run(unit, FOCUS, os.environ.get('VERIF_TIER', 'quick'))


def replay(case):
    return kcommon.replay(case)


def selfcheck(tier, seed, label):
    return kcommon.selfcheck(FOCUS, tier)
