"""C03 -- kernel check, see checks/kcommon.py, vk/kengine.py, vk/kops.py (operation alphabet + numpy models)."""
import os

from checks import c03_mps, kcommon

FOCUS = 'C03'
UNIT_TIMEOUT = 1800.0


def units(tier, seed, label):
    return c03_mps.units(tier) + kcommon.plan(tier, FOCUS, label)


def run_unit(unit):
    if unit[0] == 'mps':
        return c03_mps.run_unit(unit)
    return kcommon.run(unit, FOCUS, os.environ.get('VERIF_TIER', 'quick'))


def replay(case):
    if 'mps_case' in case:
        return c03_mps.replay(case)
    return kcommon.replay(case)


def selfcheck(tier, seed, label):
    return kcommon.selfcheck(FOCUS, tier)
