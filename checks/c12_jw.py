"""C12 helpers, part 2: the Jordan-Wigner machinery on small chains against dense many-body operators.

Reference (doc/intro/JordanWigner.rst): the operator `op` on site `i` is the dense Kronecker product
``[JW, ..., JW, op, Id, ..., Id]`` if `op` needs a JW string and ``[Id, ..., Id, op, Id, ..., Id]`` otherwise;
a term ``[(op0, i0), (op1, i1), ...]`` is the matrix product of these from left to right.
"""
import functools
import itertools
import warnings

import numpy as np

from .c12_sites import canon_labels, close, dense, fermionic_names, kron, make_site

F = 'FermionSite'
SHF = 'SpinHalfFermionSite'
# name -> (unit cell of site specs, how to make the charges compatible)
CHAINS = {
    'F:N': ([[F, {'conserve': 'N'}]], None),
    'F:parity': ([[F, {'conserve': 'parity'}]], None),
    'F:None': ([[F, {'conserve': None}]], None),
    'SHF:N,Sz': ([[SHF, {'cons_N': 'N', 'cons_Sz': 'Sz'}]], None),
    'SHF:parity,None': ([[SHF, {'cons_N': 'parity', 'cons_Sz': None}]], None),
    'SHF:None,None': ([[SHF, {'cons_N': None, 'cons_Sz': None}]], 'same'),
    'Hole:N,Sz': ([['SpinHalfHoleSite', {'cons_N': 'N', 'cons_Sz': 'Sz'}]], None),
    'mixed:None': ([[F, {'conserve': None}], ['BosonSite', {'Nmax': 1, 'conserve': None}], [SHF, {'cons_N': None, 'cons_Sz': None}]], 'same'),
    'mixed:common': ([[F, {'conserve': 'N'}], ['BosonSite', {'Nmax': 1, 'conserve': 'N'}], [SHF, {'cons_N': 'N', 'cons_Sz': 'Sz'}]], 'same'),
    'species:N,Sz': ([F, 'N', 'Sz'], 'species'),
}
BOSONIC = {F: ['N'], SHF: ['Sp'], 'SpinHalfHoleSite': ['Sp'], 'BosonSite': ['B']}


def make_cell(name):
    from tenpy.networks.site import set_common_charges, spin_half_species
    specs, how = CHAINS[name]
    if how == 'species':
        return spin_half_species(*specs)[0]
    cell = [make_site(sp) for sp in specs]
    if how:
        set_common_charges(cell, how)
    return cell


def alphabet(site, fermionic_only=False):
    """Operator names used in the enumerated terms: every fermionic one plus one bosonic, non-diagonal one."""
    return fermionic_names(site) + ([] if fermionic_only else BOSONIC[type(site).__name__])


def term_charge(ops_sites):
    """(fermion parity, total charges...) of a product of onsite operators given as (name, site) pairs."""
    chinfo = ops_sites[0][1].leg.chinfo
    tot = chinfo.make_valid(sum(site.get_op(op).qtotal for op, site in ops_sites))
    return (sum(site.op_needs_JW(op) for op, site in ops_sites) % 2,) + tuple(int(x) for x in tot)


def mpo_dense(H):
    """Dense matrix of a finite MPO (site 0 = most significant index)."""
    Ws = [H.get_W(i).transpose(['wL', 'wR', 'p', 'p*']).to_ndarray() for i in range(H.L)]
    cur = Ws[0][H.get_IdL(0)].transpose(1, 2, 0)
    for W in Ws[1:]:
        cur = np.einsum('abw,wvcd->acbdv', cur, W)
        cur = cur.reshape(cur.shape[0] * cur.shape[1], cur.shape[2] * cur.shape[3], cur.shape[4])
    return cur[:, :, H.get_IdR(H.L - 1)]


class Context:
    """Sites of a chain, dense reference operators and a seeded random state (dense and as MPS)."""

    def __init__(self, chain, L, seed, cell=None):
        import tenpy.linalg.np_conserved as npc
        from tenpy.networks.mps import MPS
        self.cell = cell or make_cell(chain)
        self.L = L
        self.sites = sites = [self.cell[i % len(self.cell)] for i in range(L)]
        self.Id = [np.eye(s.dim) for s in sites]
        self.JW = [dense(s, 'JW') for s in sites]
        self.G = functools.lru_cache(maxsize=None)(self._G)
        rng = np.random.default_rng(seed)
        self.strength = complex(np.round(rng.uniform(0.5, 1.5), 3), np.round(rng.uniform(0.5, 1.5), 3))
        chinfo = sites[0].leg.chinfo
        qtotal = chinfo.make_valid(sum(s.leg.to_qflat()[i % s.dim] for i, s in enumerate(sites)))
        func = lambda shape: rng.standard_normal(shape) + 1j * rng.standard_normal(shape)  # noqa: E731
        T = npc.Array.from_func(func, [s.leg for s in sites], dtype=np.complex128, qtotal=qtotal, labels=['p%d' % i for i in range(L)])
        T = T / npc.norm(T)
        self.vec = T.to_ndarray().reshape(-1)
        self.psi = MPS.from_full(sites, T, unit_cell_width=L)
        self.has_c2JW = all(getattr(s, 'charge_to_JW_parity', None) is not None for s in sites)

    def plain(self, ops):
        """Kronecker product of one dense matrix per site (None = identity)."""
        return kron(*[self.Id[i] if M is None else M for i, M in enumerate(ops)])

    def _G(self, op, i):
        jw = self.sites[i].op_needs_JW(op)
        return self.plain([self.JW[k] if jw and k < i else dense(self.sites[i], op) if k == i else None for k in range(self.L)])

    def product(self, term):
        return functools.reduce(np.dot, [self.G(op, i) for op, i in term])

    def parity(self, term):
        return sum(self.sites[i].op_needs_JW(op) for op, i in term) % 2

    def psi_vec(self, psi):
        return psi.get_theta(0, self.L).to_ndarray().reshape(-1) * psi.norm


@functools.lru_cache(maxsize=4)
def context(chain, L, seed):
    return Context(chain, L, seed)


def check_reference(case):
    """The documented mapping itself: canonical anticommutation relations of the dense reference operators."""
    cx = context(case['chain'], case['L'], 0)
    out = []
    modes = [(n, i) for i, s in enumerate(cx.sites) for n in fermionic_names(s) if s.hc_ops[n] > n]  # annihilators 'C'<'Cd', 'Cd'<'Cdd', 'Cu'<'Cdu'
    one = np.eye(len(cx.vec))
    for (a, i), (b, j) in itertools.product(modes, repeat=2):
        A, B, Bd = cx.G(a, i), cx.G(b, j), cx.G(cx.sites[j].hc_ops[b], j)
        if not close(Bd, B.conj().T):
            out.append(('reference:adjoint', '%s: %s_%d' % (case, b, j)))
        if not close(A @ B + B @ A, 0 * one):
            out.append(('reference:CAR:{c,c}', '%s: {%s_%d, %s_%d} != 0' % (case, a, i, b, j)))
        if not close(A @ Bd + Bd @ A, one if (a, i) == (b, j) else 0 * one):
            out.append(('reference:CAR:{c,cd}', '%s: {%s_%d, %s_%d^dagger} != delta' % (case, a, i, b, j)))
    return out + [('reference:' + k, '%s: %s' % (case, m)) for k, m in apply_local_ops(cx)]


def apply_local_ops(cx):
    """A single fermionic operator applied to the MPS (the JW string comes from the charges of the bond, if the
    sites claim to know the parity; otherwise a ValueError is documented) against the dense JW operator."""
    out = []
    for i, s in enumerate(cx.sites):
        for n in fermionic_names(s):
            target = cx.G(n, i) @ cx.vec
            if np.linalg.norm(target) > 1e-6:
                p2 = cx.psi.copy()
                try:
                    with warnings.catch_warnings():
                        warnings.simplefilter('ignore')
                        p2.apply_local_op(i, n)
                    if not close(cx.psi_vec(p2), target):
                        out.append(('apply_local_op', '%s_%d|psi> differs from the dense result' % (n, i)))
                except ValueError as e:
                    if cx.has_c2JW:
                        out.append(('apply_local_op:exception', '%s_%d: %s' % (n, i, e)))
    return out


def check_term(case):
    """One term through order_combine_term, the JW handlers, a single-term MPO and the MPS term methods."""
    from tenpy.networks.mpo import MPOGraph
    from tenpy.networks.terms import CouplingTerms, MultiCouplingTerms, TermList, order_combine_term
    cx = context(case['chain'], case['L'], case.get('seed', 0))
    sites, L = cx.sites, cx.L
    term = [(op, i) for op, i in case['term']]
    out = []
    bad = lambda key, msg: out.append(('term:' + key, '%s: %s' % (case, msg)))  # noqa: E731
    ref = cx.product(term)
    odd = cx.parity(term)
    # (a) ordering / combining; with 'unit_cell' the functions only get the sites of one unit cell (indices i % len)
    uc = sites[:case['unit_cell']] if case.get('unit_cell') else sites
    cterm, sign = order_combine_term(list(term), uc)
    if [i for _, i in cterm] != sorted({i for _, i in term}):
        bad('order_combine:sites', 'combined term %s' % (cterm,))
        return out
    cref = cx.product(cterm)
    if not close(cref, sign * ref):
        bad('order_combine:sign', 'sign %s, combined %s: product differs from sign * product(term)' % (sign, cterm))
    # (b) explicit JW strings for (Multi)CouplingTerms
    handlers = [('multi', MultiCouplingTerms(len(uc)).multi_coupling_term_handle_JW)] if len(cterm) >= 2 else []
    if len(cterm) == 2:
        handlers.append(('coupling', CouplingTerms(len(uc)).coupling_term_handle_JW))
    for name, handler in handlers:
        try:
            res = handler(1.0, list(cterm), uc)
        except ValueError as e:
            if not odd:
                bad('handle_JW:%s:exception' % name, 'raises %s' % e)
            continue
        if odd:
            bad('handle_JW:%s:odd-accepted' % name, 'odd number of JW operators accepted, returned %s' % (res,))
            continue
        if name == 'coupling':
            s, i, j, op_i, op_j, op_str = res
            ijkl, ops, strs = [i, j], [op_i, op_j], [op_str]
            # the returned sites are either the given ones or (as for the multi-coupling variant, and as required by
            # add_coupling_term) the given ones translated by whole unit cells such that the first is inside the unit cell
            if (ijkl[0] - cterm[0][1]) % len(uc):
                bad('handle_JW:coupling:shift', 'returned sites %s for %s' % (ijkl, cterm))
                continue
            ijkl = [k_ - ijkl[0] + cterm[0][1] for k_ in ijkl]
        else:  # (documented to shift the indices such that the first one is inside the unit cell)
            s, ijkl, ops, strs = res
            if not 0 <= ijkl[0] < len(uc) or (ijkl[0] - cterm[0][1]) % len(uc):
                bad('handle_JW:multi:shift', 'returned sites %s for %s' % (ijkl, cterm))
                continue
            ijkl = [i - ijkl[0] + cterm[0][1] for i in ijkl]
        mats = [None] * L
        for k, (i, op) in enumerate(zip(ijkl, ops)):
            mats[i] = dense(sites[i], op)
            for r in range(i + 1, ijkl[k + 1] if k + 1 < len(ijkl) else i + 1):
                mats[r] = dense(sites[r], strs[k])
        if not close(s * cx.plain(mats), cref):
            bad('handle_JW:%s:wrong-strings' % name, 'returned %s for %s' % (res, cterm))
    # (c) MPO of the single term
    if not odd:
        H = MPOGraph.from_term_list(TermList([list(term)], [cx.strength]), sites, 'finite', unit_cell_width=L).build_MPO()
        if not close(mpo_dense(H), cx.strength * ref):
            bad('mpo', 'dense MPO differs from strength * product(term)')
    # (d) MPS: list of operators, expectation value, application to a state
    psi = cx.psi
    ops, i_min, extra = psi._term_to_ops_list(list(term), True)
    mats = [cx.JW[k] if extra and k < i_min else None for k in range(L)]
    for k, op in enumerate(ops):
        mats[i_min + k] = op.to_ndarray()
    if bool(extra) != bool(odd) or i_min != min(i for _, i in term) or not close(cx.plain(mats), ref):
        bad('term_to_ops_list', 'ops from i_min=%s, has_extra_JW=%s differ from product(term)' % (i_min, extra))
    if not odd:
        ev = psi.expectation_value_term(list(term))
        if abs(ev - np.vdot(cx.vec, ref @ cx.vec)) > 1e-11:
            bad('expectation_value_term', 'got %r, dense %r' % (ev, np.vdot(cx.vec, ref @ cx.vec)))
    target = ref @ cx.vec
    if len(term) <= 3 and np.linalg.norm(target) > 1e-6:
        p2 = psi.copy()
        try:
            with warnings.catch_warnings():
                warnings.simplefilter('ignore')
                p2.apply_local_term(list(term))
            if not close(cx.psi_vec(p2), target):
                bad('apply_local_term', 'resulting state differs from the dense product(term)|psi>, overlap %r' % (
                    np.vdot(target, cx.psi_vec(p2)) / np.vdot(target, target)))
        except ValueError as e:
            if not odd or cx.has_c2JW:
                bad('apply_local_term:exception', 'raises %s' % e)
    return out


def check_mposum(case):
    """One MPO for a sum of many terms (shared graph states) against the dense sum; the array of prefactors
    given by the caller is data, not state: no TermList route may change it, and using it again gives the same."""
    from tenpy.networks.mpo import MPOGraph
    from tenpy.networks.terms import TermList, order_combine_term
    cx = context(case['chain'], case['L'], case.get('seed', 0))
    terms = [[(op, i) for op, i in t] for t in case['terms']]
    rng = np.random.default_rng(case.get('seed', 0) + 17)
    strengths = np.round(rng.uniform(0.5, 1.5, len(terms)), 3) * np.where(np.arange(len(terms)) % 3 == 0, 1j, 1)
    given = strengths.copy()
    out = []
    bad = lambda key, msg: out.append((key, '%s: %s' % (dict(case, terms='%d terms, first %s' % (len(terms), terms[0])), msg)))  # noqa: E731
    new_list = lambda: TermList([list(t) for t in terms], strengths)  # noqa: E731
    ref = sum(s * cx.product(t) for s, t in zip(given, terms))
    H = MPOGraph.from_term_list(new_list(), cx.sites, 'finite', unit_cell_width=cx.L).build_MPO()
    if not close(mpo_dense(H), ref):
        bad('mposum', 'dense MPO of the sum differs from the sum of the dense terms')
    if not np.array_equal(strengths, given):
        bad('termlist:strength-modified:from_term_list', 'MPOGraph.from_term_list changed the strength array of the caller')
    # the same data used a second time, now for an expectation value (only for terms conserving the charges)
    if not any(term_charge([(op, cx.sites[i]) for op, i in terms[0]])):
        ev = cx.psi.expectation_value_terms_sum(new_list())[0]
        if abs(ev - np.vdot(cx.vec, ref @ cx.vec)) > 1e-10:
            bad('termlist:expectation_value_terms_sum', 'got %r, dense %r (same terms and strength array as for the MPO before)' % (
                ev, np.vdot(cx.vec, ref @ cx.vec)))
    strengths[:] = given
    # order_combine works on the list's own copy; a shifted copy is independent of the original
    n = len(cx.cell)
    signs = np.array([order_combine_term(list(t), cx.cell)[1] for t in terms])
    tl = new_list()
    sh = tl.shift(n)
    if sh.terms != [[(op, i + n) for op, i in t] for t in terms] or not np.array_equal(sh.strength, given):
        bad('termlist:shift', 'shift(%d) is not the shifted copy' % n)
    sh.order_combine(cx.cell)
    if not np.array_equal(tl.strength, given) or tl.terms != [list(t) for t in terms]:
        bad('termlist:shift-aliased', 'order_combine on the shifted copy changed the original list')
    tl.order_combine(cx.cell)
    if not close(tl.strength, signs * given) or not close(sh.strength, signs * given):
        bad('termlist:order_combine', 'strength after order_combine is not sign * strength')
    if not np.array_equal(strengths, given):
        bad('termlist:strength-modified:order_combine', 'order_combine changed the strength array of the caller')
    return out


def check_corr(case):
    """correlation_function / term_correlation_function_* with automatic JW strings on a random state."""
    cx = context(case['chain'], case['L'], case.get('seed', 0))
    psi, sites, L, vec = cx.psi, cx.sites, cx.L, cx.vec
    ops1, ops2 = case['ops1'], case['ops2']  # one name per unit cell position; 'Id' = position not used
    n = len(ops1)
    sel = [i for i in range(L) if ops1[i % n] != 'Id']
    out = []
    bad = lambda key, msg: out.append(('corr:' + key, '%s: %s' % (case, msg)))  # noqa: E731
    ref = np.array([[np.vdot(vec, cx.G(ops1[i % n], i) @ cx.G(ops2[j % n], j) @ vec) for j in sel] for i in sel])
    with warnings.catch_warnings():
        warnings.simplefilter('ignore')
        C = psi.correlation_function(ops1, ops2, sites1=sel, sites2=sel)
        if not close(C, ref):
            bad('autoJW', 'C=\n%s\ndense\n%s' % (np.round(C, 5), np.round(ref, 5)))
        fermionic = sites[sel[0]].op_needs_JW(ops1[sel[0] % n])
        if fermionic:
            C2 = psi.correlation_function(ops1, ops2, sites1=sel, sites2=sel, opstr='JW', str_on_first=True)
            if not close(C2, ref):
                bad('explicit-JW', 'opstr="JW", str_on_first=True differs from the dense result')
        if all(sites[i].hc_ops.get(ops1[i % n]) == ops2[i % n] for i in sel):
            C3 = psi.correlation_function(ops1, ops2, sites1=sel, sites2=sel, hermitian=True)
            if not close(C3, ref):
                bad('hermitian-flag', 'hermitian=True differs from the dense result')
        if n == 1:
            for x, i in enumerate(sel):
                if i + 1 < L:
                    r = psi.term_correlation_function_right([(ops1[0], 0)], [(ops2[0], 0)], i_L=i, j_R=list(range(i + 1, L)))
                    if not close(r, ref[x, x + 1:]):
                        bad('term_correlation_function_right', 'i=%d: %s vs dense %s' % (i, r, ref[x, x + 1:]))
                for y in range(x + 1, len(sel)):
                    r = psi.term_correlation_function_left([(ops1[0], 0)], [(ops2[0], 0)], i_L=[i], j_R=sel[y])
                    if not close(r, ref[x, y:y + 1]):
                        bad('term_correlation_function_left', 'i=%d j=%d: %s vs dense %s' % (i, sel[y], r, ref[x, y]))
    return out


def check_corr2(case):
    """Two-site terms left and right: term_correlation_function_right/left with automatic JW strings."""
    cx = context(case['chain'], case['L'], case.get('seed', 0))
    a, b, c, d = case['ops']
    tL, tR = [(a, 0), (b, 1)], [(c, 0), (d, 1)]
    out = []
    with warnings.catch_warnings():
        warnings.simplefilter('ignore')
        for i, j in [(i, j) for i in range(cx.L - 3) for j in range(i + 2, cx.L - 1)]:
            ref = np.vdot(cx.vec, cx.product([(a, i), (b, i + 1), (c, j), (d, j + 1)]) @ cx.vec)
            r = cx.psi.term_correlation_function_right(tL, tR, i_L=i, j_R=[j])
            l = cx.psi.term_correlation_function_left(tL, tR, i_L=[i], j_R=j)
            for name, val in (('right', r), ('left', l)):
                if not close(val, [ref]):
                    out.append(('corr:term_correlation_function_%s:two-site-terms' % name, '%s: i=%d j=%d: %s vs dense %s' % (case, i, j, val, ref)))
    return out


def check_model(case):
    """CouplingModel.add_coupling / add_multi_coupling / add_local_term -> H_MPO (and H_bond) against dense sums."""
    from tenpy.models.lattice import Lattice
    from tenpy.models.model import CouplingModel
    Lx = case['Lx']
    cell = make_cell(case['chain'])
    nu = len(cell)
    cx = context(case['chain'], Lx * nu, case.get('seed', 0))
    s = cx.strength
    how, ops, plus_hc = case['how'], case['ops'], case['plus_hc']  # ops: [opname, dx, u]
    out = []
    bad = lambda key, msg: out.append(('model:%s:%s' % (how, key), '%s: %s' % (case, msg)))  # noqa: E731
    lat = Lattice([Lx], cx.cell, bc='open', bc_MPS='finite')
    M = CouplingModel(lat, explicit_plus_hc=case.get('explicit_plus_hc', False))
    one = lambda x: cx.product([(op, (x + dx) * nu + u) for op, dx, u in ops])  # noqa: E731
    if how == 'local':
        M.add_local_term(s, [(op, [dx, u]) for op, dx, u in ops], plus_hc=plus_hc)
        ref = s * one(0)
    else:
        xs = [x for x in range(-Lx, Lx) if all(0 <= x + dx < Lx for _, dx, _ in ops)]
        ref = sum(s * one(x) for x in xs) if xs else 0 * one(0)
        if how == 'coupling':
            (op1, _, u1), (op2, dx, u2) = ops
            M.add_coupling(s, u1, op1, u2, op2, dx, plus_hc=plus_hc)
        else:
            M.add_multi_coupling(s, [(op, [dx], u) for op, dx, u in ops], plus_hc=plus_hc, switchLR=case.get('switchLR', 'middle_i'))
    if plus_hc:
        ref = ref + ref.conj().T
    D = mpo_dense(M.calc_H_MPO())
    if M.explicit_plus_hc:
        D = D + D.conj().T
    if not close(D, ref):
        bad('H_MPO', 'dense H_MPO differs from the dense sum of products')
    if all(ct.max_range() <= 1 for ct in M.coupling_terms.values()) and not M.explicit_plus_hc:
        Hb = M.calc_H_bond()
        tot = 0 * ref
        for i in range(1, cx.L):
            if Hb[i] is not None:
                B = Hb[i].transpose(['p0', 'p1', 'p0*', 'p1*']).to_ndarray()
                d = B.shape[0] * B.shape[1]
                tot = tot + kron(np.eye(int(np.prod([x.dim for x in cx.sites[:i - 1]], dtype=int))), B.reshape(d, d),
                                 np.eye(int(np.prod([x.dim for x in cx.sites[i + 1:]], dtype=int))))
        if not close(tot, ref):
            bad('H_bond', 'sum of dense H_bond differs from the dense sum of products')
    return out


def check_gterm(case):
    """The same term on the chain of GroupedSites (operators `op+k` on grouped site i//n)."""
    from tenpy.networks.mpo import MPOGraph
    from tenpy.networks.terms import TermList, order_combine_term
    cx = context(case['chain'], case['L'], case.get('seed', 0))
    n = case['n']
    term = [(op, i) for op, i in case['term']]
    out = []
    bad = lambda key, msg: out.append(('grouped-chain:' + key, '%s: %s' % (case, msg)))  # noqa: E731
    try:
        gpsi, full = grouped(case['chain'], case['L'], case.get('seed', 0), n)
    except Exception as e:  # noqa: BLE001
        return [('grouped-chain:MPS.group_sites:exception:' + type(e).__name__, '%s: MPS.group_sites(%d) raises %s' % (case, n, e))]
    gsites = gpsi.sites
    gterm = [(op + str(i % n), i // n) for op, i in term]
    ref = cx.product(term)
    to_kron = lambda D: D[np.ix_(full, full)]  # noqa: E731
    cterm, sign = order_combine_term(list(gterm), gsites)
    ops, i_min, extra = gpsi._term_to_ops_list(list(gterm), True)
    JWs = [dense(g, 'JW') for g in gsites]
    mats = [JWs[k] if extra and k < i_min else np.eye(g.dim) for k, g in enumerate(gsites)]
    for k, op in enumerate(ops):
        mats[i_min + k] = op.to_ndarray()
    if bool(extra) != bool(cx.parity(term)) or not close(to_kron(kron(*mats)), ref):
        bad('term_to_ops_list', 'grouped term %s: operators differ from the ungrouped product' % (gterm,))
    if not cx.parity(term):
        H = MPOGraph.from_term_list(TermList([list(gterm)], [cx.strength]), gsites, 'finite', unit_cell_width=len(gsites)).build_MPO()
        if not close(to_kron(mpo_dense(H)), cx.strength * ref):
            bad('mpo', 'grouped term %s (combined %s, sign %s): dense MPO differs from the ungrouped product' % (gterm, cterm, sign))
        ev = gpsi.expectation_value_term(list(gterm))
        if abs(ev - np.vdot(cx.vec, ref @ cx.vec)) > 1e-11:
            bad('expectation_value_term', 'grouped MPS gives %r, dense %r' % (ev, np.vdot(cx.vec, ref @ cx.vec)))
    return out


@functools.lru_cache(maxsize=4)
def grouped(chain, L, seed, n):
    """The random MPS with each n sites grouped, and the index map (ungrouped Kronecker index -> grouped index)."""
    cx = context(chain, L, seed)
    gpsi = cx.psi.copy()
    gpsi.group_sites(n)
    maps = []
    for g in gpsi.sites:
        canons = [canon_labels(s) for s in g.sites]
        order = [[c[i] for i in range(s.dim)] for c, s in zip(canons, g.sites)]  # label of state i of each ungrouped site
        maps.append(np.array([g.state_labels[' '.join(l + '_' + str(k) for k, l in enumerate(x))] for x in itertools.product(*order)]))
    full = np.ravel_multi_index(np.meshgrid(*maps, indexing='ij'), [len(m) for m in maps]).reshape(-1)
    return gpsi, full
