"""C08 -- MPS measurements equal dense quantum mechanics.

Bounded exhaustive grid: a family of generic entangled states (every site type / charge sector / boundary
condition / canonical form; MPSEnvironments with bra != ket of different norm, bond dimension and charge sector)
x every measurement function x the full finite argument space described in `c08.json`.  Oracle: the dense state
vector (the source vector for finite chains, our own contraction of the stored tensors for windows of segment
and infinite MPS) and single-site matrices applied one after the other, with explicit Jordan-Wigner strings
(c08_dense.py).  `sample_measurements` is driven by a scripted `rng` that forces every outcome string once.
"""
import functools
import itertools
import json
import traceback
import warnings

import numpy as np

from . import c08_dense as DN
from .c08_dense import TOL, Dense, is_fermionic, opmat, pool

UNIT_TIMEOUT = 900.0
KINDS = ['ev', 'nsite', 'multi', 'term', 'tsum', 'corr', 'corrsub', 'tcorr', 'tlist', 'overlap', 'rho', 'charge', 'sample']
MPS_ONLY = {'rho', 'charge', 'sample', 'overlap'}
FORMS = [None, 'B', 'A', 'mixed', 'C']
NORM_KET, NORM_BRA = 1.3, 0.7


# ---------------------------------------------------------------- states

def state_specs(tier):
    q = tier == 'quick'
    L = 4 if q else 5
    sp = []
    for n, chain in enumerate(DN.CHAINS):
        for k in (0, 1):
            forms = [FORMS[(n + 2 * k) % len(FORMS)]] if q or k else FORMS
            sp += [dict(chain=chain, bc='finite', L=4 if chain == 'SHF:N,Sz' else L, k=k, form=f) for f in forms]
        Le = 4 if chain == 'SHF:N,Sz' or q else 5
        sp += [dict(chain=chain, bc='finite', L=Le, k=0, form=FORMS[n % len(FORMS)], env=e) for e in ('other', 'lowrank', 'charged', 'applied')]
        if chain != 'SHF:N,Sz':
            sp += [dict(chain=chain, bc='segment', L=3, k=0, form=None, src='finite')]
            sp += [dict(chain=chain, bc='segment', L=3, k=0, form=None, src='finite', env='applied')]
    for n, chain in enumerate(DN.IMPS):
        sp += [dict(chain=chain, bc='infinite'), dict(chain=chain, bc='segment', src='infinite')]
        if not q or n == 3:
            sp += [dict(chain=chain, bc='infinite', form='mixed' if n % 2 else 'A')]
    return sp


class Shape:
    """What the enumeration of the cases needs to know about a state: sites and the range of usable indices."""

    def __init__(self, spec):
        self.spec = spec
        self.cell = DN.make_cell(spec['chain'])
        self.bc, self.env = spec['bc'], spec.get('env')
        self.finite = self.bc != 'infinite'
        if self.bc == 'infinite':
            self.L = DN.IMPS[spec['chain']]['L']
            self.lo, self.hi = -1, (4 if self.L < 3 else 5)
        else:
            self.L = spec['L'] if spec.get('src') != 'infinite' else 2 * DN.IMPS[spec['chain']]['L'] + 1
            self.lo, self.hi = 0, self.L
        self.offset = 1 if self.bc == 'segment' else 0  # site 0 of a segment is site 1 of its source
        self.odd_ok = self.env == 'charged' and self.cell[0].leg.chinfo.qnumber > 0

    def site(self, i):
        return self.cell[(i + self.offset) % len(self.cell)]

    @property
    def window(self):
        return list(range(self.lo, self.hi))


def forms_list(form, L):
    return [['A', 'B', 'C', 'G', 'Th'][i % 5] for i in range(L)] if form == 'mixed' else form


@functools.lru_cache(maxsize=3)
def context(spec_json, seed):
    """Shape + the tenpy objects (`M` = MPS or MPSEnvironment to be measured, `psi` = ket) + the dense reference `D`."""
    from tenpy.networks.mps import MPSEnvironment
    spec = json.loads(spec_json)
    c = Shape(spec)
    chain, env = spec['chain'], c.env
    if spec.get('src') == 'infinite' or c.bc == 'infinite':
        ipsi = DN.infinite_state(chain, seed, NORM_KET)
        if spec.get('form'):
            ipsi.convert_form(forms_list(spec['form'], ipsi.L))
        if c.bc == 'infinite':
            c.psi, T = ipsi, DN.window_tensor(ipsi, c.lo, c.hi - c.lo)
        else:
            c.psi, T = ipsi.extract_segment(1, c.L), DN.window_tensor(ipsi, 1, c.L)
        c.q_left = ipsi._B[(c.lo + c.offset) % ipsi.L].get_leg('vL').to_qflat()
        c.qtotals = [ipsi._B[(i + c.offset) % ipsi.L].qtotal for i in c.window]
        c.assumption_ok = DN.is_canonical(ipsi, T)
    else:
        Lf = c.L + 2 * c.offset
        full, vec = DN.finite_state(chain, Lf, spec['k'], seed, forms_list(spec['form'], Lf), NORM_KET)
        if c.bc == 'segment':  # the outer sites play the role of the environments
            c.psi, T = full.extract_segment(1, c.L), vec.reshape(vec.shape[1:-1])
            q0 = full.sites[0].leg.to_qflat() + full._B[0].get_leg('vL').to_qflat()[0] - full._B[0].qtotal
            c.q_left = full.chinfo.make_valid(q0)
        else:
            c.psi, T = full, vec
            c.q_left = full._B[0].get_leg('vL').to_qflat()
        c.qtotals = [B.qtotal for B in full._B[c.offset:c.offset + c.L]]
        c.assumption_ok = True
    sites = [c.site(i) for i in c.window]
    c.M, bra, scale = c.psi, None, 1.0
    if env == 'applied':  # bra = Op_i |ket> made by the library, shares the environments of the ket
        i, op = c.hi - 2, pool(c.site(c.hi - 2))[1 if chain[0] != 'F' else 0]
        b = c.psi.copy()
        with warnings.catch_warnings():
            warnings.simplefilter('ignore')
            b.apply_local_op(i, op, unitary=False)
        bra, scale = Dense._apply(T, opmat(c.site(i), op), i - c.lo), NORM_KET * NORM_KET
        c.M = MPSEnvironment(b, c.psi)
    elif env:
        b, bra = DN.finite_state(chain, c.L, spec['k'] + (env == 'charged'), seed + 101, 'A' if spec['form'] != 'A' else 'B',
                                 NORM_BRA, low_rank=(env == 'lowrank'))
        scale = NORM_BRA * NORM_KET
        c.M = MPSEnvironment(b, c.psi)
    c.D = Dense(sites, T, bra, c.lo, scale)
    return c


# ---------------------------------------------------------------- small helpers

def close(got, ref):
    got, ref = np.asarray(got), np.asarray(ref)
    return got.shape == ref.shape and (ref.size == 0 or bool(np.all(np.abs(got - ref) <= TOL * max(1.0, np.abs(ref).max()))))


def names_at(c, pattern, i0):
    """Operator names for sites i0, i0+1, ...: `pattern[r]` indexes the pool of the respective site."""
    return [pool(c.site(i0 + r))[x % len(pool(c.site(i0 + r)))] for r, x in enumerate(pattern)]


def ops_list(c, x, fermionic=None):
    """One operator name per position of the unit cell; ``ops[j]`` acts on the sites j, j + len(ops), ..."""
    return [pool(c.site(j), fermionic)[x % len(pool(c.site(j), fermionic))] for j in range(len(c.cell))]


def at(c, ops, i):
    """``ops[i]`` acts on site i (periodically repeated; inside the unit cell for infinite MPS)."""
    return ops if isinstance(ops, str) else ops[(i if c.finite else i % c.L) % len(ops)]


def patterns(c, n, fermionic=None):
    """Index patterns giving distinct name tuples on every position."""
    P = max(len(pool(s, fermionic)) for s in c.cell)
    return list(itertools.product(range(P), repeat=n)) if P else []


def letters(c, positions, fermionic=None):
    return [(op, i) for i in positions for op in pool(c.site(i), fermionic)]


def term_parity(c, term):
    return sum(is_fermionic(c.site(i), op) for op, i in term) % 2


def term_charge(c, term):
    chinfo = c.cell[0].leg.chinfo
    return tuple(chinfo.make_valid(sum(c.site(i).get_op(n).qtotal for op, i in term for n in op.split())))


def neutral(c, term):
    return not term_parity(c, term) and not any(term_charge(c, term))


def outer_op(c, names, i0):
    """npc n-site operator ``names[0]_{i0} x names[1]_{i0+1} x ...`` with legs p0, p0*, p1, ..."""
    import tenpy.linalg.np_conserved as npc
    ops = [c.site(i0 + r).get_op(nm).replace_labels(['p', 'p*'], ['p%d' % r, 'p%d*' % r]) for r, nm in enumerate(names)]
    return functools.reduce(npc.outer, ops)


def random_op(c, n, i0, seed):
    """Generic charge-conserving n-site operator acting on sites i0, ..., legs p0, .., p0*, .."""
    import tenpy.linalg.np_conserved as npc
    rng = np.random.default_rng([seed, 5, n, i0 - c.lo])
    legs = [c.site(i0 + r).leg for r in range(n)]
    func = lambda shape: rng.standard_normal(shape) + 1j * rng.standard_normal(shape)  # noqa: E731
    return npc.Array.from_func(func, legs + [l.conj() for l in legs], dtype=complex,
                               labels=['p%d' % r for r in range(n)] + ['p%d*' % r for r in range(n)])


def dense_op(O, n):
    return O.transpose(['p%d' % r for r in range(n)] + ['p%d*' % r for r in range(n)]).to_ndarray()


def strengths(seed, n):
    rng = np.random.default_rng([seed, 9, n])
    return list(np.round(rng.uniform(0.5, 1.5, n), 3) * np.where(np.arange(n) % 3 == 1, 1j, 1.0))


# ---------------------------------------------------------------- enumeration of the cases (json-able dicts)

def cases(kind, c, tier):
    """All cases of one kind for the state shape `c`; deterministic, needs no tenpy state."""
    q = tier == 'quick'
    W, lo, hi = c.window, c.lo, c.hi
    hom = len(c.cell) == 1
    if kind in MPS_ONLY and c.env:
        return
    if kind == 'ev':
        choices = [sorted(c.site(j).opnames) + ['%s %s' % ab for ab in itertools.product(pool(c.site(j)), repeat=2)] if hom else pool(c.site(j)) + ['Id']
                   for j in range(len(c.cell))]
        for names in itertools.product(*choices):  # names[j] acts on the sites j, j + len(names), ...
            par = {is_fermionic(c.site(j), nm) for j, nm in enumerate(names)}
            if len(par) > 1 or (True in par and not c.odd_ok):
                continue  # (an operator with a JW string to the left: only between states of different parity)
            ops = names[0] if hom else list(names)
            yield dict(ops=ops, sites=None)
            yield dict(ops=ops, sites=W[::-1])
            if hom and True not in par:
                yield dict(ops=ops, sites=[W[1]], array=True)
        if c.env:
            for i0 in range(c.L):
                yield dict(full_contraction=i0)
    elif kind == 'nsite':
        for n in (2, 3):
            for pat in patterns(c, n):
                for axes in ('default', 'custom'):
                    yield dict(n=n, pattern=pat, sites=None, axes=axes)
                yield dict(n=n, pattern=pat, sites=list(range(hi - n, lo - 1, -1)), axes='default')
            for i0 in range(lo, hi - n + 1):
                for axes in ('default', 'custom'):
                    yield dict(n=n, random=True, sites=[i0], axes=axes)
    elif kind == 'multi':
        for n in (1, 2, 3):
            for pat in patterns(c, n):
                for i0 in range(lo, hi - n + 1):
                    yield dict(pattern=pat, i0=i0, array=False)
                if n == 2:
                    yield dict(pattern=pat, i0=lo, array=True)
    elif kind == 'term':
        P = max(len(pool(s)) for s in c.cell)
        for m in (1, 2, 3):
            if m == 3 and (P > 3 or c.env) and q:
                continue
            for t in itertools.product(letters(c, W[:3] if m == 3 and q else W[:4]), repeat=m):
                if not term_parity(c, t):
                    yield dict(term=t, autoJW=True)
                if m > 1 and any(is_fermionic(c.site(i), op) for op, i in t):
                    yield dict(term=t, autoJW=False)
    elif kind == 'tsum':
        if c.bc == 'segment':
            return  # (needs explicit environments, not offered by this function)
        pos = W[:4] if c.finite else W
        for m, chunk in ((1, 5), (2, 7), (3, 11)):
            ts = [t for t in itertools.product(letters(c, pos), repeat=m) if neutral(c, t)]
            if m == 3:
                ts = ts[::7]
            for a in range(0, len(ts), chunk):
                yield dict(terms=ts[a:a + chunk])
    elif kind == 'corr':
        lists = [(ops_list(c, x), ops_list(c, y)) for x, y in patterns(c, 2)]
        if hom and pool(c.cell[0], True) and c.L % 2 == 0:  # period-2 lists in which only some positions are fermionic
            f, b = pool(c.cell[0], True)[0], pool(c.cell[0], False)[0]
            fd = c.cell[0].hc_ops[f]
            lists += [([fd, b], [b, f]), ([b, fd], [f, b]), ([fd, b], [f, b]), ([b, b], [f, b])]
        for o1, o2 in lists:
            for val in (False, True):  # the sites on which both operators are bosonic / both are fermionic
                s1, s2 = ([i for i in W if is_fermionic(c.site(i), at(c, o, i)) == val] for o in (o1, o2))
                if not s1 or not s2 or (val and c.env == 'charged'):
                    continue
                full = s1 == W and s2 == W
                ops1, ops2 = (o1, o2) if len(o1) > 1 else (o1[0], o2[0])
                base = dict(ops1=ops1, ops2=ops2) if full else dict(ops1=ops1, ops2=ops2, tag='ops-list-partly-fermionic')
                yield dict(base, sites1=None if full else s1, sites2=None if full else s2)
                herm = c.env is None and s1 == s2 and all(c.site(i).hc_ops.get(at(c, o1, i)) == at(c, o2, i) for i in s1)
                if herm:
                    yield dict(base, sites1=None if full else s1, sites2=None if full else s2, hermitian=True)
                    yield dict(base, sites1=s1[::2], sites2=s1[::2], hermitian=True)
                if len(s1) > 1 and len(s2) > 1:
                    yield dict(base, sites1=s1[1:], sites2=s2[:-1], array=not val)
                if full:
                    strs = ['JW', ops_list(c, -1)] + ([pool(c.cell[0])[0]] if hom else [])
                    for opstr, sof in itertools.product(strs, (True, False)):
                        yield dict(base, sites1=W, sites2=W, opstr=opstr, str_on_first=sof)
                        if herm and opstr == 'JW':
                            yield dict(base, sites1=W, sites2=W, opstr=opstr, str_on_first=sof, hermitian=True)
    elif kind == 'corrsub':  # every pair of non-empty subsets of a window of 3 (quick) or 4 sites
        Ws = W[:3] if q else W[:4]
        subsets = [list(x) for r in range(1, len(Ws) + 1) for x in itertools.combinations(Ws, r)]
        pairs = [(ops_list(c, x), ops_list(c, y)) for x, y in patterns(c, 2) if x != y][:2]
        if hom and pool(c.cell[0], True) and c.env != 'charged':
            pairs += [(ops_list(c, x, True), ops_list(c, y, True)) for x, y in patterns(c, 2, True)][:2]
        for o1, o2 in pairs:
            if len({is_fermionic(c.site(j), o[j]) for o in (o1, o2) for j in range(len(o))}) == 1:
                for s1, s2 in itertools.product(subsets, repeat=2):
                    yield dict(ops1=o1[0] if hom else o1, ops2=o2[0] if hom else o2, sites1=s1, sites2=s2)
    elif kind == 'tcorr':
        shapes = [(0,), (0, 1), (0, 2)]
        for shL, shR in itertools.product(shapes, repeat=2):
            span = shL[-1] + shR[-1] + 2
            P = max(len(pool(s)) for s in c.cell)
            if span > len(W) or len(shL) + len(shR) > (2 if P > 3 else 3 if c.env else 4) - q:
                continue
            for pat in patterns(c, len(shL) + len(shR)):
                for i_L in range(lo, hi - span + 1):
                    nL = names_at_shape(c, pat[:len(shL)], shL, i_L)
                    j0 = i_L + shL[-1] + 1
                    js = list(range(j0, hi - shR[-1]))
                    nR = names_at_shape(c, pat[len(shL):], shR, j0)
                    if not hom and len(js) > 1:
                        js = js[::len(c.cell)]  # the same operator names must be valid at all j
                    tL, tR = [(o, d) for o, d in zip(nL, shL)], [(o, d) for o, d in zip(nR, shR)]
                    even = not (sum(is_fermionic(c.site(i_L + d), o) for o, d in tL) + sum(is_fermionic(c.site(j0 + d), o) for o, d in tR)) % 2
                    if even:
                        yield dict(f='right', term_L=tL, term_R=tR, i_L=i_L, j_R=js[::-1])
                        if i_L == lo:
                            yield dict(f='right', term_L=tL, term_R=tR, i_L=i_L, j_R=None if c.finite and hom else js)
                        yield dict(f='left', term_L=tL, term_R=tR, i_L=[i_L], j_R=js[-1])
                    if len(shL) + len(shR) <= 3:
                        for opstr in ('JW', pool(c.cell[0])[0]):
                            if hom or opstr == 'JW':
                                yield dict(f='right', term_L=tL, term_R=tR, i_L=i_L, j_R=js, autoJW=False, opstr=opstr)
                                yield dict(f='left', term_L=tL, term_R=tR, i_L=[i_L], j_R=js[-1], autoJW=False, opstr=opstr)
        if hom:  # several i_L at once
            for pat in patterns(c, 2):
                a, b = names_at(c, pat, 0)
                if is_fermionic(c.cell[0], a) == is_fermionic(c.cell[0], b):
                    yield dict(f='left', term_L=[(a, 0)], term_R=[(b, 0)], i_L=W[:-1], j_R=hi - 1)
                    if len(W) > 3:
                        yield dict(f='left', term_L=[(a, 0), (b, 1)], term_R=[(b, 0), (a, 1)], i_L=W[:-3], j_R=hi - 2)
    elif kind == 'tlist':
        fer = bool(pool(c.cell[0], True))
        if not hom or len(W) < 4 or fer and (c.cell[0].leg.chinfo.qnumber == 0 or c.env == 'charged'):
            return  # (documented assumption: terms of odd fermion parity do not contribute)
        lets = [(o, d) for o in pool(c.cell[0]) for d in (0, 1)]
        all_terms = [[x] for x in lets] + [[x, y] for x, y in itertools.product(lets, repeat=2) if x[1] < y[1]]
        for a, (nl, nr) in itertools.product(range(0, len(all_terms), 5), ((3, 4), (5, 2))):
            TL = (all_terms + all_terms)[a:a + nl]
            TR = (all_terms + all_terms)[a + 2:a + 2 + nr]
            yield dict(TL=TL, TR=TR, i_L=lo, j_R=list(range(lo + 2, hi - 1)))
            yield dict(TL=TL, TR=TR, i_L=lo, j_R=None if c.finite else list(range(lo + 2, hi - 1))[::-1])
            yield dict(TL=TL, TR=TR, i_L=lo + (len(W) > 4), j_R=[hi - 2], autoJW=False, opstr=pool(c.cell[0])[0])
    elif kind == 'overlap':
        if c.bc == 'segment':
            return
        for other in (['same', 'generic', 'lowrank', 'charged'] if c.finite else ['same', 'generic']):
            for ign in (False, True):
                for cs in ([None] if c.finite else [None, 0]):
                    yield dict(other=other, ignore_form=ign, charge_sector=cs)
    elif kind == 'rho':
        for r in (1, 2, 3):
            for seg in itertools.combinations(W, r):
                yield dict(f='get_rho_segment', segment=seg)
        for seg, n in itertools.product(([0], [0, 1], [0, 2], [1, 0], [0, 1, 2], [0, 1, 3]), (1, 2)):
            if max(seg) < (c.L if c.finite else hi - c.L + 1):
                yield dict(f='entanglement_entropy_segment', segment=seg, n=n, first_site=None)
            if max(seg) < len(W) - 1:
                yield dict(f='entanglement_entropy_segment', segment=seg, n=n, first_site=[i for i in W if i + max(seg) < hi][::-1])
        for mr, n in itertools.product((None, 1, 2), (1, 2)):
            yield dict(f='mutinf_two_site', max_range=mr, n=n)
        yield dict(f='entanglement_entropy', n=1)
    elif kind == 'charge':
        if c.cell[0].leg.chinfo.qnumber == 0:
            return
        for b in range(lo + (not c.finite), hi + (c.bc == 'segment')):
            yield dict(f='probability_per_charge', bond=b)
        if c.bc == 'finite':
            yield dict(f='get_total_charge')
    elif kind == 'sample':
        s = c.cell[0]
        meas = [None] + [[o] for o in ('Sz', 'Sx', 'N') if hom and o in s.opnames and neutral(c, [(o, 0)])
                         and len(set(np.round(np.linalg.eigvalsh(opmat(s, o)), 9))) == s.dim]
        wins = [(lo, None)] * (lo == 0) + [(a, b) for a in range(lo, hi) for b in range(a, hi)]
        for (a, b), ops, ca in itertools.product(wins, meas, (True, False)):
            if np.prod([c.site(i).dim for i in range(a, (b if b is not None else c.L - 1) + 1)]) <= 256:
                yield dict(first=a, last=b, ops=ops, complex_amplitude=ca)


def names_at_shape(c, pattern, shape, i0):
    return [pool(c.site(i0 + d))[x % len(pool(c.site(i0 + d)))] for x, d in zip(pattern, shape)]


# ---------------------------------------------------------------- one case = one call of the library

def _ops(c, ops, array=False):
    return [c.site(i).get_op(o) for i, o in enumerate(ops if isinstance(ops, list) else [ops])] if array else ops


def check_ev(c, a):
    M, D = c.M, c.D
    if 'full_contraction' in a:
        got, ref = M.full_contraction(a['full_contraction']), D.amp([])
        return [] if close(got, ref) else [('env:full_contraction', 'got %r, dense <bra|ket>*norms = %r' % (got, ref))]
    sites = a['sites'] if a['sites'] is not None else list(range(c.L))
    got = M.expectation_value(_ops(c, a['ops'], a.get('array')), a['sites'])
    ref = [D.term([(at(c, a['ops'], i), i)]) for i in sites]
    return [] if close(got, ref) else [('expectation_value:1-site', 'got %s\ndense %s' % (got, np.array(ref)))]


def check_nsite(c, a):
    n, D = a['n'], c.D
    sites = a['sites'] if a['sites'] is not None else list(range(c.L - (n - 1) if c.finite else c.L))
    if a.get('random'):
        ops = [random_op(c, n, sites[0], a['seed'])]
        ref = [D.nsite(dense_op(ops[0], n).reshape([c.site(sites[0] + r).dim for r in range(n)] * 2), sites[0])]
    else:  # ops[i] acts on sites i, i+1, ..: one operator per position of the unit cell
        ops = [outer_op(c, names_at(c, a['pattern'], i), i) for i in range(len(c.cell))]
        ref = [D.amp([(opmat(c.site(i + r), nm), i + r) for r, nm in enumerate(names_at(c, a['pattern'], i))]) for i in sites]
    axes = None
    if a['axes'] == 'custom':
        new = ['a%d' % r for r in range(n)], ['b%d' % r for r in range(n)]
        ops = [O.replace_labels(['p%d' % r for r in range(n)] + ['p%d*' % r for r in range(n)], new[0] + new[1]).transpose(new[1][::-1] + new[0]) for O in ops]
        axes = new
    got = c.M.expectation_value(ops if len(ops) > 1 else ops[0], a['sites'], axes)
    return [] if close(got, ref) else [('expectation_value:%d-site:%s' % (n, a['axes']), 'got %s\ndense %s' % (got, np.array(ref)))]


def check_multi(c, a):
    names = names_at(c, a['pattern'], a['i0'])
    ops = [c.site(a['i0'] + r).get_op(o) if a['array'] and r != 1 else o for r, o in enumerate(names)]
    got = c.M.expectation_value_multi_sites(ops, a['i0'])
    ref = c.D.amp([(opmat(c.site(a['i0'] + r), o), a['i0'] + r) for r, o in enumerate(names)])
    return [] if close(got, ref) else [('expectation_value_multi_sites', '%s at %d: got %r, dense (no JW) %r' % (names, a['i0'], got, ref))]


def check_term(c, a):
    term = [tuple(x) for x in a['term']]
    got = c.M.expectation_value_term(term, autoJW=a['autoJW'])
    ref = c.D.term(term, jw=a['autoJW'])
    return [] if close(got, ref) else [('expectation_value_term:autoJW=%s' % a['autoJW'], '%s: got %r, dense %r' % (term, got, ref))]


def check_tsum(c, a):
    from tenpy.networks.terms import TermList
    terms = [[tuple(x) for x in t] for t in a['terms']]
    st = strengths(a['seed'], len(terms))
    rng = max(max(i for _, i in t) - min(i for _, i in t) for t in terms)
    key = 'expectation_value_terms_sum:%s' % ('env' if c.env else c.bc if c.finite else 'infinite:range=%d' % rng)
    norms = c.M.bra.norm * c.M.ket.norm if c.env else 1.0  # (documented for the environment: without the norms)
    ref = sum(s * c.D.term(t) for s, t in zip(st, terms)) / norms
    given = np.array(st)  # the caller's array
    tl = TermList([list(t) for t in terms], given)
    out = []
    for rep in ('', ':second-evaluation-of-the-same-TermList'):
        try:
            got, _ = c.M.expectation_value_terms_sum(tl)
        except Exception as e:  # noqa: BLE001
            return out + [('%s:exception:%s%s' % (key, type(e).__name__, rep), '%s: %s\n%s' % (terms, e, traceback.format_exc()[-1200:]))]
        if not close(got, ref):
            out.append((key + rep, '%s: got %r, dense sum %r' % (terms, got, ref)))
    # the library may reorder / combine the operators of the TermList in place, but it has to stay the same operator sum,
    # and the strengths handed in by the caller are his own
    if len(tl.terms) != len(terms) or not close(sum(s * c.D.term(t) for s, t in zip(tl.strength, tl.terms)) / norms, ref):
        out.append(('expectation_value_terms_sum:changes-the-meaning-of-its-argument', '%s with strengths %s became %s, %s' % (terms, st, tl.terms, tl.strength)))
    if not np.array_equal(given, st):
        out.append(('expectation_value_terms_sum:modifies-strength-array-of-the-caller', '%s: strengths %s became %s' % (terms, st, given)))
    return out


def corr_ref(c, op1, op2, i, j, opstr, sof):
    """Literal transcription of the `Returns` section of correlation_function."""
    D = c.D
    m1, m2 = (opmat(c.site(i), op1), i), (opmat(c.site(j), op2), j)
    if i == j or opstr is None:
        return D.amp([m1, m2])
    string = [(opmat(c.site(r), opstr(r)), r) for r in range(min(i, j) + (0 if sof else 1), max(i, j))]
    return D.amp([m1] + string + [m2]) if i < j else D.amp(string + [m1, m2])


def check_corr(c, a):
    sites1 = a.get('sites1') if a.get('sites1') is not None else list(range(c.L))
    sites2 = a.get('sites2') if a.get('sites2') is not None else list(range(c.L))
    kw = {k: a[k] for k in ('sites1', 'sites2', 'opstr', 'str_on_first', 'hermitian') if k in a}
    tag = a.get('tag', 'opstr' if 'opstr' in a else 'autoJW')
    o1, o2 = a['ops1'], a['ops2']
    try:
        got = c.M.correlation_function(_ops(c, o1, a.get('array')), _ops(c, o2, a.get('array')), **kw)
    except ValueError as e:
        return [('correlation_function:%s:ValueError' % tag, '%s: %s' % (a, e))]
    ref = np.empty((len(sites1), len(sites2)), complex)
    for (x, i), (y, j) in itertools.product(enumerate(sorted(sites1)), enumerate(sorted(sites2))):
        if 'opstr' in a:
            ref[x, y] = corr_ref(c, at(c, o1, i), at(c, o2, j), i, j, lambda r: at(c, a['opstr'], r), a['str_on_first'])
        else:
            ref[x, y] = c.D.term([(at(c, o1, i), i), (at(c, o2, j), j)])
    if close(got, ref):
        return []
    bad = np.argwhere(np.abs(got - ref) > TOL * max(1, np.abs(ref).max()))
    rel = {('i<j', 'i=j', 'i>j')[int(np.sign(sorted(sites1)[x] - sorted(sites2)[y])) + 1] for x, y in bad}
    if c.env and rel == {'i=j'}:
        tag = 'MPSEnvironment'
    return [('correlation_function:%s:%s%s' % (tag, ','.join(sorted(rel)), ':hermitian' if a.get('hermitian') else ''),
             '%s: got\n%s\ndense\n%s' % (a, np.round(got, 6), np.round(ref, 6)))]


def tcorr_ref(c, tL, tR, i, j, autoJW, opstr):
    tL, tR = [(o, d + i) for o, d in tL], [(o, d + j) for o, d in tR]
    if autoJW:
        return c.D.term(tL + tR)
    string = [(opstr, r) for r in range(max(d for _, d in tL) + 1, min(d for _, d in tR))] if opstr else []
    return c.D.term(tL + string + tR, jw=False)


def check_tcorr(c, a):
    tL, tR = [tuple(x) for x in a['term_L']], [tuple(x) for x in a['term_R']]
    autoJW, opstr = a.get('autoJW', True), a.get('opstr')
    if a['f'] == 'right':
        got = c.M.term_correlation_function_right(tL, tR, a['i_L'], a['j_R'], autoJW, opstr)
        js = a['j_R'] if a['j_R'] is not None else range(a['i_L'] + tL[-1][1] + 1 - tR[0][1], c.L - tR[-1][1])
        ref = [tcorr_ref(c, tL, tR, a['i_L'], j, autoJW, opstr) for j in sorted(js)]
    else:
        got = c.M.term_correlation_function_left(tL, tR, a['i_L'], a['j_R'], autoJW, opstr)
        ref = [tcorr_ref(c, tL, tR, i, a['j_R'], autoJW, opstr) for i in sorted(a['i_L'])[::-1]]
    if close(got, ref):
        return []
    return [('term_correlation_function_%s:%s' % (a['f'], 'autoJW' if autoJW else 'opstr'), '%s: got %s\ndense %s' % (a, got, np.array(ref)))]


def check_tlist(c, a):
    from tenpy.networks.terms import TermList
    TL, TR = ([[tuple(x) for x in t] for t in a[k]] for k in ('TL', 'TR'))
    sL, sR = strengths(a['seed'], len(TL)), strengths(a['seed'] + 1, len(TR))
    autoJW, opstr = a.get('autoJW', True), a.get('opstr')
    got = c.M.term_list_correlation_function_right(TermList(TL, sL), TermList(TR, sR), a['i_L'], a['j_R'], autoJW, opstr)
    (min_L, max_L), (min_R, max_R) = ((min(d for t in T for _, d in t), max(d for t in T for _, d in t)) for T in (TL, TR))
    js = a['j_R'] if a['j_R'] is not None else range(a['i_L'] + max_L + 1 - min_L, c.L - max(0, max_R))
    ref = [sum(x * y * tcorr_ref(c, tl, tr, a['i_L'], j, autoJW, opstr) for x, tl in zip(sL, TL) for y, tr in zip(sR, TR)) for j in sorted(js)]
    if close(got, ref):
        return []
    return [('term_list_correlation_function_right:%s' % ('autoJW' if autoJW else 'opstr'), '%s: got %s\ndense %s' % (a, got, np.array(ref)))]


def raw_chain(psi):
    """Contraction of the stored tensors `_B` as they are (what `ignore_form=True` is documented to use)."""
    T = psi._B[0].transpose(['vL', 'p', 'vR']).to_ndarray()
    for B in psi._B[1:]:
        T = np.tensordot(T, B.transpose(['vL', 'p', 'vR']).to_ndarray(), axes=(-1, 0))
    return T


def check_overlap(c, a):
    psi, spec = c.psi, c.spec
    if c.finite:
        if a['other'] == 'same':
            phi, pv = psi, c.D.ket
        else:
            phi, pv = DN.finite_state(spec['chain'], c.L, spec['k'] + (a['other'] == 'charged'), a['seed'] + 101,
                                      'A' if spec['form'] != 'A' else 'B', NORM_BRA, low_rank=(a['other'] == 'lowrank'))
        if a['ignore_form']:
            ref = np.vdot(raw_chain(psi), raw_chain(phi)) * psi.norm * phi.norm
        else:
            ref = np.vdot(c.D.ket, pv) * psi.norm * phi.norm
        got = psi.overlap(phi, charge_sector=a['charge_sector'], ignore_form=a['ignore_form'])
    else:
        phi = psi if a['other'] == 'same' else DN.infinite_state(spec['chain'], a['seed'] + 101, NORM_BRA)
        form = None if a['ignore_form'] else (0.0, 1.0)
        get = lambda p, i: DN.raw_tensor(p, i, form or p.form[i])  # noqa: E731
        E = None
        for i in range(psi.L):  # dense transfer matrix, index pairs (ket bond, bra bond)
            Ei = np.einsum('apb,cpd->acbd', get(phi, i), get(psi, i).conj())
            Ei = Ei.reshape(Ei.shape[0] * Ei.shape[1], -1)
            E = Ei if E is None else E @ Ei
        if a['charge_sector'] == 0:  # eigenvectors carrying no charge
            qk, qb = phi._B[0].get_leg('vL').to_qflat(), psi._B[0].get_leg('vL').to_qflat()
            keep = [x * len(qb) + y for x in range(len(qk)) for y in range(len(qb)) if np.all(qk[x] == qb[y])]
            E = E[np.ix_(keep, keep)]
        ev = np.linalg.eigvals(E)
        ev = ev[np.argsort(-np.abs(ev))]
        if len(ev) > 1 and abs(ev[1]) > (1 - 1e-6) * abs(ev[0]):
            return []  # dominant eigenvalue not unique: not determined
        ref = ev[0] * psi.norm * phi.norm
        got = psi.overlap(phi, charge_sector=a['charge_sector'], ignore_form=a['ignore_form'], understood_infinite=True)
    if close(got, ref):
        return []
    return [('overlap:%s:%s:ignore_form=%s' % (c.bc, a['other'], a['ignore_form']), '%s: got %r, dense %r' % (a, got, ref))]


def check_rho(c, a):
    psi, D, f = c.psi, c.D, a['f']
    ent = lambda seg, n: DN.entropy(np.linalg.eigvalsh(mat(D.rho(seg))), n)  # noqa: E731
    mat = lambda r: r.reshape(int(np.sqrt(r.size)), -1)  # noqa: E731
    if f == 'get_rho_segment':
        seg = list(a['segment'])
        rho = psi.get_rho_segment(seg)
        k = len(seg)
        got = rho.transpose(['p%d' % r for r in range(k)] + ['p%d*' % r for r in range(k)]).to_ndarray()
        return [] if close(got, D.rho(seg)) else [('get_rho_segment:%s' % ('consecutive' if seg[-1] - seg[0] == k - 1 else 'gaps'), '%s: differs from the dense reduced density matrix' % (a,))]
    if f == 'entanglement_entropy_segment':
        first = a['first_site'] if a['first_site'] is not None else list(range(c.L - max(a['segment']) if c.finite else c.L))
        got = psi.entanglement_entropy_segment(a['segment'], a['first_site'], a['n'])
        ref = [ent(sorted(i0 + d for d in a['segment']), a['n']) for i0 in first]
    elif f == 'mutinf_two_site':
        coords, got = psi.mutinf_two_site(a['max_range'], a['n'])
        mr = a['max_range'] if a['max_range'] is not None else c.L - 1
        exp_coords = [(i, j) for i in range(c.L) for j in range(i + 1, min(i + mr, c.hi - 1 if not c.finite else c.L - 1) + 1)]
        if a['max_range'] is None and not c.finite:
            return []  # (default range L of an infinite MPS leaves the window)
        if [tuple(x) for x in coords] != exp_coords:
            return [('mutinf_two_site:coords', '%s: coords %s, expected %s' % (a, coords.tolist(), exp_coords))]
        ref = [ent([i], a['n']) + ent([j], a['n']) - ent([i, j], a['n']) for i, j in exp_coords]
    else:
        bonds = list(range(1, c.L)) if c.bc == 'finite' else list(range(0, c.L + (c.bc == 'segment')))
        got = psi.entanglement_entropy(a['n'])
        ref = []
        for b in bonds:
            T = D.ket.reshape(int(np.prod(D.ket.shape[:b - c.lo + 1])), -1)
            ref.append(DN.entropy(np.linalg.svd(T, compute_uv=False)**2, a['n']))
    return [] if np.shape(got) == np.shape(ref) and np.allclose(got, ref, rtol=0, atol=1e-8) else [(f, '%s: got %s, dense %s' % (a, got, np.array(ref)))]


def check_charge(c, a):
    psi, D = c.psi, c.D
    chinfo = psi.chinfo
    if a['f'] == 'get_total_charge':
        idx = np.unravel_index(np.argmax(np.abs(D.ket)), D.ket.shape)[1:-1]
        phys = chinfo.make_valid(sum(s.leg.to_qflat()[x] for s, x in zip(D.sites, idx)))
        vL, vR = psi._B[0].get_leg('vL'), psi._B[-1].get_leg('vR')
        tot = chinfo.make_valid(phys + vL.to_qflat()[0] - vR.to_qflat()[0])
        got = psi.get_total_charge(), psi.get_total_charge(only_physical_legs=True)
        ok = np.array_equal(got[0], tot) and np.array_equal(got[1], phys)
        return [] if ok else [('get_total_charge', 'got %s (physical %s), dense %s (physical %s)' % (got[0], got[1], tot, phys))]
    b = a['bond']
    q_sites = [s.leg.to_qflat() - qt for s, qt in zip(D.sites, c.qtotals)]
    dist = {}
    for q, p in D.bond_charges(b, c.q_left, q_sites).items():
        q = tuple(int(x) for x in chinfo.make_valid(np.array(q)))
        dist[q] = dist.get(q, 0.0) + p
    dist = {q: p for q, p in dist.items() if p > 1e-14}
    qs, ps = psi.probability_per_charge(b)
    got = {tuple(int(x) for x in q): p for q, p in zip(qs, ps) if p > 1e-14}
    out = []
    if len(qs) != len({tuple(q) for q in qs}) or set(got) != set(dist) or any(abs(got[q] - dist[q]) > 1e-10 for q in dist):
        out.append(('probability_per_charge', 'bond %d: got %s, dense %s' % (b, got, dist)))
    Q, P = np.array(list(dist.keys()), dtype=float), np.array(list(dist.values()))
    mean = (P[:, None] * Q).sum(0)
    if not close(psi.average_charge(b), mean):
        out.append(('average_charge', 'bond %d: got %s, dense %s' % (b, psi.average_charge(b), mean)))
    var = (P[:, None] * (Q - mean)**2).sum(0)
    if not close(psi.charge_variance(b), var):
        out.append(('charge_variance', 'bond %d: got %s, dense %s' % (b, psi.charge_variance(b), var)))
    return out


class Impossible(Exception):
    pass


class Script:
    """Stands in for the random number generator: answers `choice` from a prepared list and records the calls."""

    def __init__(self, answers):
        self.answers, self.calls = list(answers), []

    def choice(self, n, p=None):
        k = self.answers[len(self.calls)]
        self.calls.append((n, np.array(p)))
        if p[k] < 1e-13:
            raise Impossible()
        return k


def check_sample(c, a):
    """All outcome strings of one window; returns (violations, number of strings run, number of possible ones)."""
    psi, D = c.psi, c.D
    first, last = a['first'], a['last'] if a['last'] is not None else c.L - 1
    pos = list(range(first, last + 1))
    dims = [c.site(i).dim for i in pos]
    full = c.bc == 'finite' and first == 0 and last == c.L - 1
    if a['ops']:
        eig = [np.linalg.eigh(opmat(c.site(i), a['ops'][(i - first) % len(a['ops'])])) for i in pos]
    out, ran, total = {}, 0, 0.0
    for sigma in itertools.product(*[range(d) for d in dims]):
        rng = Script(sigma)
        try:
            with warnings.catch_warnings():
                warnings.simplefilter('ignore')
                res, weight = psi.sample_measurements(first, a['last'], a['ops'], rng, complex_amplitude=a['complex_amplitude'])
        except Impossible:
            continue
        ran += 1
        # dense: project the ket on the outcomes one site after the other
        T, probs = D.ket, []
        for t, i in enumerate(pos):
            if a['ops']:
                w, V = eig[t]
                k = int(np.argmin(np.abs(w - res[t])))
                if abs(w[k] - res[t]) > 1e-9:
                    out.setdefault('sample_measurements:ops:outcome-not-an-eigenvalue', '%s: %s returned %r' % (a, sigma, res))
                    break
                proj = V[:, k].conj()[None, :]
            else:
                proj = np.eye(dims[t])[[res[t]]]
            T = Dense._apply(T, proj, i - c.lo)
            probs.append(np.linalg.norm(T)**2)
        else:
            cond = [p / q for p, q in zip(probs, [1.0] + probs[:-1])]
            handed = [p[k] for (n, p), k in zip(rng.calls, sigma)]
            if not a['ops'] and list(res) != list(sigma):
                out.setdefault('sample_measurements:sigmas', '%s: forced %s, returned %s' % (a, sigma, res))
            if [n for n, _ in rng.calls] != dims or not np.allclose(handed, cond, rtol=0, atol=1e-10):
                out.setdefault('sample_measurements:probabilities-given-to-rng', '%s: string %s: p=%s, dense conditional Born probabilities %s' % (a, sigma, handed, cond))
            total += probs[-1]
            amp = T.reshape(-1)[0] if full else np.sqrt(probs[-1])
            if not a['complex_amplitude']:
                ref, key = probs[-1], 'sample_measurements:complex_amplitude=False:weight-is-not-the-probability'
            elif full and not a['ops']:
                ref, key = amp, 'sample_measurements:amplitude'
            else:  # (the phase depends on the phases of the eigenvectors / is not defined for a partial window)
                ref, weight, key = abs(amp), abs(weight), 'sample_measurements:abs-amplitude'
            if abs(weight - ref) > 1e-10:
                out.setdefault(key + ((':one-site' if len(pos) == 1 else ':more-than-one-site') if not a['complex_amplitude'] else ''),
                               '%s: string %s: weight %r, dense %r' % (a, sigma, weight, ref))
    if abs(total - 1.0) > 1e-9:
        out['sample_measurements:possible-strings-do-not-exhaust'] = '%s: probabilities of the strings that could be forced sum to %r' % (a, total)
    return list(out.items()), ran


CHECKS = dict(ev=check_ev, nsite=check_nsite, multi=check_multi, term=check_term, tsum=check_tsum, corr=check_corr, corrsub=check_corr,
              tcorr=check_tcorr, tlist=check_tlist, overlap=check_overlap, rho=check_rho, charge=check_charge, sample=check_sample)
CHUNK = dict(ev=400, nsite=400, multi=800, term=1500, tsum=150, corr=150, corrsub=500, tcorr=600, tlist=100, overlap=100, rho=200,
             charge=100, sample=12)


def run_case(kind, spec, args, seed):
    """-> (list of (key, message), number of library calls validated)."""
    c = context(json.dumps(spec, sort_keys=True), seed)
    if not c.assumption_ok:
        return [], 0
    try:
        with warnings.catch_warnings():
            warnings.simplefilter('ignore')
            res = CHECKS[kind](c, dict(args, seed=seed))
        return res if kind == 'sample' else (res, 1)
    except Exception as e:  # noqa: BLE001
        f = args.get('f') or {'ev': 'expectation_value', 'nsite': 'expectation_value', 'multi': 'expectation_value_multi_sites',
                              'term': 'expectation_value_term', 'tsum': 'expectation_value_terms_sum', 'tlist': 'term_list_correlation_function_right',
                              'sample': 'sample_measurements'}.get(kind, kind)
        return [('unexpected-exception:%s:%s:%s' % (kind, f, type(e).__name__), '%s: %s\n%s' % (args, e, traceback.format_exc()[-1500:]))], 1


def state_key(spec):
    return '%s/%s%s%s' % (spec['chain'], spec['bc'], '/env=' + spec['env'] if spec.get('env') else '', '/from-' + spec['src'] if spec.get('src') else '')


def units(tier, seed, label):
    if label == 'PY':  # the pure-Python configuration repeats the quick enumeration
        tier = 'quick'
    us = []
    for si, spec in enumerate(state_specs(tier)):
        sh = Shape(spec)
        for kind in KINDS:
            n = sum(1 for _ in cases(kind, sh, tier))
            us += [(kind, si, a, min(n, a + CHUNK[kind]), tier, seed) for a in range(0, n, CHUNK[kind])]
    return us


def run_unit(unit):
    kind, si, a, b, tier, seed = unit
    spec = state_specs(tier)[si]
    ev = traces = 0
    viol, per_key, outcomes, samples = [], {}, set(), []
    for args in itertools.islice(cases(kind, Shape(spec), tier), a, b):
        args = json.loads(json.dumps(args))
        res, n = run_case(kind, spec, args, seed)
        ev += 1
        traces += n
        outcomes.add('%s:%s:%s' % (kind, state_key(spec), 'ok' if not res else 'violation'))
        for key, what in res:
            key = '%s [%s]' % (key, state_key(spec)) if key.startswith('unexpected-exception') else key
            per_key[key] = per_key.get(key, 0) + 1
            if per_key[key] <= 2 and len(viol) < 16:
                viol.append(dict(key=key, what='state %s: %s' % (spec, what[:3000]), case=dict(kind=kind, spec=spec, args=args, seed=seed)))
        if not samples:
            samples.append(dict(kind=kind, spec=spec, args=args))
    return dict(evaluations=ev, nontrivial_count=ev, traces=traces, violations=viol, outcomes=outcomes, samples=samples,
                extra={'calls_' + kind: traces})


def replay(case):
    res, n = run_case(case['kind'], case['spec'], case['args'], case.get('seed', 0))
    return dict(evaluations=1, violations=[dict(key=k, what=w, case=case) for k, w in res])


def selfcheck(tier, seed, label):
    """Determinism: the same unit twice gives the same observations."""
    unit = ('corr', 0, 0, 20, tier, seed)
    r1 = run_unit(unit)
    context.cache_clear()
    r2 = run_unit(unit)
    if (r1['evaluations'], r1['violations']) != (r2['evaluations'], r2['violations']):
        return 'unit %r gives different results when repeated' % (unit,)
