"""C10 -- all representations of a model Hamiltonian are the same operator.

Bounded exhaustive grid: small lattices (chain, ladder, square, ... x MPS/lattice boundary conditions x orders
x one removed site) x site kinds (spin, fermion, boson, mixed unit cells) x every term generator of
`CouplingModel` over its argument space (every (u1, u2, dx), 3-4 operator couplings, exponentially decaying
couplings, single terms by lattice / MPS index) x strengths (1, negative, complex, site dependent array)
x plus_hc x explicit_plus_hc, each generator alone and pairs of generators, plus every predefined model class.
Oracle: one dense matrix per case computed from the doc-strings of the generators alone (c10_ref.Ref: explicit
sum over the lattice, Jordan-Wigner strings as matrices); every representation tenpy offers (term lists, MPO,
bond terms, dense / sparse exporters, ExactDiag, conversions MPO <-> bonds, and the MPO / bonds after
sort_legcharges, group_sites, enlarge_mps_unit_cell, extract_segment, MPO.to_TermList) is evaluated by our own
contraction and must give that matrix (infinite MPS: on a window, exactly the terms inside the window).
"""
import copy
import itertools
import re
import traceback
import warnings

import numpy as np

from . import c10_models as MODELS
from . import c10_ref as R

UNIT_TIMEOUT = 1500.0
TOL = 1e-11

TYPES = dict(S=['S'], S0=['S0'], F=['F'], B=['B'], FB=['F', 'B'], FS1=['F0', 'S1'])
ONSITE = dict(S=[('Sz', 1)], S0=[('Sx', 1), ('Sp', 0)], F=[('N', 1)], B=[('N', 1)], F0=[('N', 1)], S1=[('Sz', 1), ('Sp', 0)])
PAIRS = {('S', 'S'): [('Sz', 'Sz', 1), ('Sp', 'Sm', 0)], ('S0', 'S0'): [('Sx', 'Sx', 1), ('Sy', 'Sz', 1), ('Sp', 'Sp', 0)],
         ('F', 'F'): [('Cd', 'C', 0), ('N', 'N', 1)], ('B', 'B'): [('Bd', 'B', 0), ('N', 'N', 1)],
         ('F', 'B'): [('N', 'N', 1)], ('B', 'F'): [('N', 'N', 1)], ('F0', 'F0'): [('Cd', 'C', 0), ('Cd', 'Cd', 0)],
         ('S1', 'S1'): [('Sz', 'Sz', 1), ('Sp', 'Sm', 0)], ('F0', 'S1'): [('N', 'Sx', 1)], ('S1', 'F0'): [('Sz', 'N', 1)]}
MULTI = dict(S=[[('Sz', 'S'), ('Sz', 'S'), ('Sz', 'S')], [('Sp', 'S'), ('Sz', 'S'), ('Sm', 'S')]],
             S0=[[('Sx', 'S0'), ('Sz', 'S0'), ('Sx', 'S0')], [('Sp', 'S0'), ('Sx', 'S0'), ('Sp', 'S0')]],
             F=[[('Cd', 'F'), ('N', 'F'), ('C', 'F')], [('N', 'F'), ('Cd', 'F'), ('C', 'F')], [('Cd', 'F'), ('C', 'F'), ('Cd', 'F'), ('C', 'F')]],
             B=[[('Bd', 'B'), ('N', 'B'), ('B', 'B')]],
             FB=[[('Cd', 'F'), ('N', 'B'), ('C', 'F')], [('Bd', 'B'), ('N', 'F'), ('B', 'B')]],
             FS1=[[('Cd', 'F0'), ('Sz', 'S1'), ('C', 'F0')], [('Sp', 'S1'), ('N', 'F0'), ('Sm', 'S1')], [('Cd', 'F0'), ('Sx', 'S1'), ('Cd', 'F0')]])
STRING = dict(S='Sigmaz', S0='Sigmaz', B='N')  # explicit operator strings for the *_term generators


def lattices(tier):
    """(spec, site kinds) of the enumerated lattices."""
    q = tier == 'quick'
    one, two = ['S', 'S0', 'F', 'B'], ['S', 'F', 'FB', 'FS1']
    out = []

    def add(name, Ls, bc_MPS, bc, order='default', remove=None, kinds=None):
        if kinds is None:  # quick: two of the four kinds per lattice, in rotation
            kinds = one if R.N_U[name] == 1 else (two if bc_MPS == 'finite' else ['S', 'F', 'FB', 'B'])  # (dimension)
            kinds = [kinds[(len(out) + j) % 4] for j in ((0, 2) if len(out) % 2 else (1, 3))] if q else kinds
        out.append((dict(name=name, Ls=Ls, bc_MPS=bc_MPS, bc=bc, order=order, remove=remove), kinds))

    for L in (2, 3, 4) if q else (2, 3, 4, 5, 6):
        add('Chain', [L], 'finite', ['open'])
        if L > 2:
            add('Chain', [L], 'finite', ['periodic'])
        if L <= 4:
            add('Chain', [L], 'infinite', ['periodic'])
    add('Chain', [4], 'finite', ['periodic'], 'folded')
    add('Chain', [4], 'finite', ['open'], remove=[[1, 0]])
    for L in (2, 3):
        add('Ladder', [L], 'finite', ['open'])
        add('Ladder', [L], 'finite', ['periodic'], 'folded', kinds=['S', 'F'])
    add('Ladder', [2], 'infinite', ['periodic'])
    add('Ladder', [3], 'finite', ['open'], remove=[[1, 1]], kinds=['F', 'FB'])
    for bc in (['open', 'open'], ['open', 'periodic'], ['periodic', 'periodic']):
        for order in ('default', 'snake') if bc[1] == 'open' else ('default',):
            add('Square', [2, 2], 'finite', bc, order)
    add('Square', [2, 3], 'finite', ['open', 'periodic'], 'snake', kinds=['S', 'F'])
    add('Square', [2, 3], 'finite', ['periodic', 'open'], 'Fstyle', kinds=['F', 'S0'])
    add('Square', [2, 2], 'infinite', ['periodic', 'open'], 'snake', kinds=['S', 'F'])
    add('Square', [1, 3], 'infinite', ['periodic', 'periodic'], kinds=['F', 'B'])
    add('Square', [2, 2], 'finite', ['open', 'open'], remove=[[1, 0, 0]], kinds=['F', 'S'])
    if not q:
        add('Square', [3, 3], 'finite', ['open', 'periodic'], kinds=['F'])
        add('Triangular', [2, 2], 'finite', ['open', 'periodic'], kinds=['F', 'S'])
        add('Triangular', [2, 2], 'infinite', ['periodic', 'open'], kinds=['F', 'S0'])
        add('Honeycomb', [2, 2], 'finite', ['open', 'periodic'], kinds=['F', 'FB'])
        add('Honeycomb', [1, 2], 'infinite', ['periodic', 'open'], 'snake', kinds=['F', 'FB'])
        add('Ladder', [2], 'infinite', ['periodic'], remove=[[0, 1]], kinds=['F', 'S'])
    return out


def strengths(herm, jit):
    """(strength, plus_hc) variants: 1, negative or complex, site dependent; h.c. added iff the term needs it."""
    if herm:
        return [(1.0, False), ({'arr': 0.7 + jit}, False), (-0.5 - jit, False)]
    return [(1.0, False), (1.0, True), ({'arr': 0.7 + jit}, True), ([0.3 + jit, 0.4], True)]


def generator_calls(spec, kind, group, tier, jit):
    """All calls (json-able lists, see c10_ref.Ref.add) of one generator group, as (call, hermitian) pairs."""
    q = tier == 'quick'
    nu, Ls, dim = R.N_U[spec['name']], spec['Ls'], len(spec['Ls'])
    ty = [TYPES[kind][u % len(TYPES[kind])] for u in range(nu)]
    finite = spec['bc_MPS'] == 'finite'
    N = int(np.prod(Ls)) * nu - len(spec['remove'] or [])
    zero = [0] * dim
    if group == 'onsite':
        for u in range(nu):
            for op, herm in ONSITE[ty[u]]:
                for s, hc in strengths(herm, jit):
                    yield ['onsite', s, u, op, hc], bool(herm or hc)
    elif group == 'coupling':  # every (u1, u2, dx), also negative and crossing the boundaries
        mx = [La if (a == 0 and not finite) else La - 1 for a, La in enumerate(Ls)]
        for u1, u2, dx in itertools.product(range(nu), range(nu), itertools.product(*[range(-m, m + 1) for m in mx])):
            if any(dx) or u1 != u2:
                for op1, op2, herm in PAIRS.get((ty[u1], ty[u2]), []):
                    for s, hc in strengths(herm, jit):
                        yield ['coupling', s, u1, op1, u2, op2, list(dx), hc], bool(herm or hc)
    elif group == 'multi':
        offs = [[d] for d in ((0, 1, -2) if q else (0, 1, -1, 2))] if dim == 1 else [[0, 0], [1, 0], [0, 1], [1, 1], [-1, 1]][:3 if q else 5]
        if finite and spec['bc'][0] == 'periodic':  # (a translation by the full length is no translation)
            offs = [o for o in offs if abs(o[0]) < Ls[0]]
        k = 0
        for ops in MULTI[kind]:
            us = [[u for u in range(nu) if ty[u] == t] for _, t in ops]
            for uu in itertools.islice(itertools.product(*us), 0, None, 3 if len(ops) == 3 else 5):
                for dxs in itertools.product(offs, repeat=len(ops) - 1):
                    pos = [(tuple(zero), uu[0])] + [(tuple(d), u) for d, u in zip(dxs, uu[1:])]
                    if len(set(pos)) == 1 or (len(ops) == 4 and len(set(pos)) < 3):
                        continue
                    k += 1
                    for sw in (['middle_i', 'middle_op'][k % 2],) if q else ('middle_i', 'middle_op'):
                        oo = [[op, list(p), u] for (op, _), (p, u) in zip(ops, pos)]
                        s = [1.0, {'arr': 0.7 + jit}, [0.3 + jit, 0.4]][k % 3]
                        yield ['multi', s, oo, True, sw], True
                        if k % 4 == 0:
                            yield ['multi', 1.0, oo, False, sw], False
    elif group == 'exp':
        for t in sorted(set(ty)):
            S_t = None if len(set(ty)) == 1 and not spec['remove'] else 'type'
            for op_i, op_j, herm in PAIRS[(t, t)]:
                for lam in (0.5, 'array'):
                    for sub in (S_t, 'even', 'ends') if S_t is None else (S_t,):
                        for start in (None, 'odd', 'first') if S_t is None else (None,):
                            yield ['exp', 1.0 if lam == 0.5 else -0.5 - jit, lam, op_i, op_j, sub, start, not herm, t], True
        if len(set(ty)) == 2 and (ty[0], ty[1]) in PAIRS:
            op_i, op_j, _ = PAIRS[(ty[0], ty[1])][0]
            yield ['exp', 0.8 + jit, 'array', op_i, op_j, 'type1', 'type0', False], True
    elif group == 'centered' and finite and all(t not in ('F', 'F0') for t in ty) and len(set(ty)) == 1:
        op_i, op_j, herm = PAIRS[(ty[0], ty[0])][0]
        for i in sorted({0, N // 2, N - 1}):
            for lam in (0.5, 'array'):
                for sub in (None, 'with_i'):
                    yield ['centered', 0.6 + jit, lam, op_i, op_j, i, sub, not herm], True
        op_i, op_j, herm = PAIRS[(ty[0], ty[0])][-1]
        yield ['centered', [0.3 + jit, 0.4], 'array', op_i, op_j, N // 2, None, True], True
    elif group == 'local' and not spec['remove']:  # single terms by lattice index: unsorted, repeated sites, next unit cell
        last = [La - 1 for La in Ls]

        def valid(x):  # documented domain of lattice indices (x_0 may leave the unit cell of an infinite MPS)
            return all(0 <= v < La or (a == 0 and not finite) for a, (v, La) in enumerate(zip(x, Ls)))
        for u in range(nu):
            for op, herm in ONSITE[ty[u]]:
                yield ['local', 0.9 + jit, [[op, last + [u]]], not herm], True
                yield ['local', 0.9 + jit, [[op, zero + [u]], [op, zero + [u]]], True], True
        for u1, u2 in itertools.product(range(nu), repeat=2):
            for op1, op2, herm in PAIRS.get((ty[u1], ty[u2]), []):
                for x, dx in [(zero, [1] + zero[1:]), (last, [-1] + zero[1:]), (last, [1] + zero[1:]), (zero, zero[:-1] + [1])]:
                    y = [a + b for a, b in zip(x, dx)]
                    if (x, u1) != (y, u2) and valid(y):
                        yield ['local', [0.3 + jit, 0.4], [[op1, x + [u1]], [op2, y + [u2]]], True], True
                        yield ['local', 1.0, [[op2, y + [u2]], [op1, x + [u1]]], False], bool(herm)
        for ops in MULTI[kind]:
            uu = [[u for u in range(nu) if ty[u] == t][0] for _, t in ops]
            xs = [[(2 * k) % 3 if valid([2] + zero[1:]) else k % Ls[0]] + zero[1:] for k in range(len(ops))]  # not sorted
            yield ['local', 0.7 + jit, [[op, x + [u]] for (op, _), x, u in zip(ops, xs, uu)], True], True
    elif group == 'terms' and len(set(ty)) == 1 and not spec['remove']:  # single terms given by MPS indices
        t = ty[0]
        far = N - 1 if finite else N + 1
        for op, herm in ONSITE[t]:
            for i in (0, N - 1):
                yield ['onsite_term', 0.8 + jit, i, op, not herm], True
        for op1, op2, herm in PAIRS[(t, t)]:
            for i, j in sorted({(0, 1), (0, far), (N - 1, N if not finite else N - 1), (1, far)}):
                if i < j and (i, j) != (0, 0) and i < N:
                    if t in ('F', 'F0') and op1 != 'N':  # the user has to put the Jordan-Wigner string
                        yield ['coupling_term', [0.3 + jit, 0.4], i, j, op1 + ' JW', op2, 'JW', True], True
                    else:
                        yield ['coupling_term', 1.0, i, j, op1, op2, 'Id', not herm], True
                        if t in STRING:
                            yield ['coupling_term', [0.3 + jit, 0.4], i, j, op1, op2, STRING[t], True], True
        if N + (0 if finite else N) >= 3 and t not in ('F', 'F0'):
            ops = [op for op, _ in MULTI[kind][-1]]
            for ijk in ([0, 1, 2], [0, 2, far + 1 if not finite else N - 1]):
                if ijk[1] < ijk[2]:
                    for sw in ('middle_i', 'middle_op'):
                        yield ['multi_term', 0.7 + jit, ijk, ops, ['Id', STRING.get(t, 'Id')], True, sw], True

    elif group == 'longrange' and not finite:
        # Chain, infinite MPS: operators one and two (and more) unit cells to the left / right of the switch site, where
        # the states of the MPO graph have to be distinguished from their copies in the other unit cells.
        ops, t = MULTI[kind][0], ty[0]
        names = [op for op, _ in ops]
        k = 0
        for d in sorted({N + 1, 2 * N, 2 * N + 1, 2 * N + 2}):
            window = N * (-(-(d + 1) // N) + (2 if N == 1 else 1))  # the term and at least one (two) more unit cells
            for mid in sorted({1, d // 2, d - 1}):
                pos = [0, mid, d]
                for sw in ('middle_i', 'middle_op'):
                    k += 1
                    s = [1.0, {'arr': 0.7 + jit}, [0.3 + jit, 0.4]][k % 3]
                    yield ['multi', s, [[op, [x], 0] for op, x in zip(names, pos)], True, sw], True, window
                    if t in ('F', 'F0'):  # (any operators will do for a term given literally)
                        yield ['multi_term', 0.7 + jit, pos, [names[0] + ' JW', names[1], names[2]], ['JW', 'JW'], True, sw], True, window
                    else:
                        yield ['multi_term', 0.7 + jit, pos, names, ['Id', STRING.get(t, 'Id')], True, sw], True, window
                yield ['local', 0.9 + jit, [[names[2], [d + N, 0]], [names[0], [N, 0]], [names[1], [mid + N, 0]]], True], True, window


GROUPS = ['onsite', 'coupling', 'multi', 'exp', 'centered', 'local', 'terms']


def resolve(call, lat, kind):
    """Replace the symbolic sub-site / decay-rate descriptions of exp-decaying calls by numbers."""
    if call[0] not in ('exp', 'centered'):
        return call
    call = list(call)
    N = lat.N_sites
    if call[2] == 'array':
        call[2] = [0.2 + 0.05 * k for k in range(N)]
    sites = lat.mps_sites()
    names = {'S': 'SpinHalfSite', 'S0': 'SpinHalfSite', 'F': 'FermionSite', 'F0': 'FermionSite', 'B': 'BosonSite', 'S1': 'SpinSite'}

    def subs(what, t=None):
        if what is None or isinstance(what, list):
            return what
        if what.startswith('type'):
            t = TYPES[kind][int(what[4:])] if len(what) > 4 else t
            return [i for i, s in enumerate(sites) if type(s).__name__ == names[t]]
        if what == 'with_i':
            return sorted(set(range(0, N, 2)) | {call[5]})
        return {'even': list(range(0, N, 2)), 'odd': list(range(1, N, 2)), 'ends': sorted({0, N - 1}), 'first': [0]}[what]
    if call[0] == 'exp':
        t = call.pop() if len(call) == 9 else None
        call[5], call[6] = subs(call[5], t), subs(call[6], t)
    else:
        call[6] = subs(call[6])
    return call


def cases(spec, kind, group, tier, seed):
    """All cases of a unit: single calls with and without explicit_plus_hc, or pairs of generators."""
    jit = 0.001 * (seed % 89)
    if group == 'longrange':
        for call, _, window in generator_calls(spec, kind, group, tier, jit):
            yield dict(lat=spec, kind=kind, calls=[call], explicit=False, heavy=False, window=window)
    elif group != 'pairs':
        every = 4 if tier == 'quick' or group == 'multi' else 2  # the conversions / transformed models are checked on every 4th (2nd) case
        for k, (call, herm) in enumerate(generator_calls(spec, kind, group, tier, jit)):
            yield dict(lat=spec, kind=kind, calls=[call], explicit=False, heavy=k % every == 0)
            if herm and (k % 2 == 0 or tier != 'quick'):
                yield dict(lat=spec, kind=kind, calls=[call], explicit=True, heavy=k % every == 1)
    else:  # one representative (the last = most general) call of every generator, all pairs
        reps = []
        for g in GROUPS:
            cs = [c for c, herm in generator_calls(spec, kind, g, tier, jit) if herm]
            reps += cs[-1:] if g != 'coupling' else [cs[len(cs) // 2], cs[-1]]
        for k, (a, b) in enumerate(itertools.combinations(reps, 2)):
            yield dict(lat=spec, kind=kind, calls=[a, b], explicit=bool(k % 2), heavy=True, sort_mpo_legs=k % 3 == 0)
        yield dict(lat=spec, kind=kind, calls=reps, explicit=False, heavy=True)
        yield dict(lat=spec, kind=kind, calls=reps, explicit=True, heavy=True)


def units(tier, seed, label):
    us = [('grid', spec, kind, group, tier, seed) for spec, kinds in lattices(tier) for kind in kinds for group in GROUPS + ['pairs']
          if next(cases(spec, kind, group, tier, seed), None) is not None]
    us += [('grid', dict(name='Chain', Ls=[L], bc_MPS='infinite', bc=['periodic'], order='default', remove=None), kind, 'longrange', tier, seed)
           for L in (1, 2) for kind in (['S0', 'F'] if tier == 'quick' else ['S', 'S0', 'F', 'B'])]
    return us + [('model', cls, tier, seed) for cls, _ in MODELS.cases(tier, seed)]


# ------------------------------------------------------------------------------------------ one case

def grid_model(lat, calls, explicit, nn, **options):
    from tenpy.models.model import CouplingMPOModel, NearestNeighborModel

    class GridModel(CouplingMPOModel):
        def init_terms(self, model_params):
            for call in model_params.get('calls', None):
                R.apply_call(self, call)

    class GridNNModel(GridModel, NearestNeighborModel):
        pass

    return (GridNNModel if nn else GridModel)(dict(options, lattice=lat, calls=calls, explicit_plus_hc=explicit))


OP_BASIS = dict(S=['Id', 'Sz', 'Sp', 'Sm'], S0=['Id', 'Sx', 'Sy', 'Sz'])  # orthogonal operator bases for MPO.to_TermList


def representations(M, n, first=0, termlist=True, heavy=True, op_basis=None):
    """name -> function returning the dense matrix (or a list of them) of one representation of the Hamiltonian
    of the model `M` on the window of n MPS sites starting at `first` (whole unit cells; finite: all sites).
    `heavy`: include the conversions and the transformed models."""
    from tenpy.algorithms import exact_diag as ED
    from tenpy.models.model import CouplingModel, MPOModel, NearestNeighborModel
    lat = M.lat
    sites, N = lat.mps_sites(), lat.N_sites
    finite = lat.bc_MPS == 'finite'
    nn = isinstance(M, NearestNeighborModel)
    win = [sites[i % N] for i in range(first, first + n)]
    explicit = getattr(M, 'explicit_plus_hc', False)
    reps = {}

    def plus_hc(H):
        return H + H.conj().T if explicit else H

    def bonds(H_bond, bsites=sites, nb=n, ends=None):
        """(marked as) sum of bond terms: for an infinite system defined up to single-site operators at the ends."""
        assert len(H_bond) == len(bsites) and (H_bond[0] is None or not finite)
        S = R.bonds_dense(H_bond, bsites, first, nb)
        gw = ends or win
        return dict(bonds=S if ends is None else R.unfold(S, ends), ends=(gw[0].dim, gw[-1].dim))

    if isinstance(M, CouplingModel) and termlist:
        def term_lists():
            ot, ct = M.all_onsite_terms(), M.all_coupling_terms()
            tl = ot.to_TermList() + ct.to_TermList() + M.exp_decaying_terms.to_TermList(cutoff=0.0 if finite else 1e-14, bc=lat.bc_MPS)
            return plus_hc(R.termlist_dense(tl, sites, first, n, finite))
        reps['to_TermList'] = term_lists
    reps['H_MPO'] = lambda: R.mpo_dense(M.H_MPO, first, n)
    if nn:
        reps['H_bond'] = lambda: bonds(M.H_bond)
    if finite and isinstance(M, CouplingModel):
        reps['get_numpy_Hamiltonian'] = lambda: ED.get_numpy_Hamiltonian(M, undo_sort_charge=False)
        reps['get_scipy_sparse_Hamiltonian(undo_sort_charge)'] = lambda: R.sort_basis(ED.get_scipy_sparse_Hamiltonian(M).toarray(), win)
    if not heavy:
        return reps
    if first:  # shifted window of an infinite system
        reps['extract_segment'] = lambda: R.mpo_dense(M.extract_segment(first, first + n - 1).H_MPO, 0, n)
        return reps
    if nn:
        # (the MPO built from bond terms has the single-site parts of every bond as on-site terms: on a window of
        # an infinite system it differs by those of the two bonds crossing the boundaries)
        reps['calc_H_MPO_from_bond'] = lambda: dict(bonds=R.mpo_dense(NearestNeighborModel(lat, M.H_bond).calc_H_MPO_from_bond(), 0, n),
                                                    ends=(win[0].dim, win[-1].dim))
        reps['calc_H_bond_from_MPO'] = lambda: bonds(M.calc_H_bond_from_MPO())
        reps['MPOModel.calc_H_bond_from_MPO'] = lambda: bonds(MPOModel(lat, M.H_MPO).calc_H_bond_from_MPO())
        reps['NearestNeighborModel.from_MPOModel'] = lambda: bonds(NearestNeighborModel.from_MPOModel(M).H_bond)

    def sorted_legs():
        H = copy.deepcopy(M.H_MPO)  # (MPO.copy() is shallow and sort_legcharges changes the IdL/IdR lists in place)
        H.sort_legcharges()
        H.test_sanity()
        return R.mpo_dense(H, 0, n)
    reps['sort_legcharges'] = sorted_legs
    if op_basis:
        def mpo_term_list():
            tl = M.H_MPO.to_TermList(op_basis, ignore=['Id'])
            return plus_hc(R.termlist_dense(tl, sites, 0, n, finite))
        reps['MPO.to_TermList'] = mpo_term_list
    if finite:
        if isinstance(M, CouplingModel):
            reps['get_numpy_Hamiltonian(undo_sort_charge)'] = lambda: R.sort_basis(ED.get_numpy_Hamiltonian(M), win)
            reps['get_scipy_sparse_Hamiltonian'] = lambda: ED.get_scipy_sparse_Hamiltonian(M, undo_sort_charge=False).toarray()
        reps['ExactDiag(MPOModel).get_numpy_Hamiltonian'] = lambda: R.sort_basis(ED.get_numpy_Hamiltonian(MPOModel(lat, M.H_MPO)), win)
        if nn:
            reps['ExactDiag(NearestNeighborModel).get_numpy_Hamiltonian'] = \
                lambda: ED.get_numpy_Hamiltonian(NearestNeighborModel(lat, M.H_bond), from_mpo=False, undo_sort_charge=False)

        def exact_diag(**kw):
            ed = ED.ExactDiag(M, **kw)
            ed.build_full_H_from_mpo()
            return _full_H(ed)
        reps['ExactDiag.build_full_H_from_mpo'] = exact_diag
        reps['ExactDiag(sparse).build_full_H_from_mpo'] = lambda: exact_diag(sparse=True)

    def grouped(k):
        G = M.copy()
        gs = G.group_sites(k)
        MPOModel.test_sanity(G)
        G.H_MPO.test_sanity()
        g_n = len(gs) * (n // N)
        gw = [gs[i % len(gs)] for i in range(g_n)]
        res = [R.unfold(R.mpo_dense(G.H_MPO, 0, g_n), gw)]
        if nn and len(gs) > 1:
            res.append(bonds(G.H_bond, gs, g_n, gw))
        return res
    for k in (2, 3):
        if N > k or (not finite and N >= k):
            reps['group_sites(%d)' % k] = lambda k=k: grouped(k)
    if not finite:
        def enlarged():
            E = M.copy()
            E.lat = copy.copy(M.lat)
            E.enlarge_mps_unit_cell(2)
            MPOModel.test_sanity(E)
            E.H_MPO.test_sanity()
            assert E.lat.N_sites == 2 * N == E.H_MPO.L
            return [R.mpo_dense(E.H_MPO, 0, n)] + ([bonds(E.H_bond, E.lat.mps_sites())] if nn else [])
        reps['enlarge_mps_unit_cell'] = enlarged
        reps['ExactDiag.from_infinite_model'] = lambda: _ed_segment(M, 0, n)

    def segment():  # (finite: the "segment" of all sites)
        seg = M.extract_segment(0, n - 1) if finite else M.extract_segment(enlarge=n // N)
        MPOModel.test_sanity(seg)
        seg.H_MPO.test_sanity()
        assert seg.H_MPO.bc == 'segment' and seg.H_MPO.L == n and seg.lat.N_sites == n
        if nn:  # the bond terms of the segment are those of the original sites
            for k, h in enumerate(seg.H_bond):
                h0 = M.H_bond[k % N]
                assert (h is None) == (h0 is None) and (h is None or np.abs(h.to_ndarray() - h0.to_ndarray()).max() < TOL)
        return R.mpo_dense(seg.H_MPO, 0, n)
    if not (finite and lat.N_sites % lat.N_rings):  # (irregular lattice without a number of sites per ring)
        reps['extract_segment'] = segment
    return reps


def _ed_segment(M, first, n):
    from tenpy.algorithms.exact_diag import ExactDiag
    ed = ExactDiag.from_infinite_model(M, first, first + n - 1)
    ed.build_full_H_from_mpo()
    return _full_H(ed)


def _full_H(ed):
    """full_H has the legs '(p0.p1....)', '(p0*.p1*....)': LegPipes of the physical legs."""
    perm = R.pipe_perm(ed.full_H.get_leg(0))
    return ed.full_H.to_ndarray()[np.ix_(perm, perm)]


def slug(e):
    """The first words of an exception message, without numbers (part of a violation key)."""
    return '-'.join(re.findall('[A-Za-z_]+', str(e))[:6])


def compare(reps, H, finite, bad, info, const, where=''):
    """Evaluate the representations and compare with H (None: with the first representation); returns H."""
    scale = None
    for name, f in reps.items():
        try:
            with warnings.catch_warnings():
                warnings.simplefilter('ignore')
                res = f()
        except Exception as e:  # noqa: BLE001
            bad(name, 'exception:' + type(e).__name__, '%s\n%s' % (e, traceback.format_exc()[-1200:]))
            continue
        info['reps'].append(name)
        if H is None:  # (predefined models: the first representation is the reference)
            H = res
        scale = scale or max(1.0, np.abs(H).max())
        for k, Hr in enumerate(res if isinstance(res, list) else [res]):
            if isinstance(Hr, dict) and not finite:
                err, const[name, where] = R.boundary_residual(Hr['bonds'] - H, *Hr['ends']) if Hr['bonds'].shape == H.shape else (np.inf, 0)
            else:
                Hr = Hr['bonds'] if isinstance(Hr, dict) else Hr
                err = np.abs(Hr - H).max() if Hr.shape == H.shape else np.inf
            if not err < TOL * scale:
                bad(name + ('' if not k else '.H_bond'), 'mismatch' + where, 'differs from the reference by %.3g (|H|max=%.3g)' % (err, scale))
    return H


def check_case(case):
    """-> (list of (key, what), info dict)."""
    lat = R.make_lattice(case['lat'], case['kind'])
    calls = [resolve(c, lat, case['kind']) for c in case['calls']]
    N, finite = lat.N_sites, lat.bc_MPS == 'finite'
    n = N if finite else case.get('window') or N * (3 if N <= 2 else 2)
    ref = R.Ref(lat, 0, n)
    for c in calls:
        ref.add(c)
    H = ref.dense()
    herm = np.abs(H - H.conj().T).max() < TOL
    info = dict(reps=[], nontrivial=bool(np.abs(H).max() > 0), skipped=None)
    if case['explicit'] and not herm:
        info['skipped'] = 'explicit_plus_hc with a non-hermitian sum of terms is not defined'
        return [], info
    if not info['nontrivial'] and (finite or ref.max_range == 0):
        info['skipped'] = 'no term (or the terms cancel)'
        return [], info
    nn = ref.name_range <= 1 and not ref.exp and N > 1
    tags = '+'.join(['infinite'] * (not finite) + ['explicit_plus_hc'] * case['explicit'] + ['jw-string'] * ref.jw_between
                    + ['exp'] * ref.exp + ['op_string'] * ref.explicit_string) or 'plain'
    viol = []
    scale = max(1.0, np.abs(H).max())

    def bad(rep, mode, what):
        viol.append(('%s:%s:%s' % (rep, mode, tags), '%s: %s; case=%r' % (rep, what, case)))

    try:
        M = grid_model(lat, calls, case['explicit'], nn, **({'sort_mpo_legs': True} if case.get('sort_mpo_legs') else {}))
    except Exception as e:  # noqa: BLE001
        bad('model:' + '+'.join(sorted({c[0] for c in calls})), 'exception:%s:%s' % (type(e).__name__, slug(e)), '%s\n%s' % (e, traceback.format_exc()[-1200:]))
        return viol, info
    heavy = case.get('heavy', True)
    op_basis = None if ref.exp and not finite else OP_BASIS.get(case['kind'])  # (infinite range: the list is truncated)
    if heavy and ref.max_range > 1:  # documented: ValueError if the Hamiltonian contains longer-range terms
        for name, f in [('calc_H_bond', M.calc_H_bond)] * (not ref.exp) + [('calc_H_bond_from_MPO', M.calc_H_bond_from_MPO)]:
            try:
                f()
                bad(name, 'no-error-for-long-range', 'range %s, returned bond terms' % ref.max_range)
            except ValueError:
                pass
            except Exception as e:  # noqa: BLE001
                bad(name, 'exception:' + type(e).__name__, str(e))
    if M.H_MPO.max_range is not None and M.H_MPO.max_range < ref.max_range:
        bad('H_MPO.max_range', 'too-small', 'max_range=%r but there are terms of range %d' % (M.H_MPO.max_range, ref.max_range))
    try:
        if heavy and info['nontrivial'] and bool(M.H_MPO.is_hermitian()) != bool(herm):
            bad('H_MPO.is_hermitian', 'wrong', 'is_hermitian()=%s, the sum of terms is %shermitian' % (M.H_MPO.is_hermitian(), '' if herm else 'not '))
    except Exception as e:  # noqa: BLE001
        bad('H_MPO.is_hermitian', 'exception:' + type(e).__name__, str(e))
    const = {}
    for first in [0] if finite or case['lat']['remove'] or not heavy else [0, lat.N_sites_per_ring]:
        if first:
            ref = R.Ref(lat, first, n)
            for c in calls:
                ref.add(c)
            H = ref.dense()
        compare(representations(M, n, first, not ref.explicit_string, heavy, op_basis), H, finite, bad, info, const, '@shifted-window' if first else '')
    if ('H_bond', '') in const and heavy and n - N >= 2:  # the identity component per unit cell needs a second window size
        ref2 = R.Ref(lat, 0, n - N)
        for c in calls:
            ref2.add(c)
        c2 = R.boundary_residual(R.bonds_dense(M.H_bond, lat.mps_sites(), 0, n - N) - ref2.dense(), ref2.dims[0], ref2.dims[-1])[1]
        if abs(c2 - const['H_bond', '']) > TOL * scale:
            bad('H_bond', 'wrong-constant', 'identity component of sum_i H_bond[i] per unit cell is off by %.3g' % abs(c2 - const['H_bond', '']))
    return viol, info


def check_model(case):
    """One predefined model: all representations equal its MPO, hermitian; -> (violations, info, H in the basis
    of conserve=None) to compare the conservation options of one model with each other."""
    info = dict(reps=[], nontrivial=True, skipped=None)
    viol = []
    name = case['model'].split('.')[1]

    def bad(rep, mode, what):
        viol.append(('%s:%s:model:%s' % (rep, mode, name), '%s: %s; case=%r' % (rep, what, case)))

    try:
        with warnings.catch_warnings():
            warnings.simplefilter('ignore')
            M = MODELS.build(case)
    except Exception as e:  # noqa: BLE001
        bad('model', 'exception:%s:%s' % (type(e).__name__, slug(e)), '%s\n%s' % (e, traceback.format_exc()[-1200:]))
        return viol, info, None
    lat = M.lat
    N, finite = lat.N_sites, lat.bc_MPS == 'finite'
    dims = [s.dim for s in lat.mps_sites()]
    n = N if finite else N * max(w for w in (1, 2, 3) if w == 1 or (np.prod(dims) ** w <= 300 and w * N <= 8))
    reps = representations(M, n, 0, True, not finite or n > 1)
    reps = dict([('H_MPO', reps.pop('H_MPO'))] + list(reps.items()))
    H = compare(reps, None, finite, bad, info, {})
    if H is None:
        return viol, info, None
    if np.abs(H - H.conj().T).max() > TOL * max(1.0, np.abs(H).max()):
        bad('H_MPO', 'not-hermitian', 'antihermitian part %.3g' % np.abs(H - H.conj().T).max())
    try:
        if not M.H_MPO.is_hermitian():
            bad('H_MPO.is_hermitian', 'wrong', 'is_hermitian()=False for a hermitian Hamiltonian')
    except Exception as e:  # noqa: BLE001
        bad('H_MPO.is_hermitian', 'exception:' + type(e).__name__, str(e))
    return viol, info, R.standard_basis(H, [lat.mps_sites()[i % N] for i in range(n)])


def model_cases(cls, tier, seed):
    return dict(MODELS.cases(tier, seed))[cls]


def run_models(cases_):
    """check_model for every case + equality of the cases which differ only in the conserved charges."""
    out, first = [], {}
    for case in cases_:
        try:
            viol, info, H = check_model(case)
        except Exception as e:  # noqa: BLE001
            viol, info, H = [('check:exception:' + type(e).__name__, '%r: %s\n%s' % (case, e, traceback.format_exc()[-1500:]))], dict(reps=[], nontrivial=True, skipped=None), None
        if H is not None:
            c0, H0 = first.setdefault(case['same'], (case, H))
            if H0.shape != H.shape or np.abs(H - H0).max() > TOL * max(1.0, np.abs(H0).max()):
                viol.append(('conserve:mismatch:model:' + case['model'].split('.')[1],
                             'the Hamiltonian (basis of conserve=None) differs between %r and %r' % (c0['params'], case['params'])))
                case = dict(case, other=c0)
            info['reps'].append('conserve')
        out.append((case, viol, info))
    return out


# ------------------------------------------------------------------------------------------ runner interface

def run_unit(unit):
    def grid():
        for case in cases(*unit[1:]):
            try:
                res, info = check_case(case)
            except Exception as e:  # noqa: BLE001
                res, info = [('check:exception:' + type(e).__name__, '%r: %s\n%s' % (case, e, traceback.format_exc()[-1500:]))], dict(reps=[], nontrivial=True, skipped=None)
            yield case, res, info
    ev = nt = 0
    viol, per_key, outcomes, samples, extra = [], {}, set(), [], {}
    for case, res, info in grid() if unit[0] == 'grid' else run_models(model_cases(*unit[1:])):
        ev += 1
        nt += bool(info['nontrivial'] and not info['skipped'])
        outcomes.update(info['reps'])
        if info['skipped']:
            outcomes.add('skipped: ' + info['skipped'])
        extra['comparisons'] = extra.get('comparisons', 0) + len(info['reps'])
        for key, what in res:
            per_key[key] = per_key.get(key, 0) + 1
            if per_key[key] <= 1 and len(viol) < 20:
                viol.append(dict(key=key, what=what[:3000], case=case))
        if not samples:
            samples.append(case)
    return dict(evaluations=ev, nontrivial_count=nt, violations=viol, outcomes=outcomes, samples=samples, extra=extra)


def replay(case):
    if 'model' in case:
        res = run_models(([case['other']] if 'other' in case else []) + [{k: v for k, v in case.items() if k != 'other'}])[-1][1]
    else:
        res, _ = check_case(case)
    return dict(evaluations=1, violations=[dict(key=k, what=w, case=case) for k, w in res])


def selfcheck(tier, seed, label):
    unit = units(tier, seed, label)[1]
    r1, r2 = run_unit(unit), run_unit(unit)
    if (r1['evaluations'], r1['violations']) != (r2['evaluations'], r2['violations']):
        return 'unit %r gives different results when repeated' % (unit,)
