"""C12 helpers, part 1: single sites, charge changes and grouped sites.

Every `check_*` function takes a json-able case and returns a list of (key, message) pairs (empty = fine).
"Label basis" = the operator written in the order of the documented state labels of the `conserve=None` site;
this is the basis-independent way to say "the same physical operator".
"""
import copy
import functools
import itertools
import json
import warnings

import numpy as np

TOL = 1e-12
# documented tables "excluded onsite operators"
EXCLUDED = {
    ('SpinHalfSite', 'Sz'): {'Sx', 'Sy', 'Sigmax', 'Sigmay'},
    ('SpinSite', 'Sz'): {'Sx', 'Sy'}, ('SpinSite', 'dipole'): {'Sx', 'Sy'},
    ('ClockSite', 'Z'): {'Xphc', 'Zphc'},
}


def kron(*mats):
    return functools.reduce(np.kron, mats)


def close(a, b):
    a, b = np.asarray(a), np.asarray(b)
    return a.shape == b.shape and (a.size == 0 or np.abs(a - b).max() <= TOL * max(1.0, np.abs(b).max()))


def make_site(spec):
    from tenpy.networks import site as S
    return getattr(S, spec[0])(**spec[1])


def ref_spec(spec):
    """The same site without any conservation (documented reference for `perm`)."""
    return [spec[0], {k: (None if k in ('conserve', 'cons_N', 'cons_Sz') else v) for k, v in spec[1].items()}]


def dense(site, name):
    return site.get_op(name).to_ndarray()


@functools.lru_cache(maxsize=None)
def _ref_info(spec_json):
    ref = make_site(ref_spec(json.loads(spec_json)))
    return canon_labels(ref), dict(ref.state_labels)


def ref_canon(spec):
    """Canonical labels of the states of the conserve=None site, in its index order."""
    return _ref_info(json.dumps(spec, sort_keys=True))[0]


def ref_index(spec, label):
    """Index of the state `label` in the conserve=None basis."""
    return _ref_info(json.dumps(spec, sort_keys=True))[1][label]


def canon_labels(site):
    """One label per basis state, in index order (the alphabetically first of the aliases)."""
    by_idx = {}
    for lbl, i in site.state_labels.items():
        by_idx.setdefault(i, []).append(lbl)
    if sorted(by_idx) != list(range(site.dim)):
        raise ValueError('not every basis state has a label: %r' % (site.state_labels,))
    return [min(by_idx[i]) for i in range(site.dim)]


def lab(site, labels, name):
    """Operator `name` of `site` in the label basis given by the list `labels`."""
    o = [site.state_labels[lbl] for lbl in labels]
    return dense(site, name)[np.ix_(o, o)]


def snapshot(site):
    """Everything observable about a site, to detect unwanted modification."""
    return dict(ops={n: dense(site, n).copy() for n in site.opnames}, q=site.leg.to_qflat().copy(), perm=np.array(site.perm),
                labels=dict(site.state_labels), hc=dict(site.hc_ops), jw=set(site.need_JW_string),
                chinfo=site.leg.chinfo, c2jw=copy.copy(getattr(site, 'charge_to_JW_parity', None)))


def same_snapshot(a, b):
    return (set(a['ops']) == set(b['ops']) and all(np.array_equal(a['ops'][n], b['ops'][n]) for n in a['ops'])
            and np.array_equal(a['q'], b['q']) and np.array_equal(a['perm'], b['perm']) and a['labels'] == b['labels']
            and a['hc'] == b['hc'] and a['jw'] == b['jw'] and a['chinfo'] == b['chinfo']
            and np.array_equal(a['c2jw'], b['c2jw']))


def fermionic_names(site):
    return sorted(n for n in site.need_JW_string if not n.startswith('JW'))


def check_JW_parity(sites, where):
    """`charge_to_JW_parity` (if set) must reproduce the JW signs of every state of every site and be additive
    over states of different sites (it is applied to the summed charges of Schmidt states)."""
    out = []
    c2 = [getattr(s, 'charge_to_JW_parity', None) for s in sites]
    if any(c is None for c in c2):
        return out
    jws = [np.real(np.diag(dense(s, 'JW'))) for s in sites]
    qs = [s.leg.to_qflat() for s in sites]
    for s, q, jw in zip(sites, qs, jws):
        if not close(s.charge_to_JW_signs(q), jw):
            out.append((where + ':charge_to_JW_signs', 'charge_to_JW_signs(leg charges)=%s but diag(JW)=%s' % (s.charge_to_JW_signs(q), jw)))
    for (s1, q1, j1), (s2, q2, j2) in itertools.combinations_with_replacement(list(zip(sites, qs, jws)), 2):
        tot = (q1[:, None, :] + q2[None, :, :]).reshape(len(q1) * len(q2), q1.shape[1])
        if not close(s1.charge_to_JW_signs(tot), np.outer(j1, j2).reshape(-1)):
            out.append((where + ':charge_to_JW_signs-not-additive', 'signs of summed charges differ from the product of the JW signs'))
    return out


# ------------------------------------------------------------------------------------------- algebra per class

def algebra(spec, site):
    """Yield (name, lhs, rhs) defining relations from the class doc-strings, evaluated through `get_op`."""
    cls, kw = spec
    has = lambda *names: all(n in site.opnames for n in names)  # noqa: E731
    D = lambda n: dense(site, n)  # noqa: E731
    Id = np.eye(site.dim)
    comm = lambda a, b: D(a + ' ' + b) - D(b + ' ' + a)  # noqa: E731
    acomm = lambda a, b: D(a + ' ' + b) + D(b + ' ' + a)  # noqa: E731
    idx = site.state_labels
    diag = lambda vals: sum(v * np.outer(Id[idx[l]], Id[idx[l]]) for l, v in vals.items())  # noqa: E731

    def spin(S):
        yield '[Sz,Sp]=Sp', comm('Sz', 'Sp'), D('Sp')
        yield '[Sz,Sm]=-Sm', comm('Sz', 'Sm'), -D('Sm')
        yield '[Sp,Sm]=2Sz', comm('Sp', 'Sm'), 2 * D('Sz')
        yield 'S^2=S(S+1)', D('Sz Sz') + 0.5 * (D('Sp Sm') + D('Sm Sp')), S * (S + 1) * Id
        if has('Sx', 'Sy'):
            yield 'Sp=Sx+iSy', D('Sp'), D('Sx') + 1j * D('Sy')
            yield 'Sm=Sx-iSy', D('Sm'), D('Sx') - 1j * D('Sy')
            yield '[Sx,Sy]=iSz', comm('Sx', 'Sy'), 1j * D('Sz')

    if cls == 'SpinHalfSite':
        yield from spin(0.5)
        yield 'Sz-by-label', D('Sz'), diag({'up': 0.5, 'down': -0.5})
        yield 'alias-labels', diag({'0.5': 0.5, '-0.5': -0.5}), diag({'up': 0.5, 'down': -0.5})
        yield 'Sp|down>=|up>', D('Sp'), np.outer(Id[idx['up']], Id[idx['down']])
        for a in 'xyz':
            if has('Sigma' + a):
                yield 'Sigma%s=2S%s' % (a, a), D('Sigma' + a), 2 * D('S' + a)
    elif cls == 'SpinSite':
        S = float(kw.get('S', 0.5))
        ms = [-S + n for n in range(int(2 * S + 1))]
        yield from spin(S)
        yield 'Sz-by-label', D('Sz'), diag({str(m): m for m in ms})
        yield 'up/down', diag({'up': 1, 'down': -1}), diag({str(S): 1, str(-S): -1}) if S > 0 else None
        yield 'Sp-ladder', D('Sp'), sum(np.sqrt(S * (S + 1) - m * (m + 1)) * np.outer(Id[idx[str(m + 1)]], Id[idx[str(m)]]) for m in ms[:-1])
    elif cls == 'BosonSite':
        nmax, f = kw.get('Nmax', 1), kw.get('filling', 0.0)
        ns = {str(n): n for n in range(nmax + 1)}
        yield 'N-by-label', D('N'), diag(ns)
        yield 'vac', diag({'vac': 1}), diag({'0': 1})
        yield 'B-ladder', D('B'), sum(np.sqrt(n) * np.outer(Id[idx[str(n - 1)]], Id[idx[str(n)]]) for n in range(1, nmax + 1))
        yield '[B,Bd] truncated', comm('B', 'Bd'), Id - (nmax + 1) * diag({str(nmax): 1})
        yield 'N=Bd B', D('N'), D('Bd B')
        yield 'NN=N N', D('NN'), D('N N')
        yield 'dN=N-filling', D('dN'), D('N') - f * Id
        yield 'dNdN=dN dN', D('dNdN'), D('dN dN')
        yield 'P=(-1)^N', D('P'), diag({l: (-1) ** n for l, n in ns.items()})
    elif cls == 'FermionSite':
        f = kw.get('filling', 0.5)
        yield 'N-by-label', D('N'), diag({'empty': 0, 'full': 1})
        yield '{C,Cd}=1', acomm('C', 'Cd'), Id
        yield 'C C=0', D('C C'), 0 * Id
        yield 'C|full>=|empty>', D('C'), np.outer(Id[idx['empty']], Id[idx['full']])
        yield 'N=Cd C', D('N'), D('Cd C')
        yield 'JW=1-2N', D('JW'), Id - 2 * D('N')
        yield 'dN=N-filling', D('dN'), D('N') - f * Id
        yield 'dNdN=dN dN', D('dNdN'), D('dN dN')
    elif cls in ('SpinHalfFermionSite', 'SpinHalfHoleSite'):
        f = kw.get('filling', 1.0)
        full = cls == 'SpinHalfFermionSite'
        occ = {'empty': (0, 0), 'up': (1, 0), 'down': (0, 1)}
        if full:
            occ['full'] = (1, 1)
        yield 'Nu-by-label', D('Nu'), diag({l: o[0] for l, o in occ.items()})
        yield 'Nd-by-label', D('Nd'), diag({l: o[1] for l, o in occ.items()})
        yield 'Cu|up>=|empty>', D('Cu') @ Id[idx['up']], Id[idx['empty']]
        yield 'Cd|down>=|empty>', D('Cd') @ Id[idx['down']], Id[idx['empty']]
        for a, ad in (('Cu', 'Cdu'), ('Cd', 'Cdd')):
            yield a + '^2=0', D(a + ' ' + a), 0 * Id
            yield ad + '=hc(' + a + ')', D(ad), D(a).conj().T
        yield '{Cu,Cd}=0', acomm('Cu', 'Cd'), 0 * Id
        if full:
            yield '{Cu,Cdu}=1', acomm('Cu', 'Cdu'), Id
            yield '{Cd,Cdd}=1', acomm('Cd', 'Cdd'), Id
            yield '{Cu,Cdd}=0', acomm('Cu', 'Cdd'), 0 * Id
            yield 'NuNd=Nu Nd', D('NuNd'), D('Nu Nd')
        else:  # projected onto no double occupancy
            yield '{Cu,Cdu}=1-Nd', acomm('Cu', 'Cdu'), Id - D('Nd')
            yield '{Cd,Cdd}=1-Nu', acomm('Cd', 'Cdd'), Id - D('Nu')
        yield 'Nu=Cdu Cu', D('Nu'), D('Cdu Cu')
        yield 'Nd=Cdd Cd', D('Nd'), D('Cdd Cd')
        yield 'Ntot=Nu+Nd', D('Ntot'), D('Nu') + D('Nd')
        yield 'dN=Ntot-filling', D('dN'), D('Ntot') - f * Id
        yield 'JWu=(-1)^Nu', D('JWu'), Id - 2 * D('Nu')
        yield 'JWd=(-1)^Nd', D('JWd'), Id - 2 * D('Nd')
        yield 'JW=JWu JWd', D('JW'), D('JWu JWd')
        yield 'Sz=(Nu-Nd)/2', D('Sz'), 0.5 * (D('Nu') - D('Nd'))
        yield 'Sp=Cdu Cd', D('Sp'), D('Cdu Cd')
        yield 'Sm=Cdd Cu', D('Sm'), D('Cdd Cu')
        if has('Sx', 'Sy'):
            yield 'Sx=(Sp+Sm)/2', D('Sx'), 0.5 * (D('Sp') + D('Sm'))
            yield 'Sy=-i(Sp-Sm)/2', D('Sy'), -0.5j * (D('Sp') - D('Sm'))
    elif cls == 'ClockSite':
        q = kw['q']
        w = np.exp(2j * np.pi / q)
        yield 'Z-by-label', D('Z'), diag({str(k): w ** k for k in range(q)})
        yield 'X|k>=|k-1>', D('X'), sum(np.outer(Id[idx[str((k - 1) % q)]], Id[idx[str(k)]]) for k in range(q))
        yield 'up', diag({'up': 1}), diag({'0': 1})
        if q % 2 == 0:
            yield 'down', diag({'down': 1}), diag({str(q // 2): 1})
        yield 'X^q=1', D(' '.join(['X'] * q)), Id
        yield 'Z^q=1', D(' '.join(['Z'] * q)), Id
        yield 'ZX=w^-1 XZ', D('Z X'), D('X Z') / w
        yield 'Xhc', D('Xhc'), D('X').conj().T
        yield 'Zhc', D('Zhc'), D('Z').conj().T
        if has('Xphc', 'Zphc'):
            yield 'Xphc', D('Xphc'), D('X') + D('Xhc')
            yield 'Zphc', D('Zphc'), D('Z') + D('Zhc')


def documented_charges(site):
    """Yield (charge name, expected value per state, mod) for the charge names whose meaning is documented."""
    chinfo = site.leg.chinfo
    for k, name in enumerate(chinfo.names):
        if name == '2*Sz':
            yield k, name, 2 * np.real(np.diag(dense(site, 'Sz')))
        elif name in ('N', 'parity_N'):
            yield k, name, np.real(np.diag(dense(site, 'Ntot' if 'Ntot' in site.opnames else 'N')))
        elif name == 'clock_phase':
            yield k, name, np.angle(np.diag(dense(site, 'Z'))) * site.q / (2 * np.pi)
        elif name == 'parity_Sz' and 'Ntot' in site.opnames:  # documented: (2*Sz) mod 4
            yield k, name, 2 * np.real(np.diag(dense(site, 'Sz')))
        elif name == 'dipole':
            yield k, name, np.zeros(site.dim)


def check_generic(site, where):
    """Invariants of every Site, whatever its history."""
    out = []
    bad = lambda key, msg: out.append((where + ':' + key, msg))  # noqa: E731
    try:
        site.test_sanity()
    except Exception as e:  # noqa: BLE001
        bad('test_sanity', 'test_sanity raises %s: %s' % (type(e).__name__, e))
    d = site.dim
    if sorted(np.asarray(site.perm).tolist()) != list(range(d)):
        bad('perm-not-permutation', 'perm=%s' % (site.perm,))
    chinfo = site.leg.chinfo
    q = site.leg.to_qflat()
    mod = np.asarray(chinfo.mod)
    for n in sorted(site.opnames):
        op = site.get_op(n)
        M = op.to_ndarray()
        if op.get_leg_labels() != ['p', 'p*']:
            bad('op-labels', '%s has labels %s' % (n, op.get_leg_labels()))
        a, b = np.nonzero(np.abs(M) > 1e-14)
        diff = q[a] - q[b] - op.qtotal
        diff = np.where(mod > 1, diff % np.where(mod > 1, mod, 1), diff)
        if np.any(diff != 0):
            k = np.nonzero(np.any(diff != 0, axis=1))[0][0]
            bad('op-charge', '%s connects states of charges %s,%s but has qtotal %s' % (n, q[a[k]], q[b[k]], op.qtotal))
    for n, h in sorted(site.hc_ops.items()):
        if n not in site.opnames or h not in site.opnames:
            bad('hc_ops-dangling', 'hc_ops has %s->%s, opnames=%s' % (n, h, sorted(site.opnames)))
        elif not close(dense(site, h), dense(site, n).conj().T) or site.hc_ops.get(h) != n:
            bad('hc_ops-wrong', 'hc_ops[%s]=%s is not the dense adjoint / not symmetric' % (n, h))
    if not set(site.need_JW_string) <= set(site.opnames):
        bad('need_JW-dangling', 'need_JW_string=%s not in opnames' % (sorted(site.need_JW_string),))
    JW = dense(site, 'JW')
    if not close(np.diag(np.exp(1j * np.pi * np.asarray(site.JW_exponent))), JW) or not close(JW @ JW, np.eye(d)):
        bad('JW_exponent', 'JW_exponent=%s inconsistent with JW=%s' % (site.JW_exponent, np.diag(JW)))
    for n in sorted(site.opnames):
        if not n.startswith('JW'):
            M = dense(site, n)
            if not close(JW @ M @ JW, -M if site.op_needs_JW(n) else M):
                bad('need_JW-flag', 'op_needs_JW(%s)=%s but JW.op.JW=%s op' % (n, site.op_needs_JW(n), '+' if close(JW @ M @ JW, M) else '-'))
    out += check_JW_parity([site], where)
    return out


def check_site(case):
    """One predefined site: relation to conserve=None via perm, algebra, charges, hc names, JW flags."""
    spec = case['spec']
    cls, kw = spec
    out = []
    bad = lambda key, msg: out.append(('site:%s:%s' % (cls, key), '%s: %s' % (spec, msg)))  # noqa: E731
    site, ref = make_site(spec), make_site(ref_spec(spec))
    out += check_generic(site, 'site:' + cls)
    d = ref.dim
    if ref.leg.chinfo.qnumber != 0 or not np.array_equal(ref.perm, np.arange(d)):
        bad('ref-not-trivial', 'conserve=None site has charges or perm=%s' % (ref.perm,))
    P = np.asarray(site.perm)
    excluded = (EXCLUDED.get((cls, kw.get('conserve')), set()) | ({'Sx', 'Sy'} if kw.get('cons_Sz') == 'Sz' else set())) & ref.opnames
    if set(site.opnames) != set(ref.opnames) - excluded:
        bad('opnames', 'opnames differ from the documented table: missing %s, extra %s' % (
            sorted(set(ref.opnames) - excluded - set(site.opnames)), sorted(set(site.opnames) - set(ref.opnames) | excluded & set(site.opnames))))
    for n in sorted(set(site.opnames) & set(ref.opnames)):
        if not close(dense(site, n), dense(ref, n)[np.ix_(P, P)]):
            bad('perm-relation:' + n, 'OP_conserved != OP_nonconserved[ix_(perm,perm)] for %s, perm=%s' % (n, P))
        if site.op_needs_JW(n) != ref.op_needs_JW(n) or site.hc_ops.get(n) != ref.hc_ops.get(n):
            bad('flags-depend-on-conserve:' + n, 'need_JW/hc differ from the conserve=None site')
    if set(site.state_labels) != set(ref.state_labels):
        bad('labels', 'state labels %s vs %s' % (sorted(site.state_labels), sorted(ref.state_labels)))
    else:
        wrong = [l for l in ref.state_labels if P[site.state_labels[l]] != ref.state_labels[l]]
        if wrong:
            bad('labels-perm', 'perm[state_labels[l]] != state_labels_nonconserved[l] for %s' % wrong)
    if kw.get('sort_charge', True):
        if not site.leg.is_sorted() or not site.leg.is_bunched():
            bad('not-sorted', 'sort_charge=True but charges %s' % site.leg.to_qflat().tolist())
    elif not np.array_equal(P, np.arange(d)):
        bad('sort_charge-False-permuted', 'sort_charge=False but perm=%s' % P)
    if cls == 'BosonSite' and kw.get('conserve') == 'parity':  # documented order vac,2,4,...,1,3,5,...
        want = [str(n) for n in range(0, d, 2)] + [str(n) for n in range(1, d, 2)]
        if [site.state_labels[l] for l in want] != list(range(d)):
            bad('boson-parity-order', 'documented order %s, got %s' % (want, site.state_labels))
    for s, tag in ((site, ''), (ref, 'ref:')):
        for name, lhs, rhs in algebra(spec, s):
            if rhs is not None and not close(lhs, rhs):
                bad('algebra:' + tag + name, 'relation violated:\n%s\nvs\n%s' % (np.round(lhs, 6), np.round(rhs, 6)))
    q = site.leg.to_qflat()
    mod = site.leg.chinfo.mod
    for k, name, want in documented_charges(site):
        diff = q[:, k] - np.rint(want).astype(int)
        if np.any((diff % mod[k] if mod[k] > 1 else diff) != 0):
            bad('charge-values:' + name, 'charges %s, documented meaning gives %s (mod %d)' % (q[:, k], want, mod[k]))
    if cls == 'SpinHalfHoleSite':  # the same operators as the spinful site, restricted to <= 1 particle
        big = make_site(['SpinHalfFermionSite', kw])
        for n in sorted(site.opnames):
            if not close(lab(site, ['empty', 'up', 'down'], n), lab(big, ['empty', 'up', 'down', 'full'], n)[:3, :3]):
                bad('hole-projection:' + n, 'differs from the projected SpinHalfFermionSite operator')
    # names of products and of hermitian conjugates
    names = sorted(site.opnames)
    if site.multiply_op_names([]) != 'Id' or not close(site.multiply_operators([]).to_ndarray(), np.eye(d)):
        bad('multiply-empty', 'empty product is not Id')
    for a, b in itertools.product(names, repeat=2):
        A, B = dense(site, a), dense(site, b)
        if not close(dense(site, site.multiply_op_names([a, b])), A @ B) or not close(site.multiply_operators([a, site.get_op(b)]).to_ndarray(), A @ B):
            bad('multiply', 'product of %s, %s is not A.B' % (a, b))
        if site.op_needs_JW(a + ' ' + b) != (site.op_needs_JW(a) != site.op_needs_JW(b)):
            bad('op_needs_JW-product', '%s %s' % (a, b))
        if a in site.hc_ops and b in site.hc_ops:
            h = site.get_hc_op_name(a + ' ' + b)
            if not site.valid_opname(h) or not close(dense(site, h), (A @ B).conj().T):
                bad('get_hc_op_name', 'hc of "%s %s" given as %r' % (a, b, h))
    for n in names:  # every predefined operator has its adjoint among the operators -> must be declared
        if n not in site.hc_ops and any(close(dense(site, m), dense(site, n).conj().T) for m in names):
            bad('hc_ops-missing:' + n, 'adjoint exists but is not declared')
    for l, i in site.state_labels.items():
        if site.state_index(l) != i or site.state_index(i) != i or site.state_indices([l, i]) != [i, i]:
            bad('state_index', 'label %r' % l)
    return out


# ------------------------------------------------------------------------------------------- in-place changes

def some_perms(d):
    if d <= 4:
        return [list(p) for p in itertools.permutations(range(d))]
    ps = [list(np.roll(np.arange(d), k)) for k in range(d)] + [list(range(d))[::-1]]
    for i, j in itertools.combinations(range(d), 2):
        p = list(range(d))
        p[i], p[j] = p[j], p[i]
        ps.append(p)
    return ps


def check_same_physics(site, ref, canon, where):
    """All operators of `site` equal those of `ref` in the label basis, and the generic invariants hold."""
    out = []
    for n in sorted(site.opnames):
        if not close(lab(site, canon, n), lab(ref, canon, n)):
            out.append((where + ':operator-changed', 'operator %s differs in the label basis' % n))
            break
    return out + check_generic(site, where)


def check_mutate(case):
    """rename_op / remove_op / add_op / change_charge / sort_charge on one site."""
    import tenpy.linalg.np_conserved as npc
    spec = case['spec']
    cls = spec[0]
    out = []
    bad = lambda key, msg: out.append(('mutate:%s:%s' % (cls, key), '%s: %s' % (spec, msg)))  # noqa: E731
    orig, ref = make_site(spec), make_site(ref_spec(spec))
    canon = canon_labels(ref)
    names = sorted(orig.opnames)
    for n in names:
        if n == 'Id':
            continue
        s = make_site(spec)
        M, h, jw = dense(s, n), s.hc_ops.get(n), s.op_needs_JW(n)
        new = ('JW' if n.startswith('JW') else '') + 'Renamed'
        s.rename_op(n, new)
        if n in s.opnames or hasattr(s, n) or new not in s.opnames or not close(dense(s, new), M):
            bad('rename_op', 'after rename_op(%s): opnames=%s' % (n, sorted(s.opnames)))
        elif s.op_needs_JW(new) != jw:
            bad('rename_op-need_JW', 'rename_op(%s) changed the JW flag' % n)
        elif h is not None and s.hc_ops.get(new) != (new if h == n else h):
            bad('rename_op-hc', 'rename_op(%s): hc_ops=%s' % (n, s.hc_ops))
        elif n in s.hc_ops or n in s.hc_ops.values():
            bad('rename_op-hc-stale', 'rename_op(%s): hc_ops=%s' % (n, s.hc_ops))
        if n != 'JW':
            out += check_generic(s, 'mutate:%s:rename_op' % cls)
            s = make_site(spec)
            s.remove_op(n)
            if n in s.opnames or hasattr(s, n) or n in s.hc_ops or n in s.hc_ops.values() or n in s.need_JW_string:
                bad('remove_op', 'after remove_op(%s): hc_ops=%s' % (n, s.hc_ops))
            out += check_generic(s, 'mutate:%s:remove_op' % cls)
    # add_op of a dense matrix given in the conserve=None basis (documented for sites which sorted their charges)
    s = make_site(spec)
    if s.used_sort_charge:
        M = np.diag(1.0 + np.arange(s.dim))  # (diagonal: valid for any charges)
        s.add_op('Extra', M)
        if not close(lab(s, canon, 'Extra'), M):
            bad('add_op-permute_dense', 'dense operator added after sort_charge is not permuted with perm=%s' % (s.perm,))
    # change_charge(None): trivial charges, nothing else changes
    s = make_site(spec)
    before = snapshot(s)
    if s.change_charge() is not s or s.leg.chinfo.qnumber != 0 or not np.array_equal(s.perm, before['perm']):
        bad('change_charge-None', 'charges not trivial / perm changed')
    out += check_same_physics(s, orig, canon, 'mutate:%s:change_charge-None' % cls)
    # change_charge with a permutation; then sort_charge
    q = orig.leg.to_qflat()
    for p in some_perms(orig.dim):
        s = make_site(spec)
        before = snapshot(s)
        s.change_charge(npc.LegCharge.from_qflat(s.leg.chinfo, q[p]), p)
        where = 'mutate:%s:change_charge' % cls
        for n in names:
            if not close(dense(s, n), before['ops'][n][np.ix_(p, p)]):
                bad('change_charge-ops', 'permute=%s: %s is not op[ix_(permute,permute)]' % (p, n))
                break
        if not np.array_equal(s.perm, before['perm'][p]) or any(p[s.state_labels[l]] != i for l, i in before['labels'].items()):
            bad('change_charge-bookkeeping', 'permute=%s: perm=%s labels=%s' % (p, s.perm, s.state_labels))
        out += [(k, 'permute=%s: %s' % (p, m)) for k, m in check_same_physics(s, orig, canon, where)]
        c2 = before['c2jw']
        if c2 is not None:
            s.charge_to_JW_parity = c2  # (deleted by change_charge; sort_charge documents to preserve it)
        mid = snapshot(s)
        pf = s.sort_charge()
        where = 'mutate:%s:sort_charge' % cls
        if not s.leg.is_sorted() or not s.leg.is_bunched():
            bad('sort_charge-not-sorted', 'permute=%s: charges after sort_charge %s' % (p, s.leg.to_qflat().tolist()))
        if sorted(np.asarray(pf).tolist()) != list(range(s.dim)) or not np.array_equal(s.perm, mid['perm'][pf]) or \
                not np.array_equal(s.leg.to_qflat(), mid['q'][pf]):
            bad('sort_charge-returned-perm', 'permute=%s: returned %s' % (p, pf))
        if (c2 is None) != (getattr(s, 'charge_to_JW_parity', None) is None):
            bad('sort_charge-charge_to_JW_parity', 'permute=%s: charge_to_JW_parity not preserved' % (p,))
        out += [(k, 'permute=%s: %s' % (p, m)) for k, m in check_same_physics(s, orig, canon, where)]
        again = snapshot(s)
        if not np.array_equal(s.sort_charge(), np.arange(s.dim)) or not same_snapshot(again, snapshot(s)):
            bad('sort_charge-not-idempotent', 'permute=%s' % (p,))
    return out


# ------------------------------------------------------------------------------------------- set_common_charges

def expected_new_charges(sites, policy):
    """The documented meaning of the string policies as list of list of (factor, site, old charge index)."""
    if policy == 'drop':
        return []
    if policy == 'independent':
        return [[(1, s, i)] for s, site in enumerate(sites) for i in range(site.leg.chinfo.qnumber)]
    if policy == 'same':
        res, byname = [], {}
        for s, site in enumerate(sites):
            for i, n in enumerate(site.leg.chinfo.names):
                if n is not None and n in byname:
                    res[byname[n]].append((1, s, i))
                else:
                    byname[n] = len(res)
                    res.append([(1, s, i)])
        return res
    return [[(f, s, sites[s].leg.chinfo.names.index(i) if isinstance(i, str) else i) for f, s, i in nc] for nc in policy]


def check_common(case):
    """set_common_charges on a list of sites."""
    from tenpy.networks.site import set_common_charges
    specs, policy, sort = case['specs'], case['policy'], case['sort_charge']
    out = []
    tag = policy if isinstance(policy, str) else 'explicit'
    bad = lambda key, msg: out.append(('common:%s:%s' % (tag, key), '%s: %s' % (case, msg)))  # noqa: E731
    sites = [make_site(sp) for sp in specs]
    olds = [make_site(sp) for sp in specs]
    canons = [ref_canon(sp) for sp in specs]
    before = [snapshot(s) for s in sites]
    new_charges = expected_new_charges(sites, policy)
    kw = {k: case[k] for k in ('new_names', 'new_mod') if case.get(k) is not None}
    arg = policy if isinstance(policy, str) else [[tuple(t) for t in nc] for nc in policy]
    try:
        perms = set_common_charges(sites, arg, sort_charge=sort, **kw)
    except Exception as e:  # noqa: BLE001
        return [('common:exception:sort_charge=%s:%s' % (sort, type(e).__name__), '%s: set_common_charges raises %s: %s' % (case, type(e).__name__, e))]
    if (perms is None) == sort or (sort and len(perms) != len(sites)):
        bad('return', 'returned %r' % (perms,))
    chinfo = sites[0].leg.chinfo
    if any(s.leg.chinfo != chinfo for s in sites) or chinfo.qnumber != len(new_charges):
        bad('chinfo', 'sites do not share one ChargeInfo with %d charges' % len(new_charges))
        return out
    want_mod = case.get('new_mod') or [before[nc[0][1]]['chinfo'].mod[nc[0][2]] for nc in new_charges]
    want_names = case.get('new_names') or [before[nc[0][1]]['chinfo'].names[nc[0][2]] for nc in new_charges]
    if list(chinfo.mod) != list(want_mod) or list(chinfo.names) != list(want_names):
        bad('chinfo-mod-names', 'mod=%s names=%s, documented %s %s' % (chinfo.mod, chinfo.names, want_mod, want_names))
    for s, (site, old, canon, snap) in enumerate(zip(sites, olds, canons, before)):
        where = 'common:%s' % tag
        out += [(k, '%s site %d: %s' % (case, s, m)) for k, m in check_same_physics(site, old, canon, where)]
        if set(site.opnames) != set(old.opnames) or site.hc_ops != old.hc_ops or site.need_JW_string != old.need_JW_string:
            bad('ops-lost', 'site %d: opnames / hc_ops / need_JW_string changed' % s)
        p = perms[s] if sort else np.arange(site.dim)
        if sorted(np.asarray(p).tolist()) != list(range(site.dim)) or not np.array_equal(site.perm, snap['perm'][p]):
            bad('perm', 'site %d: returned permutation %s, site.perm %s -> %s' % (s, p, snap['perm'], site.perm))
            continue
        want = np.zeros((site.dim, chinfo.qnumber), int)
        for k, nc in enumerate(new_charges):
            for f, s2, i in nc:
                if s2 == s:
                    want[:, k] += np.rint(f * snap['q'][:, i]).astype(int)
        if not np.array_equal(site.leg.to_qflat(), chinfo.make_valid(want[p])):
            bad('charge-values', 'site %d: charges %s, documented combination gives %s' % (s, site.leg.to_qflat().tolist(), chinfo.make_valid(want[p]).tolist()))
        if sort and not site.leg.is_sorted():
            bad('not-sorted', 'site %d: %s' % (s, site.leg.to_qflat().tolist()))
    out += [(k, '%s: %s' % (case, m)) for k, m in check_JW_parity(sites, 'common:%s' % tag)]
    if tag == 'explicit' and any(fermionic_names(s) for s in sites):  # the new charges in use: JW string from the bond charges
        from .c12_jw import Context, apply_local_ops
        out += [('common:explicit:' + k, '%s: %s' % (case, m)) for k, m in apply_local_ops(Context(None, len(sites), case.get('seed', 0), cell=sites))]
    return out


def check_species(case):
    """spin_half_species: two sites for up/down whose common charges are N_up+N_down and N_up-N_down."""
    from tenpy.networks.site import spin_half_species
    cls, kw, cN, cSz = case['cls'], case['kw'], case['cons_N'], case['cons_Sz']
    out = []
    bad = lambda key, msg: out.append(('species:' + key, '%s: %s' % (case, msg)))  # noqa: E731
    try:
        sites, names = spin_half_species(cls, cN, cSz, **kw)
    except Exception as e:  # noqa: BLE001
        why = 'charges-not-valid-for-new_mod' if 'charges invalid' in str(e) else type(e).__name__
        return [('species:exception:' + why, '%s: spin_half_species raises %s: %s' % (case, type(e).__name__, e))]
    if names != ['up', 'down'] or len(sites) != 2 or sites[0] is sites[1]:
        bad('return', 'returned %r, %r' % (sites, names))
        return out
    ref = make_site([cls, dict(kw, conserve=None)])
    canon = canon_labels(ref)
    chinfo = sites[0].leg.chinfo
    want_mod = ([1] if cN == 'N' else [2] if cN == 'parity' else []) + ([1] if cSz == 'Sz' else [4] if cSz == 'parity' else [])
    if sites[1].leg.chinfo != chinfo or list(chinfo.mod) != want_mod:
        bad('chinfo', 'mod=%s, documented %s' % (chinfo.mod, want_mod))
        return out
    for site, sign in zip(sites, (1, -1)):
        out += [(k, '%s: %s' % (case, m)) for k, m in check_same_physics(site, ref, canon, 'species')]
        n = np.rint(np.real(np.diag(dense(site, 'N')))).astype(int)
        cols = ([n] if cN in ('N', 'parity') else []) + ([sign * n] if cSz in ('Sz', 'parity') else [])
        want = np.stack(cols, axis=1) if cols else np.zeros((site.dim, 0), int)
        if not np.array_equal(site.leg.to_qflat(), chinfo.make_valid(want)):
            bad('charge-values', 'species %+d: charges %s, documented %s' % (sign, site.leg.to_qflat().tolist(), want.tolist()))
        if not site.leg.is_sorted():
            bad('not-sorted', '%s' % site.leg.to_qflat().tolist())
    out += [(k, '%s: %s' % (case, m)) for k, m in check_JW_parity(sites, 'species')]
    return out


# ------------------------------------------------------------------------------------------- grouped sites

def check_group(case):
    """GroupedSite: operators are Kronecker products with the JW of the sites to the left folded in."""
    from tenpy.networks.site import GroupedSite, set_common_charges, kron as site_kron
    specs, policy, labels = case['specs'], case['charges'], case.get('labels')
    out = []
    bad = lambda key, msg: out.append(('grouped:%s:%s' % (policy, key), '%s: %s' % (case, msg)))  # noqa: E731
    uniq = {}
    sites = [uniq.setdefault(i, make_site(sp)) for i, sp in zip(case.get('objects', range(len(specs))), specs)]
    if case.get('precommon'):
        set_common_charges(list(uniq.values()), 'same')
    canons = [ref_canon(sp) for sp in specs]
    before = [snapshot(s) for s in sites]
    try:
        with warnings.catch_warnings():
            warnings.simplefilter('ignore')
            g = GroupedSite(sites, labels, policy)
    except Exception as e:  # noqa: BLE001
        hetero = len({s.dim for s in sites}) > 1
        why = ':heterogeneous-dims' if hetero and policy == 'drop' else ':after-set_common_charges' if case.get('precommon') else ''
        return [('grouped:%s:exception:%s%s' % (policy, type(e).__name__, why),
                 '%s: GroupedSite raises %s: %s' % (case, type(e).__name__, e))]
    if not all(same_snapshot(b, snapshot(s)) for b, s in zip(before, sites)):
        bad('modifies-sites', 'the sites passed in were modified')
    lbls = labels or [str(i) for i in range(len(sites))]
    if g.n_sites != len(sites) or g.dim != int(np.prod([s.dim for s in sites])) or list(g.labels) != list(lbls):
        bad('shape', 'n_sites=%s dim=%s labels=%s' % (g.n_sites, g.dim, g.labels))
        return out
    join = lambda sts: ' '.join(st + '_' + l for st, l in zip(sts, lbls))  # noqa: E731
    combos = list(itertools.product(*[range(len(c)) for c in canons]))
    full = [join([c[i] for c, i in zip(canons, x)]) for x in combos]
    if any(f not in g.state_labels for f in full) or sorted(g.state_labels[f] for f in full) != list(range(g.dim)):
        bad('state_labels', 'labels %s do not enumerate the basis: %s' % (full[:3], g.state_labels))
        return out
    for x in itertools.product(*[sorted(s.state_labels) for s in sites]):  # aliases
        if g.state_labels.get(join(x)) != g.state_labels[join([c[ref_index(sp, l)] for c, sp, l in zip(canons, specs, x)])]:
            bad('state_labels-alias', 'label %r points to %s' % (join(x), g.state_labels.get(join(x))))
            break
    o = [g.state_labels[f] for f in full]
    Ls = [{n: lab(s, c, n) for n in s.opnames} for s, c in zip(sites, canons)]
    want_names = {'Id', 'JW'}
    for i, (s, L) in enumerate(zip(sites, Ls)):
        for n in sorted(s.opnames - {'Id'}):
            gn = n + lbls[i]
            want_names.add(gn)
            if gn not in g.opnames:
                bad('op-missing', '%s' % gn)
                continue
            jw = n in s.need_JW_string
            want = kron(*([Lj['JW' if jw else 'Id'] for Lj in Ls[:i]] + [L[n]] + [Lj['Id'] for Lj in Ls[i + 1:]]))
            if not close(dense(g, gn)[np.ix_(o, o)], want):
                bad('op-not-kron', '%s is not kron([%s]*%d, %s, Id...) in the basis of the state labels' % (gn, 'JW' if jw else 'Id', i, n))
            if (gn in g.need_JW_string) != jw:
                bad('need_JW', '%s' % gn)
            h = s.hc_ops.get(n)
            if g.hc_ops.get(gn) != (None if h is None else h + lbls[i]):
                bad('hc_ops', 'hc_ops[%s]=%s' % (gn, g.hc_ops.get(gn)))
    if set(g.opnames) != want_names:
        bad('opnames', 'unexpected operators %s' % sorted(set(g.opnames) ^ want_names))
    if not close(dense(g, 'JW')[np.ix_(o, o)], kron(*[L['JW'] for L in Ls])):
        bad('JW', 'JW of the grouped site is not the product of the JWs')
    # charges of the product states
    qs = [b['q'][[s.state_labels[l] for l in c]] for b, s, c in zip(before, sites, canons)]
    chinfo = g.leg.chinfo
    got = g.leg.to_qflat()[o]
    if policy == 'same':
        want = chinfo.make_valid(sum(q[[x[k] for x in combos]] for k, q in enumerate(qs)))
    elif policy == 'independent':
        want = np.concatenate([q[[x[k] for x in combos]] for k, q in enumerate(qs)], axis=1)
    else:
        want = np.zeros((g.dim, 0), int)
    if got.shape != want.shape or not np.array_equal(got, want):
        bad('charge-values', 'charges of the product states %s, documented %s' % (got.tolist(), want.tolist()))
    out += [(k, '%s: %s' % (case, m)) for k, m in check_generic(g, 'grouped:%s' % policy)]
    # module level kron(): outer product with legs p0,p0*,p1,p1*,... or grouped legs
    if policy == 'same':
        ops = [s.get_op(sorted(s.opnames - {'Id', 'JW'})[0]) for s in sites]
        T = site_kron(*ops, group=False)
        n = len(ops)
        want = functools.reduce(np.multiply.outer, [op.to_ndarray() for op in ops])
        if T.get_leg_labels() != [x for i in range(n) for x in ('p%d' % i, 'p%d*' % i)] or not close(T.to_ndarray(), want):
            bad('kron-ungrouped', 'kron(group=False) is not the outer product')
        Tg = site_kron(*ops, group=True)
        lp = '(' + '.'.join('p%d' % i for i in range(n)) + ')'
        ls = '(' + '.'.join('p%d*' % i for i in range(n)) + ')'
        if Tg.get_leg_labels() != [lp, ls] or not close(Tg.split_legs().transpose(T.get_leg_labels()).to_ndarray(), want):
            bad('kron-grouped', 'kron(group=True) labels %s' % Tg.get_leg_labels())
    return out


def check_group_sites(case):
    """group_sites(): consecutive blocks of n sites, the last one possibly shorter."""
    from tenpy.networks.site import group_sites
    sites = [make_site(sp) for sp in case['specs']]
    n = case['n']
    gs = group_sites(sites, n, charges=case['charges'])
    out = []
    want = [sites[i:i + n] for i in range(0, len(sites), n)]
    if [len(g.sites) for g in gs] != [len(w) for w in want] or any(a is not b for g, w in zip(gs, want) for a, b in zip(g.sites, w)):
        out.append(('group_sites:blocks', '%s: grouped %s' % (case, [len(g.sites) for g in gs])))
    elif any(list(g.labels) != [str(i) for i in range(len(g.sites))] for g in gs):
        out.append(('group_sites:labels', '%s: labels %s' % (case, [g.labels for g in gs])))
    return out
