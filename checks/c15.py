"""C15 -- truncation honours its constraints and reports its error exactly.

Exhaustive grid: spectra over a small value alphabet (every order for short ones) x full option lattice,
reference model written from the doc-string of `truncate` (set of admissible cuts per constraint, applied in
the documented priority, unsatisfiable constraints skipped) + independent invariants from the property text.
Part 2: truncated decompositions (svd_theta, eigh_rho, decompose_theta_qr_based) on small block matrices.
"""
import itertools
import math
import warnings

import numpy as np

VALUES_T = [0.0, 1e-16, 0.05, 0.1, 0.1 * (1 + 1e-12), 0.2, 0.3, 0.5, 0.7]
VALUES_Q = [0.0, 1e-16, 0.1, 0.1 * (1 + 1e-12), 0.2, 0.5, 0.7]


def values(tier):
    return VALUES_Q if tier == 'quick' else VALUES_T
DEG_TOL = [None, 1e-6, 0.5]
SVD_MIN = [None, 1e-14, 0.1, 0.15]
TRUNC_CUT = [None, 1e-14, 0.25, 0.6]
UNIT_TIMEOUT = 1200.0


def option_lattice(n):
    chi_maxs = [None, 1, 2, 3, n, n + 1]
    chi_mins = [None, 1, 2, 3, n + 1]
    for cm, cn, dt, sm, tc in itertools.product(sorted(set(chi_maxs), key=str), sorted(set(chi_mins), key=str), DEG_TOL, SVD_MIN, TRUNC_CUT):
        yield dict(chi_max=cm, chi_min=cn, degeneracy_tol=dt, svd_min=sm, trunc_cut=tc)


def spectra(n, tier):
    """All spectra of length n considered: list of tuples of indices into VALUES."""
    full_order_upto = 3 if tier == 'quick' else 4
    if n <= full_order_upto:
        return list(itertools.product(range(len(values(tier))), repeat=n))
    out = []
    for ms in itertools.combinations_with_replacement(range(len(values(tier))), n):
        out.append(ms)  # ascending
        out.append(ms[::-1])  # descending
        # a fixed scrambled order (deterministic): interleave from both ends
        sc = []
        lo, hi = 0, n - 1
        while lo <= hi:
            sc.append(ms[hi])
            if lo != hi:
                sc.append(ms[lo])
            lo += 1
            hi -= 1
        out.append(tuple(sc))
    return sorted(set(out))


def units(tier, seed, label):
    nmax = 5 if tier == 'quick' else 6
    us = []
    for n in range(1, nmax + 1):
        sp = spectra(n, tier)
        chunk = 150 if tier == 'quick' else 400
        for a in range(0, len(sp), chunk):
            for normalize in (False, True):
                us.append(('truncate', n, a, min(len(sp), a + chunk), normalize, tier))
    us.append(('trunc_error_algebra',))
    for shard in range(4):
        us.append(('qr_bond', shard, 4, tier, seed))
    for kind in ('svd_theta', 'eigh_rho', 'qr_based'):
        for shard in range(4 if tier == 'quick' else 8):
            us.append((kind, shard, 4 if tier == 'quick' else 8, tier, seed))
    return us


# ---------------------------------------------------------------- reference model

REL = 1e-9


class Model:
    """Reference from the doc-string of `truncate`; per-spectrum precomputation of the admissible cuts.

    A "cut" k in 0..n-1 keeps the n-k largest values.  Each constraint admits a set of cuts; constraints are
    applied in the documented order, one whose set would empty the intersection is skipped, and finally as many
    values as allowed are kept (smallest admissible cut).  Comparisons that sit on a rounding boundary make the
    case `ambiguous` (then only the invariants of the property text are checked)."""

    def __init__(self, S):
        self.Ss = np.sort(np.asarray(S, dtype=float))
        self.n = len(self.Ss)
        self.cache = {}

    def allowed(self, name, val):
        key = (name, val)
        if key in self.cache:
            return self.cache[key]
        n, Ss = self.n, self.Ss
        amb = False
        if name == 'chi_max':
            res = frozenset(k for k in range(n) if n - k <= val)
        elif name == 'chi_min':
            res = frozenset(k for k in range(n) if n - k >= val)
        elif name == 'degeneracy_tol':
            logS = np.log(np.where(Ss <= 0.0, 1e-100, Ss))
            al = {0}
            for k in range(1, n):
                d = logS[k] - logS[k - 1]
                if d != val and abs(d - val) <= 1e-9 * max(1.0, abs(val)):
                    amb = True
                if d >= val:
                    al.add(k)
            res = frozenset(al)
        elif name == 'svd_min':
            al = set()
            for k in range(n):
                v = Ss[k] if Ss[k] > 0 else 1e-100
                if v != val and abs(v - val) <= REL * val:
                    amb = True
                if v >= val:
                    al.add(k)
            res = frozenset(al)
        else:
            cs = np.cumsum(Ss**2)
            t2 = val * val
            al = set()
            for k in range(n):
                if abs(cs[k] - t2) <= REL * t2 + 1e-300:
                    amb = True  # value depends on the summation order
                if cs[k] > t2:
                    al.add(k)
            res = frozenset(al)
        self.cache[key] = (res, amb)
        return res, amb

    def nkeep(self, opt):
        good = frozenset(range(self.n))
        active, unsat = [], []
        ambiguous = False
        cons = []
        if opt.get('chi_max', 100) is not None:
            cons.append(('chi_max', opt.get('chi_max', 100)))
        cn = opt.get('chi_min', None)
        if cn is not None and cn > 1:
            cons.append(('chi_min', cn))
        if opt.get('degeneracy_tol', None):
            cons.append(('degeneracy_tol', opt['degeneracy_tol']))
        if opt.get('svd_min', 1e-14) is not None:
            cons.append(('svd_min', opt.get('svd_min', 1e-14)))
        if opt.get('trunc_cut', 1e-14) is not None:
            cons.append(('trunc_cut', opt.get('trunc_cut', 1e-14)))
        for name, val in cons:
            al, amb = self.allowed(name, val)
            ambiguous = ambiguous or amb
            res = good & al
            if res:
                if res != good:
                    active.append(name)
                good = res
            else:
                unsat.append(name)
        return (None if ambiguous else self.n - min(good)), dict(active=active, unsat=unsat, good=good)


def model_truncate(S, opt):
    return Model(S).nkeep(opt)


def check_truncate_case(S, opt, truncate, TruncationError, model=None):
    """Returns (violation-message or None, nontrivial flag)."""
    S = np.array(S, dtype=float)
    n = len(S)
    with warnings.catch_warnings():
        warnings.simplefilter('ignore')
        mask, norm_new, err = truncate(S.copy(), dict(opt))
    mask = np.asarray(mask)
    if mask.dtype != np.bool_ or mask.shape != (n,):
        return 'mask is not a bool array of the length of S', False
    kept = S[mask]
    disc = S[~mask]
    nk = len(kept)
    nkeep_model, info = (model or Model(S)).nkeep(opt)
    nontrivial = (len(info['active']) >= 2) or bool(info['unsat'])
    if nk == 0:
        return 'nothing kept', nontrivial
    # top-k
    if len(disc) and kept.min() < disc.max():
        return 'discards a value (%r) larger than one it keeps (%r)' % (disc.max(), kept.min()), nontrivial
    # reported numbers
    if not np.isclose(norm_new, np.linalg.norm(kept), rtol=1e-13, atol=1e-300):
        return 'norm_new=%r != |S[mask]|=%r' % (norm_new, np.linalg.norm(kept)), nontrivial
    eps = float(np.sum(disc**2))
    if not np.isclose(err.eps, eps, rtol=1e-12, atol=1e-300):
        return 'err.eps=%r != sum discarded^2=%r' % (err.eps, eps), nontrivial
    if not np.isclose(err.ov, 1.0 - 2.0 * eps, rtol=1e-13, atol=1e-15):
        return 'err.ov=%r != 1-2eps=%r' % (err.ov, 1 - 2 * eps), nontrivial
    cm = opt.get('chi_max')
    if cm is not None and nk > cm:
        return 'kept %d > chi_max=%d' % (nk, cm), nontrivial
    cn = opt.get('chi_min')
    if cn is not None and cn <= (n if cm is None else min(cm, n)) and nk < cn:
        # (a chi_min that cannot be fulfilled together with chi_max is documented to be ignored)
        return 'kept %d < chi_min=%s although chi_max=%s, n=%d allow it' % (nk, cn, cm, n), nontrivial
    if nkeep_model is not None and nk != nkeep_model:
        return 'keeps %d values, documented rule gives %d (active=%s, unsatisfiable=%s)' % (nk, nkeep_model, info['active'], info['unsat']), nontrivial
    return None, nontrivial


def _opt_key(opt):
    return ','.join('%s=%s' % (k, opt[k]) for k in sorted(opt))


def run_truncate(unit):
    from tenpy.linalg.truncation import TruncationError, truncate
    _, n, a, b, normalize, tier = unit
    sp = spectra(n, tier)[a:b]
    opts = list(option_lattice(n))
    ev = 0
    nontriv = 0
    viol = []
    samples = []
    outcomes = set()
    for s_idx in sp:
        S = np.array([values(tier)[i] for i in s_idx])
        if normalize:
            nrm = np.linalg.norm(S)
            if nrm == 0:
                continue
            S = S / nrm
        model = Model(S)
        for opt in opts:
            ev += 1
            try:
                msg, nt = check_truncate_case(S, opt, truncate, TruncationError, model)
            except Exception as e:  # noqa: BLE001
                msg, nt = 'exception %s: %s' % (type(e).__name__, e), True
            nontriv += bool(nt)
            if msg and len(viol) < 20:
                # classify by which constraint family is involved: specific key = option pattern
                nonnull = [k for k in sorted(opt) if opt[k] is not None]
                viol.append(dict(key='truncate:' + msg.split(' ')[0] + ':' + '+'.join(nonnull), what='truncate(%s, %s): %s' % (S.tolist(), opt, msg),
                                 case=dict(kind='truncate', S=S.tolist(), opt=opt)))
        if len(samples) < 1:
            samples.append(dict(S=S.tolist(), opt=opts[len(opts) // 3]))
    return dict(evaluations=ev, nontrivial_count=nontriv, violations=viol, samples=samples)


def run_algebra(unit):
    from tenpy.linalg.truncation import TruncationError
    viol = []
    ev = 0
    vals = [0.0, 1e-30, 1e-9, 0.01, 0.3]
    keys = set()
    for a, b, c in itertools.product(vals, repeat=3):
        ev += 1
        ea, eb, ec = (TruncationError(x, 1 - 2 * x) for x in (a, b, c))
        s = ea + eb + ec
        if not math.isclose(s.eps, a + b + c, rel_tol=1e-14, abs_tol=0):
            viol.append(dict(key='algebra:eps-sum', what='eps of sum %r != %r' % (s.eps, a + b + c), case=dict(kind='algebra', vals=[a, b, c])))
        if not math.isclose(s.ov, (1 - 2 * a) * (1 - 2 * b) * (1 - 2 * c), rel_tol=1e-14):
            viol.append(dict(key='algebra:ov-product', what='ov of sum wrong', case=dict(kind='algebra', vals=[a, b, c])))
        if (ea.eps, eb.eps, ec.eps) != (a, b, c):
            viol.append(dict(key='algebra:operand-mutated', what='__add__ modified an operand', case=dict(kind='algebra', vals=[a, b, c])))
        if not math.isclose(s.ov_err, 1 - s.ov, rel_tol=1e-14, abs_tol=1e-300):
            viol.append(dict(key='algebra:ov_err', what='ov_err wrong', case=dict(kind='algebra', vals=[a, b, c])))
        cp = ea.copy()
        cp.eps += 1
        if ea.eps != a:
            viol.append(dict(key='algebra:copy-aliased', what='copy shares state', case=dict(kind='algebra', vals=[a, b, c])))
        if a + b + c > 0:
            keys.add((a, b, c))
    for nn, no in itertools.product([0.3, 0.9, 1.0, 2.0], [1.0, 2.0, 3.0]):
        if nn > no:
            continue
        ev += 1
        e = TruncationError.from_norm(nn, no)
        if not math.isclose(e.eps, 1 - nn**2 / no**2, rel_tol=1e-13, abs_tol=1e-16):
            viol.append(dict(key='algebra:from_norm', what='from_norm eps', case=dict(kind='algebra', vals=[nn, no])))
        keys.add(('fn', nn, no))
    for disc in [[], [0.1], [0.1, 0.2, 0.0]]:
        for no in [None, 1.0, 2.0]:
            ev += 1
            e = TruncationError.from_S(np.array(disc), no)
            ref = sum(x * x for x in disc) / ((no or 1.0) ** 2)
            if not math.isclose(e.eps, ref, rel_tol=1e-13, abs_tol=1e-300) or not math.isclose(e.ov, 1 - 2 * ref, rel_tol=1e-13):
                viol.append(dict(key='algebra:from_S', what='from_S(%r,%r) eps=%r expected %r' % (disc, no, e.eps, ref), case=dict(kind='algebra', vals=[disc, no])))
            keys.add(('fs', tuple(disc), no))
    return dict(evaluations=ev, keys=[str(k) for k in keys], violations=viol, samples=[dict(kind='TruncationError.__add__', vals=[0.01, 0.3, 1e-9])])


# ---------------------------------------------------------------- decompositions

def _matrices(seed):
    """Small block matrices theta with legs [(vL.p0),(p1.vR)] (pipes), deterministic values keyed by seed."""
    import tenpy.linalg.np_conserved as npc
    out = []
    rng = np.random.default_rng(1000 + seed)
    chU1 = npc.ChargeInfo([1], ['N'])
    chZ2 = npc.ChargeInfo([2], ['P'])
    ch0 = npc.ChargeInfo()
    specs = []
    for chinfo, name, pq, vqs in [
        (chU1, 'U1', [[0], [1]], [[[0]], [[0], [1]], [[-1], [0], [1]], [[1], [0], [0]]]),
        (chZ2, 'Z2', [[0], [1]], [[[0]], [[0], [1]], [[1], [0], [1]]]),
        (ch0, 'none', [[], []], [[[]], [[], []]]),
    ]:
        for ivl, vl in enumerate(vqs):
            for ivr, vr in enumerate(vqs):
                for mult in (1, 2):
                    specs.append((chinfo, name, pq, vl, vr, mult, ivl, ivr))
    for chinfo, name, pq, vl, vr, mult, ivl, ivr in specs:
        p = npc.LegCharge.from_qflat(chinfo, pq, 1)
        vL = npc.LegCharge.from_qflat(chinfo, [q for q in vl for _ in range(mult)], 1)
        vR = npc.LegCharge.from_qflat(chinfo, [q for q in vr for _ in range(mult)], -1)
        for dtype in (np.float64, np.complex128):
            for qtot_i in range(2 if chinfo.qnumber else 1):
                qtotal = None if qtot_i == 0 else [1]
                def fn(shape, dtype=dtype):
                    x = rng.standard_normal(shape)
                    if dtype == np.complex128:
                        x = x + 1j * rng.standard_normal(shape)
                    return x
                th = npc.Array.from_func(fn, [vL, p, p.conj(), vR], dtype=dtype, qtotal=qtotal, labels=['vL', 'p0', 'p1', 'vR'])
                if th.norm() == 0:
                    continue
                out.append((('%s vL%d vR%d m%d %s q%s' % (name, ivl, ivr, mult, np.dtype(dtype).name, qtotal)), th, vL, vR))
    return out


TRUNC_OPTS = [
    dict(chi_max=None, svd_min=None, trunc_cut=None),
    dict(chi_max=1),
    dict(chi_max=2),
    dict(chi_max=3, chi_min=2),
    dict(chi_max=None, svd_min=0.3, trunc_cut=None),
    dict(chi_max=None, svd_min=None, trunc_cut=0.4),
    dict(chi_max=2, degeneracy_tol=0.3),
    dict(chi_max=100, chi_min=2, svd_min=0.2, trunc_cut=0.3),
]


def run_decomp(unit):
    import tenpy.linalg.np_conserved as npc
    from tenpy.linalg import truncation
    kind, shard, nshards, tier, seed = unit
    mats = _matrices(seed)
    ev = 0
    viol = []
    keys = set()
    samples = []
    tol = 1e-11

    def bad(key, what, case):
        if len(viol) < 10:
            viol.append(dict(key=key, what=what, case=case))

    for im, (name, th4, vL, vR) in enumerate(mats):
        if im % nshards != shard:
            continue
        theta = th4.combine_legs([['vL', 'p0'], ['p1', 'vR']], qconj=[+1, -1])
        dense = theta.to_ndarray()
        nrm = np.linalg.norm(dense)
        full_S = np.linalg.svd(dense, compute_uv=False)
        for io, opt in enumerate(TRUNC_OPTS):
            case = dict(kind=kind, matrix=name, opt=opt, seed=seed)
            with warnings.catch_warnings():
                warnings.simplefilter('ignore')
                try:
                    if kind == 'svd_theta':
                        ev += 1
                        U, S, VH, err, renorm = truncation.svd_theta(theta, dict(opt), inner_labels=['vR', 'vL'])
                        approx = npc.tensordot(U.scale_axis(S * renorm, 1), VH, axes=1).to_ndarray()
                        eps = np.linalg.norm(dense - approx) ** 2 / nrm**2
                        if abs(eps - err.eps) > tol:
                            bad('svd_theta:error-mismatch', '%s %s: |theta-USV|^2/|theta|^2=%g reported eps=%g' % (name, opt, eps, err.eps), case)
                        if abs(np.linalg.norm(S) - 1) > tol:
                            bad('svd_theta:S-not-normalized', '%s %s: |S|=%r' % (name, opt, np.linalg.norm(S)), case)
                        UU = npc.tensordot(U.conj(), U, axes=[0, 0]).to_ndarray()
                        VV = npc.tensordot(VH, VH.conj(), axes=[1, 1]).to_ndarray()
                        if np.abs(UU - np.eye(len(S))).max() > tol or np.abs(VV - np.eye(len(S))).max() > tol:
                            bad('svd_theta:not-isometric', '%s %s' % (name, opt), case)
                        if opt.get('chi_max') and len(S) > opt['chi_max']:
                            bad('svd_theta:chi_max', '%s %s: kept %d' % (name, opt, len(S)), case)
                        # kept values are the largest singular values of the dense matrix
                        ref = np.sort(full_S)[::-1][:len(S)] / nrm
                        if np.abs(np.sort(S * renorm / nrm)[::-1] - ref).max() > 1e-10:
                            bad('svd_theta:kept-not-largest', '%s %s: kept %s, dense largest %s' % (name, opt, np.sort(S * renorm / nrm)[::-1], ref), case)
                        if len(S) < len(full_S):
                            keys.add((kind, name, io))
                    elif kind == 'eigh_rho':
                        ev += 1
                        rho = npc.tensordot(theta, theta.conj(), axes=[1, 1])
                        rd = rho.to_ndarray()
                        W, V, err = truncation.eigh_rho(rho, dict(opt))
                        approx = npc.tensordot(V.scale_axis(W, 1), V.conj().itranspose(), axes=1).to_ndarray()
                        wfull = np.linalg.eigvalsh(rd)
                        wfull = np.where(wfull < 1e-14, 0, wfull)
                        # documented: truncation acts on sqrt of normalized eigenvalues; err for normalized ev.
                        wn = np.sort(wfull / wfull.sum())[::-1]
                        eps_ref = wn[len(W):].sum()
                        if abs(eps_ref - err.eps) > tol:
                            bad('eigh_rho:error-mismatch', '%s %s: discarded normalized weight %g reported %g' % (name, opt, eps_ref, err.eps), case)
                        VV = npc.tensordot(V.conj(), V, axes=[0, 0]).to_ndarray()
                        if np.abs(VV - np.eye(len(W))).max() > tol:
                            bad('eigh_rho:not-isometric', '%s %s' % (name, opt), case)
                        # kept eigenpairs are eigenpairs of rho (up to the documented rescaling of W)
                        resid = rd @ V.to_ndarray() - V.to_ndarray() * (np.sort(wfull)[::-1][:0].sum() + 1) * 0
                        Vd = V.to_ndarray()
                        lam = np.einsum('ij,ij->j', Vd.conj(), rd @ Vd).real
                        if np.abs(rd @ Vd - Vd * lam).max() > 1e-9 * max(1, np.abs(rd).max()):
                            bad('eigh_rho:not-eigenvectors', '%s %s' % (name, opt), case)
                        if np.abs(np.sort(lam)[::-1] - np.sort(wfull)[::-1][:len(W)]).max() > 1e-9 * max(1, wfull.max()):
                            bad('eigh_rho:kept-not-largest', '%s %s' % (name, opt), case)
                        # documented: the kept eigenvalues are rescaled by 1/(1-eps), i.e. W sums to trace(rho) again
                        kept_ref = np.sort(wfull)[::-1][:len(W)]
                        if abs(np.sum(W) - wfull.sum()) > 1e-9 * max(1, wfull.sum()) or np.abs(np.sort(W)[::-1] - kept_ref * wfull.sum() / kept_ref.sum()).max() > 1e-9 * max(1, wfull.max()):
                            bad('eigh_rho:W-renormalization', '%s %s: returned W %s, kept eigenvalues rescaled to the full trace are %s' % (name, opt, np.sort(W)[::-1], kept_ref * wfull.sum() / kept_ref.sum()), case)
                        if len(W) < len(wfull):
                            keys.add((kind, name, io))
                    else:
                        for move_right in (True, False):
                            ev += 1
                            case2 = dict(case, move_right=move_right)
                            # old tensors: bond leg must be a "slice" of the new one -> take a product-like guess
                            old_bond = vL.conj() if False else None
                            # build consistent old bond from an untruncated svd of theta
                            U0, S0, V0 = npc.svd(theta, inner_labels=['vR', 'vL'])
                            keep = np.zeros(len(S0), bool)
                            keep[np.argsort(-S0)[:max(1, len(S0) // 2)]] = True
                            U0.iproject(keep, 1)
                            old_bond = U0.get_leg('vR')
                            qL = U0.qtotal
                            qR = theta.chinfo.make_valid(theta.qtotal - qL)
                            T_L, S, T_R, form, err, renorm = truncation.decompose_theta_qr_based(
                                qL, qR, old_bond, theta, move_right=move_right, expand=10.0, min_block_increase=4,
                                use_eig_based_svd=False, trunc_params=dict(opt), compute_err=True, return_both_T=True)
                            approx = npc.tensordot(T_L.scale_axis(S * renorm, 'vR'), T_R, axes=['vR', 'vL']).to_ndarray()
                            eps = np.linalg.norm(dense - approx) ** 2 / nrm**2
                            if abs(eps - err.eps) > tol:
                                bad('qr_based:error-mismatch', '%s %s mr=%s: true %g reported %g' % (name, opt, move_right, eps, err.eps), case2)
                            if abs(np.linalg.norm(S) - 1) > tol:
                                bad('qr_based:S-not-normalized', '%s %s' % (name, opt), case2)
                            AA = npc.tensordot(T_L.conj(), T_L, axes=[0, 0]).to_ndarray()
                            BB = npc.tensordot(T_R, T_R.conj(), axes=[1, 1]).to_ndarray()
                            if np.abs(AA - np.eye(len(S))).max() > 1e-10 or np.abs(BB - np.eye(len(S))).max() > 1e-10:
                                bad('qr_based:not-isometric', '%s %s mr=%s' % (name, opt, move_right), case2)
                            if opt.get('chi_max') and len(S) > opt['chi_max']:
                                bad('qr_based:chi_max', '%s %s' % (name, opt), case2)
                            # with full expansion the QR-based result is the exact truncated SVD
                            ref = np.sort(full_S)[::-1][:len(S)] / nrm
                            if np.abs(np.sort(S * renorm / nrm)[::-1] - ref).max() > 1e-9:
                                bad('qr_based:kept-not-largest', '%s %s mr=%s: %s vs %s' % (name, opt, move_right, np.sort(S * renorm / nrm)[::-1], ref), case2)
                            if len(S) < len(full_S):
                                keys.add((kind, name, io, move_right))
                except Exception as e:  # noqa: BLE001
                    import traceback
                    bad('%s:exception:%s' % (kind, type(e).__name__), '%s %s: %s\n%s' % (name, opt, e, traceback.format_exc()[-1500:]), case)
        if not samples:
            samples.append(dict(kind=kind, matrix=name, shape=list(dense.shape), opt=TRUNC_OPTS[3]))
    return dict(evaluations=ev, keys=[str(k) for k in keys], violations=viol, samples=samples)


def run_qr_bond(unit):
    """decompose_theta_qr_based on theta = T_L . diag(w) . T_R with an explicit old bond leg, for every subset of
    old-bond charge sectors carrying no weight (missing blocks in theta), both sweep directions, several chi_max:
    with full expansion of the bond (every column of every sector is kept in the initial guess) the QR-based
    result is algebraically the exact truncated SVD, whatever heuristics select the guess.  (The accuracy of the guess
    for small `expand` is a quality-of-approximation matter the property does not speak about.)"""
    import itertools
    import tenpy.linalg.np_conserved as npc
    from tenpy.linalg import truncation
    _, shard, nshards, tier, seed = unit
    viol, keys = [], set()
    ev = 0
    sample = None
    cases = []
    for chname, mod, pq, vLq, vbq, vRq in [
            ('U1', [1], [0, 1], [-1, -1, 0, 0, 0, 1, 1, 2], [0, 0, 1, 1, 1, 2, 2], [0, 0, 1, 1, 1, 2, 2, 3]),
            ('Z2', [2], [0, 1], [0, 0, 0, 1, 1, 1], [0, 0, 0, 1, 1], [0, 0, 1, 1, 1]),
            ('Z3', [3], [0, 1], [0, 0, 1, 1, 2, 2], [2, 2, 0, 0, 1], [0, 1, 1, 2, 2])]:
        sectors = sorted(set(vbq))
        for r in range(0, len(sectors)):
            for empty in itertools.combinations(sectors, r):
                for move_right in (True, False):
                    for chi in (None, 2, 3):
                        cases.append((chname, mod, pq, vLq, vbq, vRq, empty, move_right, chi))
    for ci, (chname, mod, pq, vLq, vbq, vRq, empty, move_right, chi) in enumerate(cases):
        if ci % nshards != shard:
            continue
        ev += 1
        case = dict(kind='qr_bond', ch=chname, empty=list(empty), move_right=move_right, chi_max=chi, seed=seed)
        rng = np.random.default_rng([seed, ci])
        chinfo = npc.ChargeInfo(mod, ['q'])
        p = npc.LegCharge.from_qflat(chinfo, pq)
        vL = npc.LegCharge.from_qflat(chinfo, vLq)
        vb = npc.LegCharge.from_qflat(chinfo, vbq)
        vR = npc.LegCharge.from_qflat(chinfo, vRq)
        try:
            with warnings.catch_warnings():
                warnings.simplefilter('ignore')
                T_L = npc.Array.from_func(rng.normal, [vL, p, vb.conj()], shape_kw='size', labels=['vL', 'p0', 'vR'])
                T_R = npc.Array.from_func(rng.normal, [vb, p, vR.conj()], shape_kw='size', labels=['vL', 'p1', 'vR'])
                w = 0.5 + rng.random(vb.ind_len)
                for q in empty:
                    w[np.asarray(vbq) == q] = 0.0
                T_Lw = T_L.scale_axis(w, 'vR')
                T_Lw.ipurge_zeros()
                theta = npc.tensordot(T_Lw, T_R, ['vR', 'vL']).combine_legs([['vL', 'p0'], ['p1', 'vR']])
                if theta.norm() == 0:
                    continue
                dense = theta.to_ndarray()
                nrm = np.linalg.norm(dense)
                full_S = np.linalg.svd(dense, compute_uv=False)
                opt = dict(chi_max=chi, svd_min=1e-12, trunc_cut=None)
                TL, S, TR, form, err, renorm = truncation.decompose_theta_qr_based(
                    T_L.qtotal, T_R.qtotal, T_R.get_leg('vL'), theta, move_right=move_right, expand=10.0, min_block_increase=8,
                    use_eig_based_svd=False, trunc_params=opt, compute_err=True, return_both_T=True)
                approx = npc.tensordot(TL.scale_axis(S * renorm, 'vR'), TR, axes=['vR', 'vL']).to_ndarray()
            eps = np.linalg.norm(dense - approx) ** 2 / nrm ** 2
            nkeep = len(S)
            ref = np.sort(full_S)[::-1]
            n_nonzero = int(np.sum(ref > 1e-10 * ref[0]))
            want = n_nonzero if chi is None else min(chi, n_nonzero)
            what = '%s empty=%s move_right=%s chi_max=%s' % (chname, list(empty), move_right, chi)
            if abs(eps - err.eps) > 1e-10:
                viol.append(dict(key='qr_bond:error-mismatch', what='%s: true error %g, reported %g' % (what, eps, err.eps), case=case))
            elif nkeep != want or np.abs(np.sort(S * renorm / nrm)[::-1] - ref[:nkeep] / nrm).max() > 1e-8:
                viol.append(dict(key='qr_bond:not-the-largest-singular-values', what='%s: kept %d values %s, dense SVD has %d non-zero: %s' % (
                    what, nkeep, np.sort(S * renorm / nrm)[::-1], n_nonzero, ref[:max(nkeep, want)] / nrm), case=case))
            if empty:
                keys.add(str(sorted(case.items())))
            sample = case
        except Exception as e:  # noqa: BLE001
            import traceback
            viol.append(dict(key='qr_bond:exception:' + type(e).__name__, what=traceback.format_exc()[-1000:], case=case))
    return dict(evaluations=ev, keys=keys, violations=viol[:10], samples=[sample] if sample else [])


def run_unit(unit):
    if unit[0] == 'qr_bond':
        return run_qr_bond(unit)
    if unit[0] == 'truncate':
        return run_truncate(unit)
    if unit[0] == 'trunc_error_algebra':
        return run_algebra(unit)
    return run_decomp(unit)


def replay(case):
    from tenpy.linalg.truncation import TruncationError, truncate
    if case.get('kind') == 'truncate':
        msg, _ = check_truncate_case(case['S'], case['opt'], truncate, TruncationError)
        v = [dict(key='replay', what=msg, case=case)] if msg else []
        return dict(evaluations=1, violations=v)
    if case.get('kind') == 'algebra':
        return run_algebra(('trunc_error_algebra',))
    if case.get('kind') == 'qr_bond':
        r = run_qr_bond(('qr_bond', 0, 1, 'quick', case.get('seed', 0)))
        r['violations'] = [v for v in r['violations'] if v['case'] == case]
        return r
    res = dict(evaluations=0, violations=[])
    for shard in range(4):
        r = run_decomp((case['kind'], shard, 4, 'quick', case.get('seed', 0)))
        res['evaluations'] += r['evaluations']
        res['violations'] += [v for v in r['violations'] if v['case'].get('matrix') == case.get('matrix')]
    return res
