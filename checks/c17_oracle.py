"""C17 oracle: observational equality of an object and its saved-and-loaded copy, identity pattern, independence.

`Diff(...).diff(a, b)` returns None or the first difference as 'path: message'.  Equality per kind of object:
plain data by `==` and type, numpy arrays by dtype/shape/values, legs by slices/charges/qconj/chinfo and flags
(format 'flat': only `to_qflat()` and `qconj`, as documented), tensors by legs + dense entries + total charge +
labels + dtype, every other instance by class and the attributes in the original's `__dict__`: public ones must
exist in the copy and be equal, private ones are compared when the copy has them and they are not None (lazily
filled caches may be dropped by an export).  While walking, the `is`-pattern is recorded: an object met twice in
the original must be met as the same object twice in the copy and vice versa (`ident`: for which objects).
"""
import numbers

import numpy as np

ATOMS = (type(None), bool, int, float, complex, str, bytes, np.generic, range, np.dtype, slice, type(Ellipsis))


def is_exportable(x):
    return hasattr(type(x), 'from_hdf5') and hasattr(x, 'save_hdf5') and not isinstance(x, type)


def _kind(x):
    if isinstance(x, (bool, np.bool_)):
        return 'b'
    for k, t in (('i', numbers.Integral), ('f', numbers.Real), ('c', numbers.Complex)):
        if isinstance(x, t):
            return k
    return None


def _num_eq(a, b):
    try:
        return bool(a == b) or bool(np.isnan(a) and np.isnan(b))
    except (TypeError, ValueError):
        return False


def arr_diff(a, b):
    if type(a) is not type(b):
        return 'type differs: %s != %s' % (type(a).__name__, type(b).__name__)
    if a.dtype != b.dtype or a.shape != b.shape:
        return 'array dtype/shape differs: %s%s != %s%s' % (a.dtype, a.shape, b.dtype, b.shape)
    nan = a.dtype.kind in 'fc'
    if isinstance(a, np.ma.MaskedArray):
        ma, mb = np.ma.getmaskarray(a), np.ma.getmaskarray(b)
        if not np.array_equal(ma, mb):
            return 'mask differs: %s != %s' % (ma.tolist(), mb.tolist())
        if not np.array_equal(np.asarray(a.data)[~ma], np.asarray(b.data)[~mb], equal_nan=nan):
            return 'unmasked data differ'
        return None if _num_eq(a.fill_value, b.fill_value) else 'fill_value differs: %r != %r' % (a.fill_value, b.fill_value)
    return None if np.array_equal(a, b, equal_nan=nan) else 'array values differ: %s != %s' % (a.tolist(), b.tolist())


class Diff:
    """One comparison of an original with its copy.

    flat: legs were saved in the lossy 'flat' format; strict: plain numbers must keep their exact type
    (used for plain data; values that went through HDF5 *attributes* of an exportable come back as numpy
    scalars, which is not observable in use); ident: 'all' | 'exportable' | None - whose `is`-pattern to demand;
    loose_tuples: tuples on a reference cycle may come back as lists (documented limitation of `load_tuple`).
    """

    def __init__(self, flat=False, strict=False, ident='exportable', loose_tuples=False):
        self.flat, self.strict, self.ident, self.loose_tuples = flat, strict, ident, loose_tuples
        self.seen = {}
        self.a2b, self.b2a, self.keep = {}, {}, []
        self.blame = None  # (class name, difference) of the innermost exportable instance that differs
        self.leaf = None  # the difference itself, without the path leading to it

    def _identity(self, a, b):
        if self.ident is None or (self.ident == 'exportable' and not is_exportable(a)):
            return None
        if isinstance(a, (tuple, frozenset)):  # immutable: whether two equal tuples are one object is not observable
            return None
        self.keep.append((a, b))
        ia, ib = id(a), id(b)
        if self.a2b.setdefault(ia, ib) != ib:
            return 'shared object duplicated: one %s object referenced twice in the original came back as two objects' % type(a).__name__
        if self.b2a.setdefault(ib, ia) != ia:
            return 'distinct objects merged: two distinct %s objects of the original came back as one object' % type(a).__name__
        return None

    def diff(self, a, b):
        d = self._diff(a, b)
        if d and self.leaf is None:
            self.leaf = d
        if d and self.blame is None and is_exportable(a):
            self.blame = (type(a).__name__, d)
        return d

    def _diff(self, a, b):
        import tenpy.linalg.np_conserved as npc
        from tenpy.linalg.charges import LegCharge
        if isinstance(a, ATOMS):
            ka, kb = _kind(a), _kind(b)
            if ka is not None and ka == kb and (not self.strict or type(a) is type(b) or ka == 'b'):
                return None if _num_eq(a, b) else 'value differs: %r != %r' % (a, b)
            if type(a) is not type(b) and not (isinstance(a, np.dtype) and isinstance(b, np.dtype)):
                return 'type differs: %s != %s (%r, %r)' % (type(a).__name__, type(b).__name__, a, b)
            return None if _num_eq(a, b) else 'value differs: %r != %r' % (a, b)
        d = self._identity(a, b)
        if d:
            return d
        key = (id(a), id(b))
        if key in self.seen:  # already compared or being compared (cycle)
            return None
        self.seen[key] = (a, b)
        if isinstance(a, np.ndarray):
            return arr_diff(a, b) if isinstance(b, np.ndarray) else 'type differs: ndarray != %s' % type(b).__name__
        if isinstance(a, LegCharge):
            return self._leg(a, b) if isinstance(b, LegCharge) else 'type differs: %s != %s' % (type(a).__name__, type(b).__name__)
        if isinstance(a, npc.Array):
            return self._array(a, b) if isinstance(b, npc.Array) else 'type differs: Array != %s' % type(b).__name__
        if type(a) is not type(b) and not (self.loose_tuples and isinstance(a, tuple) and isinstance(b, list)):
            return 'type differs: %s != %s' % (type(a).__name__, type(b).__name__)
        if isinstance(a, (list, tuple)) or type(a).__name__ == 'deque':
            if len(a) != len(b):
                return 'len differs: %d != %d' % (len(a), len(b))
            return self._items(zip(range(len(a)), a, b))
        if isinstance(a, (set, frozenset)):
            return None if a == b else 'set differs: %r != %r' % (a, b)
        if isinstance(a, dict):
            if len(a) != len(b):
                return 'dict keys differ: %s != %s' % (sorted(map(repr, a)), sorted(map(repr, b)))
            for k in a:
                if k not in b:
                    return 'dict key missing: %r' % (k,)
                d = self._diff(k, next(x for x in b if x == k)) if isinstance(k, ATOMS) else None
                if d:
                    return 'dict key changed: %r: %s' % (k, d)
            if getattr(a, 'default_factory', None) is not getattr(b, 'default_factory', None):
                return 'default_factory differs'
            if type(a).__name__ == 'OrderedDict' and list(a) != list(b):
                return 'order of keys differs'
            return self._items((k, v, b[k]) for k, v in a.items())
        if isinstance(a, np.random.Generator):
            return self.diff(a.bit_generator.state, b.bit_generator.state)
        if callable(a) or isinstance(a, type):
            return None if a is b else 'global differs: %r is not %r' % (a, b)
        da, db = getattr(a, '__dict__', None), getattr(b, '__dict__', None)
        if da is None:
            return None if a == b else 'value differs: %r != %r' % (a, b)
        for k in sorted(da):
            if k not in db:
                if k.startswith('_'):
                    continue
                return '.%s: attribute lost' % k
            if k.startswith('_') and (da[k] is None or db[k] is None):  # a cache, filled on one side only
                continue
            d = self.diff(da[k], db[k])
            if d:
                return '.%s: %s' % (k, d)
        return None

    def _items(self, triples):
        for k, x, y in triples:
            d = self.diff(x, y)
            if d:
                return '[%r]: %s' % (k, d)
        return None

    def _leg(self, a, b):
        from tenpy.linalg.charges import LegPipe
        d = self.diff(a.chinfo, b.chinfo)
        if d:
            return 'chinfo: ' + d
        if a.qconj != b.qconj or a.ind_len != b.ind_len:
            return 'qconj/ind_len differs: %s/%s != %s/%s' % (a.qconj, a.ind_len, b.qconj, b.ind_len)
        if self.flat:  # documented as lossy: only the charges of the indices survive
            return None if np.array_equal(a.to_qflat(), b.to_qflat()) else 'to_qflat() differs'
        if type(a) is not type(b):
            return 'type differs: %s != %s' % (type(a).__name__, type(b).__name__)
        if a.block_number != b.block_number or not np.array_equal(a.slices, b.slices) or not np.array_equal(a.charges, b.charges):
            return 'blocks differ: slices %s charges %s != slices %s charges %s' % (
                a.slices.tolist(), a.charges.tolist(), b.slices.tolist(), b.charges.tolist())
        if b.slices.dtype != np.intp or b.charges.dtype != a.charges.dtype:
            return 'dtype of slices/charges differs: %s/%s' % (b.slices.dtype, b.charges.dtype)
        if bool(a.sorted) != bool(b.sorted) or bool(a.bunched) != bool(b.bunched):
            return 'sorted/bunched flags differ: %s/%s != %s/%s' % (a.sorted, a.bunched, b.sorted, b.bunched)
        if isinstance(a, LegPipe):
            if len(a.legs) != len(b.legs) or tuple(a.subshape) != tuple(b.subshape) or tuple(a.subqshape) != tuple(b.subqshape):
                return 'pipe structure differs'
            d = self._items((i, la, lb) for i, (la, lb) in enumerate(zip(a.legs, b.legs)))
            if d:
                return 'legs' + d
            if not np.array_equal(a.q_map, b.q_map) or not np.array_equal(a.q_map_slices, b.q_map_slices):
                return 'q_map differs'
            for idx in np.ndindex(*a.subshape):  # same incoming indices -> same outgoing index
                if a.map_incoming_flat(idx) != b.map_incoming_flat(idx):
                    return 'map_incoming_flat differs: at %s' % (idx,)
        return None

    def _array(self, a, b):
        if a.rank != b.rank or a.shape != b.shape or a.dtype != b.dtype:
            return 'rank/shape/dtype differs: %s %s %s != %s %s %s' % (a.rank, a.shape, a.dtype, b.rank, b.shape, b.dtype)
        d = self.diff(a.chinfo, b.chinfo)
        if d:
            return 'chinfo: ' + d
        d = self._items((i, la, lb) for i, (la, lb) in enumerate(zip(a.legs, b.legs)))
        if d:
            return 'legs' + d
        if not np.array_equal(a.qtotal, b.qtotal):
            return 'qtotal differs: %s != %s' % (a.qtotal, b.qtotal)
        if list(a.get_leg_labels()) != list(b.get_leg_labels()):
            return 'labels differ: %s != %s' % (a.get_leg_labels(), b.get_leg_labels())
        if a.stored_blocks != b.stored_blocks or bool(a._qdata_sorted) != bool(b._qdata_sorted):
            return 'stored blocks differ: %d (sorted %s) != %d (sorted %s)' % (a.stored_blocks, a._qdata_sorted, b.stored_blocks, b._qdata_sorted)
        if not np.array_equal(a.to_ndarray(), b.to_ndarray(), equal_nan=True):
            return 'dense entries differ'
        return None


def _children(x):
    if isinstance(x, (list, tuple, set, frozenset)) or type(x).__name__ == 'deque':
        return list(x)
    if isinstance(x, dict):
        return list(x.keys()) + list(x.values())
    if isinstance(x, ATOMS) or isinstance(x, (np.ndarray, type, np.random.Generator)) or callable(x):
        return []
    d = getattr(x, '__dict__', None)
    return [d[k] for k in sorted(d)] if d else []


def reachable(root):
    """All objects reachable from root that carry identity (containers, arrays, instances)."""
    out, seen, stack = [], set(), [root]
    while stack:
        x = stack.pop()
        if isinstance(x, ATOMS) or callable(x) or id(x) in seen:  # (classes and functions are globals)
            continue
        seen.add(id(x))
        out.append(x)
        stack.extend(_children(x))
    return out


def _buffer(x):
    """Address of the buffer an array (view) lives in."""
    while isinstance(x.base, np.ndarray):
        x = x.base
    return x.__array_interface__['data'][0]


def independent(a, b):
    """None if no mutable object / array buffer is shared between original and copy, else a message."""
    ra = reachable(a)
    ids = {id(x) for x in ra if not isinstance(x, (tuple, frozenset))}
    mem = {_buffer(x) for x in ra if isinstance(x, np.ndarray) and x.size}
    for y in reachable(b):
        if id(y) in ids:
            return 'copy contains the very same %s object as the original' % type(y).__name__
        if isinstance(y, np.ndarray) and y.size and _buffer(y) in mem:
            return 'an array of the copy shares memory with the original'
    return None
