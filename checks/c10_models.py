"""C10: the predefined model classes of tenpy.models over a small parameter grid.

Every entry: model class x sizes (one finite, one infinite) x coupling variants x conservation options.
Cases with the same `same` tag define the same Hamiltonian (they differ only in the conserved charges).
"""
import itertools

CONS = [dict(conserve=c) for c in ('Sz', 'parity', None)]
CONS_N = [dict(conserve=c) for c in ('N', 'parity', None)]
CONS_NSZ = [dict(cons_N=a, cons_Sz=b) for a, b in (('N', 'Sz'), ('parity', 'parity'), (None, None), ('N', None), (None, 'Sz'), ('parity', 'Sz'))]
CHAIN = dict(finite=dict(L=3), infinite=dict(L=2))
SQ = dict(finite=dict(lattice='Square', Lx=2, Ly=2, bc_y='ladder'), infinite=dict(lattice='Square', Lx=1, Ly=3, bc_y='cylinder'))
HC = dict(finite=dict(Lx=1, Ly=2, bc_y='cylinder'), infinite=dict(Lx=1, Ly=2, bc_y='cylinder'))


def table(tier, j):
    """[(module.Class, sizes, [variant params], [conservation options])]; j: seed dependent shift of the couplings."""
    q = tier == 'quick'
    T = [
        ('tf_ising.TFIChain', CHAIN, [dict(J=1.1 + j, g=0.7)], [dict(conserve='parity'), dict(conserve=None)]),
        ('tf_ising.TFIModel', SQ, [dict(J=1.1 + j, g=0.7)], [dict(conserve='parity'), dict(conserve=None)]),
        ('xxz_chain.XXZChain', CHAIN, [dict(Jxx=1.2 + j, Jz=0.7, hz=0.3)], CONS),
        ('xxz_chain.XXZChain2', CHAIN, [dict(Jxx=1.2 + j, Jz=0.7, hz=0.3)], CONS),
        ('spins.SpinChain', CHAIN, [dict(Jx=1.1 + j, Jy=1.1 + j, Jz=0.5, hz=0.2, D=0.3, S=1.0)], CONS),
        ('spins.SpinChain', CHAIN, [dict(Jx=1.1 + j, Jy=0.6, Jz=0.5, E=0.2, muJ=0.3)], CONS[1:]),
        ('spins.SpinChain', CHAIN, [dict(Jx=1.1 + j, Jy=0.6, Jz=0.5, hx=0.3, hy=0.2, hz=0.1)], CONS[2:]),
        ('spins.SpinModel', SQ, [dict(Jx=1.1 + j, Jy=1.1 + j, Jz=0.5, hz=0.2)], CONS),
        ('spins.DipolarSpinChain', dict(finite=dict(L=4), infinite=dict(L=2)), [dict(S=0.5, J3=1.1 + j, J4=0.4)],
         [dict(conserve=c) for c in ('dipole', 'Sz', 'parity', None)]),
        ('spins_nnn.SpinChainNNN', dict(finite=dict(L=2), infinite=dict(L=1)),
         [dict(Jx=1.1 + j, Jy=1.1 + j, Jz=0.5, Jxp=0.4, Jyp=0.4, Jzp=0.3, hz=0.2)], CONS),
        ('spins_nnn.SpinChainNNN2', dict(finite=dict(L=4), infinite=dict(L=2)),
         [dict(Jx=1.1 + j, Jy=1.1 + j, Jz=0.5, Jxp=0.4, Jyp=0.4, Jzp=0.3, hz=0.2)], CONS),
        ('fermions_spinless.FermionChain', CHAIN, [dict(J=1.1 + j, V=0.6, mu=0.3)], CONS_N),
        ('fermions_spinless.FermionModel', SQ, [dict(J=1.1 + j, V=0.6, mu=0.3), dict(J=1.1 + j, V=0.6, phi_ext=0.4, bc_y='cylinder')], CONS_N),
        ('hubbard.BoseHubbardChain', CHAIN, [dict(n_max=2, t=1.1 + j, U=0.8, V=0.3, mu=0.2)], CONS_N),
        ('hubbard.BoseHubbardModel', SQ, [dict(n_max=1, t=1.1 + j, U=0.8, V=0.3, mu=0.2, phi_ext=0.4, bc_y='cylinder')], CONS_N),
        ('hubbard.FermiHubbardChain', CHAIN, [dict(t=1.1 + j, U=0.8, V=0.3, mu=0.2)], CONS_NSZ[:3] if q else CONS_NSZ),
        ('hubbard.FermiHubbardModel', dict(finite=dict(lattice='Ladder', L=2), infinite=dict(lattice='Ladder', L=1)),
         [dict(t=1.1 + j, U=0.8, V=0.3, mu=0.2)], CONS_NSZ[:3]),
        ('hubbard.FermiHubbardModel2', dict(finite=dict(L=2), infinite=dict(L=2)), [dict(t=1.1 + j, U=0.8, V=0.3, mu=0.2)], CONS_NSZ[:3] if q else CONS_NSZ),
        ('hubbard.DipolarBoseHubbardChain', dict(finite=dict(L=5), infinite=dict(L=3)), [dict(Nmax=1, t=1.1 + j, t4=0.4, U=0.8, mu=0.2)],
         [dict(conserve=c) for c in ('dipole', 'N', 'parity', None)]),
        ('hubbard.DipolarBoseHubbardChain', dict(finite=dict(L=4), infinite=dict(L=2)), [dict(Nmax=2, t=1.1 + j, t4=0.4, U=0.8, mu=0.2)],
         [dict(conserve=c) for c in ('dipole', None)]),
        ('tj_model.tJChain', CHAIN, [dict(t=1.1 + j, J=0.6)], CONS_NSZ[:3] if q else CONS_NSZ),
        ('tj_model.tJModel', dict(finite=dict(lattice='Ladder', L=2), infinite=dict(lattice='Ladder', L=1)), [dict(t=1.1 + j, J=0.6)], CONS_NSZ[:3]),
        ('clock.ClockChain', CHAIN, [dict(q=3, J=1.1 + j, g=0.7)], [dict(conserve='Z'), dict(conserve=None)]),
        ('clock.ClockModel', dict(finite=dict(lattice='Ladder', L=2), infinite=dict(lattice='Ladder', L=1)), [dict(q=4, J=1.1 + j, g=0.7)],
         [dict(conserve='Z'), dict(conserve=None)]),
        ('aklt.AKLTChain', CHAIN, [dict(J=1.1 + j)], CONS),
        ('pxp.PXPChain', dict(finite=dict(L=4), infinite=dict(L=2)), [dict(J=1.1 + j)], [dict(conserve='parity'), dict(conserve=None)]),
        ('toric_code.ToricCode', dict(finite=dict(Lx=2, Ly=2, bc_y='ladder'), infinite=dict(Lx=1, Ly=2, bc_y='cylinder')),
         [dict(Jv=1.1 + j, Jp=0.7)], [dict(conserve='parity'), dict(conserve=None)]),
        ('haldane.FermionicHaldaneModel', HC, [dict(t1=-1.1 - j, V=0.6, mu=0.3, phi_ext=0.2)], CONS_N),
        ('haldane.BosonicHaldaneModel', HC, [dict(t1=-1.1 - j, V=0.6, mu=0.3, phi_ext=0.2)], CONS_N),
        ('hofstadter.HofstadterFermions', dict(finite=dict(Lx=2, Ly=2, bc_y='cylinder', bc_x='open'), infinite=dict(Lx=2, Ly=2, bc_y='cylinder')),
         [dict(Jx=1.1 + j, Jy=0.8, mu=0.3, v=0.6, phi=[1, 2], phi_ext=0.2 * g, gauge='landau_x' if g else 'landau_y') for g in (0, 1)], CONS_N),
        ('hofstadter.HofstadterBosons', dict(finite=dict(Lx=2, Ly=2, bc_y='ladder', bc_x='open'), infinite=dict(Lx=2, Ly=2, bc_y='cylinder')),
         [dict(Nmax=1, Jx=1.1 + j, Jy=0.8, mu=0.3, U=0.6, phi=[1, 2], gauge='landau_x')], CONS_N),
        ('molecular.MolecularModel', dict(finite=dict()), [dict(norb=3, constant=0.5 + j)], CONS_NSZ[:3]),
        ('mixed_xk.SpinlessMixedXKSquare', dict(finite=dict(Lx=2, Ly=2), infinite=dict(Lx=1, Ly=2)), [dict(t=1.1 + j, V=0.6)],
         [dict(conserve_k=True), dict(conserve_k=False)]),
        ('mixed_xk.HubbardMixedXKSquare', dict(finite=dict(Lx=1, Ly=2), infinite=dict(Lx=1, Ly=2)), [dict(t=1.1 + j, U=0.6)],
         [dict(conserve_k=True), dict(conserve_k=False)]),
    ]
    return T


def cases(tier, seed):
    """-> list of (class name, [case]) ; case = dict(model, params, same)."""
    j = 0.001 * (seed % 89)
    out = {}
    for k, (cls, sizes, variants, conserve) in enumerate(table(tier, j)):
        for (bc, size), (v, var), cons in itertools.product(sizes.items(), enumerate(variants), conserve):
            params = dict(size, bc_MPS=bc, **var)
            params.update(cons)
            out.setdefault(cls, []).append(dict(model=cls, params=params, same='%d:%s:%d' % (k, bc, v)))
    return sorted(out.items())


def build(case):
    import importlib
    import numpy as np
    mod, cls = case['model'].split('.')
    params = dict(case['params'])
    if cls == 'MolecularModel':  # fixed integrals with the 8-fold symmetry of real orbitals
        n = params.pop('norb')
        params.pop('bc_MPS')
        h1 = np.array([[0.3 * (a + 1) if a == b else 0.2 / (1 + abs(a - b)) for b in range(n)] for a in range(n)])
        h2 = np.zeros((n,) * 4)
        for a, b, c, d in itertools.product(range(n), repeat=4):
            h2[a, b, c, d] = 0.1 / (1 + abs(a - b) + abs(c - d)) * (1 + 0.5 * (a == c) + 0.25 * (b == d))
        h2 = sum(h2.transpose(t) for t in [(0, 1, 2, 3), (1, 0, 2, 3), (0, 1, 3, 2), (1, 0, 3, 2), (2, 3, 0, 1), (3, 2, 0, 1), (2, 3, 1, 0), (3, 2, 1, 0)])
        params.update(one_body_tensor=h1, two_body_tensor=h2)
    return getattr(importlib.import_module('tenpy.models.' + mod), cls)(params)
