"""Dense reference for C07: what an MPS denotes, by our own numpy contraction of its stored tensors.

Only `get_B(i, form=None)` (the stored tensor, no scaling), `get_SL/get_SR`, `form`, `norm` and `Array.to_ndarray`
are read from the library; every product / power of singular values / SVD / eigen-decomposition below is numpy.

Denotation (module doc-string of tenpy.networks.mps): with form[i] = (nuL, nuR) the stored tensor is
``s[i]**nuL Gamma[i] s[i+1]**nuR`` and the state is ``s[0] Gamma[0] s[1] Gamma[1] ... s[L]`` (every bond carries s
exactly once), i.e. bond b needs the extra factor ``s[b]**(1 - nuR[b-1] - nuL[b])``.  If any site has form None the
state is the plain product of the stored tensors (doc-string of canonical_form_finite: no singular value is used).
"""
import numpy as np


def stored(psi):
    """numpy copies of the stored tensors [vL, p, vR], the singular values on the bond left of each site (+ the one
    right of the last site) and the forms."""
    Bs, Ss = [], []
    for i in range(psi.L):
        B = psi.get_B(i, form=None)
        Bs.append(np.array(B.to_ndarray()).transpose([B.get_leg_index(l) for l in ('vL', 'p', 'vR')]))
        Ss.append(psi.get_SL(i))
    Ss.append(psi.get_SR(psi.L - 1))
    return Bs, Ss, list(psi.form)


def _pow(S, e):
    return np.asarray(S, dtype=float) ** e


def plain_matrices(psi):
    """Matrices N[i] (vL, p, vR) whose plain product is the denoted state (left bond factor absorbed into each site;
    the factor of the last right bond is returned separately)."""
    Bs, Ss, forms = stored(psi)
    n = len(Bs)
    if any(f is None for f in forms):
        return Bs, None
    out = []
    for i in range(n):
        if i == 0:
            prevR = forms[-1][1] if not psi.finite else 0.0
        else:
            prevR = forms[i - 1][1]
        e = 1.0 - prevR - forms[i][0]
        N = Bs[i]
        if e != 0.0:
            N = _pow(Ss[i], e)[:, None, None] * N
        out.append(N)
    last = None
    if psi.finite:
        e = 1.0 - forms[-1][1]
        if e != 0.0:
            last = _pow(Ss[n], e)
    return out, last


def theta(psi):
    """Dense tensor [vL, p0, ..., p{L-1}, vR] of a finite / segment MPS in the local basis of the sites, *without*
    psi.norm."""
    Ns, last = plain_matrices(psi)
    T = Ns[0]
    for N in Ns[1:]:
        T = np.tensordot(T, N, axes=[[-1], [0]])
    if last is not None:
        T = T * last
    return T


def undo_perm(T, sites, first_axis=0):
    """Reorder the physical axes from the basis of the sites to the `conserve=None` order (perm[new] = old)."""
    for k, s in enumerate(sites):
        inv = np.argsort(np.asarray(s.perm))
        T = np.take(T, inv, axis=first_axis + k)
    return T


def schmidt(T, cut):
    """Normalised singular values (descending) of the dense tensor [vL, p0.., vR] cut left of site `cut`."""
    rows = int(np.prod(T.shape[:cut + 1]))
    s = np.linalg.svd(T.reshape(rows, -1), compute_uv=False)
    return s / np.linalg.norm(s)


def same_spectrum(S_lib, s_ref, tol):
    a = np.sort(np.asarray(S_lib, dtype=float))[::-1]
    b = np.sort(np.asarray(s_ref, dtype=float))[::-1]
    n = max(len(a), len(b))
    a = np.concatenate([a, np.zeros(n - len(a))])
    b = np.concatenate([b, np.zeros(n - len(b))])
    return float(np.abs(a - b).max()) <= tol


def entropy(s, n=1):
    p = np.asarray(s, dtype=float) ** 2
    p = p[p > 1e-30]
    if n == 1:
        return float(-np.sum(p * np.log(p)))
    if n == np.inf:
        return float(-np.log(p.max()))
    return float(np.log(np.sum(p ** n)) / (1.0 - n))


# ------------------------------------------------------------------------------------------------ infinite MPS

def _transfer(N):
    """E[(a,a'),(b,b')] = sum_p N[a,p,b] conj(N[a',p,b'])."""
    E = np.einsum('apb,cpd->acbd', N, N.conj())
    return E.reshape(N.shape[0] ** 2, N.shape[2] ** 2)


def _dominant(E, left):
    w, v = np.linalg.eig(E.T if left else E)
    k = int(np.argmax(np.abs(w)))
    gap = np.sort(np.abs(w))[::-1]
    gap = gap[1] / gap[0] if len(gap) > 1 else 0.0
    chi = int(round(np.sqrt(E.shape[0])))
    return w[k], v[:, k].reshape(chi, chi), gap


class Infinite:
    """Observables of the translation invariant state given by plain unit-cell matrices Ns (list of [vL, p, vR])."""

    def __init__(self, Ns):
        self.Ns = Ns
        E = np.eye(Ns[0].shape[0] ** 2)
        for N in Ns:
            E = E @ _transfer(N)
        self.eta, self.r, self.gap = _dominant(E, False)
        _, self.l, _ = _dominant(E, True)
        self.eta = float(abs(self.eta))

    def rho(self, n_cells):
        """Reduced density matrix of n_cells unit cells starting at site 0 (trace 1), in the basis of the sites."""
        T = self.Ns[0]
        for k in range(1, n_cells * len(self.Ns)):
            T = np.tensordot(T, self.Ns[k % len(self.Ns)], axes=[[-1], [0]])
        chiL, chiR = T.shape[0], T.shape[-1]
        M = T.reshape(chiL, -1, chiR)
        rho = np.einsum('ac,apb,cqd,bd->pq', self.l, M, M.conj(), self.r, optimize=True)
        return rho / np.trace(rho)

    def schmidt(self, bond):
        """Normalised Schmidt values on the bond left of site `bond`."""
        L = len(self.Ns)
        left, right = self.l, self.r
        for i in range(bond):  # move l to the right over sites 0..bond-1
            left = np.einsum('ac,apb,cpd->bd', left, self.Ns[i], self.Ns[i].conj())
        for i in range(L - 1, bond - 1, -1):  # move r to the left over sites L-1..bond
            right = np.einsum('apb,cpd,bd->ac', self.Ns[i], self.Ns[i].conj(), right)
        w = np.linalg.eigvals(left @ right.T)
        w = np.sort(np.abs(w))[::-1]
        return np.sqrt(w / w.sum())


def infinite(psi):
    Ns, _ = plain_matrices(psi)
    return Infinite(Ns)
