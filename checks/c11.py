"""C11 -- MPO algebra equals operator algebra.

Bounded exhaustive enumeration of matrix product operators built from term lists (every position of every one-,
two- and three-site term group on short chains, all pairs of groups, complete Hamiltonians, non-hermitian and
`explicit_plus_hc` variants, missing identity markers; infinite unit cells of 1-3 sites with couplings across unit
cells) and from explicit W tensors with unknown range, pushed through every operation of the MPO class; pairs for
the sum / overlap / distance / equality tests including pairs which differ in one single (long-range) term; finite
states x compression methods x truncation settings for `apply`.  Oracle: dense Kronecker-product operators and
dense state vectors (c11_dense.py).  The per-case checks live in c11_ops.py; this module only enumerates.
"""
import itertools
import logging
import traceback
import warnings

import numpy as np

from . import c11_ops as O
from . import c11_univ as U

UNIT_TIMEOUT = 900.0
CHECKS = dict(ops=O.check_ops, pair=O.check_pair, partition=O.check_partition, apply=O.check_apply, inf=O.check_inf, wflat=O.check_wflat, infapply=O.check_infapply)
CHUNK = dict(ops=12, pair=150, partition=40, apply=120, inf=10, wflat=6, infapply=8)
QUICK_CHAINS = ['S:Sz', 'S:None', 'F:N']
CHARGED = {'S:Sz': ('Sp', 'Sz'), 'S1:Sz': ('Sp', 'Sz'), 'S:None': ('Sigmax', 'Sigmaz'), 'F:N': ('Cd', 'N')}
INF_CELLS = [(1, 2), (2, 2), (1, 3), (3, 2)]  # (unit cell, maximal reach of a term)


def inf_cells(chain, tier, kind):
    """(unit cell, reach) of the infinite MPOs of one kind of check; the spin-1 chain only with small windows."""
    if tier == 'quick':
        return INF_CELLS if kind == 'inf' else INF_CELLS[:2]
    if chain == 'S1:Sz':
        return [c for c in INF_CELLS if c[0] != 2] if kind == 'inf' else []
    return INF_CELLS if kind != 'pair' else INF_CELLS[:3]


def rng_for(seed, *key):
    return np.random.default_rng([seed] + [int(k) for k in key])


def chains(tier):
    return QUICK_CHAINS if tier == 'quick' else QUICK_CHAINS + ['S1:Sz']


def lengths(chain, tier, quick, thorough):
    """Chain lengths of a tier; the spin-1 chain (d=3, thorough only) stays one site shorter."""
    return quick if tier == 'quick' else [L for L in thorough if L < max(thorough) or chain != 'S1:Sz']


def family(chain, L, seed, ci, pairs, bc='finite', reach=None):
    """The enumerated MPO specifications on one chain: (name, spec)."""
    gr = U.groups(chain, L, reach)
    r = rng_for(seed, ci, L, 0 if reach is None else reach)
    kw = dict(bc=bc)
    for g in gr:
        yield 'single', U.spec_from_groups(chain, L, [g], r, **kw)
    for g in gr:
        if len(g[2]) > 1 or chain == 'S:None':
            yield 'single-nonhermitian', U.spec_from_groups(chain, L, [g], r, herm=False, **kw)
    if bc == 'finite':
        for g in gr:
            yield 'single-no-all-id', U.spec_from_groups(chain, L, [g], r, all_id=False, **kw)
    nn = [g for g in gr if g[0] == 'Z' or g[0] in ('ZZ', 'PM') and g[1][1] - g[1][0] == 1]
    yield 'nearest-neighbour', U.spec_from_groups(chain, L, nn, r, **kw)
    yield 'all-groups', U.spec_from_groups(chain, L, gr, r, **kw)
    yield 'all-groups-complex', U.spec_from_groups(chain, L, gr, r, cplx=True, **kw)
    yield 'all-groups-nonhermitian', U.spec_from_groups(chain, L, gr, r, herm=False, **kw)
    yield 'explicit_plus_hc', U.spec_from_groups(chain, L, gr, r, herm=False, plus_hc=True, **kw)
    if bc == 'finite':
        yield 'all-groups-no-all-id', U.spec_from_groups(chain, L, gr[len(gr) // 3:], r, all_id=False, **kw)
    if pairs:
        for g1, g2 in itertools.combinations(gr, 2):
            yield 'pair-of-groups', U.spec_from_groups(chain, L, [g1, g2], r, **kw)


def charged_specs(chain, L, seed, ci):
    """Operators which change the charge (all terms by the same amount): sums of raising operators."""
    p, z = CHARGED[chain]
    r = rng_for(seed, ci, L, 77)
    pos = [[(p, i)] for i in range(L)] + [[(p, i), (z, j)] for i in range(L) for j in range(L) if i != j]
    if chain == 'F:N':  # (only even fermion parity can be written as a sum of local terms without a string to the left)
        pos = [[(p, i), (p, j)] for i, j in itertools.combinations(range(L), 2)] + [[(p, i), (z, k), (p, j)] for i, j in itertools.combinations(range(L), 2) for k in range(L) if k not in (i, j)]
    for t in pos:
        yield dict(chain=chain, L=L, bc='finite', terms=[[list(x) for x in t]], coefs=[U.coef(r, True)], charged=True)
    yield dict(chain=chain, L=L, bc='finite', terms=[[list(x) for x in t] for t in pos], coefs=[U.coef(r, True) for _ in pos], charged=True)


def cases(kind, tier, seed):
    """Deterministic generator of all cases of one kind (json-able dicts)."""
    q = tier == 'quick'
    if kind == 'ops':
        for ci, chain in enumerate(chains(tier)):
            for L in lengths(chain, tier, (2, 3, 4), (2, 3, 4, 5)):
                for fam, spec in family(chain, L, seed, ci, pairs=L <= 3 or L == 4 and not q and chain in ('S:Sz', 'F:N')):
                    if L < 5 or fam.startswith('single') or fam == 'all-groups':
                        yield dict(spec=spec, seed=seed, family=fam)
    elif kind == 'pair':
        for ci, chain in enumerate(chains(tier)):
            for L in lengths(chain, tier, (3,), (2, 3, 4)):
                fam = list(family(chain, L, seed, ci, pairs=False))
                big = [s for f, s in fam if f in ('nearest-neighbour', 'all-groups-complex')]
                std = [s for f, s in fam if f in ('single', 'single-nonhermitian')] + big
                noid = [s for f, s in fam if f in ('single-no-all-id', 'all-groups-no-all-id')]
                hc = [U.spec_from_groups(chain, L, [g], rng_for(seed, ci, L, 5), herm=False, plus_hc=True) for g in U.groups(chain, L)] + [s for f, s in fam if f == 'explicit_plus_hc']
                ch = list(charged_specs(chain, L, seed, ci))
                if q:  # one operator without all identities per (first, last) site of its term; few non-hermitian ones
                    seen = set()
                    noid = [s for s in noid if (k := (min(i for t in s['terms'] for _, i in t), max(i for t in s['terms'] for _, i in t), len(s['terms']) > 2)) not in seen and not seen.add(k)]
                    herm = [s for f, s in fam if f == 'single'] + big
                    pairs = [itertools.product(herm, herm), itertools.product(std, big), itertools.product(big, std), itertools.product(herm, noid), itertools.product(noid, herm)]
                    pairs += [itertools.product(x, x[:3] + x[-1:]) for x in (noid, hc, ch)] + [itertools.product(hc[-3:], std[-3:]), itertools.product(std[-3:], hc[-3:])]
                else:
                    pairs = [itertools.product(x, y) for x, y in ((std, std), (hc, hc), (ch, ch), (hc[-3:], std), (std, hc[-3:]))]
                    if L < 4 or chain in ('S:Sz', 'F:N'):
                        pairs += [itertools.product(x, y) for x, y in ((std, noid), (noid, std), (noid, noid))]
                for a, b in itertools.chain(*pairs):
                    yield dict(spec1=a, spec2=b, seed=seed, propagators=b in big or not q)
                short, long_ = [s for s in std if U.spec_range(s) == 1][:2], [s for s in std if U.spec_range(s) == 2][:2]
                for a, b in itertools.chain(itertools.product(short, long_), itertools.product(long_, short)):  # unknown / infinite range of an operand
                    for m1, m2 in ((None, 'None'), ('None', None), ('None', 'None'), (None, 'inf'), ('inf', 'None')):
                        yield dict(spec1=dict(a, **({'max_range': m1} if m1 else {})), spec2=dict(b, **({'max_range': m2} if m2 else {})), seed=seed)
            for L, reach in inf_cells(chain, tier, 'pair'):
                fam = list(family(chain, L, seed, ci, pairs=False, bc='infinite', reach=reach))
                std = [s for f, s in fam if f in ('single', 'single-nonhermitian', 'all-groups-complex')]
                for a, b in itertools.product(std, std if (L == 1 or not q) else std[:2] + std[-2:]):
                    yield dict(spec1=a, spec2=b, seed=seed)
                for a, b in itertools.product(std[:2] + std[-1:], std[-3:-1]):  # default window; known / unknown / infinite range of the operands
                    for m1, m2 in itertools.product((None, 'None', 'inf'), repeat=2):
                        yield dict(spec1=dict(a, **({'max_range': m1} if m1 else {})), spec2=dict(b, **({'max_range': m2} if m2 else {})), seed=seed, default_window=True)
    elif kind == 'partition':
        for ci, chain in enumerate(chains(tier)):
            todo = [(L, 'finite', None) for L in lengths(chain, tier, (3, 4), (2, 3, 4, 5))] + [(L, 'infinite', reach) for L, reach in inf_cells(chain, tier, 'partition')]
            for L, bc, reach in todo:
                fam = dict((f, s) for f, s in family(chain, L, seed, ci, pairs=False, bc=bc, reach=reach))
                for name in ('all-groups-complex',) if q or L == 5 else ('all-groups', 'all-groups-complex'):
                    for k in range(len(fam[name]['terms'])):
                        for all_id in ((True, False) if bc == 'finite' else (True,)):
                            yield dict(spec=fam[name], k=k, all_id_single=all_id)
    elif kind == 'apply':
        for ci, chain in enumerate(chains(tier)):
            for L in lengths(chain, tier, (3, 4), (2, 3, 4, 5)):
                fam = dict((f, s) for f, s in family(chain, L, seed, ci, pairs=False))
                full, last = fam['all-groups-complex'], [s for f, s in family(chain, L, seed, ci, pairs=False) if f == 'single'][-1]
                ops = [dict(kind='H', spec=full), dict(kind='H', spec=fam['all-groups-nonhermitian']), dict(kind='H', spec=last),
                       dict(kind='H', spec=fam['all-groups-no-all-id']),
                       dict(kind='plus_identity', spec=full, alpha=[1., 0.], beta=[0., -0.1], sites=[0, 1]),
                       dict(kind='plus_identity', spec=fam['nearest-neighbour'], alpha=[0.5, 0.2], beta=[-0.3, 0.], sites=list(range(L))),
                       dict(kind='U', spec=full, t=[0., 0.1], approx='II'), dict(kind='U', spec=full, t=[0.1, 0.], approx='I'),
                       dict(kind='U', spec=fam['nearest-neighbour'], t=[-0.05, 0.02], approx='II'),
                       dict(kind='wavepacket', chain=chain, L=L, op=CHARGED[chain][0], coeff=[[0.3 * i + 0.2, 0.1 * i] for i in range(L)]),
                       dict(kind='wavepacket', chain=chain, L=L, op=CHARGED[chain][0], coeff=[[0.5, -0.2 * i] for i in range(1, L)] + [[0., 0.]]),
                       dict(kind='wavepacket', chain=chain, L=L, op=CHARGED[chain][0], coeff=[[0., 0.]] + [[0.5, -0.2 * i] for i in range(1, L)])]
                if L == (4 if q else 5):
                    ops = ops[:1] + ops[6:7] + ops[9:10]
                for op, state, method in itertools.product(ops, range(4), ('naive', 'SVD', 'zip_up', 'variational', 'variationalQR')):
                    changes_charge = op['kind'] == 'wavepacket'
                    if method.startswith('variational') and (state == 0 or changes_charge or op['spec'] is last or L == 2):
                        continue  # (a local optimiser needs a non-vanishing overlap of the guess with the result; two-site sweeps need L > 2)
                    truncs = O.TRUNC if method == 'SVD' or not q else ('none', 'default', 'chi2') if method == 'zip_up' else ('none', 'chi2')
                    for trunc in (['none'] if method == 'naive' else truncs):
                        opts = dict(max_trunc_err=None) if method.startswith('variational') else {}
                        yield dict(op=op, state=state, method=method, trunc=trunc, options=opts, seed=seed)
                    if method == 'zip_up':  # the sweep itself truncates to chi_max
                        for trunc in ('chi2', 'chi3'):
                            yield dict(op=op, state=state, method=method, trunc=trunc, options=dict(m_temp=1), seed=seed)
    elif kind == 'inf':
        for ci, chain in enumerate(chains(tier)):
            for L, reach in inf_cells(chain, tier, 'inf'):
                for fam, spec in family(chain, L, seed, ci, pairs=(L, reach) == (1, 2) or not q and (L, reach) == (2, 2), bc='infinite', reach=reach):
                    if q and (L, reach) in INF_CELLS[2:] and fam not in ('single', 'all-groups-complex', 'explicit_plus_hc'):
                        continue
                    yield dict(spec=spec, seed=seed, family=fam, Lpsi={1: [2, 3] if fam.startswith('all-groups') or not q else [2], 2: [2] if q else [2, 3], 3: [3]}[L])
    elif kind == 'infapply':
        ts = ([0., 0.1], [0.05, 0.05]) if q else ([0., 0.1], [-0.1, 0.], [0.05, 0.05])
        for ci, chain in enumerate(chains(tier)):
            cells = [(2, 1, None, 'nearest-neighbour'), (2, 2, None, 'all-groups-complex'), (1, 1, 2, 'nearest-neighbour')]
            if not q:
                cells += [(3, 1, None, 'nearest-neighbour'), (1, 2, 2, 'all-groups-complex'), (1, 1, 3, 'nearest-neighbour'), (2, 2, None, 'all-groups-nonhermitian')]
            for L, reach, enlarge, name in cells:
                spec = dict(family(chain, L, seed, ci, pairs=False, bc='infinite', reach=reach))[name]
                for t, approx, method in itertools.product(ts, ('I', 'II'), ('naive', 'SVD', 'variational', 'variationalQR')):
                    yield dict(spec=spec, t=list(t), approx=approx, method=method, enlarge=enlarge, seed=seed)
    elif kind == 'wflat':
        for bc, L, chi, chain, markers in itertools.product(('finite', 'infinite'), (1, 2, 3), (1, 2), ('S:None', 'S:Sz'), ('all', 'boundary')):
            if (bc == 'finite' and L == 1) or (bc == 'infinite' and markers == 'boundary'):
                continue
            for variant in range(2 if q else 5):
                yield dict(bc=bc, L=L, chi=chi, chain=chain, markers=markers, variant=variant, seed=seed)


def units(tier, seed, label):
    kinds = list(CHECKS)
    if label == 'PY':  # (pure-Python kernels, a reduced pass of the thorough tier: the cheaper kinds of the quick enumeration)
        tier, kinds = 'quick', ['partition', 'inf', 'wflat', 'infapply']
    us = []
    for kind in kinds:
        n = sum(1 for _ in cases(kind, tier, seed))
        us += [(kind, a, min(n, a + CHUNK[kind]), tier, seed) for a in range(0, n, CHUNK[kind])]
    return us


def run_case(kind, case):
    try:
        with warnings.catch_warnings():
            warnings.simplefilter('ignore')
            return list(CHECKS[kind](case))
    except Exception as e:  # noqa: BLE001
        return [('%s:harness-exception:%s' % (kind, type(e).__name__), '%s\n%s' % (e, traceback.format_exc()[-1500:]))]


def nontrivial(kind, case):
    """Cases in which the bond structure matters: a term of range >= 2 or at least 3 terms (bond dimension >= 3);
    W-tensor MPOs have at least one middle state, wave packets a string of L >= 3 sites."""
    specs = [case[k] for k in ('spec', 'spec1', 'spec2') if k in case] + ([case['op']['spec']] if kind == 'apply' and 'spec' in case['op'] else [])
    if not specs:
        return kind == 'wflat' or case['op']['L'] >= 3
    return any(U.spec_range(s) >= 2 or len(s['terms']) >= 3 for s in specs)


def describe(kind, case):
    if kind == 'ops' or kind == 'inf':
        return dict(kind=kind, family=case['family'], chain=case['spec']['chain'], L=case['spec']['L'], bc=case['spec']['bc'], n_terms=len(case['spec']['terms']), first_term=case['spec']['terms'][0])
    if kind == 'pair':
        return dict(kind=kind, chain=case['spec1']['chain'], L=case['spec1']['L'], bc=case['spec1']['bc'], terms1=case['spec1']['terms'][:2], terms2=case['spec2']['terms'][:2])
    if kind == 'partition':
        return dict(kind=kind, chain=case['spec']['chain'], L=case['spec']['L'], bc=case['spec']['bc'], term=case['spec']['terms'][case['k']])
    if kind == 'apply':
        return dict(kind=kind, op=case['op']['kind'], state=case['state'], method=case['method'], trunc=case['trunc'], options=case['options'])
    if kind == 'infapply':
        return dict(kind=kind, chain=case['spec']['chain'], L=case['spec']['L'], enlarge=case['enlarge'], t=case['t'], approx=case['approx'], method=case['method'])
    return dict(case, kind=kind)


def run_unit(unit):
    kind, a, b, tier, seed = unit
    warnings.simplefilter('ignore')
    logging.disable(logging.WARNING)  # (the library logs e.g. projections in canonical_form_infinite)
    ev = nt = 0
    viol, per_key, outcomes, samples = [], {}, set(), []
    for case in itertools.islice(cases(kind, tier, seed), a, b):
        ev += 1
        nt += bool(nontrivial(kind, case))
        res = run_case(kind, case)
        outcomes.add('%s:%s' % (kind, 'ok' if not res else 'violation'))
        for key, what in res:
            per_key[key] = per_key.get(key, 0) + 1
            if per_key[key] <= 2 and len(viol) < 16:
                viol.append(dict(key=key, what=what[:3000], case=dict(case, kind=kind)))
        if not samples:
            samples.append(describe(kind, case))
    return dict(evaluations=ev, nontrivial_count=nt, violations=viol, outcomes=outcomes, samples=samples, extra={'cases_' + kind: ev})


def replay(case):
    case = dict(case)
    kind = case.pop('kind')
    res = run_case(kind, case)
    return dict(evaluations=1, violations=[dict(key=k, what=w, case=dict(case, kind=kind)) for k, w in res])


def selfcheck(tier, seed, label):
    """Determinism: the same unit twice gives the same observations."""
    unit = ('pair', 0, 12, tier, seed)
    r1, r2 = run_unit(unit), run_unit(unit)
    if (r1['evaluations'], r1['violations']) != (r2['evaluations'], r2['violations']):
        return 'unit %r gives different results when repeated' % (unit,)
