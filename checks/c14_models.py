"""Models, dense reference Hamiltonians and states for C14.

Every model is a Chain of L identical sites whose couplings are given by a small parameter set; the tenpy model
is built through the public `add_onsite/add_coupling/add_exponentially_decaying_coupling` interface and the
dense reference operator is built here independently with numpy `kron` (Jordan-Wigner strings by hand), from the
same numbers.  The parameter `ramp` makes the on-site field time dependent: field_i(t) = field_i * (1 + ramp*t).
"""
import warnings

import numpy as np

from tenpy.models.lattice import Chain
from tenpy.models.model import CouplingMPOModel, NearestNeighborModel
from tenpy.networks.mps import MPS
from tenpy.networks.site import FermionSite, SpinHalfSite
import tenpy.linalg.np_conserved as npc

NN_KINDS = ('xxz', 'tfi', 'ferm')
LR_KINDS = ('j1j2', 'fermlr')
KINDS = NN_KINDS + LR_KINDS


def couplings(kind, L, time=0.0, ramp=0.0):
    """The numbers defining H: list of (op_i, op_j, dx, strengths[L-dx], plus_hc), on-site (op, strengths[L]),
    exponentially decaying (op_i, op_j, strength, lambda)."""
    i = np.arange(L)
    f = 1.0 + ramp * time
    if kind in ('xxz', 'j1j2'):
        cs = [('Sp', 'Sm', 1, 0.5 * (1.0 + 0.1 * i[:-1]), True), ('Sz', 'Sz', 1, 0.7 - 0.05 * i[:-1], False)]
        if kind == 'j1j2':
            cs += [('Sp', 'Sm', 2, 0.5 * (0.4 + 0.1 * i[:-2]), True), ('Sz', 'Sz', 2, 0.3 + 0.0 * i[:-2], False)]
        return cs, [('Sz', f * (0.3 * (-1.0) ** i + 0.1 * i))], []
    if kind == 'tfi':
        return [('Sigmax', 'Sigmax', 1, -(1.0 + 0.1 * i[:-1]), False)], [('Sigmaz', -f * (0.8 + 0.1 * i))], []
    if kind in ('ferm', 'fermlr'):
        cs = [('Cd', 'C', 1, -(1.0 + 0.1 * i[:-1]), True)]
        ex = []
        if kind == 'ferm':
            cs.append(('N', 'N', 1, 0.6 + 0.1 * i[:-1], False))
        else:
            cs.append(('Cd', 'C', 2, 0.4 - 0.1 * i[:-2], True))
            ex.append(('N', 'N', 0.8, 0.5))
        return cs, [('N', f * (0.2 * i - 0.3 * (-1.0) ** i))], ex
    raise ValueError(kind)


def make_site(kind):
    if kind in ('xxz', 'j1j2'):
        return SpinHalfSite(conserve='Sz')
    if kind == 'tfi':
        return SpinHalfSite(conserve='parity')
    return FermionSite(conserve='N')


class C14Model(CouplingMPOModel):
    default_lattice = Chain
    force_default_lattice = True

    def init_sites(self, model_params):
        return make_site(model_params.get('kind', 'xxz', str))

    def init_terms(self, model_params):
        kind = model_params.get('kind', 'xxz', str)
        time = model_params.get('time', 0.0, 'real')
        ramp = model_params.get('ramp', 0.0, 'real')
        cs, ons, ex = couplings(kind, self.lat.N_sites, time, ramp)
        for op_i, op_j, dx, s, plus_hc in cs:
            self.add_coupling(s, 0, op_i, 0, op_j, dx, plus_hc=plus_hc)
        for op, s in ons:
            self.add_onsite(s, 0, op)
        for op_i, op_j, s, lam in ex:
            self.add_exponentially_decaying_coupling(s, lam, op_i, op_j)


class C14NNModel(C14Model, NearestNeighborModel):
    pass


def make_model(kind, L, ramp=None, time=None):
    pars = dict(kind=kind, L=L, bc_MPS='finite')
    if ramp is not None:
        pars.update(ramp=ramp, time=0.0 if time is None else time)
    with warnings.catch_warnings():
        warnings.simplefilter('ignore')
        return (C14NNModel if kind in NN_KINDS else C14Model)(pars)


# ---------------------------------------------------------------- dense reference

def _embed(L, d, ops):
    """kron of single-site matrices; `ops` maps site -> matrix, identity elsewhere."""
    out = np.eye(1)
    for k in range(L):
        out = np.kron(out, ops.get(k, np.eye(d)))
    return out


def dense_H(kind, L, time=0.0, ramp=0.0):
    """Dense H in the basis kron(site 0, site 1, ...) with each site in the basis order of its tenpy `Site`."""
    site = make_site(kind)
    d = site.dim
    op = {n: site.get_op(n).to_ndarray() for n in ('Sp', 'Sm', 'Sz', 'Sigmax', 'Sigmaz', 'Cd', 'C', 'N', 'JW') if n in site.opnames}

    def full(name, i):
        """Operator `name` on site i, including the Jordan-Wigner string to its left for fermionic operators."""
        ops = {i: op[name]}
        if name in ('Cd', 'C'):
            ops.update({k: op['JW'] for k in range(i)})
        return _embed(L, d, ops)

    cs, ons, ex = couplings(kind, L, time, ramp)
    H = np.zeros((d**L, d**L), dtype=complex)
    for op_i, op_j, dx, s, plus_hc in cs:
        for i in range(L - dx):
            term = s[i] * full(op_i, i) @ full(op_j, i + dx)
            H += term + (term.conj().T if plus_hc else 0)
    for name, s in ons:
        for i in range(L):
            H += s[i] * full(name, i)
    for op_i, op_j, s, lam in ex:
        for i in range(L):
            for j in range(i + 1, L):
                H += s * lam ** (j - i) * full(op_i, i) @ full(op_j, j)
    assert np.abs(H - H.conj().T).max() < 1e-14
    return H


def sector_mask(site, L, state):
    """Boolean mask of the basis states with the same total charge as the product state `state` (site indices)."""
    ch = site.leg.chinfo
    q1 = site.leg.to_qflat()[:, :] * site.leg.qconj  # charges per basis state
    tot = np.zeros((1, ch.qnumber), dtype=np.int64)
    for _ in range(L):
        tot = (tot[:, None, :] + q1[None, :, :]).reshape(-1, ch.qnumber)
    tot = np.array([ch.make_valid(q) for q in tot])
    target = ch.make_valid(np.sum([q1[s] for s in state], axis=0))
    return np.all(tot == target[None, :], axis=1)


PRODUCT_STATES = {  # site basis indices; a few sectors per model
    'xxz': lambda L: [[k % 2 for k in range(L)], [1] + [0] * (L - 1)],
    'tfi': lambda L: [[0] * L, [1] + [0] * (L - 1)],
    'ferm': lambda L: [[(k + 1) % 2 for k in range(L)], [1] + [0] * (L - 1)],
}
PRODUCT_STATES['j1j2'] = PRODUCT_STATES['xxz']
PRODUCT_STATES['fermlr'] = PRODUCT_STATES['ferm']


def make_state(kind, L, which, seed):
    """-> (MPS, dense vector, sector mask).  which = ('prod', k) | ('rand', k): a random vector of the charge sector
    of product state k (maximal bond dimensions)."""
    site = make_site(kind)
    prod = PRODUCT_STATES[kind](L)[which[1]]
    mask = sector_mask(site, L, prod)
    if which[0] == 'prod':
        psi = MPS.from_product_state([site] * L, prod, bc='finite', permute=False, unit_cell_width=1)
    else:
        rng = np.random.default_rng([seed, L, which[1], KINDS.index(kind)])
        vec = np.where(mask, rng.standard_normal(len(mask)) + 1j * rng.standard_normal(len(mask)), 0.0)
        vec /= np.linalg.norm(vec)
        arr = npc.Array.from_ndarray(vec.reshape([site.dim] * L), [site.leg] * L, labels=['p%d' % k for k in range(L)])
        psi = MPS.from_full([site] * L, arr, form='B', bc='finite', unit_cell_width=1)
    return psi, to_dense(psi), mask


def to_dense(psi):
    """Dense vector of a finite MPS (including psi.norm), basis kron(site 0, site 1, ...)."""
    th = psi.get_theta(0, n=psi.L).to_ndarray()
    return psi.norm * th.reshape(-1)
