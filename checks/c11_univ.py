"""C11 universe: chains, term pools, MPO specifications (json-able) and the states they are applied to."""
import itertools
import warnings

import numpy as np

from . import c11_dense as D

# chain -> (site class, kwargs, orthogonal operator basis w.r.t. tr(A^+ B) or None)
CHAINS = {
    'S:Sz': ('SpinHalfSite', {'conserve': 'Sz'}, ['Id', 'Sz', 'Sp', 'Sm']),
    'S:None': ('SpinHalfSite', {'conserve': None}, ['Id', 'Sigmax', 'Sigmay', 'Sigmaz']),
    'F:N': ('FermionSite', {'conserve': 'N'}, ['Id', 'JW', 'C', 'Cd']),
    'S1:Sz': ('SpinSite', {'S': 1.0, 'conserve': 'Sz'}, None),
}
_SITE_CACHE = {}


def site_of(chain):
    if chain not in _SITE_CACHE:
        import tenpy.networks.site as ts
        cls, kw, _ = CHAINS[chain]
        _SITE_CACHE[chain] = getattr(ts, cls)(**kw)
    return _SITE_CACHE[chain]


def groups(chain, L, reach=None):
    """Pool of hermitian term groups ``(kind, positions, [(term, conjugate_coefficient), ...])`` on sites ``0..L-1`` (finite) or
    starting in the unit cell ``0..L-1`` and reaching at most `reach` sites further (infinite)."""
    if reach is None:
        pos = lambda k: list(itertools.combinations(range(L), k))  # noqa: E731
    else:
        pos = lambda k: [c for c in itertools.combinations(range(L + reach), k) if c[0] < L and c[-1] - c[0] <= reach]  # noqa: E731
    z, p, m = {'S:Sz': ('Sz', 'Sp', 'Sm'), 'S1:Sz': ('Sz', 'Sp', 'Sm'), 'S:None': ('Sigmaz', 'Sigmax', 'Sigmay'), 'F:N': ('N', 'Cd', 'C')}[chain]
    herm_pm = chain == 'S:None'  # (Sigmax, Sigmay are hermitian themselves)
    out = []
    for (i,) in pos(1):
        out.append(('Z', (i,), [([(z, i)], False)]))
    for i, j in pos(2):
        out.append(('ZZ', (i, j), [([(z, i), (z, j)], False)]))
        out.append(('PM', (i, j), [([(p, i), (m, j)], False)] + ([] if herm_pm else [([(p, j), (m, i)], True)])))
    for i, j, k in pos(3):
        out.append(('ZZZ', (i, j, k), [([(z, i), (z, j), (z, k)], False)]))
        out.append(('PZM', (i, j, k), [([(p, i), (z, j), (m, k)], False)] + ([] if herm_pm else [([(p, k), (z, j), (m, i)], True)])))
    return out


def coef(rng, cplx):
    c = float(np.round(rng.uniform(0.4, 1.3), 3)) * (1 if rng.uniform() < 0.6 else -1)
    return [c, float(np.round(rng.uniform(0.3, 0.9), 3)) if cplx else 0.]


def spec_from_groups(chain, L, grps, rng, bc='finite', herm=True, cplx=False, **kw):
    """MPO specification with seeded coefficients: hermitian (each group with its conjugate partner) or, for
    ``herm=False``, only the first term of each group with a complex coefficient."""
    terms, coefs = [], []
    for _kind, _pos, members in grps:
        c = coef(rng, cplx or not herm)
        if len(members) == 1 and herm:
            c[1] = 0.
        for term, conj in (members if herm else members[:1]):
            terms.append([list(t) for t in term])
            coefs.append([c[0], -c[1] if conj else c[1]])
    return dict(chain=chain, L=L, bc=bc, terms=terms, coefs=coefs, **kw)


def cc(c):
    return complex(c[0], c[1])


def spec_coefs(spec):
    cs = [cc(c) for c in spec['coefs']]
    return cs if any(c.imag for c in cs) else [c.real for c in cs]


def build(spec):
    """The MPO of a specification ``dict(chain, L, bc, terms, coefs[, all_id, plus_hc, max_range])``."""
    from tenpy.networks.mpo import MPOGraph
    from tenpy.networks.terms import TermList
    site = site_of(spec['chain'])
    L = spec['L']
    tl = TermList([[tuple(t) for t in term] for term in spec['terms']], spec_coefs(spec))
    with warnings.catch_warnings():
        warnings.simplefilter('ignore')
        H = MPOGraph.from_term_list(tl, [site] * L, spec['bc'], insert_all_id=spec.get('all_id', True), unit_cell_width=L).build_MPO()
    if spec.get('plus_hc'):
        H.explicit_plus_hc = True  # (as CouplingModel does: only half of the terms are in the graph)
    if 'max_range' in spec:
        H.max_range = {'None': None, 'inf': np.inf}[spec['max_range']]
    return H


def spec_dense(spec, n=None, first=0):
    """Reference operator of a specification from Kronecker products: finite chain, or the terms of the infinite
    system which start at sites >= `first` and lie inside the window of `n` sites."""
    site = site_of(spec['chain'])
    if spec['bc'] == 'finite':
        res = D.terms_dense([site] * spec['L'], spec['terms'], spec_coefs(spec), jw=True)
    else:
        res = D.window_terms_dense([site] * spec['L'], spec['L'], n, spec['terms'], spec_coefs(spec), jw=True, first=first)
    return res + res.conj().T if spec.get('plus_hc') else res


def spec_range(spec):
    return max(max(i for _, i in t) - min(i for _, i in t) for t in spec['terms'])


# ------------------------------------------------------------------------------------------------ states

def sector_vectors(chain, L, rng, nmax=2):
    """`nmax` seeded complex random unit vectors (dense), each inside one of the two largest charge sectors."""
    site = site_of(chain)
    q = np.asarray(site.leg.to_qflat())
    if q.shape[1] == 0:
        secs = {(): np.arange(site.dim ** L)}
    else:
        tot = np.zeros(1, int)
        for _ in range(L):
            tot = (tot[:, None] + q[None, :, 0]).reshape(-1)
        secs = {}
        for idx, t in enumerate(tot):
            secs.setdefault(int(t), []).append(idx)
    out = []
    keys = sorted(secs, key=lambda k: (-len(secs[k]), k))[:2]  # (the two largest sectors, used in turn)
    for key in [keys[k % len(keys)] for k in range(nmax)]:
        v = np.zeros(site.dim ** L, complex)
        idx = np.asarray(secs[key])
        v[idx] = rng.standard_normal(len(idx)) + 1j * rng.standard_normal(len(idx))
        out.append(v / np.linalg.norm(v))
    return out


def mps_from_vector(chain, L, vec, form='B', norm=1.):
    import tenpy.linalg.np_conserved as npc
    from tenpy.networks.mps import MPS
    site = site_of(chain)
    arr = npc.Array.from_ndarray(vec.reshape([site.dim] * L), [site.leg] * L, labels=['p%d' % i for i in range(L)], cutoff=0., raise_wrong_sector=False)
    with warnings.catch_warnings():
        warnings.simplefilter('ignore')
        psi = MPS.from_full([site] * L, arr, form=None, normalize=True, unit_cell_width=L)
        if form == 'mixed':
            psi.convert_form(['A' if i % 2 else 'B' for i in range(L)])
        else:
            psi.convert_form(form)
    psi.norm = norm
    return psi


def product_state(chain, L, pattern):
    from tenpy.networks.mps import MPS
    site = site_of(chain)
    return MPS.from_product_state([site] * L, [pattern[i % len(pattern)] for i in range(L)], unit_cell_width=L)


def finite_states(chain, L, rng):
    """[(name, MPS)]: a product state and three random states (two charge sectors) in forms B / A / mixed, one with
    norm != 1."""
    site = site_of(chain)
    out = [('product', product_state(chain, L, [0, site.dim - 1]))]
    forms = [('B', 1.), ('A', 1.7), ('mixed', 1.)]
    for k, v in enumerate(sector_vectors(chain, L, rng, 3)):
        form, nrm = forms[k % len(forms)]
        out.append(('sector%d:%s' % (k, form), mps_from_vector(chain, L, v, form, nrm)))
    return out


def infinite_state(chain, L, rng, layers=2, chi_max=6):
    """Entangled infinite MPS (unit cell L >= 2) in canonical form: a product state evolved by seeded random
    charge-conserving two-site unitaries ``exp(i h)`` (h a hermitian combination of the chain's two-site couplings)."""
    import tenpy.linalg.np_conserved as npc
    from tenpy.networks.mps import MPS
    site = site_of(chain)
    sites = [site] * L
    psi = MPS.from_product_state(sites, [(0 if i % 2 else site.dim - 1) for i in range(L)], 'infinite', unit_cell_width=L)
    grp = groups(chain, 2)
    hd = sum((rng.uniform(0.5, 1.5) * D.terms_dense([site, site], [t for t, _ in mem], [1.] * len(mem), jw=True) for _, _, mem in grp), 0.)
    h = npc.Array.from_ndarray(hd.reshape([site.dim] * 4), [site.leg, site.leg, site.leg.conj(), site.leg.conj()], labels=['p0', 'p1', 'p0*', 'p1*'])
    h = h.combine_legs([['p0', 'p1'], ['p0*', 'p1*']], qconj=[+1, -1])
    with warnings.catch_warnings():
        warnings.simplefilter('ignore')
        for _layer, i in itertools.product(range(layers), range(L)):
            u = npc.expm(1.j * rng.uniform(0.3, 0.9) * h).split_legs()
            th = npc.tensordot(u, psi.get_theta(i, 2), axes=[['p0*', 'p1*'], ['p0', 'p1']])
            th = th.combine_legs([['vL', 'p0'], ['p1', 'vR']], new_axes=[0, 1], qconj=[+1, -1])
            psi.set_svd_theta(i, th, {'chi_max': chi_max, 'svd_min': 1e-8})
        psi.canonical_form()
    return psi
