"""C10 helpers: the reference Hamiltonian written from the doc-strings of the term generators, and the dense
evaluation (our own contraction / Kronecker products) of every representation tenpy offers.

All matrices are in the basis of the `lat.mps_sites()` (Kronecker order, first site = slowest index); for an
infinite MPS everything is evaluated on a window of MPS sites ``first <= i < first + n`` and contains exactly
the terms which fit completely into the window.
"""
import functools
import itertools

import numpy as np


# ------------------------------------------------------------------------------------ sites and lattices

def make_cell(kind):
    """Unit cell contents of the site kinds used in the grid."""
    from tenpy.networks import site as S
    if kind == 'S':
        return [S.SpinHalfSite('Sz')]
    if kind == 'S0':
        return [S.SpinHalfSite(None)]
    if kind == 'F':
        return [S.FermionSite('N')]
    if kind == 'B':
        return [S.BosonSite(Nmax=1, conserve='N')]
    if kind == 'FB':  # mixed unit cell, one common particle number
        return [S.FermionSite('N'), S.BosonSite(Nmax=1, conserve='N')]
    if kind == 'FS1':  # mixed unit cell with different dimensions, no charges
        return [S.FermionSite(None), S.SpinSite(1.0, None)]
    raise ValueError(kind)


N_U = dict(Chain=1, Square=1, Triangular=1, Ladder=2, Honeycomb=2)


def make_lattice(spec, kind):
    """spec: dict(name, Ls, bc_MPS, bc=[...], order, remove=None)."""
    from tenpy.models import lattice as L
    cell = make_cell(kind)
    nu = N_U[spec['name']]
    sites = cell[0] if nu == 1 else [cell[k % len(cell)] for k in range(nu)]
    lat = getattr(L, spec['name'])(*spec['Ls'], sites, bc=list(spec['bc']), bc_MPS=spec['bc_MPS'], order=spec['order'])
    if spec.get('remove'):
        lat = L.IrregularLattice(lat, remove=spec['remove'])
    return lat


def strength_value(s, shape=None):
    """JSON form of a strength -> number or array: float | [re, im] | {'arr': base} (distinct entries)."""
    if isinstance(s, dict):
        if shape is None or min(shape) <= 0:
            return s['arr']
        return s['arr'] * (1.0 + 0.25 * np.arange(int(np.prod(shape)))).reshape(shape)
    return complex(*s) if isinstance(s, list) else s


# ------------------------------------------------------------------------------------ reference model

class Ref:
    """Dense Hamiltonian defined by a sequence of generator calls, following only their doc-strings.

    Fermionic operators are represented by `op` on their site times the 'JW' operator on every site to the left
    (doc/intro/JordanWigner), so plain matrix products give all signs."""

    def __init__(self, lat, first=0, n=None):
        self.lat, self.N = lat, lat.N_sites
        self.finite = lat.bc_MPS == 'finite'
        self.first, self.n = first, (self.N if n is None else n)
        ms = lat.mps_sites()
        self.sites = [ms[i % self.N] for i in range(first, first + self.n)]
        self.dims = [s.dim for s in self.sites]
        self.D = int(np.prod(self.dims))
        self.index = {tuple(int(v) for v in row): i for i, row in enumerate(lat.order)}
        self.open = [bool(b) for b in lat.bc]
        self.cells = range(first // self.N - 2, (first + self.n) // self.N + 3) if not self.finite else [0]
        self.H = np.zeros((self.D, self.D), complex)
        self.max_range = 0  # of all non-zero terms of the model (also those not fitting into the window)
        self.name_range = 0  # the same including products of operators which vanish (as C C on one site)
        self.jw_between = False  # some term needs a JW string on a site on which it has no operator
        self.exp = self.explicit_string = False
        self._local = {}

    # ---- geometry
    def site_index(self, x, u):
        """MPS index of the site at the (unwrapped) lattice position `x`, or None if there is no such site."""
        x, cell = [int(v) for v in x], 0
        for a, La in enumerate(self.lat.Ls):
            if a == 0 and not self.finite:
                cell, x[0] = divmod(x[0], La)
            elif self.open[a]:
                if not 0 <= x[a] < La:
                    return None
            else:
                x[a] %= La
        i = self.index.get(tuple(x) + (int(u),))
        return None if i is None else i + cell * self.N

    def boxes(self, dxs):
        """Translates of a group of operators at relative positions dxs: (shape of strength, [(x, strength idx)])."""
        dxs = np.array(dxs, int).reshape(len(dxs), -1)
        lo, hi = dxs.min(0), dxs.max(0)
        Ls = self.lat.Ls
        shape = tuple(int(La - (hi[a] - lo[a]) * self.open[a]) for a, La in enumerate(Ls))
        if min(shape) <= 0:
            return shape, []
        ranges = [range(La) for La in Ls]
        if not self.finite:
            ranges[0] = range(min(self.cells) * Ls[0], (max(self.cells) + 1) * Ls[0])
        return shape, [(x, tuple((x[a] + lo[a]) % shape[a] for a in range(len(Ls)))) for x in itertools.product(*ranges)]

    # ---- operators on the window
    def local(self, k, name):
        if (k, name) not in self._local:
            self._local[k, name] = self.sites[k].get_op(name).to_ndarray()
        return self._local[k, name]

    def kron(self, mats):
        """Kronecker product of one matrix per window site (None = identity)."""
        return functools.reduce(np.kron, [np.eye(self.dims[k]) if m is None else m for k, m in enumerate(mats)])

    def inside(self, idx):
        return all(self.first <= i < self.first + self.n for i in idx)

    def product(self, strength, ops, plus_hc=False):
        """Add strength * OP_0 OP_1 ... (the first acts last; ops = [(name, MPS index)]) if all sites exist.

        A fermionic operator on site i stands for JW (x) ... (x) JW (x) op_i (x) 1 ...; the product of such
        Kronecker products is the Kronecker product of the products on each site, taken in the given order."""
        idx = [i for _, i in ops]
        if any(i is None for i in idx) or strength == 0:
            return
        ms = self.lat.mps_sites()
        lo, hi = min(idx), max(idx)
        fac = {}  # site -> product of the factors of all operators on that site
        for nm, i in ops:
            s = ms[i % self.N]
            for j in range(lo, i + 1) if s.op_needs_JW(nm) else [i]:
                m = ms[j % self.N].get_op(nm if j == i else 'JW').to_ndarray()
                fac[j] = m if j not in fac else fac[j] @ m
        self.name_range = max(self.name_range, hi - lo)
        if any(not np.any(m) for m in fac.values()):
            return  # (e.g. C C on one site: no term)
        self.max_range = max(self.max_range, hi - lo)
        parity = False
        for i in range(lo, hi):  # parity of the fermionic operators on sites <= i
            parity ^= bool(sum(ms[j % self.N].op_needs_JW(nm) for nm, j in ops if j == i) % 2)
            self.jw_between |= parity and (i + 1) not in idx
        if self.inside(idx):
            M = strength * self.kron([fac.get(self.first + k) for k in range(self.n)])
            self.H += M + M.conj().T if plus_hc else M

    def literal(self, strength, idx, ops, op_string, plus_hc=False):
        """Add strength * ops[0]_i (x) op_string[0] ... (x) ops[1]_j ... exactly as given (no JW handling)."""
        if isinstance(op_string, str):
            op_string = [op_string] * (len(idx) - 1)
        self.max_range = self.name_range = max(self.max_range, idx[-1] - idx[0])
        self.explicit_string |= any(s != 'Id' for s in op_string)
        for c in self.cells:
            sh = [i + c * self.N - self.first for i in idx]
            if all(0 <= k < self.n for k in sh):
                names = [None] * self.n
                for a, b, s in zip(sh, sh[1:], op_string):
                    names[a + 1:b] = [s] * (b - a - 1)
                for k, nm in zip(sh, ops):
                    names[k] = nm
                M = strength * self.kron([None if nm is None else self.local(k, nm) for k, nm in enumerate(names)])
                self.H += M + M.conj().T if plus_hc else M

    # ---- the generators
    def add(self, call):
        kind, s = call[0], call[1]
        lat, N = self.lat, self.N
        if kind == 'onsite':  # sum_x strength[x] OP(x, u)
            _, _, u, op, hc = call
            st = np.broadcast_to(strength_value(s, lat.Ls), lat.Ls)
            for i, row in enumerate(lat.order):
                if row[-1] == u:
                    for c in self.cells:
                        self.product(st[tuple(row[:-1])], [(op, i + c * N)], hc)
        elif kind in ('coupling', 'multi'):  # sum_x strength[shift(x)] OP_0(x + dx_0, u_0) OP_1(x + dx_1, u_1) ...
            if kind == 'coupling':
                _, _, u1, op1, u2, op2, dx, hc = call
                ops = [[op1, [0] * lat.dim, u1], [op2, dx, u2]]
            else:
                _, _, ops, hc = call[:4]
            shape, boxes = self.boxes([np.array(dx, int).reshape(lat.dim) for _, dx, _ in ops])
            st = np.broadcast_to(strength_value(s, shape), shape) if boxes else None
            for x, si in boxes:
                self.product(st[si], [(op, self.site_index(np.array(x) + np.array(dx, int).reshape(lat.dim), u)) for op, dx, u in ops], hc)
        elif kind == 'exp':  # strength sum_{i in S_start} sum_{j in S, j > i} lambda_i prod_{n in S, i < n < j} lambda_n A_i B_j
            _, _, lam, op_i, op_j, S, S_start, hc = call
            self.exp = True
            S = list(range(N)) if S is None else S
            S_start = S if S_start is None else S_start
            lam = [lam] * N if np.isscalar(lam) else lam
            hi = self.first + self.n
            for i in [a + c * N for c in self.cells for a in S_start]:
                pref = strength_value(s) * lam[i % N]
                for j in range(i + 1, hi if not self.finite else N):
                    if j % N in S:
                        self.product(pref, [(op_i, i), (op_j, j)], hc)
                        pref = pref * lam[j % N]
        elif kind == 'centered':  # strength sum_{j in S, j != i} Lambda_ij A_i B_j, finite systems
            _, _, lam, op_i, op_j, i, S, hc = call
            self.exp = True
            S = list(range(N)) if S is None else S
            lam = [lam] * N if np.isscalar(lam) else lam
            for j in S:
                if j != i:
                    fac = [lam[k] for k in S if (j < k <= i or i <= k < j)]
                    self.product(strength_value(s) * np.prod(fac), [(op_i, i), (op_j, j)], hc)
        elif kind == 'local':  # strength * product of the operators, lattice indices
            _, _, term, hc = call
            idx = [self.site_index(li[:-1], li[-1]) for _, li in term]
            for c in self.cells:
                self.product(strength_value(s), [(op, None if i is None else i + c * N) for (op, _), i in zip(term, idx)], hc)
        elif kind == 'onsite_term':
            _, _, i, op, hc = call
            self.literal(strength_value(s), [i], [op], [], hc)
        elif kind == 'coupling_term':
            _, _, i, j, op_i, op_j, op_string, hc = call
            self.literal(strength_value(s), [i, j], [op_i, op_j], op_string, hc)
        elif kind == 'multi_term':
            _, _, ijkl, ops, op_string, hc = call[:6]
            self.literal(strength_value(s), ijkl, ops, op_string, hc)
        else:
            raise ValueError(kind)

    def dense(self):
        return self.H


def apply_call(model, call):
    """The same call on a tenpy CouplingModel."""
    kind, s = call[0], call[1]
    lat = model.lat
    if kind == 'onsite':
        _, _, u, op, hc = call
        model.add_onsite(strength_value(s, lat.Ls), u, op, plus_hc=hc)
    elif kind == 'coupling':
        _, _, u1, op1, u2, op2, dx, hc = call
        model.add_coupling(strength_value(s, lat.coupling_shape(np.array(dx, int).reshape(lat.dim))[0]), u1, op1, u2, op2, dx, plus_hc=hc)
    elif kind == 'multi':
        _, _, ops, hc, switchLR = call
        shape = lat.multi_coupling_shape(np.array([dx for _, dx, _ in ops], int).reshape(len(ops), lat.dim))[0]
        model.add_multi_coupling(strength_value(s, shape), [(op, dx, u) for op, dx, u in ops], plus_hc=hc, switchLR=switchLR)
    elif kind == 'exp':
        _, _, lam, op_i, op_j, S, S_start, hc = call
        model.add_exponentially_decaying_coupling(strength_value(s), lam if np.isscalar(lam) else np.array(lam), op_i, op_j, S, S_start, plus_hc=hc)
    elif kind == 'centered':
        _, _, lam, op_i, op_j, i, S, hc = call
        model.add_exponentially_decaying_centered_terms(strength_value(s), lam if np.isscalar(lam) else np.array(lam), op_i, op_j, i, S, plus_hc=hc)
    elif kind == 'local':
        _, _, term, hc = call
        model.add_local_term(strength_value(s), [(op, li) for op, li in term], plus_hc=hc)
    elif kind == 'onsite_term':
        _, _, i, op, hc = call
        model.add_onsite_term(strength_value(s), i, op, plus_hc=hc)
    elif kind == 'coupling_term':
        _, _, i, j, op_i, op_j, op_string, hc = call
        model.add_coupling_term(strength_value(s), i, j, op_i, op_j, op_string, plus_hc=hc)
    elif kind == 'multi_term':
        _, _, ijkl, ops, op_string, hc, switchLR = call
        model.add_multi_coupling_term(strength_value(s), ijkl, ops, op_string, plus_hc=hc, switchLR=switchLR)
    else:
        raise ValueError(kind)


# ------------------------------------------------------------------------------------ dense representations

def place(mat, dims, i, k):
    """`mat` acting on the k sites i..i+k-1 of a chain with local dimensions dims."""
    return np.kron(np.kron(np.eye(int(np.prod(dims[:i]))), mat), np.eye(int(np.prod(dims[i + k:]))))


def termlist_dense(term_list, sites, first, n, finite):
    """Evaluate a TermList on the window.  The list does not store operator strings: between the operators of
    a term there is 'JW' exactly on those sites which have an odd number of fermionic (parity-odd) operators to
    their left."""
    N = len(sites)
    ws = [sites[i % N] for i in range(first, first + n)]
    H = np.zeros((int(np.prod([s.dim for s in ws])),) * 2, complex)
    cells = [0] if finite else range(first // N - 2, (first + n) // N + 3)
    ops = {}

    def op(k, name):
        if (k % N, name) not in ops:
            m, jw = sites[k % N].get_op(name).to_ndarray(), sites[k % N].get_op('JW').to_ndarray()
            ops[k % N, name] = m, bool(np.any(m) and np.allclose(jw @ m @ jw, -m))
        return ops[k % N, name]

    for term, strength in term_list:
        term = sorted(term, key=lambda t: t[1])
        for c in cells:
            idx = [i + c * N - first for _, i in term]
            if not all(0 <= k < n for k in idx):
                continue
            mats = [np.eye(s.dim) for s in ws]
            parity = False
            for (name, _), k, k_next in zip(term, idx, idx[1:] + [None]):
                mats[k], odd = op(k + first, name)
                parity ^= odd
                if parity and k_next is not None:
                    for j in range(k + 1, k_next):
                        mats[j] = op(j + first, 'JW')[0]
            H += strength * functools.reduce(np.kron, mats)
    return H


def mpo_dense(H, first=0, n=None):
    """Contract the W tensors of sites first..first+n-1 between IdL on the left and IdR on the right."""
    n = H.L if n is None else n
    T = None
    for i in range(first, first + n):
        W = H.get_W(i).transpose(['wL', 'wR', 'p', 'p*']).to_ndarray()
        if T is None:
            T = W[H.get_IdL(i)]
        else:
            T = np.tensordot(T, W, axes=(0, 0)).transpose(2, 0, 3, 1, 4).reshape(W.shape[1], T.shape[1] * W.shape[2], T.shape[2] * W.shape[3])
    T = T[H.get_IdR(first + n - 1)]
    return T + T.conj().T if H.explicit_plus_hc else T


def bonds_dense(H_bond, sites, first, n):
    """Sum of the bond terms H_bond[i] (acting on sites i-1, i) which act inside the window."""
    L = len(H_bond)
    dims = [sites[i % L].dim for i in range(first, first + n)]
    H = np.zeros((int(np.prod(dims)),) * 2, complex)
    for k in range(1, n):
        h = H_bond[(first + k) % L]
        if h is not None:
            m = h.transpose(['p0', 'p1', 'p0*', 'p1*']).to_ndarray()
            H += place(m.reshape(m.shape[0] * m.shape[1], -1), dims, k - 1, 2)
    return H


def boundary_residual(D, dL, dR):
    """(largest entry of D which is not of the form a (x) 1 + 1 (x) b, identity component of D), where a (b) acts
    on the first dL (last dR) dimensions.  For an infinite system H = sum_i H_bond[i] fixes the bond terms only up
    to moving single-site operators between neighbouring bonds; on a window this changes the sum of the inner
    bonds exactly by such operators on the first and on the last site."""
    dim = D.shape[0]
    T = D.reshape(dL, dim // dL, dL, dim // dL)
    a = np.einsum('ajbj->ab', T) / (dim // dL)
    T = D.reshape(dim // dR, dR, dim // dR, dR)
    b = np.einsum('jajb->ab', T) / (dim // dR)
    c = np.trace(D) / dim
    model = np.kron(a, np.eye(dim // dL)) + np.kron(np.eye(dim // dR), b) - c * np.eye(dim)
    return np.abs(D - model).max(), c


def pipe_perm(pipe):
    """Index in the LegPipe of every Kronecker basis state of its incoming legs."""
    return np.array([pipe.map_incoming_flat(t) for t in itertools.product(*[range(l.ind_len) for l in pipe.legs])])


def unfold(H, sites):
    """Matrix in the basis of (grouped) `sites` -> Kronecker basis of the constituent sites."""
    perms = [pipe_perm(s.leg) if hasattr(s, 'n_sites') else np.arange(s.dim) for s in sites]
    d = [len(p) for p in perms]
    return H.reshape(d + d)[np.ix_(*(perms * 2))].reshape(H.shape)


def sort_basis(H, sites, undo=False):
    """Kronecker basis as for conserve=None -> basis of the sites (sorted by charge), or back: documented is
    OP_conserved = OP_none[ix_(perm, perm)] for every site."""
    perms = [np.argsort(s.perm) if undo else s.perm for s in sites]
    d = [s.dim for s in sites]
    return H.reshape(d + d)[np.ix_(*(perms * 2))].reshape(H.shape)


def standard_basis(H, sites):
    """Basis of the (grouped, charge-sorted) sites -> Kronecker basis of the elementary sites as for conserve=None."""
    elementary = [t for s in sites for t in (s.sites if hasattr(s, 'n_sites') else [s])]
    return sort_basis(unfold(H, sites), elementary, undo=True)
