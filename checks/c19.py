"""C19 -- lattice geometry: index maps are bijections, couplings are enumerated exactly.

Bounded exhaustive grid: every lattice class x size x ordering x boundary condition x bc_MPS of the stated scope;
for each lattice all MPS indices / lattice coordinates (index maps, value reshaping), all (u1, u2, dx) with
|dx_a| <= L_a + 1 (two-site couplings), all 3-operator shapes in a 2x2 box (multi couplings), predefined pairs.
Oracle = `Ref`: a dict coordinate -> MPS index read off `order` plus brute-force loops over all sites, written
from the doc-strings of Lattice / possible_couplings / HelicalLattice / IrregularLattice (no numpy index tricks).
"""
import itertools
import math

import numpy as np

UNIT_TIMEOUT = 3000.0
NAMED = ['default', 'Cstyle', 'snake', 'snakeCstyle', 'Fstyle', 'snakeFstyle']
# class -> (dim, sites per unit cell, extra named orderings, tuple orderings)
STD1 = [['standard', [True], [0]]]
STD2 = [['standard', [True, False], [1, 0]], ['standard', [False, True], [0, 1]]]
CLASSES = {
    'Chain': (1, 1, ['folded'], STD1),
    'Ladder': (1, 2, ['folded'], [['standard', [True, False], [1, 0]], ['standard', [False, True], [0, 1]]]),
    'NLegLadder': (1, 3, ['folded'], [['standard', [True, True], [1, 0]]]),
    'Trivial': (1, 3, [], []),
    'Square': (2, 1, [], STD2),
    'Triangular': (2, 1, [], STD2),
    'Simple': (2, 1, [], STD2),  # SimpleLattice with a custom basis
    'Honeycomb': (2, 2, ['rings', 'snake_rings'], [['standard', [False, True, False], [0, 2, 1]], ['standard', [True, True, False], [1, 0, 2]],
                                                  ['grouped', [[1], [0]]], ['grouped', [[1, 0]]]]),
    'Kagome': (2, 3, ['rings'], [['standard', [False, True, True], [1, 2, 0]], ['grouped', [[2], [0, 1]]], ['grouped', [[0, 2], [1]], [1, 0, 2]]]),
}
SIMPLE = ('Chain', 'Square', 'Triangular', 'Simple')  # SimpleLattice: mps2lat_values drops the u axis
ORDINALS = ['nearest_neighbors', 'next_nearest_neighbors', 'next_next_nearest_neighbors', 'fourth_nearest_neighbors', 'fifth_nearest_neighbors']


# ---------------------------------------------------------------- enumeration of lattice specs

def orderings(cls, wrap, part, tier):
    """Every named ordering of the class, tuple forms and three custom permutations.

    The couplings depend on the order only through the index maps (checked for every order in part 'maps'):
    the quick tier uses a default, an x-non-monotonic and a custom order there."""
    kind = wrap['kind'] if wrap else None
    if kind == 'helical':  # documented: C-style up to a permutation inside the unit cell
        return ['Cstyle'] + [o for o in CLASSES[cls][3] if o[0] == 'grouped' and len(o) == 2 and len(o[1]) == 1]
    if part == 'multi' and tier == 'quick':
        return ['default'] + ([['perm', 1]] if kind is None else [])
    if part == 'multi' or (part == 'coup' and (tier == 'quick' or kind == 'irregular')):
        return ['default', ['perm', 1]] + (['Fstyle'] if kind is None or part == 'multi' else [])
    tuples = [] if kind == 'species' else CLASSES[cls][3]  # (its ordering() takes names only for a SimpleLattice)
    return NAMED + CLASSES[cls][2] + tuples + [['perm', k] for k in range(3)]


def boundary_conditions(dim, tier, part):
    """(bc, bc_MPS) combinations; infinite / segment MPS need a periodic x direction."""
    if dim == 1:
        bcs = ['open', 'periodic']
    else:
        shifts = [1, -1] if tier == 'quick' else [1, -1, 2]
        bcs = [[bx, by] for bx in ('open', 'periodic') for by in ['open', 'periodic'] + shifts]
        if part != 'maps':  # which pairs are neighbours across a shifted boundary next to an open one is not documented
            bcs = [b for b in bcs if not (b[0] == 'open' and isinstance(b[1], int))]
        bcs = [b[0] if b[0] == b[1] else b for b in bcs]  # the single-string form where possible
    out = []
    for bc in bcs:
        out.append((bc, 'finite'))
        if (bc if isinstance(bc, str) else bc[0]) == 'periodic':
            out += [(bc, 'infinite'), (bc, 'segment')]
    return out


def sizes(cls, tier):
    Lmax = 3 if tier == 'quick' else 4
    if cls == 'Trivial':
        return [[1]]
    return [list(Ls) for Ls in itertools.product(range(1, Lmax + 1), repeat=CLASSES[cls][0])]


def wraps(cls, Ls, tier, part):
    """Wrapper lattices built on top of the regular one: None, multi-species, irregular, helical."""
    Lu = CLASSES[cls][1]
    out = [None]
    if cls in ('Chain', 'Square', 'Honeycomb'):
        out.append(dict(kind='species', n=2))
    if cls in ('Chain', 'Ladder', 'Square', 'Honeycomb'):
        cells = list(itertools.product(*[range(L) for L in Ls]))
        coords = [list(c) + [u] for c in cells for u in range(Lu)]
        removable = coords if tier != 'quick' else [coords[0], coords[-1]] if part == 'maps' else [coords[0]]
        if len(coords) > 1:
            out += [dict(kind='irregular', remove=[c]) for c in removable]
        mid = list(cells[len(cells) // 2])
        # (where the added site goes in the MPS matters for the order only)
        out += [dict(kind='irregular', add=[mid + [Lu], pos]) for pos in ((None, -1, 0.5, len(coords)) if part == 'maps' else (None,))]
        if len(coords) > 2:
            out.append(dict(kind='irregular', remove=[coords[1]], add=[list(cells[-1]) + [Lu], None]))
    if cls in ('Square', 'Honeycomb', 'Kagome'):
        out += [dict(kind='helical', n=n) for n in range(1, Ls[0] * Ls[1] + 1) if (Ls[0] * Ls[1]) % n == 0]
        # the same helix reached through enlarge_mps_unit_cell(2) from the one with half as many cells
        out += [dict(kind='helical', n=n, enlarge=2) for n in range(2, Ls[0] * Ls[1] + 1, 2) if (Ls[0] * Ls[1]) % n == 0]
    # (appended last, so that the wrapper indices of the units above stay what they were)
    if cls in ('Kagome', 'Ladder'):
        out.append(dict(kind='species', n=2))  # number of species different from the size of the simple unit cell
    if cls in ('Chain', 'Honeycomb'):
        out.append(dict(kind='species', n=3))
    return out


def specs(cls, Ls, tier, part, wrap_index=None):
    for w, wrap in enumerate(wraps(cls, Ls, tier, part)):
        if wrap_index is not None and w != wrap_index:
            continue
        if wrap and wrap['kind'] == 'helical':
            bcs = [(['periodic', -1], 'infinite')]
        else:
            bcs = boundary_conditions(CLASSES[cls][0], tier, part)
        for order in orderings(cls, wrap, part, tier):
            for bc, bc_MPS in bcs:
                if tier == 'quick' and part != 'maps' and bc_MPS == 'segment' and (wrap or order != 'default'):
                    continue  # the lattice treats 'segment' like 'infinite'
                yield dict(cls=cls, Ls=Ls, order=order, bc=bc, bc_MPS=bc_MPS, wrap=wrap)


def permutation(k, N):
    """Three fixed custom orders (as permutations of the default one)."""
    if k == 0:
        return list(range(N))[::-1]
    if k == 1:
        a = next(a for a in range(2, N + 2) if math.gcd(a, N) == 1)
        return [(a * i + 1) % N for i in range(N)]
    return list(range(1, N, 2)) + list(range(0, N, 2))[::-1]


def build(spec):
    """The real lattice described by `spec` (all entries json-able)."""
    from tenpy.models import lattice as tl
    from tenpy.networks.site import SpinHalfSite
    cls, Ls, order, wrap = spec['cls'], spec['Ls'], spec['order'], spec['wrap']
    Lu = CLASSES[cls][1]
    kind = wrap['kind'] if wrap else None
    if kind == 'helical':  # needs real sites (it looks at the charge info)
        sites = [SpinHalfSite(conserve=None) for _ in range(Lu)]
    else:
        sites = ['s%d' % u for u in range(Lu)]
    kw = dict(bc=spec['bc'], bc_MPS=spec['bc_MPS'])
    post = None
    if isinstance(order, str):
        kw['order'] = order
    elif order[0] == 'perm':
        post = order[1]
    else:
        kw['order'] = tuple([order[0]] + [tuple(tuple(g) if isinstance(g, list) else g for g in o) for o in order[1:]])
    if kind == 'species' and 'order' in kw:
        species_order = kw.pop('order')  # MultiSpeciesLattice takes `order` through its own ordering()
    else:
        species_order = None
    if cls == 'Chain':
        lat = tl.Chain(Ls[0], sites[0], **kw)
    elif cls == 'Ladder':
        lat = tl.Ladder(Ls[0], sites, **kw)
    elif cls == 'NLegLadder':
        lat = tl.NLegLadder(Ls[0], 3, sites, **kw)
    elif cls == 'Trivial':
        lat = tl.TrivialLattice(sites, **kw)
    elif cls == 'Simple':
        lat = tl.SimpleLattice(Ls, sites[0], basis=[[1.0, 0.0], [0.3, 1.2]], positions=[0.1, 0.2], **kw)
    else:
        lat = getattr(tl, cls)(Ls[0], Ls[1], sites[0] if Lu == 1 else sites, **kw)
    if post is not None and kind != 'species':
        lat.order = lat.order[permutation(post, lat.N_sites)]
    if kind == 'species':
        lat = tl.MultiSpeciesLattice(lat, ['a', 'b', 'c'][:wrap['n']], ['A', 'B', 'C'][:wrap['n']])
        if species_order is not None:
            lat.order = lat.ordering(species_order)
        if post is not None:
            lat.order = lat.order[permutation(post, lat.N_sites)]
    elif kind == 'irregular':
        add = wrap.get('add')
        lat = tl.IrregularLattice(lat, remove=wrap.get('remove'), add=None if add is None else ([add[0]], [add[1]]),
                                  add_unit_cell=[] if add is None else ['extra'],
                                  add_positions=None if add is None else np.full((1, lat.basis.shape[1]), 0.25))
    elif kind == 'helical':
        f = wrap.get('enlarge', 1)
        lat = tl.HelicalLattice(lat, wrap['n'] // f)
        if f > 1:
            lat.enlarge_mps_unit_cell(f)
    return lat


# ---------------------------------------------------------------- reference model

class Ref:
    """Reference semantics of a lattice, from the doc-strings.

    `idx` maps a lattice coordinate (x_0, ..., u) inside one period to its MPS index, as read off `order`
    ("MPS index i corresponds to tuple(order[i])"); for non-finite MPS the site at x_0 + Ls[0] has index i + period.
    Boundary conditions: open = the coordinate must stay inside, periodic = modulo; an integer shift s along y means
    (x, y + Ly) is the site (x - s, y)  (for s = -1 the doc of HelicalLattice: (x, Ly-1) is neighboured by (x+1, 0))."""

    def __init__(self, spec, lat):
        cls, wrap = spec['cls'], spec['wrap']
        kind = wrap['kind'] if wrap else None
        self.kind = kind
        self.Ls = tuple(spec['Ls'])
        self.dim = len(self.Ls)
        self.Lu = CLASSES[cls][1] * (wrap['n'] if kind == 'species' else 1) + (1 if kind == 'irregular' and wrap.get('add') else 0)
        bc = spec['bc']
        bc = [bc] * self.dim if isinstance(bc, str) else bc
        self.open = [b == 'open' for b in bc]
        self.shift = [b if isinstance(b, int) else 0 for b in bc]
        self.inf = spec['bc_MPS'] != 'finite'
        cells = list(itertools.product(*[range(L) for L in self.Ls]))
        reg_Lu = self.Lu - (1 if kind == 'irregular' and wrap.get('add') else 0)
        sites = [c + (u,) for c in cells for u in range(reg_Lu)]
        self.errors = []
        order = [tuple(int(v) for v in row) for row in lat.order]
        if kind == 'irregular':
            reg = [tuple(int(v) for v in row) for row in lat.regular_lattice.order]
            keyed = [(i, 0, c) for i, c in enumerate(reg) if list(c) not in (wrap.get('remove') or [])]
            if wrap.get('add'):
                c, pos = wrap['add']
                if pos is None:  # documented: after the site (x..., -1) of the regular lattice
                    pos = reg.index(tuple(c[:-1]) + (reg_Lu - 1,))
                keyed.append((pos, 1, tuple(c)))
            full = [c for _, _, c in sorted(keyed)]
            if order != full:
                self.errors.append(('irregular:order', 'order %s, documented insertion/removal gives %s' % (order, full)))
        elif kind == 'helical':
            Lu = self.Lu  # the helix: cells in C-style order, the same order inside each unit cell
            full = [c + (u,) for c in cells for u in [r[-1] for r in order[:Lu]]]
            if order != full[:wrap['n'] * Lu]:
                self.errors.append(('helical:order', 'order %s is not the first %d cells of %s' % (order, wrap['n'], full)))
        else:
            full = order
            if sorted(order) != sorted(sites):
                self.errors.append(('order:not-a-permutation', 'order %s is not a permutation of all sites' % (order,)))
            if spec['order'] == 'Cstyle' and kind is None and order != sorted(sites):
                self.errors.append(('order:Cstyle', 'Cstyle order %s is not lexicographic' % (order,)))
            if spec['order'] == 'folded' and cls == 'Chain' and kind is None:
                L = self.Ls[0]
                fold = [x for i in range(L // 2) for x in (i, L - 1 - i)] + ([L // 2] if L % 2 else [])
                if [c[0] for c in order] != fold:
                    self.errors.append(('order:folded', 'folded order %s, documented %s' % (order, fold)))
        self.full = full
        self.period = len(full)
        self.N = len(order)
        self.idx = {c: i for i, c in enumerate(full)}
        self.sites = order

    # index maps
    def coord(self, i):
        k, r = divmod(i, self.period) if self.inf else (0, i)
        c = self.full[r]
        return (c[0] + k * self.Ls[0],) + c[1:]

    def index(self, c):
        k, r = divmod(c[0], self.Ls[0]) if self.inf else (0, c[0])
        i = self.idx.get((r,) + tuple(c[1:]))
        return None if i is None else i + k * self.period

    def wrap(self, t):
        """Cell reached when standing at the (possibly outside) cell `t`; None if beyond an open boundary.
        For non-finite MPS x_0 is left unwrapped."""
        t = list(t)
        for a in range(self.dim - 1, -1, -1):
            if a == 0 and self.inf:
                break
            k, r = divmod(t[a], self.Ls[a])
            if k and self.open[a]:
                return None
            t[a] = r
            if a > 0:
                t[0] -= k * self.shift[a]
        return tuple(t)

    def placements(self, dxs, anchor):
        """Coordinate level, independent of the order and of which sites exist: for every position x of the box
        the (wrapped) cells of all operators and the index `corner` = x + min(dxs) modulo the coupling shape.

        What `x` is: for add_coupling the cell of the site of OP0 (`anchor=0`); for add_multi_coupling the corner
        itself is a cell of the lattice (`anchor=None`).  Non-finite MPS: x_0 also runs over the neighbouring MPS
        unit cells, far enough to contain every box touching the unit cell."""
        key = (self.Ls, tuple(self.open), tuple(self.shift), self.inf, dxs, anchor)
        if key not in _PLACEMENTS:
            lo = [min(d[a] for d in dxs) for a in range(self.dim)]
            hi = [max(d[a] for d in dxs) for a in range(self.dim)]
            shape = tuple(L - (h - l) * int(o) for L, l, h, o in zip(self.Ls, lo, hi, self.open))
            origin = lo if anchor is None else dxs[anchor]
            xs = range(self.Ls[0])
            if self.inf:
                W = (hi[0] - lo[0]) + sum(abs(self.shift[a]) * ((hi[a] - lo[a]) // self.Ls[a] + 1) for a in range(1, self.dim))
                xs = range(-W, self.Ls[0] + W)
            res, dropped = [], False
            for cell in itertools.product(xs, *[range(L) for L in self.Ls[1:]]) if all(s > 0 for s in shape) else ():
                ts = [self.wrap([x + dk - d0 for x, dk, d0 in zip(cell, d, origin)]) for d in dxs]
                if None in ts:
                    dropped = True
                    continue
                res.append((ts, tuple((x - d0 + l) % s for x, d0, l, s in zip(cell, origin, lo, shape))))
            _PLACEMENTS[key] = shape, res, dropped
        return _PLACEMENTS[key]

    def couplings(self, us, dxs, anchor):
        """All couplings of operators on the sites (x + dxs[k], us[k]): sorted list of (mps indices, corner).

        One entry per position of the box such that all sites exist under the boundary conditions; for a
        non-finite MPS one representative per translation, 0 <= min(indices) < N_sites."""
        shape, places, dropped = self.placements(dxs, anchor)
        self.flags = flags = {'open-boundary-drop'} if dropped else set()
        out = []
        for ts, corner in places:
            inds = [self.index(t + (u,)) for t, u in zip(ts, us)]
            if None in inds:
                flags.add('missing-site-drop')
            elif not self.inf or 0 <= min(inds) < self.N:
                if max(inds) >= self.N:
                    flags.add('crosses-mps-unit-cell')
                out.append((tuple(inds), corner))
        return shape, sorted(out)


_PLACEMENTS = {}
_STRENGTHS = {}


class Ctx:
    def __init__(self, spec):
        self.spec = spec
        self.lat = build(spec)
        self.ref = Ref(spec, self.lat)


def spec_key(spec):
    """Stable class of a lattice spec for violation keys: wrapper, finite or not (class, size, ... are in `what`)."""
    return '%s:%s' % (spec['wrap']['kind'] if spec['wrap'] else 'plain', 'finite' if spec['bc_MPS'] == 'finite' else 'nonfinite')


# ---------------------------------------------------------------- checks (each returns a list of (key, what))

def check_maps(ctx):
    """Index maps: mutually inverse, periodic extension, fixed-u selections, sites."""
    lat, ref, bad, n = ctx.lat, ctx.ref, list(ctx.ref.errors), 0
    N = ref.N
    if lat.N_sites != N or tuple(lat.shape) != ref.Ls + (ref.Lu,):
        bad.append(('attributes', 'N_sites=%r shape=%r, expected %d, %r' % (lat.N_sites, lat.shape, N, ref.Ls + (ref.Lu,))))
    irange = range(-3 * ref.period, 4 * ref.period) if ref.inf else range(N)
    coords = [ref.coord(i) for i in irange]
    for i, c in zip(irange, coords):
        n += 2
        got = lat.mps2lat_idx(i)
        if tuple(int(v) for v in got) != c:
            bad.append(('mps2lat_idx', 'mps2lat_idx(%d)=%s, expected %s' % (i, got, c)))
        got = lat.lat2mps_idx(c)
        if int(got) != i:
            bad.append(('lat2mps_idx', 'lat2mps_idx(%s)=%s, expected %d' % (c, got, i)))
    n += 2
    got = lat.mps2lat_idx(np.array(irange))
    if got.shape != (len(irange), ref.dim + 1) or [tuple(r) for r in got.tolist()] != coords:
        bad.append(('mps2lat_idx:array', 'array argument differs from the scalar results'))
    got = lat.lat2mps_idx(np.array(coords).reshape(-1, 1, ref.dim + 1))
    if got.shape != (len(irange), 1) or got[:, 0].tolist() != list(irange):
        bad.append(('lat2mps_idx:array', 'array argument differs from the scalar results'))
    for u in range(ref.Lu):
        n += 2
        exp = [i for i, c in enumerate(ref.sites) if c[-1] == u]
        if list(lat.mps_idx_fix_u(u)) != exp:
            bad.append(('mps_idx_fix_u', 'mps_idx_fix_u(%d)=%s expected %s' % (u, lat.mps_idx_fix_u(u), exp)))
        mi, li = lat.mps_lat_idx_fix_u(u)
        if list(mi) != exp or [tuple(r) for r in np.asarray(li).tolist()] != [ref.sites[i][:-1] for i in exp]:
            bad.append(('mps_lat_idx_fix_u', 'mps_lat_idx_fix_u(%d) wrong' % u))
    n += 2
    if sorted(lat.mps_idx_fix_u(None)) != list(range(N)):
        bad.append(('mps_idx_fix_u:None', 'mps_idx_fix_u(None)=%s is not all sites' % (lat.mps_idx_fix_u(None),)))
    ms = lat.mps_sites()
    if len(ms) != N or any(ms[i] is not lat.unit_cell[c[-1]] or lat.site(i) is not ms[i] for i, c in enumerate(ref.sites)):
        bad.append(('mps_sites', 'mps_sites()/site(i) is not unit_cell[u] of the site at i'))
    return bad, n


def gather(arr, coords, shp):
    """The array B of shape `shp` with B[..., j, ...] = arr[..., *coords[axis][j], ...] (axes with coords None are kept)."""
    index = []
    for a, (c, d) in enumerate(zip(coords, shp)):
        cols = np.arange(d)[:, None] if c is None else np.asarray(c)
        index += [col.reshape([-1 if b == a else 1 for b in range(len(shp))]) for col in cols.T]
    return arr[tuple(index)]


def check_values(ctx, seed):
    """mps2lat_values for every axes / u option: the value of MPS site j sits at the coordinates of site j."""
    lat, ref, bad, n = ctx.lat, ctx.ref, [], 0
    rng = np.random.default_rng(seed)
    N = ref.N
    Nc = int(np.prod(ref.Ls))
    cases = [((N,), 0, None), ((N,), -1, None), ((2, N), 1, None), ((N, N), [0, 1], None), ((N, 2, N), [-1, 0], None), ((N, 3), [0], None)]
    for u in range(ref.Lu):
        if sum(1 for c in ref.sites if c[-1] == u) == Nc:  # documented: A.shape[axes] = N_cells
            cases += [((Nc,), 0, u), ((2, Nc), -1, u), ((Nc, Nc), [1, 0], u)]
    for shp, axes, u in cases:
        n += 1
        A = rng.permutation(int(np.prod(shp))).reshape(shp)
        drop_u = u is not None or (ctx.spec['cls'] in SIMPLE and ref.kind is None)  # SimpleLattice: u=None means u=0
        latshape = ref.Ls if drop_u else ref.Ls + (ref.Lu,)
        cs = [c[:len(latshape)] for c in ref.sites if u is None or c[-1] == u]
        axs = [a % A.ndim for a in ([axes] if isinstance(axes, int) else axes)]
        try:
            got = lat.mps2lat_values(A, axes, u)
        except NotImplementedError:
            if ref.kind is None:
                raise
            continue  # a wrapper may refer to mps2lat_values_masked (as HelicalLattice documents)
        except Exception as e:  # noqa: BLE001
            bad.append(('mps2lat_values:%s' % type(e).__name__, 'mps2lat_values(A%s, axes=%s, u=%s): %s: %s' % (shp, axes, u, type(e).__name__, e)))
            continue
        exp_shape = [x for a, d in enumerate(shp) for x in (latshape if a in axs else [d])]
        if list(got.shape) != exp_shape or not np.array_equal(gather(got, [cs if a in axs else None for a in range(A.ndim)], shp), A):
            bad.append(('mps2lat_values:misplaced', 'mps2lat_values(A%s, axes=%s, u=%s): shape %s (expected %s) or value not at the coordinates of its site' % (shp, axes, u, got.shape, exp_shape)))
    return bad, n


def check_values_masked(ctx, seed):
    """mps2lat_values_masked: arbitrary subsets of MPS indices (also outside the unit cell), include_u options."""
    lat, ref, bad, n = ctx.lat, ctx.ref, [], 0
    rng = np.random.default_rng(seed + 1)
    N = ref.N
    u0 = [j for j, c in enumerate(ref.sites) if c[-1] == ref.sites[0][-1]]
    subsets = [None, list(range(N))[::2], u0]
    if ref.inf:
        subsets += [list(range(-N - 1, 2 * N + 1)), [j + 2 * ref.period for j in u0], list(range(-2, 1))]
    xs = [c[0] for c in ref.sites]
    for inds, include_u, two in itertools.product(subsets, (None, True, False), (False, True)):
        js = list(range(N)) if inds is None else inds
        with_u = include_u if include_u is not None else ref.Lu > 1  # documented default
        if not with_u and len({ref.coord(j)[-1] for j in js}) > 1:
            continue  # without the u axis the coordinates of different u collide
        n += 1
        tag = '%s-unit-cell:%s' % ('inside' if all(0 <= j < N for j in js) else 'outside', 'x-ordered' if xs == sorted(xs) else 'x-unordered')
        arg = None if inds is None else np.array(inds)
        if two:
            A = rng.permutation(len(js) * 2 * len(js)).reshape(len(js), 2, len(js))
            call = dict(axes=[0, -1], mps_inds=[arg, arg], include_u=[include_u, include_u])
        else:
            A = rng.permutation(len(js))
            call = dict(axes=-1, mps_inds=arg, include_u=include_u)
        try:
            got = lat.mps2lat_values_masked(A, **call)
            cs = [ref.coord(j) if with_u else ref.coord(j)[:-1] for j in js]  # (negative x_0 index from the end)
            coords = [cs, None, cs] if two else [cs]
            ok = got.count() == A.size and np.array_equal(gather(got.data, coords, A.shape), A) and not gather(np.ma.getmaskarray(got), coords, A.shape).any()
            what = '%d unmasked entries for %d values, or a value not at the coordinates of its site' % (got.count(), A.size)
        except IndexError as e:
            ok, what = False, 'IndexError: %s' % e
        if not ok:
            bad.append(('mps2lat_values_masked:%s' % tag, 'mps2lat_values_masked(%s): %s' % (call, what)))
    return bad, n


def as_rows(*cols):
    return sorted(zip(*[[tuple(r) if isinstance(r, list) else r for r in np.asarray(c).tolist()] for c in cols]))


def strength_array(ref, shape, seed):
    """Distinct values with one zero (documented to be filtered out); uniform for the translation invariant helix."""
    key = (shape, seed, ref.kind == 'helical')
    if key not in _STRENGTHS:
        vals = np.random.default_rng(seed).permutation(int(np.prod(shape))).reshape(shape) * 0.5
        _STRENGTHS[key] = np.full(shape, 0.5 + seed) if ref.kind == 'helical' else vals
    return _STRENGTHS[key]


def check_coupling(ctx, u1, u2, dx, seed):
    """possible_couplings(u1, u2, dx) without and with strength against the brute force."""
    lat, ref = ctx.lat, ctx.ref
    dx = tuple(dx)
    shape, exp = ref.couplings((u1, u2), ((0,) * ref.dim, dx), 0)
    bad = []
    try:
        mi, mj, li, cs = lat.possible_couplings(u1, u2, np.array(dx))
        sh, shift = lat.coupling_shape(np.array(dx))
        got = as_rows(np.stack([mi, mj], axis=1).reshape(-1, 2), np.asarray(li, dtype=int).reshape(-1, ref.dim))
        if got != exp:
            miss = [e for e in exp if e not in got]
            extra = [g for g in got if g not in exp]
            what = 'missing' if miss and not extra else 'spurious' if extra and not miss else 'different'
            if sorted(g[0] for g in got) == sorted(e[0] for e in exp):
                what = 'lat_indices'
            elif len(got) != len(set(g[0] for g in got)) and set(g[0] for g in got) == set(e[0] for e in exp):
                what = 'doubled'
            bad.append(('possible_couplings:' + what, 'possible_couplings(%d, %d, %s) ((i, j), lat_indices): missing %s, not expected %s' % (u1, u2, dx, miss[:6], extra[:6])))
        if all(s >= 0 for s in shape) and (tuple(cs) != shape or tuple(sh) != shape or tuple(shift) != tuple(min(0, d) for d in dx)):
            bad.append(('coupling_shape', 'dx=%s: coupling_shape %s / %s shift %s, expected %s' % (dx, cs, sh, shift, shape)))
        if all(s > 0 for s in shape):
            strength = strength_array(ref, shape, seed)
            si, sj, sv = lat.possible_couplings(u1, u2, np.array(dx), strength)
            got = as_rows(np.stack([si, sj], axis=1).reshape(-1, 2), sv)
            exps = sorted((ij, float(strength[c])) for ij, c in exp if strength[c] != 0)
            if got != exps:
                bad.append(('possible_couplings:strength', 'possible_couplings(%d, %d, %s, strength): got %s expected %s' % (u1, u2, dx, got[:8], exps[:8])))
    except Exception as e:  # noqa: BLE001
        tag = 'dx-larger-than-open-lattice:' if any(x < 0 for x in shape) else ''
        bad.append(('possible_couplings:%s%s' % (tag, type(e).__name__), 'possible_couplings(%d, %d, %s): %s: %s' % (u1, u2, dx, type(e).__name__, e)))
    return bad, exp


def check_multi(ctx, us, dxs, seed):
    """possible_multi_couplings for operators at (dxs[k], us[k])."""
    lat, ref = ctx.lat, ctx.ref
    dxs = tuple(tuple(d) for d in dxs)
    shape, exp = ref.couplings(us, dxs, None)
    ops = [('op%d' % k, list(d), u) for k, (d, u) in enumerate(zip(dxs, us))]
    bad = []
    try:
        res = lat.possible_multi_couplings(ops)
        ijk, li, cs = res
        got = as_rows(np.asarray(ijk, dtype=int).reshape(-1, len(us)), np.asarray(li, dtype=int).reshape(-1, ref.dim))
        if got != exp:
            miss = [e for e in exp if e not in got]
            extra = [g for g in got if g not in exp]
            what = 'missing' if miss and not extra else 'spurious' if extra and not miss else 'different'
            if sorted(g[0] for g in got) == sorted(e[0] for e in exp):
                what = 'lat_indices'
            bad.append(('possible_multi_couplings:' + what, 'possible_multi_couplings(%s) (indices, lat_indices): missing %s, not expected %s' % (ops, miss[:6], extra[:6])))
        sh, shift = lat.multi_coupling_shape(np.array(dxs))
        if all(s >= 0 for s in shape) and (tuple(cs) != shape or tuple(sh) != shape or tuple(shift) != tuple(min(d[a] for d in dxs) for a in range(ref.dim))):
            bad.append(('multi_coupling_shape', 'dx=%s: shape %s / %s shift %s, expected %s' % (dxs, cs, sh, shift, shape)))
        if all(s > 0 for s in shape):
            strength = strength_array(ref, shape, seed)
            sijk, sv = lat.possible_multi_couplings(ops, strength)
            got = as_rows(np.asarray(sijk, dtype=int).reshape(-1, len(us)), sv)
            exps = sorted((ij, float(strength[c])) for ij, c in exp if strength[c] != 0)
            if got != exps:
                bad.append(('possible_multi_couplings:strength', 'possible_multi_couplings(%s, strength): got %s expected %s' % (ops, got[:8], exps[:8])))
    except Exception as e:  # noqa: BLE001
        tag = 'box-larger-than-open-lattice:' if any(x < 0 for x in shape) else ''
        bad.append(('possible_multi_couplings:%s%s' % (tag, type(e).__name__), 'possible_multi_couplings(%s): %s: %s' % (ops, type(e).__name__, e)))
    return bad, exp


def canon(u1, u2, dx):
    """A bond and its reverse are the same pair."""
    a, b = (u1, u2, tuple(int(d) for d in dx)), (u2, u1, tuple(-int(d) for d in dx))
    return min(a, b)


def check_pairs(ctx):
    """Predefined pairs = distance classes of position(); distance, find_coupling_pairs, count_neighbors."""
    lat, ref, bad, n = ctx.lat, ctx.ref, [], 0
    M = 4
    x0 = (7,) * ref.dim
    classes = {}
    for u1, u2 in itertools.product(range(ref.Lu), repeat=2):
        for dx in itertools.product(range(-M, M + 1), repeat=ref.dim):
            n += 1
            p1 = lat.position(np.array(x0 + (u1,)))
            p2 = lat.position(np.array(tuple(a + b for a, b in zip(x0, dx)) + (u2,)))
            ref_p1 = lat.unit_cell_positions[u1] + sum(x * lat.basis[a] for a, x in enumerate(x0))
            d = float(np.linalg.norm(p2 - p1))
            if not np.allclose(p1, ref_p1, atol=1e-12):
                bad.append(('position', 'position(%s) = %s, documented formula gives %s' % (x0 + (u1,), p1, ref_p1)))
            if abs(lat.distance(u1, u2, np.array(dx)) - d) > 1e-10:
                bad.append(('distance', 'distance(%d, %d, %s)=%r but positions are %r apart' % (u1, u2, dx, lat.distance(u1, u2, np.array(dx)), d)))
            if d > 1e-10:
                classes.setdefault(round(d, 8), []).append((u1, u2, dx))
    dists = sorted(classes)
    if ctx.spec['cls'] in ('NLegLadder', 'Trivial', 'Simple'):
        return bad, n  # their pairs are not named by distance
    for k, name in enumerate(ORDINALS):
        if ref.kind == 'species':  # all species of a site share its position: '<name>_all-all' is the distance class
            name += '_all-all'
        if name not in lat.pairs:
            continue
        n += 1
        got = [canon(*p) for p in lat.pairs[name]]
        exp = sorted(set(canon(*p) for p in classes[dists[k]]))
        if sorted(got) != exp:
            bad.append(('pairs:' + name, 'pairs[%r] = %s, the bonds at distance %g are %s' % (name, sorted(got), dists[k], exp)))
        for u in range(ref.Lu):
            n += 1
            cnt = sum(1 for p in classes[dists[k]] if p[0] == u)
            if lat.count_neighbors(u, name) != cnt:
                bad.append(('count_neighbors', 'count_neighbors(%d, %r)=%d, %d sites at distance %g' % (u, name, lat.count_neighbors(u, name), cnt, dists[k])))
    n += 1
    found = lat.find_coupling_pairs(max_dx=3, cutoff=1.9 * min(np.linalg.norm(lat.basis, axis=-1)))
    for k, (d, prs) in enumerate(sorted(found.items())):
        got = sorted(canon(*p) for p in prs)
        if abs(d - dists[k]) > 1e-8 or got != sorted(set(canon(*p) for p in classes[dists[k]])):
            bad.append(('find_coupling_pairs', 'class %d: distance %r pairs %s, brute force %r' % (k, d, got, dists[k])))
    return bad, n


def check_species_pairs(ctx):
    """MultiSpeciesLattice: documented pair names, u = simple_u * N_species + species, species next to each other."""
    lat, bad = ctx.lat, []
    simple, names, ns = lat.simple_lattice, lat.species_names, lat.N_species
    for c in itertools.product(*[range(-1, L + 1) for L in lat.Ls], range(len(lat.unit_cell))):
        pos, simple_pos = lat.position(np.array(c)), simple.position(np.array(c[:-1] + (c[-1] // ns,)))
        if not np.allclose(pos, simple_pos, atol=1e-12):  # documented: each site of the simple lattice is replaced by the species
            bad.append(('species:position', 'position(%s) = %s, the site %s of the simple lattice is at %s' % (c, pos, c[:-1] + (c[-1] // ns,), simple_pos)))
            break
    exp = {}
    for key, val in simple.pairs.items():
        for (a, na), (b, nb) in itertools.product(enumerate(names), repeat=2):
            exp['%s_%s-%s' % (key, na, nb)] = [canon(u1 * ns + a, u2 * ns + b, dx) for u1, u2, dx in val]
        exp[key + '_all-all'] = [c for na in names for nb in names for c in exp['%s_%s-%s' % (key, na, nb)]]
        exp[key + '_diag'] = [c for na in names for c in exp['%s_%s-%s' % (key, na, na)]]
    for (a, na), (b, nb) in itertools.combinations(enumerate(names), 2):
        exp['onsite_%s-%s' % (na, nb)] = [canon(u * ns + a, u * ns + b, (0,) * simple.dim) for u in range(len(simple.unit_cell))]
    got = {k: sorted(canon(*p) for p in v) for k, v in lat.pairs.items()}
    if got != {k: sorted(v) for k, v in exp.items()}:
        bad.append(('species:pairs', 'pairs of the MultiSpeciesLattice differ from the documented ones: %s' % sorted(set(got) ^ set(exp))))
    order = [tuple(r) for r in lat.order.tolist()]
    if isinstance(ctx.spec['order'], str):
        so = simple.ordering(ctx.spec['order']).tolist()
        if order != [tuple(r[:-1]) + (r[-1] * ns + s,) for r in so for s in range(ns)]:
            bad.append(('species:order', 'order is not the order of the simple lattice with the species next to each other'))
    return bad, len(exp) + 1


# ---------------------------------------------------------------- units

def all_dx(Ls, extra=1):
    return list(itertools.product(*[range(-L - extra, L + extra + 1) for L in Ls]))


def multi_shapes(dim, Lu, tier):
    """All ordered triples of operators in a 2x2 box (1D: displacements -1..1)."""
    ds = list(itertools.product((0, 1), repeat=dim)) if dim == 2 else [(-1,), (0,), (1,)]
    us = list(itertools.product(range(Lu), repeat=3))
    if Lu > 2 and (tier == 'quick' or Lu > 3):  # every pattern of equal / different u
        us = [u for u in us if set(u) <= {0, 1} or u in ((0, 1, 2), (2, 1, 0), (Lu - 1,) * 3)]
    return [(u, d) for d in itertools.product(ds, repeat=3) for u in us]


def units(tier, seed, label):
    us = []
    for cls in CLASSES:
        for Ls in sizes(cls, tier):
            for part in ('maps', 'coup', 'multi'):
                us += [(part, cls, Ls, tier, seed, w) for w in range(len(wraps(cls, Ls, tier, part)))]
    us.append(('pairs', tier, seed))
    return us


def _viol(viol, seen, part, spec, key, what, case):
    k = '%s:%s' % (key, spec_key(spec))
    if k not in seen and len(viol) < 20:
        seen.add(k)
        viol.append(dict(key=k, what='%s -- %s' % (what, spec), case=dict(case, part=part, spec=spec)))


def run_unit(unit):
    part = unit[0]
    viol, seen, outcomes, samples = [], set(), set(), []
    ev = nontriv = nlat = 0
    if part == 'pairs':
        _, tier, seed = unit
        for cls in CLASSES:
            Ls = [3] * CLASSES[cls][0] if cls != 'Trivial' else [1]
            for wrap in [w for w in wraps(cls, Ls, 'quick', 'maps') if w is None or w['kind'] == 'species']:
                spec = dict(cls=cls, Ls=Ls, order='default', bc='periodic', bc_MPS='finite', wrap=wrap)
                ctx = Ctx(spec)
                fns = [check_pairs] + ([check_species_pairs] if wrap and wrap['kind'] == 'species' else [])
                for fn in fns:
                    bad, n = fn(ctx)
                    ev += n
                    nontriv += n
                    for key, what in bad:
                        _viol(viol, seen, 'pairs', spec, key, what, {})
        return dict(evaluations=ev, nontrivial_count=nontriv, violations=viol, samples=[dict(part='pairs', classes=list(CLASSES))])
    cls, Ls, tier, seed = unit[1:5]
    dim = CLASSES[cls][0]
    for spec in specs(cls, Ls, tier, part, unit[5]):
        nlat += 1
        try:
            ctx = Ctx(spec)
        except Exception as e:  # noqa: BLE001
            _viol(viol, seen, part, spec, 'construct:%s' % type(e).__name__, 'constructing the lattice: %s: %s' % (type(e).__name__, e), {})
            continue
        ref = ctx.ref
        if part == 'maps':
            for fn, args in ((check_maps, ()), (check_values, (seed,)), (check_values_masked, (seed,))):
                try:
                    bad, n = fn(ctx, *args)
                except Exception as e:  # noqa: BLE001
                    bad, n = [('%s:%s' % (fn.__name__, type(e).__name__), '%s: %s' % (type(e).__name__, e))], 1
                ev += n
                for key, what in bad:
                    _viol(viol, seen, part, spec, key, what, dict(seed=seed))
            nontriv += 1
            outcomes.add('%s/%s' % (ref.kind or 'plain', spec['bc_MPS']))
            if not samples:
                samples.append(dict(part=part, spec=spec, N_sites=ref.N))
            continue
        if part == 'coup':
            cases = [((u1, u2), ((0,) * dim, dx)) for u1 in range(ref.Lu) for u2 in range(ref.Lu) for dx in all_dx(Ls, 1 if tier == 'quick' else 2)]
        else:
            cases = multi_shapes(dim, ref.Lu, tier)
        for us_, dxs in cases:
            ev += 1
            if part == 'coup':
                bad, exp = check_coupling(ctx, us_[0], us_[1], dxs[1], seed)
                case = dict(u1=us_[0], u2=us_[1], dx=list(dxs[1]), seed=seed)
            else:
                bad, exp = check_multi(ctx, us_, dxs, seed)
                case = dict(us=list(us_), dxs=[list(d) for d in dxs], seed=seed)
            if exp:
                nontriv += 1
                outcomes.update(ref.flags or {'plain'})
            else:
                outcomes.add('no-coupling')
            for key, what in bad:
                _viol(viol, seen, part, spec, key, what, case)
        if not samples:
            samples.append(dict(part=part, spec=spec, example=case, n_couplings=len(exp)))
    return dict(evaluations=ev, nontrivial_count=nontriv, violations=viol, samples=samples, outcomes=sorted(outcomes), extra={'lattices_' + part: nlat})


def selfcheck(tier, seed, label):
    unit = ('coup', 'Square', [2, 2], 'quick', seed, 0)
    return None if run_unit(unit) == run_unit(unit) else 'two runs of %r differ' % (unit,)


def replay(case):
    spec, part = case['spec'], case['part']
    seed = case.get('seed', 0)
    try:
        ctx = Ctx(spec)
    except Exception as e:  # noqa: BLE001
        bad = [('construct:%s' % type(e).__name__, 'constructing the lattice: %s: %s' % (type(e).__name__, e))]
    else:
        if part == 'pairs':
            bad = check_pairs(ctx)[0] + (check_species_pairs(ctx)[0] if ctx.ref.kind == 'species' else [])
        elif part == 'maps':
            bad = check_maps(ctx)[0] + check_values(ctx, seed)[0] + check_values_masked(ctx, seed)[0]
        elif part == 'coup':
            bad = check_coupling(ctx, case['u1'], case['u2'], case['dx'], seed)[0]
        else:
            bad = check_multi(ctx, tuple(case['us']), case['dxs'], seed)[0]
    return dict(evaluations=1, violations=[dict(key='%s:%s' % (k, spec_key(spec)), what=w, case=case) for k, w in bad])
