"""Dense reference side of C09: denotation of a real MPS as one numpy tensor and the shadow state.

The shadow `Shadow.T` has axes ``(vL, e_0, ..., e_{n-1}, vR)`` with one axis per *elementary* site (sites inside a
GroupedSite are separate axes); `blocks` records how consecutive elementary axes are grouped into MPS sites
(1 = plain site, tuple = GroupedSite, nested).  finite: vL, vR trivial; segment: outer Schmidt bases (including
`segment_boundaries`); infinite: the state is the periodic repetition ... T T T ... of the unit-cell tensor.
`T` is kept normalised (Frobenius norm 1, resp. dominant transfer-matrix eigenvalue 1) and `norm` separately.
All transformations are plain numpy: full operators from np.kron, index permutations with explicit fermionic
signs, linear combinations, QR-regauging for moving the unit cell of infinite states.
"""
import itertools
import warnings

import numpy as np


# ------------------------------------------------------------------------------------------------ real MPS -> dense

def _dense_B(B):
    """npc tensor with labels vL, p, vR -> ndarray (vL, e_0, .., e_k, vR), physical pipes of GroupedSites split."""
    from tenpy.linalg.charges import LegPipe
    B = B.transpose(['vL', 'p', 'vR'])
    B.iset_leg_labels([None] * B.rank)
    while True:
        pipes = [k for k, leg in enumerate(B.legs) if isinstance(leg, LegPipe)]
        if not pipes:
            return B.to_ndarray()
        B = B.split_legs(pipes)


def _dense_mat(M):
    M = M.transpose(['vL', 'vR'])
    return M.to_ndarray()


def psi_tensor(psi):
    """Dense tensor denoted by the MPS (without `psi.norm`): Th_0 B_1 ... B_{L-1} (B_0 ... for infinite)."""
    with warnings.catch_warnings():
        warnings.simplefilter('ignore')
        T = _dense_B(psi.get_B(0, 'B' if psi.bc == 'infinite' else 'Th'))
        for i in range(1, psi.L):
            T = np.tensordot(T, _dense_B(psi.get_B(i, 'B')), axes=(-1, 0))
        U, V = psi.segment_boundaries
        if U is not None:
            T = np.tensordot(_dense_mat(U), T, axes=(1, 0))
        if V is not None:
            T = np.tensordot(T, _dense_mat(V), axes=(-1, 0))
    return T


def site_blocks(sites):
    """(list of elementary sites, block structure) of a list of (possibly Grouped) sites."""
    elem, blocks = [], []
    for s in sites:
        if hasattr(s, 'n_sites'):
            e, b = site_blocks(s.sites)
            elem += e
            blocks.append(tuple(b))
        else:
            elem.append(s)
            blocks.append(1)
    return elem, blocks


def bsize(b):
    return 1 if b == 1 else sum(bsize(c) for c in b)


# ------------------------------------------------------------------------------------------------ infinite states

def _fixed_point(M, left, iters=400, tol=1e-13):
    """Dominant eigenvector of the transfer map of M[a, s, b] by power iteration from the identity (stays positive
    semi-definite; numerically stable also for large bond dimension).  Returns (eigenvalue, matrix, converged?)."""
    v = np.eye(M.shape[0] if left else M.shape[2], dtype=complex)
    v /= np.linalg.norm(v)
    Mc = M.conj()
    eta = 0.0
    for _ in range(iters):
        if left:     # w[b, d] = M[a, s, b] v[a, c] conj(M[c, s, d])
            w = np.tensordot(np.tensordot(v, M, axes=(0, 0)), Mc, axes=([0, 1], [0, 1]))
        else:        # w[a, c] = M[a, s, b] v[b, d] conj(M[c, s, d])
            w = np.tensordot(np.tensordot(M, v, axes=(2, 0)), Mc, axes=([1, 2], [1, 2]))
        eta = np.linalg.norm(w)
        if eta < 1e-200:
            return 0.0, v, False
        w /= eta
        diff = np.linalg.norm(w - v)
        v = w
        if diff < tol:
            return eta, v, True
    return eta, v, False


def imps_data(T, W):
    """(dominant transfer-matrix eigenvalue, converged?, reduced density matrix of the first W elementary sites)
    of the infinite state ...TTT...; l[a, c], r[b, d] are the fixed points for (ket, bra) indices."""
    chi = T.shape[0]
    dims = T.shape[1:-1]
    M = T.reshape(chi, -1, T.shape[-1])
    eta, r, ok_r = _fixed_point(M, False)
    _, l, ok_l = _fixed_point(M, True)
    n = len(dims)
    cells = -(-W // n)
    th = M
    for _ in range(cells - 1):
        th = np.tensordot(th, M, axes=(-1, 0)).reshape(chi, -1, chi)
    keep = int(np.prod((dims * cells)[:W]))
    th = th.reshape(chi, keep, -1, chi)
    ltr = np.tensordot(np.tensordot(l, th, axes=(0, 0)), r, axes=(3, 0))    # (c s x d) = l[a,c] th[a,s,x,b] r[b,d]
    rho = np.einsum('csxd,ctxd->st', ltr, th.conj())
    tr = np.trace(rho)
    return eta, ok_r and ok_l and abs(tr) > 1e-200, rho / (tr if abs(tr) > 1e-200 else 1.0)


def trim_cell(T):
    """Restrict the virtual space of the unit-cell tensor to the support of the dominant right and left fixed points
    (drops transient / sub-dominant blocks, which do not contribute to the infinite state)."""
    for left in (False, True):
        chi = T.shape[0]
        _, v, ok = _fixed_point(T.reshape(chi, -1, chi), left)
        if not ok:
            return T
        w, Q = np.linalg.eigh((v.T if left else v) / np.trace(v))
        keep = w > 1e-9
        if not keep.all():
            Q = Q[:, keep]
            T = np.tensordot(Q.conj().T, np.tensordot(T, Q, axes=(-1, 0)), axes=(1, 0))
    return T


def roll_cell(T, k):
    """Unit-cell tensor of the same infinite state with the cell moved: new cell = last k elementary axes + rest."""
    n = T.ndim - 2
    k %= n
    if k == 0:
        return T
    chiL, chiR = T.shape[0], T.shape[-1]
    dims = T.shape[1:-1]
    D1 = int(np.prod(dims[:n - k]))
    u, s, vh = np.linalg.svd(T.reshape(chiL * D1, -1), full_matrices=False)
    keep = s > 1e-10 * s[0]      # (balanced split: keeps the transfer matrix of the new cell well conditioned)
    keep[0] = True
    X = (u[:, keep] * np.sqrt(s[keep])).reshape((chiL,) + dims[:n - k] + (-1,))
    Y = (vh[keep] * np.sqrt(s[keep])[:, None]).reshape((-1,) + dims[n - k:] + (chiR,))
    return np.tensordot(Y, X, axes=(-1, 0))


# ------------------------------------------------------------------------------------------------ operators

def kron_all(mats):
    out = np.eye(1)
    for m in mats:
        out = np.kron(out, m)
    return out


def jw_diag(site):
    return np.real(np.exp(1j * np.pi * np.asarray(site.JW_exponent, dtype=float)))


def embed(elem, ops, jw_upto=None):
    """Full operator on the elementary chain: ops = {position: matrix}; JW string on positions < jw_upto."""
    mats = []
    for k, s in enumerate(elem):
        m = ops.get(k)
        if m is None:
            m = np.eye(s.dim)
        if jw_upto is not None and k < jw_upto:
            m = m @ np.diag(jw_diag(s)) if k in ops else np.diag(jw_diag(s))
        mats.append(m)
    return kron_all(mats)


def term_operator(elem, term, autoJW):
    """Dense operator of a term [(opname, position), ...] (first entry left-most), fermionic operators carrying
    their Jordan-Wigner string on all positions to the left.  Returns (matrix, number of JW operators)."""
    D = int(np.prod([s.dim for s in elem]))
    O = np.eye(D, dtype=complex)
    njw = 0
    for name, pos in term:
        s = elem[pos]
        need = autoJW and s.op_needs_JW(name)
        njw += bool(need)
        O = O @ embed(elem, {pos: s.get_op(name).to_ndarray()}, jw_upto=pos if need else None)
    return O, njw


def apply_full(T, O):
    """Apply a full operator on all physical axes of T."""
    shp = T.shape
    M = T.reshape(shp[0], -1, shp[-1])
    return np.einsum('st,atb->asb', O, M).reshape(shp)


def block_parity(elem, blocks, j, ndim):
    """Array broadcastable against T: total JW exponent of MPS site (block) j for every basis state."""
    start = 1 + sum(bsize(b) for b in blocks[:j])
    tot = 0
    for ax in range(start, start + bsize(blocks[j])):
        shp = [1] * ndim
        shp[ax] = elem[ax - 1].dim
        tot = tot + np.asarray(elem[ax - 1].JW_exponent, dtype=float).reshape(shp)
    return tot


def permute_blocks(T, elem, blocks, order, signs='auto'):
    """New MPS site j = old MPS site order[j]; fermionic sign (-1)^(n_a n_b) for every pair of sites whose
    relative order is inverted ('auto'); additionally (-i)^(n_a + n_b) per inverted pair for 'autoInv'."""
    L = len(blocks)
    T = T.astype(complex)
    if signs in ('auto', 'autoInv'):
        pos = {old: new for new, old in enumerate(order)}
        for a, b in itertools.combinations(range(L), 2):
            if pos[a] > pos[b]:
                na, nb = block_parity(elem, blocks, a, T.ndim), block_parity(elem, blocks, b, T.ndim)
                if not np.any(na * nb):
                    continue  # documented: at least one of the two is not fermionic -> plain transposition
                T = T * (1.0 - 2.0 * (np.mod(na, 2) * np.mod(nb, 2)))
                if signs == 'autoInv':
                    T = T * (-1j) ** na * (-1j) ** nb
    starts = np.cumsum([1] + [bsize(b) for b in blocks])
    axes = [0]
    new_elem = []
    for old in order:
        rng = list(range(starts[old], starts[old + 1]))
        axes += rng
        new_elem += [elem[a - 1] for a in rng]
    axes.append(T.ndim - 1)
    return np.transpose(T, axes), new_elem, [blocks[o] for o in order]


# ------------------------------------------------------------------------------------------------ shadow

class Shadow:
    def __init__(self, bc, T, elem, blocks, norm):
        self.bc = bc
        self.T = T
        self.elem = list(elem)
        self.blocks = list(blocks)
        self.norm = norm
        self.zeroS = False       # singular values that are exactly zero may be stored (after enlarge_chi)
        self.parent = None       # for extracted segments: (parent psi, first, last)
        self.canon = True        # canonical form holds (no truncation since the last canonical_form)
        self._cache = None

    def copy(self):
        c = Shadow(self.bc, self.T, self.elem, self.blocks, self.norm)
        c.zeroS, c.parent, c.canon = self.zeroS, self.parent, self.canon
        return c

    @property
    def n(self):
        return len(self.elem)

    @property
    def L(self):
        return len(self.blocks)

    @property
    def plain(self):
        return all(b == 1 for b in self.blocks)

    def window(self, n=None):
        """Number of elementary sites of the window on which infinite states are compared (dimension <= 520)."""
        dims = [e.dim for e in self.elem] * 3
        n = self.n if n is None else n
        W = 1
        while W < 2 * n + 1 and int(np.prod(dims[:W + 1])) <= 520:
            W += 1
        return W

    def normalize(self, keep_norm=False):
        """Rescale T to unit norm; multiply the factor into `norm` unless keep_norm."""
        if self.bc == 'infinite':
            self.T = trim_cell(self.T)
            f = np.sqrt(abs(imps_data(self.T, 1)[0]))
        else:
            f = np.linalg.norm(self.T)
        self.T = self.T / f
        if not keep_norm:
            self.norm = self.norm * f
        self._cache = None
        return f

    def rho(self):
        if self._cache is None:
            self._cache = imps_data(self.T, self.window())
        return self._cache
