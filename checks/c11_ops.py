"""C11 per-case checks: every function takes a json-able case and returns a list of (key, what) violations."""
import functools
import itertools
import warnings

import numpy as np
import scipy.linalg

from . import c11_dense as D
from . import c11_univ as U

close = D.close


def fro2(a):
    return float(np.sum(np.abs(a) ** 2))


def decided(dist2, norm2, eps):
    """Documented rule of is_equal: ``dist < eps * (|A|^2 + |B|^2)``; None when too close to the threshold."""
    if norm2 == 0:
        return None
    rel = dist2 / norm2
    return True if rel < eps / 50 else False if rel > eps * 50 else None


class Rec(list):
    def __call__(self, key, what):
        self.append((key, what))

    def guard(self, key, fct, *args, **kwargs):
        """Run a library call inside its documented domain: an exception is a violation."""
        try:
            with warnings.catch_warnings():
                warnings.simplefilter('ignore')
                return fct(*args, **kwargs)
        except Exception as e:  # noqa: BLE001
            self('%s:exception:%s' % (key, type(e).__name__), '%s raised %s: %s' % (key, type(e).__name__, e))
            return None

    def ok(self, key, fct, *args, **kwargs):
        """The same for calls without return value (in-place operations): True if no exception was raised."""
        n = len(self)
        self.guard(key, fct, *args, **kwargs)
        return len(self) == n


def start_lists(L):
    subsets = [c for k in range(1, L + 1) for c in itertools.combinations(range(L), k)]
    if L <= 3:
        return [list(p) for c in subsets for p in itertools.permutations(c)]
    return [list(p) for c in subsets if len(c) <= 2 for p in itertools.permutations(c)] + [list(range(L)), list(range(L))[::-1]]


def basis_strings(basis, nmax):
    non_id = [b for b in basis if b != 'Id']
    for n in range(1, nmax + 1):
        for mid in itertools.product(basis, repeat=max(n - 2, 0)):
            for ends in itertools.product(non_id, repeat=min(n, 2)):
                yield [ends[0]] + list(mid) + list(ends[1:])


def termlist_dense(sites, tl, jw=False):
    return D.terms_dense(sites, tl.terms, tl.strength, jw=jw)


def second_order(rec, key, H, dense, t0, approxs=('I', 'II')):
    """``make_U(t) = expm(t H) + O(t^2)``: the error at t0 is >= 3 times the error at t0/2 (unless both vanish).
    Returns the errors at t0 per approximation."""
    res = {}
    for approx in approxs:
        errs = []
        for t, fct, args in ((t0, H.make_U, (approx,)), (t0 / 2, getattr(H, 'make_U_' + approx), ())):
            UU = rec.guard(key % approx, fct, t, *args)
            errs.append(np.nan if UU is None else float(np.abs(D.mpo_dense(UU) - scipy.linalg.expm(t * dense)).max()))
        if UU is not None and (not np.isfinite(errs).all() or (errs[1] > 1e-11 and errs[0] / errs[1] < 3.0)):
            rec(key % approx + ':order', 'error %.3g at t=%r and %.3g at t/2: not second order in t' % (errs[0], t0, errs[1]))
        res[approx] = errs[0]
    return res


# ------------------------------------------------------------------------------------------------ finite battery

def check_ops(case):
    """All unary operations on one finite MPO given by a term specification."""
    from tenpy.algorithms.exact_diag import ExactDiag
    from tenpy.networks.mpo import MPOEnvironment
    spec, rng = case['spec'], np.random.default_rng(case['seed'])
    rec = Rec()
    chain, L = spec['chain'], spec['L']
    site = U.site_of(chain)
    sites = [site] * L
    basis = U.CHAINS[chain][2]
    ref = U.spec_dense(spec)
    H = rec.guard('build', U.build, spec)
    if H is None:
        return rec
    Hd = D.mpo_dense(H)
    if not close(Hd, ref):
        return rec + [('denote:from_term_list', 'dense MPO differs from the Kronecker sum of its terms by %.3g' % np.abs(Hd - ref).max())]
    hc, all_id = bool(spec.get('plus_hc')), spec.get('all_id', True)
    if H.max_range is None or H.max_range < U.spec_range(spec):
        rec('max_range:too-small', 'max_range=%r but a term has range %d' % (H.max_range, U.spec_range(spec)))
    if not hc:
        ed = rec.guard('ExactDiag.from_H_mpo', ExactDiag.from_H_mpo, H)
        if ed is not None and rec.ok('ExactDiag.build_full_H_from_mpo', ed.build_full_H_from_mpo):
            full = ed.full_H.split_legs().to_ndarray().reshape(Hd.shape)
            if not close(full, Hd):
                rec('denote:ExactDiag', 'ExactDiag.build_full_H_from_mpo differs from the own contraction')
    # --- expectation values, variance, environments with bra != ket
    states = U.finite_states(chain, L, rng)
    vecs = [D.mps_dense(psi, with_norm=False) for _, psi in states]
    for (name, psi), v in zip(states, vecs):
        e = rec.guard('expectation_value', H.expectation_value, psi)
        e_ref = np.vdot(v, Hd @ v)
        if e is not None and not close(e, e_ref):
            rec('expectation_value:finite:%s' % name.split(':')[0], '%s: got %r, dense %r' % (name, e, e_ref))
        if not hc:
            var = rec.guard('variance', H.variance, psi)
            var_ref = np.vdot(v, Hd @ (Hd @ v)) - e_ref ** 2
            if var is not None and not close(var, var_ref, 1e-9):
                rec('variance:%s' % name.split(':')[0], '%s: got %r, dense %r' % (name, var, var_ref))
    if not hc:
        for (a, b) in [(1, 2), (2, 1), (0, 1)]:
            if max(a, b) < len(states):
                env = rec.guard('MPOEnvironment', MPOEnvironment, states[a][1], H, states[b][1])
                for i0 in range(L if env is not None else 0):
                    val = rec.guard('full_contraction', env.full_contraction, i0)
                    if val is not None and not close(val, np.vdot(vecs[a], Hd @ vecs[b])):
                        rec('MPOEnvironment:bra!=ket:full_contraction', 'bra=%s ket=%s i0=%d: got %r, dense %r' % (states[a][0], states[b][0], i0, val, np.vdot(vecs[a], Hd @ vecs[b])))
    # --- dagger, is_hermitian
    Hdag = rec.guard('dagger', H.dagger)
    if Hdag is not None:
        if rec.ok('dagger:test_sanity', Hdag.test_sanity) and not close(D.mpo_dense(Hdag), Hd.conj().T):
            rec('dagger:dense', 'dagger() is not the conjugate transpose')
        if not hc and not close(D.mpo_dense(Hdag.dagger()), Hd):
            rec('dagger:involution', 'dagger().dagger() differs from the operator')
        e = rec.guard('dagger:expectation_value', Hdag.expectation_value, states[-1][1])
        if e is not None and not close(e, np.conj(np.vdot(vecs[-1], Hd @ vecs[-1]))):
            rec('dagger:expectation_value', 'expectation value in dagger() is not the complex conjugate')
    for eps in (1e-10, 1e-4):
        truth = decided(fro2(Hd - Hd.conj().T), 2 * fro2(Hd), eps)
        got = rec.guard('is_hermitian', H.is_hermitian, eps)
        if truth is not None and got is not None and bool(got) != truth:
            rec('is_hermitian:false-%s' % ('negative' if truth else 'positive'), 'is_hermitian(eps=%g)=%s, dense |H-H^+|^2/(2|H|^2)=%.3g' % (eps, got, fro2(Hd - Hd.conj().T) / (2 * fro2(Hd))))
    # --- term lists
    if basis is not None and not hc:
        rec += _check_termlist(H, Hd, spec, sites, basis)
    # --- plus_identity
    if all_id and not hc:
        ranges = [list(range(a, b + 1)) for a in range(L) for b in range(a, L)] + [[1, 0]]
        coefs = [(0.3, -2.0), (1.0, 0.5), (1.5j, 1.0 - 0.5j), (0., 2.)]  # every range with one pair, sites=[0] with all
        for (alpha, beta), sel in [(coefs[k % 4], sel) for k, sel in enumerate(ranges)] + [(c, [0]) for c in coefs[1:]]:
            P = rec.guard('plus_identity', H.plus_identity, alpha, beta, sel)
            if P is not None and not close(D.mpo_dense(P), alpha * np.eye(len(Hd)) + beta * Hd):
                rec('plus_identity:dense:N=%d' % len(sel), 'plus_identity(%r, %r, sites=%r) is not alpha + beta H' % (alpha, beta, sel))
    # --- in-place transformations on fresh copies
    Hs = U.build(spec)
    if rec.ok('sort_legcharges', Hs.sort_legcharges):
        if rec.ok('sort_legcharges:test_sanity', Hs.test_sanity) and not close(D.mpo_dense(Hs), Hd):
            rec('sort_legcharges:dense', 'operator (read between IdL and IdR) changed by sort_legcharges')
        if not all(Hs.get_W(i).get_leg('wL').is_sorted() for i in range(L)):
            rec('sort_legcharges:not-sorted', 'a virtual leg is not sorted afterwards')
        e = rec.guard('sort_legcharges:expectation_value', Hs.expectation_value, states[-1][1])
        if e is not None and not close(e, np.vdot(vecs[-1], Hd @ vecs[-1])):
            rec('sort_legcharges:expectation_value', 'expectation value changed by sort_legcharges')
    for n in sorted({2, 3, L} - {1}):
        if n <= L:
            Hg = U.build(spec)
            if rec.ok('group_sites', Hg.group_sites, n) and rec.ok('group_sites:test_sanity', Hg.test_sanity):
                perm = D.group_perm(Hg.sites)
                if not close(D.mpo_dense(Hg)[np.ix_(perm, perm)], Hd):
                    rec('group_sites:dense:n=%d' % n, 'operator changed by group_sites(%d)' % n)
                if Hg.max_range is None or Hg.max_range * n < U.spec_range(spec):
                    rec('group_sites:max_range', 'max_range=%r after group_sites(%d), a term has range %d' % (Hg.max_range, n, U.spec_range(spec)))
    # --- propagators
    if all_id and not hc:
        for t0 in (0.05, 0.05j, 0.03 + 0.04j):
            errs = second_order(rec, 'make_U_%s', H, Hd, t0)
            if all(len(t) == 1 for t in spec['terms']) and not errs['II'] <= 1e-12:
                rec('make_U_II:onsite-not-exact', 'U_II of a sum of onsite terms has error %.3g' % errs['II'])
    return rec


def _check_termlist(H, Hd, spec, sites, basis):
    from tenpy.networks.mpo import MPOGraph
    rec = Rec()
    chain, L = spec['chain'], spec['L']
    fermi = chain == 'F:N'
    kw = dict(ignore=[]) if fermi else {}
    tl = rec.guard('to_TermList', H.to_TermList, basis, **kw)
    if tl is None:
        return rec
    if not close(termlist_dense(sites, tl), Hd):
        rec('to_TermList:dense', 'sum of the returned terms (literal Kronecker products) differs from the operator')
    if not fermi:  # (for fermions the default `ignore` drops the strings: the documented pitfall, not checked)
        with warnings.catch_warnings():
            warnings.simplefilter('ignore')
            H2 = rec.guard('from_term_list:roundtrip', lambda: MPOGraph.from_term_list(tl, sites, 'finite', unit_cell_width=L).build_MPO())
        if H2 is not None and not close(D.mpo_dense(H2), Hd):
            rec('from_term_list:roundtrip', 'from_term_list(to_TermList(H)) differs from H')
    by_start = {}
    for t, c in zip(spec['terms'], U.spec_coefs(spec)):
        i = min(j for _, j in t)
        by_start[i] = by_start.get(i, 0.) + c * D.term_dense(sites, t, jw=True)
    for st in start_lists(L):
        tls = rec.guard('to_TermList:start', H.to_TermList, basis, start=list(st), **kw)
        expect = sum((by_start.get(i, 0.) for i in st), np.zeros_like(Hd))
        if tls is not None and not close(termlist_dense(sites, tls), expect):
            rec('to_TermList:start:%s' % ('ascending' if st == sorted(st) else 'not-ascending:terms-lost'),
                'to_TermList(start=%r) is not the sum of the terms with left-most site in start' % (st,))
    names = {op for t in spec['terms'] for op, _ in t}
    if names <= set(basis) - {'Id'}:
        for i in range(L):
            for ops in basis_strings(basis, min(3, L - i)):
                S = D.term_dense(sites, [(op, i + k) for k, op in enumerate(ops)])
                pre = rec.guard('prefactor', H.prefactor, i, ops)
                expect = np.vdot(S, Hd) / np.vdot(S, S)
                if pre is not None and not close(pre, expect):
                    rec('prefactor:%s' % ('present' if abs(expect) > 1e-12 else 'absent'), 'prefactor(%d, %r)=%r, dense tr(S^+ H)/tr(S^+ S)=%r' % (i, ops, pre, expect))
    return rec


# ------------------------------------------------------------------------------------------------ pairs

def _window(spec, H):
    """Number of sites on which the operators of (in)finite specifications are compared: the documented default
    window of is_equal / overlap for infinite MPOs (an unknown or infinite range counts as L)."""
    if spec['bc'] == 'finite':
        return spec['L']
    return spec['L'] + 2 * (spec['L'] if H.max_range is None or H.max_range == np.inf else H.max_range)


def check_pair(case):
    """Sum, overlap, distance and equality test of two MPOs on the same chain."""
    s1, s2 = case['spec1'], case['spec2']
    rec = Rec()
    H1, H2 = rec.guard('build', U.build, s1), rec.guard('build', U.build, s2)
    if H1 is None or H2 is None:
        return rec
    fin, default = s1['bc'] == 'finite', bool(case.get('default_window'))
    n = max(_window(s1, H1), _window(s2, H2))
    d1, d2 = U.spec_dense(s1, n), U.spec_dense(s2, n)
    dense = (lambda H: D.mpo_window_dense(H, 0, n))
    # --- sum
    same_flag = bool(s1.get('plus_hc')) == bool(s2.get('plus_hc'))  # (documented requirement of the sum)
    sums = {}
    for name, ref in (('H1+H2', d1 + d2), ('H2+H1', d1 + d2), ('(H1+H2)+H1', 2 * d1 + d2))[:2 if default else 3] if same_flag else ():
        S = rec.guard('add', {'H1+H2': lambda: H1 + H2, 'H2+H1': lambda: H2 + H1, '(H1+H2)+H1': lambda: (H1 + H2) + H1}[name])
        if S is None or not rec.ok('add:test_sanity', S.test_sanity):
            continue
        if not close(dense(S), ref):
            rec('add:dense:%s' % ('nested' if name.startswith('(') else 'all_id=%s+%s' % (s1.get('all_id', True), s2.get('all_id', True))),
                '%s differs from the sum of the dense operators by %.3g' % (name, np.abs(dense(S) - ref).max()))
        known = 'max_range' not in s1 and 'max_range' not in s2
        if (S.max_range is None and known) or (S.max_range is not None and S.max_range < max(U.spec_range(s1), U.spec_range(s2))):
            rec('add:max_range', 'max_range of %s is %r (operands: %r, %r), a term has range %d' % (name, S.max_range, H1.max_range, H2.max_range, max(U.spec_range(s1), U.spec_range(s2))))
        elif name != '(H1+H2)+H1':
            sums[name] = S
        if name == 'H1+H2':  # the sum (with IdR = -1) as input of further operations
            Sd = None if default else rec.guard('add:dagger', S.dagger)
            if Sd is not None and not close(dense(Sd), ref.conj().T):
                rec('add:dagger', 'dagger() of H1+H2 is not the conjugate transpose')
            # the term list of the sum (a derived MPO: IdR = -1) is the sum of the operators
            basis = U.CHAINS[s1['chain']][2]
            if basis is not None and not s1.get('plus_hc'):
                tkw = dict(ignore=[]) if s1['chain'] == 'F:N' else {}
                tl = rec.guard('add:to_TermList', S.to_TermList, basis, **tkw)
                sites_ = [U.site_of(s1['chain'])] * s1['L']
                if tl is not None:
                    got = termlist_dense(sites_, tl) if fin else D.window_terms_dense(sites_, s1['L'], n, tl.terms, tl.strength, jw=False)
                    if got.shape != ref.shape or not close(got, ref):
                        rec('add:to_TermList:%s' % ('finite' if fin else 'infinite'), 'to_TermList of H1+H2 (%d terms) is not the sum of the operators' % len(tl.terms))
            if not default and rec.ok('add:sort_legcharges', S.sort_legcharges) and not close(dense(S), ref):
                rec('add:sort_legcharges', 'H1+H2 changed by sort_legcharges')
        if name == 'H1+H2' and not fin and not default:  # energy density of the (sorted) sum in an infinite state
            Lc = max(s1['L'], 2)
            psi = U.infinite_state(s1['chain'], Lc, np.random.default_rng(case['seed']))
            m = Lc + max(U.spec_range(s1), U.spec_range(s2), 1)
            e_ref = D.window_expval(D.imps_window(psi, 0, m), _density_operator(s1, Lc, m) + _density_operator(s2, Lc, m)) / Lc
            for fct in ('expectation_value', 'expectation_value_TM'):
                e = rec.guard('add:' + fct, getattr(S, fct), psi.copy())
                if e is not None and not close(e, e_ref, 1e-8):
                    rec('add:%s:infinite' % fct, 'energy density of H1+H2: %r, dense window %r' % (e, e_ref))
        if name == 'H1+H2' and fin and not (s1.get('charged') or s1.get('plus_hc')):
            v = U.sector_vectors(s1['chain'], s1['L'], np.random.default_rng(case['seed']), 1)[0]
            e = rec.guard('add:expectation_value', S.expectation_value, U.mps_from_vector(s1['chain'], s1['L'], v))
            if e is not None and not close(e, np.vdot(v, ref @ v)):
                rec('add:expectation_value', 'expectation value of H1+H2: %r, dense %r' % (e, np.vdot(v, ref @ v)))
            if s1.get('all_id', True) and s2.get('all_id', True) and case.get('propagators'):
                second_order(rec, 'add:make_U_%s', S, ref, 0.04j)
    # --- overlap, distance, equality (with the default window also of the sums against their first operand)
    kw = {} if fin else dict(understood_infinite=True) if default else dict(understood_infinite=True, num_sites=n)
    tag = ':default-num_sites' if default else ''
    ops = {'H1': (H1, [s1]), 'H2': (H2, [s2])}
    ops.update({k: (S, [s1, s2]) for k, S in sums.items() if default})
    ref_dense = functools.lru_cache(maxsize=None)(lambda name, m: sum(U.spec_dense(sp, m) for sp in ops[name][1]))
    window = (lambda *names: n if fin or not default else max(_window(s1, ops[k][0]) for k in names))
    pairs = [('H1', 'H2'), ('H2', 'H1'), ('H1', 'H1')] + [p for k in ops if '+' in k for p in ((k, 'H1'), ('H1', k))]
    for na, nb in pairs:
        (A, _), (B, _), m = ops[na], ops[nb], window(na, nb)
        a, b = ref_dense(na, m), ref_dense(nb, m)
        ov = rec.guard('overlap' + tag, A.overlap, B, **kw)
        if ov is not None and not close(ov, np.vdot(a, b), 1e-9):
            rec('overlap%s:value' % tag, 'overlap(%s, %s)=%r, dense tr(A^+ B)=%r on %d sites' % (na, nb, ov, np.vdot(a, b), m))
        dist = rec.guard('distance' + tag, A.distance, B, **kw) if ov is not None and (na, nb) != ('H2', 'H1') else None
        if dist is not None and not (close(dist, fro2(a - b), 1e-9) or close(dist, np.sqrt(fro2(a - b)), 1e-9)):
            rec('distance%s:value' % tag, 'distance(%s, %s)=%r, dense |A-B|_F^2=%r on %d sites' % (na, nb, dist, fro2(a - b), m))
    for na, nb in [p for p in pairs if p[0] != p[1]]:
        (A, _), (B, _) = ops[na], ops[nb]
        m = n if fin else _window(s1, A)  # (is_equal always takes the default window of self)
        a, b = ref_dense(na, m), ref_dense(nb, m)
        for eps in (1e-10, 1e-3) if na == 'H1' else (1e-10,):
            truth = decided(fro2(a - b), fro2(a) + fro2(b), eps)
            got = rec.guard('is_equal', A.is_equal, B, eps)
            if got is not None and truth is not None and bool(got) != truth:
                rec('is_equal:false-%s' % ('negative' if truth else 'positive'), 'is_equal(%s, %s, eps=%g)=%s but dense |A-B|^2/(|A|^2+|B|^2)=%.3g on %d sites' % (na, nb, eps, got, fro2(a - b) / (fro2(a) + fro2(b)), m))
    return rec


def check_partition(case):
    """H == (H without term k) + (term k alone) -- and != when the single term is altered (decision procedures)."""
    spec, k = case['spec'], case['k']
    rec = Rec()
    rest = dict(spec, terms=spec['terms'][:k] + spec['terms'][k + 1:], coefs=spec['coefs'][:k] + spec['coefs'][k + 1:])
    one = dict(spec, terms=[spec['terms'][k]], coefs=[spec['coefs'][k]], all_id=case.get('all_id_single', True))
    c = spec['coefs'][k]
    other = dict(one, coefs=[[c[0] * 1.01, c[1] * 1.01]])
    H, Hr, H1, Hx = (rec.guard('build', U.build, s) for s in (spec, rest, one, other))
    if None in (H, Hr, H1, Hx):
        return rec
    n = _window(spec, H)
    d, dx = U.spec_dense(spec, n), U.spec_dense(rest, n) + U.spec_dense(other, n)
    false = decided(fro2(d - dx), fro2(d) + fro2(dx), 1e-10)
    rel = fro2(d - dx) / (fro2(d) + fro2(dx))
    for first in (True, False):
        S, X = (rec.guard('add', lambda a=a, first=first: Hr + a if first else a + Hr) for a in (H1, Hx))
        if S is None or X is None:
            continue
        for A, B, truth, name in ((H, S, True, 'H, rest+term'), (S, H, True, 'rest+term, H'), (H, X, false, 'H, rest+1.01*term'), (X, H, false, 'rest+1.01*term, H')):
            got = rec.guard('is_equal', A.is_equal, B)
            if got is not None and truth is not None and bool(got) != truth:
                rec('is_equal:sum:false-%s' % ('negative' if truth else 'positive'), 'is_equal(%s)=%s for term %r' % (name, got, spec['terms'][k]))
        for eps, truth in ((rel * 60, True), (rel / 60, False)):  # the documented (relative) threshold
            got = rec.guard('is_equal', H.is_equal, X, eps)
            if got is not None and bool(got) != truth:
                rec('is_equal:threshold', 'is_equal(eps=%.3g)=%s although |A-B|^2/(|A|^2+|B|^2)=%.3g' % (eps, got, rel))
    return rec


# ------------------------------------------------------------------------------------------------ application

def build_operator(desc):
    """(MPO, dense reference) for the operator descriptions used in the application checks."""
    from tenpy.networks.mpo import MPO
    kind = desc['kind']
    if kind == 'wavepacket':
        site = U.site_of(desc['chain'])
        L = desc['L']
        cf = [U.cc(c) for c in desc['coeff']]
        with warnings.catch_warnings():
            warnings.simplefilter('ignore')
            H = MPO.from_wavepacket([site] * L, cf, desc['op'], unit_cell_width=L)
        return H, D.terms_dense([site] * L, [[(desc['op'], i)] for i in range(L)], cf, jw=True)
    H, ref = U.build(desc['spec']), U.spec_dense(desc['spec'])
    if kind == 'plus_identity':
        a, b = U.cc(desc['alpha']), U.cc(desc['beta'])
        return H.plus_identity(a, b, desc['sites']), a * np.eye(len(ref)) + b * ref
    if kind == 'U':
        UU = H.make_U(U.cc(desc['t']), desc['approx'])
        return UU, D.mpo_dense(UU)  # (how well this approximates exp(tH) is checked elsewhere)
    return H, ref


TRUNC = {'none': dict(chi_max=100, svd_min=1e-14), 'default': dict(), 'chi2': dict(chi_max=2), 'chi3': dict(chi_max=3, svd_min=1e-12),
         'svd_min': dict(chi_max=100, svd_min=0.1), 'trunc_cut': dict(chi_max=100, trunc_cut=0.15)}


# The zip-up sweep truncates tensors which are not in canonical form, so its discarded weights do not bound the error
# of the state rigorously: on the unchanged library (1 - fidelity) / eps reaches 38 over the enumerated cases
# (m_temp = 1 and 2, chi_max = 2 and 3, seeds 0, 1, 2, 7).  What is demanded: the error is reported at all.
ZIP_UP_SLACK = 200.


def check_apply(case):
    """Apply an MPO to a finite MPS by one method / truncation setting; compare with the dense matrix-vector product."""
    rec = Rec()
    desc, method, tname = case['op'], case['method'], case['trunc']
    chain, L = (desc['chain'], desc['L']) if 'chain' in desc else (desc['spec']['chain'], desc['spec']['L'])
    built = rec.guard('build:%s%s' % (desc['kind'], ':coeff[0]=0' if desc['kind'] == 'wavepacket' and not any(desc['coeff'][0]) else ''), build_operator, desc)
    if built is None:
        return rec
    H, Od = built
    name, psi = U.finite_states(chain, L, np.random.default_rng(case['seed']))[case['state']]
    v = Od @ D.mps_dense(psi)
    nv = np.linalg.norm(v)
    if nv < 1e-9:
        return rec  # (the operator annihilates the state: the normalised result is undefined)
    form = name.split(':')[-1]
    key = 'apply:%s%s' % (method, ':trunc_params-without-chi_max' if tname == 'default' else '' if form in ('B', 'product') else ':psi.form=' + form)
    if 'm_temp' in case.get('options', {}):
        key += ':m_temp=%d' % case['options']['m_temp']
    if method == 'naive':
        if rec.ok('apply_naively', H.apply_naively, psi):
            if not close(D.mps_dense(psi, form=None), v, 1e-9):
                rec('apply_naively:tensors', 'product of the new tensors differs from the dense O|psi>')
            if rec.ok('apply_naively:canonical_form', psi.canonical_form, renormalize=False) and not close(D.mps_dense(psi), v, 1e-9):
                rec('apply_naively:canonical_form', 'state after apply_naively + canonical_form differs from the dense O|psi>')
        return rec
    options = dict(compression_method=method, trunc_params=dict(TRUNC[tname]), **case.get('options', {}))
    try:
        with warnings.catch_warnings():
            warnings.simplefilter('ignore')
            err = H.apply(psi, options)
    except Exception as e:  # noqa: BLE001
        if method == 'zip_up' and options.get('m_temp') == 1 and 'no singular values' in str(e):
            return rec  # (the sweep truncated to m_temp * chi_max = chi_max can discard the whole intermediate state)
        return rec + [('%s:exception:%s' % (key, type(e).__name__), 'apply(%r) on %s raised %s: %s' % (options, name, type(e).__name__, e))]
    phi = D.mps_dense(psi)
    if not np.all(np.isfinite(phi)) or not np.isfinite(err.eps):
        return rec + [(key + ':not-finite', 'non-finite numbers in the state or the truncation error')]
    chi_max = TRUNC[tname].get('chi_max', 100)
    if max(psi.chi) > chi_max:
        rec(key + ':chi_max', 'bond dimensions %r exceed chi_max=%d' % (psi.chi, chi_max))
    exact_expected = tname in ('none', 'default')
    if rec.ok(key + ':test_sanity', psi.test_sanity) and exact_expected and float(np.max(psi.norm_test())) > 1e-8:
        rec(key + ':not-canonical', 'norm_test()=%r after apply' % (psi.norm_test(),))
    fid = abs(np.vdot(phi, v)) ** 2 / (np.vdot(phi, phi).real * nv ** 2)
    if exact_expected and not close(phi, v, 1e-8):
        rec(key + ':no-truncation:not-exact', '%s, %s: state (incl. norm) differs from the dense O|psi> by %.3g, fidelity error %.3g, reported %r' % (name, tname, np.abs(phi - v).max(), 1 - fid, err))
    if method == 'SVD':
        if 1 - fid > err.eps + 1e-9:
            rec(key + ':error-under-reported', '%s, %s: 1-fidelity=%.6g exceeds the reported eps=%.6g' % (name, tname, 1 - fid, err.eps))
        if fid < err.ov - 1e-9:
            rec(key + ':ov-not-a-lower-bound', '%s, %s: fidelity %.6g below the reported ov=%.6g' % (name, tname, fid, err.ov))
        if err.eps < 1e-20 and not close(phi, v, 1e-8):
            rec(key + ':eps=0:not-exact', '%s, %s: reported eps=0 but the state differs from the dense O|psi>' % (name, tname))
    if method == 'zip_up' and 1 - fid > ZIP_UP_SLACK * err.eps + 1e-9:
        rec(key + ':error-under-reported', '%s, %s: 1-fidelity=%.6g is more than %g times the reported eps=%.6g' % (name, tname, 1 - fid, ZIP_UP_SLACK, err.eps))
    return rec


# ------------------------------------------------------------------------------------------------ infinite MPOs

def _density_operator(spec, Lc, n):
    """Sum of the terms of an infinite specification which start inside the first `Lc` sites (window of `n` sites)."""
    assert n >= Lc + U.spec_range(spec)
    return U.spec_dense(spec, n) - U.spec_dense(spec, n, first=Lc)


def check_inf(case):
    """Unary operations on an infinite MPO: the operator on a window, energy densities in infinite states."""
    spec, rng = case['spec'], np.random.default_rng(case['seed'])
    rec = Rec()
    chain, L = spec['chain'], spec['L']
    site, basis, hc = U.site_of(chain), U.CHAINS[chain][2], bool(spec.get('plus_hc'))
    H = rec.guard('build', U.build, spec)
    if H is None:
        return rec
    reach = U.spec_range(spec)
    n = L + max(reach, 1)  # a window which contains every term starting in the first unit cell
    ref = U.spec_dense(spec, n)
    if not close(D.mpo_window_dense(H, 0, n), ref):
        return rec + [('denote:infinite:from_term_list', 'window of %d sites differs from the Kronecker sum of the translated terms' % n)]
    if H.max_range is None or H.max_range < reach:
        rec('max_range:too-small', 'max_range=%r but a term has range %d' % (H.max_range, reach))
    # --- energy densities
    for Lpsi in case['Lpsi']:
        psi = U.infinite_state(chain, Lpsi, rng)
        Lc = int(np.lcm(L, Lpsi))
        m = Lc + reach
        e_ref = D.window_expval(D.imps_window(psi, 0, m), _density_operator(spec, Lc, m)) / Lc
        for name, fct in (('expectation_value', H.expectation_value), ('expectation_value_power', H.expectation_value_power), ('expectation_value_TM', H.expectation_value_TM)):
            e = rec.guard(name, fct, psi.copy())
            if e is not None and not close(e, e_ref, 1e-8):
                rec('%s:infinite' % name, 'unit cells %d (MPO), %d (MPS): got %r, dense window %r' % (L, Lpsi, e, e_ref))
        H.max_range = None  # (unknown range: the wrapper has to take the transfer matrix route)
        e = rec.guard('expectation_value', H.expectation_value, psi.copy())
        H.max_range = reach
        if e is not None and not close(e, e_ref, 1e-8):
            rec('expectation_value:infinite:max_range=None', 'got %r, dense window %r' % (e, e_ref))
    sites = [site] * n
    # --- dagger, hermiticity
    Hdag = rec.guard('dagger', H.dagger)
    if Hdag is not None and rec.ok('dagger:test_sanity', Hdag.test_sanity) and not close(D.mpo_window_dense(Hdag, 0, n), ref.conj().T):
        rec('dagger:dense:infinite', 'dagger() is not the conjugate transpose on a window of %d sites' % n)
    w = L + 2 * H.max_range
    dw = ref if w == n else U.spec_dense(spec, w)
    for eps in (1e-10, 1e-4):
        truth = decided(fro2(dw - dw.conj().T), 2 * fro2(dw), eps)
        got = rec.guard('is_hermitian', H.is_hermitian, eps)
        if truth is not None and got is not None and bool(got) != truth:
            rec('is_hermitian:infinite:false-%s' % ('negative' if truth else 'positive'), 'is_hermitian(eps=%g)=%s' % (eps, got))
    # --- term lists
    if basis is not None and not hc:
        kw = dict(ignore=[]) if chain == 'F:N' else {}
        tl = rec.guard('to_TermList', H.to_TermList, basis, **kw)
        if tl is not None and not close(D.window_terms_dense(sites, L, n, tl.terms, tl.strength, jw=False), ref):
            rec('to_TermList:dense:infinite', 'translates of the returned terms differ from the operator on a window of %d sites' % n)
        if {op for t in spec['terms'] for op, _ in t} <= set(basis) - {'Id'}:
            for i in range(L):
                for ops in basis_strings(basis, min(3, n - i)):
                    S = D.term_dense(sites, [(op, i + k) for k, op in enumerate(ops)])
                    pre = rec.guard('prefactor', H.prefactor, i, ops)
                    expect = np.vdot(S, ref) / np.vdot(S, S)
                    if pre is not None and not close(pre, expect):
                        rec('prefactor:infinite:%s' % ('present' if abs(expect) > 1e-12 else 'absent'), 'prefactor(%d, %r)=%r, dense %r' % (i, ops, pre, expect))
    # --- in-place transformations on fresh copies
    Lc = max(L, 2)
    psi = U.infinite_state(chain, Lc, rng)
    e_ref = D.window_expval(D.imps_window(psi, 0, Lc + reach), _density_operator(spec, Lc, Lc + reach)) / Lc
    for name, fct, args in (('sort_legcharges', 'sort_legcharges', ()), ('enlarge_mps_unit_cell', 'enlarge_mps_unit_cell', (2,)), ('group_sites', 'group_sites', (2,))):
        Hx, n2 = U.build(spec), n + n % 2
        if name == 'group_sites' and L % 2:
            Hx.enlarge_mps_unit_cell(2)
        if not rec.ok(name, getattr(Hx, fct), *args) or not rec.ok(name + ':test_sanity', Hx.test_sanity):
            continue
        if name == 'group_sites':
            perm = D.group_perm([Hx.sites[i % Hx.L] for i in range(n2 // 2)])
            same = close(D.mpo_window_dense(Hx, 0, n2 // 2)[np.ix_(perm, perm)], U.spec_dense(spec, n2))
        else:
            same = close(D.mpo_window_dense(Hx, 0, n), ref)
            e = rec.guard(name + ':expectation_value', Hx.expectation_value, psi.copy())
            if e is not None and not close(e, e_ref, 1e-8):
                rec(name + ':expectation_value:infinite', 'energy density %r after %s, dense window %r' % (e, name, e_ref))
        if not same:
            rec(name + ':dense:infinite', 'operator on a window changed by %s' % name)
    # --- propagators: the part of U(t) inside a window is the propagator of the open chain with the terms inside
    if not hc:
        fin = dict(spec, bc='finite', L=n, terms=[], coefs=[])
        for t, c in zip(spec['terms'], spec['coefs']):
            lo, hi = min(i for _, i in t), max(i for _, i in t)
            for shift in range(-(lo // L) * L, n, L):
                if 0 <= lo + shift and hi + shift < n:
                    fin['terms'].append([[op, i + shift] for op, i in t])
                    fin['coefs'].append(c)
        Hfin = U.build(fin)
        for approx in ('I', 'II'):
            UU, Ufin = rec.guard('make_U_%s:infinite' % approx, H.make_U, 0.03 + 0.05j, approx), Hfin.make_U(0.03 + 0.05j, approx)
            if UU is not None and rec.ok('make_U:test_sanity', UU.test_sanity) and not close(D.mpo_window_dense(UU, 0, n), D.mpo_dense(Ufin), 1e-9):
                rec('make_U_%s:infinite:window' % approx, 'U_%s of the infinite MPO restricted to %d sites differs from U_%s of the open chain' % (approx, n, approx))
    return rec


# ------------------------------------------------------------------------------------------------ MPOs from W tensors

def random_W(case):
    """Seeded W tensors in upper triangular form [[1, C, D], [0, A, B], [0, 0, 1]] with `chi` middle states; returns
    (dense W[wL, wR, p, p*] per site, grids of operator names for from_grids or None)."""
    chain, L, chi = case['chain'], case['L'], case['chi']
    rng = np.random.default_rng([case['seed'], case['variant'], L, chi])
    site = U.site_of(chain)
    d, n = site.dim, chi + 2
    Ws, grids = [], []
    for _ in range(L):
        if chain == 'S:None':
            W = np.zeros((n, n, d, d), complex)
            W[0, 0] = W[-1, -1] = np.eye(d)
            for a in range(n - 1):
                for b in range(max(a, 1), n):
                    W[a, b] = (0.25 if 0 < a and b < n - 1 else 1.) * (rng.standard_normal((d, d)) + 1j * rng.standard_normal((d, d)))
            grid = None
        else:  # middle state 1 carries the charge of Sp, middle state 2 is neutral
            c = lambda: float(np.round(rng.uniform(0.3, 1.2), 3))  # noqa: E731
            grid = [[None] * n for _ in range(n)]
            grid[0][0], grid[-1][-1], grid[0][-1] = 'Id', 'Id', [('Sz', c()), ('Id', c())]
            grid[0][1], grid[1][1], grid[1][-1] = [('Sp', c())], [('Sz', 0.25 * c()), ('Id', 0.25 * c())], [('Sm', c())]
            if chi == 2:
                grid[0][2], grid[2][2], grid[2][-1] = [('Sz', c())], [('Id', 0.25 * c())], [('Sz', c()), ('Id', c())]
                grid[1][2], grid[2][1] = [('Sm', 0.25 * c())], [('Sp', 0.25 * c())]
            W = np.zeros((n, n, d, d), complex)
            for a, b in itertools.product(range(n), repeat=2):
                if grid[a][b] is not None:
                    W[a, b] = sum(x * D.op_dense(site, op) for op, x in ([(grid[a][b], 1.)] if isinstance(grid[a][b], str) else grid[a][b]))
        Ws.append(W)
        grids.append(grid)
    return Ws, (grids if chain != 'S:None' else None)


def contract_W(Ws, n):
    """Operator on `n` sites: product of the W (periodically repeated) from the first row to the last column."""
    cur = Ws[0][0].transpose(1, 2, 0)
    for i in range(1, n):
        cur = np.einsum('abw,wvcd->acbdv', cur, Ws[i % len(Ws)])
        cur = cur.reshape(cur.shape[0] * cur.shape[1], cur.shape[2] * cur.shape[3], cur.shape[4])
    return cur[:, :, -1]


def transfer_density(Ws, psi, tol=1e-12, nmax=400):
    """Energy density of an infinite MPO (first row -> last column) in an infinite canonical MPS by summing up
    site by site: E(n) = value of all terms inside n sites; density = (E(n+Lc) - E(n)) / Lc for large n."""
    Lc = int(np.lcm(len(Ws), psi.L))
    S = psi.get_SL(0)
    LP = np.zeros((len(S), Ws[0].shape[0], len(S)), complex)
    LP[:, 0, :] = np.diag(S ** 2)
    Es, dens = [], []
    for i in range(nmax * Lc):
        B = psi.get_B(i, 'B').transpose(['vL', 'p', 'vR']).to_ndarray()
        LP = np.einsum('awb,bpc,wvqp,aqd->dvc', LP, B, Ws[i % len(Ws)], B.conj())
        Es.append(np.einsum('ava->v', LP)[-1])
        if (i + 1) % Lc == 0 and len(Es) > Lc:
            dens.append((Es[-1] - Es[-1 - Lc]) / Lc)
            if len(dens) > 2 and abs(dens[-1] - dens[-2]) < tol and abs(dens[-2] - dens[-3]) < tol:
                return dens[-1]
    raise RuntimeError('reference energy density not converged')


def check_wflat(case):
    """MPOs given directly by W tensors (`from_Wflat` / `from_grids`), unknown `max_range`, with identity markers on
    all bonds or only at the boundaries."""
    from tenpy.networks.mpo import MPO
    rec = Rec()
    chain, L, chi, bc = case['chain'], case['L'], case['chi'], case['bc']
    fin, all_marks = bc == 'finite', case['markers'] == 'all'
    site = U.site_of(chain)
    sites = [site] * L
    Ws, grids = random_W(case)
    n = L if fin else L + 3
    ref = contract_W(Ws, n)

    def make(Ws=Ws, grids=grids):
        if grids is not None:
            IdL, IdR = (0, -1) if all_marks else ([0] + [None] * L, [None] * L + [-1])
            return MPO.from_grids(sites, grids, bc, IdL, IdR, max_range=None, mps_unit_cell_width=L)
        flat = [W.transpose(2, 3, 0, 1) for W in Ws]
        if fin:
            flat[0], flat[-1] = flat[0][:, :, :1, :], flat[-1][:, :, :, -1:]
            IdL = [0] * L + [None] if all_marks else [0] + [None] * L
            IdR = [None] + [chi + 1] * (L - 1) + [0] if all_marks else [None] * L + [0]
        else:
            IdL, IdR = 0, chi + 1
        return MPO.from_Wflat(sites, flat, bc, IdL=IdL, IdR=IdR, max_range=None, unit_cell_width=L)

    H = rec.guard('from_grids' if grids else 'from_Wflat', make)
    if H is None:
        return rec
    if not close(D.mpo_window_dense(H, 0, n), ref):
        return rec + [('denote:%s' % ('from_grids' if grids else 'from_Wflat'), 'dense MPO differs from the product of the given W')]
    rng = np.random.default_rng(case['seed'])
    Hdag = rec.guard('dagger', H.dagger)
    if Hdag is not None and not close(D.mpo_window_dense(Hdag, 0, n), ref.conj().T):
        rec('dagger:dense:W', 'dagger() is not the conjugate transpose')
    if Hdag is not None and all_marks:
        S = rec.guard('add', lambda: H + Hdag)
        if S is not None:
            if not close(D.mpo_window_dense(S, 0, n), ref + ref.conj().T):
                rec('add:dense:W', 'H + H.dagger() differs from the dense sum')
            for X, truth in ((S, True), (H, False)):
                got = rec.guard('is_hermitian', X.is_hermitian)
                if got is not None and bool(got) != truth:
                    rec('is_hermitian:W:false-%s' % ('negative' if truth else 'positive'), 'is_hermitian()=%s for %s' % (got, 'H + H.dagger()' if truth else 'a generic H'))
    kw = {} if fin else dict(understood_infinite=True, num_sites=n)
    ov = rec.guard('overlap', H.overlap, H, **kw)
    if ov is not None and not close(ov, fro2(ref), 1e-9):
        rec('overlap:value:W', 'overlap(H, H)=%r, dense |H|^2=%r' % (ov, fro2(ref)))
    if fin:
        for name, psi in U.finite_states(chain, L, rng) if L > 1 else []:
            v = D.mps_dense(psi, with_norm=False)
            e = rec.guard('expectation_value', H.expectation_value, psi)
            if e is not None and not close(e, np.vdot(v, ref @ v)):
                rec('expectation_value:finite:W', '%s: got %r, dense %r' % (name, e, np.vdot(v, ref @ v)))
            var = rec.guard('variance', H.variance, psi)
            if var is not None and not close(var, np.vdot(v, ref @ (ref @ v)) - np.vdot(v, ref @ v) ** 2, 1e-9):
                rec('variance:W', '%s: got %r' % (name, var))
            w = ref @ D.mps_dense(psi)
            if rec.guard('apply:SVD', H.apply, psi, dict(compression_method='SVD', trunc_params=dict(chi_max=100))) is not None and not close(D.mps_dense(psi), w, 1e-8):
                rec('apply:SVD:no-truncation:not-exact', '%s: W-tensor MPO' % name)
        basis = U.CHAINS[chain][2]
        tl = rec.guard('to_TermList', H.to_TermList, basis)
        if tl is not None and not close(termlist_dense(sites, tl), ref):
            rec('to_TermList:dense:W', 'sum of the returned terms differs from the operator')
        for name, args in (('sort_legcharges', ()), ('group_sites', (L,))):
            Hx = make()
            if rec.ok(name, getattr(Hx, name), *args):
                perm = D.group_perm(Hx.sites) if name == 'group_sites' else np.arange(len(ref))
                if not close(D.mpo_dense(Hx)[np.ix_(perm, perm)], ref):
                    rec(name + ':dense:W', 'operator changed by %s' % name)
        if all_marks:  # (make_U_I needs IdL and IdR on the outer bonds as well, i.e. two states there)
            second_order(rec, 'make_U_%s:W', H, ref, 0.02j, ('II',))
    else:
        for Lpsi in (2, 3):
            psi = U.infinite_state(chain, Lpsi, rng)
            e_ref = transfer_density(Ws, psi)
            for name in ('expectation_value', 'expectation_value_TM', 'expectation_value_power'):
                e = rec.guard(name, getattr(H, name), psi.copy())
                if e is not None and not close(e, e_ref, 1e-7):
                    rec('%s:infinite:W' % name, 'unit cells %d (MPO), %d (MPS): got %r, summed reference %r' % (L, Lpsi, e, e_ref))
    return rec


# ------------------------------------------------------------------------------------------------ application, infinite

def applied_local_expvals(Ws, psi, ops):
    """``<O_j>`` for every site j of the common unit cell in the normalised infinite state ``U|psi>``: dense transfer
    matrices of the tensors ``M_j = W_j B_j`` and their dominant left / right eigenvectors."""
    Lc = int(np.lcm(len(Ws), psi.L))
    Ms = []
    for i in range(Lc):
        B = psi.get_B(i, 'B').transpose(['vL', 'p', 'vR']).to_ndarray()
        M = np.einsum('abpq,cqd->pacbd', Ws[i % len(Ws)], B)
        Ms.append(M.reshape(M.shape[0], M.shape[1] * M.shape[2], -1))

    def transfer(M, O=None):
        t = np.einsum('pab,pcd->acbd', M if O is None else np.einsum('pq,qab->pab', O, M), M.conj())
        return t.reshape(t.shape[0] * t.shape[1], -1)

    Ts = [transfer(M) for M in Ms]
    E = np.linalg.multi_dot(Ts) if len(Ts) > 1 else Ts[0]
    w, vr = np.linalg.eig(E)
    wl, vl = np.linalg.eig(E.T)
    lam, r, l = w[np.argmax(abs(w))], vr[:, np.argmax(abs(w))], vl[:, np.argmax(abs(wl))]
    res = []
    for j in range(Lc):
        x = r
        for t in reversed(Ts[:j] + [transfer(Ms[j], ops[j % len(ops)])] + Ts[j + 1:]):
            x = t @ x
        res.append(l @ x / (lam * (l @ r)))
    return np.array(res)


def check_infapply(case):
    """Apply a propagator MPO to an infinite MPS; compare local expectation values with the dense transfer matrix."""
    rec = Rec()
    spec, method = case['spec'], case['method']
    chain = spec['chain']
    site = U.site_of(chain)
    zname = {'S:Sz': 'Sz', 'S1:Sz': 'Sz', 'S:None': 'Sigmaz', 'F:N': 'N'}[chain]
    H = U.build(spec)
    if case.get('enlarge'):
        H.enlarge_mps_unit_cell(case['enlarge'])
    UU = rec.guard('make_U', H.make_U, U.cc(case['t']), case['approx'])
    if UU is None:
        return rec
    psi = U.infinite_state(chain, H.L, np.random.default_rng(case['seed']), chi_max=4)
    Ws = [UU.get_W(i).transpose(['wL', 'wR', 'p', 'p*']).to_ndarray() for i in range(UU.L)]
    ref = applied_local_expvals(Ws, psi, [D.op_dense(site, zname)])
    key = 'apply:%s:infinite' % method
    if method == 'naive':
        if not rec.ok('apply_naively:infinite', UU.apply_naively, psi) or not rec.ok('apply_naively:infinite:canonical_form', psi.canonical_form):
            return rec
    else:
        opts = dict(compression_method=method, trunc_params=dict(chi_max=100, svd_min=1e-10))
        if method != 'SVD':  # (converge the environments and the sweeps; a large error is reported, not raised)
            opts.update(max_sweeps=20, min_sweeps=10, start_env_sites=20, max_trunc_err=None)
        err = rec.guard(key, UU.apply, psi, opts)
        if err is None or err.eps > 1e-12:
            return rec  # (nothing is promised beyond the reported error: e.g. the QR variant cannot open new charge blocks)
    if rec.ok(key + ':test_sanity', psi.test_sanity) and float(np.max(psi.norm_test())) > 1e-6:
        rec(key + ':not-canonical', 'norm_test() up to %.3g after apply' % np.max(psi.norm_test()))
    got = rec.guard(key + ':expectation_value', psi.expectation_value, zname)
    if got is not None and not close(got, ref, 1e-7):
        rec(key + ':local-expectation-values', '<%s> per site %r after apply, dense transfer matrix %r' % (zname, np.round(got, 6).tolist(), np.round(ref.real, 6).tolist()))
    return rec
