"""C12 -- local Hilbert spaces: operator algebra, basis bookkeeping and fermionic signs.

Bounded exhaustive enumeration of (a) every predefined site class x parameters x conservation option, the
in-place changes of a site, `set_common_charges`, `spin_half_species`, `GroupedSite` over all ordered pairs
(and triples) of a heterogeneous pool, and (b) every product of 2-4 onsite operators (fermionic ones and one
bosonic per site) on short chains in every site order, pushed through every Jordan-Wigner route of the library
(order_combine_term, the JW handlers of (Multi)CouplingTerms, MPOGraph/MPO, MPS term methods, correlation
functions, CouplingModel, grouped sites).  Oracle: dense matrices -- the conserve=None operators, the defining
algebra, and Kronecker products with explicit JW strings as defined in doc/intro/JordanWigner.rst.
The per-case checks live in c12_sites.py and c12_jw.py; this module only enumerates.
"""
import itertools
import traceback

from . import c12_jw as J
from . import c12_sites as S

UNIT_TIMEOUT = 900.0
CHECKS = dict(site=S.check_site, mutate=S.check_mutate, common=S.check_common, species=S.check_species, group=S.check_group,
              group_sites=S.check_group_sites, reference=J.check_reference, term=J.check_term, mposum=J.check_mposum,
              corr=J.check_corr, corr2=J.check_corr2, model=J.check_model, gterm=J.check_gterm)
CHUNK = dict(site=6, mutate=3, common=40, species=27, group=24, group_sites=8, reference=2, term=350, mposum=4, corr=12,
             corr2=30, model=60, gterm=300)
CONS3 = ['N', 'parity', None]
SZ3 = ['Sz', 'parity', None]
POOL = [['SpinHalfSite', {'conserve': 'Sz'}], ['SpinSite', {'S': 1.0, 'conserve': 'Sz'}], ['FermionSite', {'conserve': 'N'}],
        ['SpinHalfFermionSite', {'cons_N': 'N', 'cons_Sz': 'Sz'}], ['SpinHalfHoleSite', {'cons_N': 'N', 'cons_Sz': 'Sz'}],
        ['BosonSite', {'Nmax': 2, 'conserve': 'N'}], ['ClockSite', {'q': 3, 'conserve': 'Z'}], ['FermionSite', {'conserve': 'parity'}],
        ['SpinHalfFermionSite', {'cons_N': 'parity', 'cons_Sz': None}], ['BosonSite', {'Nmax': 1, 'conserve': 'parity'}],
        ['SpinSite', {'S': 1.5, 'conserve': 'parity'}], ['FermionSite', {'conserve': None}], ['SpinHalfSite', {'conserve': None}]]
# sites whose basis is not sorted by charge (a GroupedSite / set_common_charges has to sort them itself)
UNSORTED = [['SpinHalfSite', {'conserve': 'Sz', 'sort_charge': False}], ['SpinSite', {'S': 1.0, 'conserve': 'parity', 'sort_charge': False}],
            ['SpinHalfSite', {'conserve': 'parity', 'sort_charge': False}]]
# add_multi_coupling: chain -> [(allowed dx, numbers of operators)]
MULTI = dict(quick={'F:N': [((0, 1, 2), (3,))]},
             thorough={'F:N': [((0, 1, 2), (3, 4))], 'species:N,Sz': [((0, 1, 2), (3,))], 'mixed:common': [((0, 1), (3,))]})
EXPLICIT = [  # (sites, new_charges, new_names, new_mod): the examples of the doc-string and the `new_mod` argument
    ([POOL[2], POOL[2]], [[[1, 0, 'N'], [1, 1, 'N']], [[1, 0, 'N'], [-1, 1, 'N']]], ['N_tot', '2*Sz'], None),
    ([POOL[2], ['BosonSite', {'Nmax': 3, 'conserve': 'N'}]], [[[1, 0, 'N'], [2, 1, 'N']]], ['N_f + 2 N_b'], None),
    ([POOL[2], POOL[2]], [[[1, 0, 0], [1, 1, 0]]], ['parity_N'], [2]),
    ([POOL[2], POOL[5]], [[[1, 0, 0], [1, 1, 0]]], ['parity_N'], [2]),
    ([POOL[2], POOL[2]], [[[1, 0, 0], [-1, 1, 0]]], ['2*Sz'], [4]),
    ([POOL[3], POOL[1]], [[[1, 0, '2*Sz'], [1, 1, '2*Sz']]], None, None),
]


def site_specs(full):
    fill = [0.0, 0.5, 1.0] if full else [0.5]
    sp = [['SpinHalfSite', dict(conserve=c, sort_charge=sc)] for c in ['Sz', 'parity', None] for sc in (True, False)]
    sp += [['SpinSite', dict(S=s, conserve=c, sort_charge=sc)] for s in ([0.5, 1.0, 1.5, 2.0, 2.5, 3.0] if full else [0.5, 1.0, 1.5])
           for c in ['dipole', 'Sz', 'parity', None] for sc in (True, False)]
    sp += [['FermionSite', dict(conserve=c, filling=f)] for c in CONS3 for f in fill]
    sp += [[cls, dict(cons_N=a, cons_Sz=b, filling=f)] for cls in ('SpinHalfFermionSite', 'SpinHalfHoleSite') for a in CONS3 for b in SZ3 for f in fill]
    sp += [['BosonSite', dict(Nmax=n, conserve=c, filling=f)] for n in ([1, 2, 3, 4] if full else [1, 2, 3]) for c in ['dipole', 'N', 'parity', None] for f in fill]
    sp += [['ClockSite', dict(q=q, conserve=c, sort_charge=sc)] for q in ([2, 3, 4, 5] if full else [2, 3, 4]) for c in ['Z', None] for sc in (True, False)]
    return sp


def term_spaces(tier):
    """(chain, L, number of operators, fermionic operators only) of the enumerated term spaces."""
    q = tier == 'quick'
    sp = [(c, L, 2, False) for c in J.CHAINS for L in ((2, 3, 4) if q else (2, 3, 4, 5))]
    sp += [(c, 3, 3, False) for c in (['F:N', 'F:parity', 'F:None', 'mixed:common', 'species:N,Sz'] if q else J.CHAINS)]
    sp += [('SHF:N,Sz', 2, 3, False), ('F:N', 3, 4, False), ('F:parity', 4, 4, True), ('species:N,Sz', 4, 4, True)]
    if not q:
        sp += [(c, 6, 2, False) for c in ('F:N', 'F:None')] + [(c, 4, 3, False) for c in ('F:N', 'F:parity', 'F:None', 'species:N,Sz')]
        sp += [('F:parity', 3, 4, False), ('F:None', 3, 4, False), ('F:N', 4, 4, False), ('F:None', 5, 4, True), ('F:N', 6, 4, True),
               ('SHF:N,Sz', 3, 4, True), ('SHF:None,None', 2, 4, True), ('SHF:None,None', 2, 4, False), ('mixed:common', 3, 4, False), ('species:N,Sz', 4, 4, False)]
    return sp


def letters(chain, L, fermionic_only=False):
    cell = J.make_cell(chain)
    return [(op, i) for i in range(L) for op in J.alphabet(cell[i % len(cell)], fermionic_only)]


def cases(kind, tier, seed):
    """Deterministic generator of all cases of one kind (json-able dicts)."""
    q = tier == 'quick'
    if kind == 'site':
        for sp in site_specs(True):
            yield dict(spec=sp)
    elif kind == 'mutate':
        for sp in site_specs(not q):
            yield dict(spec=sp)
    elif kind == 'common':
        for a, b in itertools.product(POOL, repeat=2):
            for pol in ('same', 'drop', 'independent'):
                for sc in (True, False):
                    yield dict(specs=[a, b], policy=pol, sort_charge=sc)
        for tr in itertools.product(POOL[:4] if q else POOL[:7], repeat=3):
            for pol in ('same', 'independent'):
                yield dict(specs=list(tr), policy=pol, sort_charge=True)
        for a, b in itertools.product(UNSORTED, repeat=2):
            for pol, sc in itertools.product(('same', 'drop', 'independent'), (True, False)):
                yield dict(specs=[a, b], policy=pol, sort_charge=sc)
        for specs, nc, names, mod in EXPLICIT:
            yield dict(specs=specs, policy=nc, sort_charge=True, new_names=names, new_mod=mod)
        # explicit integer combinations of one charge per site (incl. overlapping partial fermion numbers):
        # every ordered list of up to `nmax` distinct non-zero rows with coefficients from `coeff`
        for specs, coeff, nmax in (([POOL[2]] * 3, (0, 1), 3), ([POOL[2]] * 2, (-1, 0, 1), 2), ([POOL[2], POOL[0], POOL[2]], (0, 1), 2)):
            rows = [r for r in itertools.product(coeff, repeat=len(specs)) if any(r)]
            for nrows in range(1, nmax + 1):
                for mat in itertools.permutations(rows, nrows):
                    yield dict(specs=specs, policy=[[[f, s, 0] for s, f in enumerate(r) if f] for r in mat], sort_charge=True, seed=seed)
    elif kind == 'species':
        for cls, kw in (('FermionSite', {}), ('FermionSite', {'filling': 0.25}), ('BosonSite', {'Nmax': 2})):
            for cN, cSz in itertools.product(CONS3, SZ3):
                yield dict(cls=cls, kw=kw, cons_N=cN, cons_Sz=cSz)
    elif kind == 'group':
        for a, b in itertools.product(POOL, repeat=2):
            for pol in ('same', 'drop', 'independent'):
                yield dict(specs=[a, b], charges=pol, precommon=(pol == 'same'), objects=[0, 1])
            if a == b:
                yield dict(specs=[a, b], charges='same', objects=[0, 0])
        for a, b in itertools.product(POOL[:5], repeat=2):
            yield dict(specs=[a, b], charges='independent', labels=['A', 'B'], objects=[0, 1])
        for tr in [(a, b) for a, b in itertools.product(UNSORTED + POOL[:3], repeat=2) if a in UNSORTED or b in UNSORTED] + [
                (UNSORTED[0], UNSORTED[1], POOL[2]), (POOL[1], UNSORTED[2], UNSORTED[0])]:
            for pol, pre in (('same', True), ('drop', False), ('independent', False)) + ((('same', False),) if tr[0] == tr[-1] else ()):
                yield dict(specs=list(tr), charges=pol, precommon=pre, objects=list(range(len(tr))))
        for tr in itertools.product(POOL[1:5] if q else POOL[:6], repeat=3):
            for pol in ('same', 'drop', 'independent'):
                yield dict(specs=list(tr), charges=pol, precommon=(pol == 'same'), objects=[0, 1, 2])
    elif kind == 'group_sites':
        for specs in ([POOL[2]] * 5, POOL[:5], [POOL[3]] * 4):
            for n, pol in itertools.product((1, 2, 3, 5), ('same', 'independent') if specs[0] == specs[1] else ('independent',)):
                yield dict(specs=specs, n=n, charges=pol)
    elif kind == 'reference':
        for c in J.CHAINS:
            if not c.startswith('Hole'):
                yield dict(chain=c, L=3 if q else 4)
    elif kind == 'term':
        for chain, L, k, fo in term_spaces(tier):
            for t in itertools.product(letters(chain, L, fo), repeat=k):
                yield dict(chain=chain, L=L, term=[list(x) for x in t], seed=seed)
        for chain, L, uc in (('species:N,Sz', 4, 2), ('mixed:common', 6, 3)):  # indices beyond the unit cell
            for t in itertools.product(letters(chain, L), repeat=2):
                yield dict(chain=chain, L=L, term=[list(x) for x in t], seed=seed, unit_cell=uc)
    elif kind == 'mposum':
        for chain, L, k, fo in term_spaces(tier):
            if k == 2 or (chain, L, k) == ('F:N', 3, 4):
                cell = J.make_cell(chain)  # one MPO per total charge of the terms; only even fermion parity
                groups = {}
                for t in itertools.product(letters(chain, L, fo), repeat=k):
                    ch = J.term_charge([(op, cell[i % len(cell)]) for op, i in t])
                    if ch[0] == 0:
                        groups.setdefault(ch, []).append([list(x) for x in t])
                for ch in sorted(groups):
                    for a in range(0, len(groups[ch]), 64 if k == 2 else 400):
                        yield dict(chain=chain, L=L, terms=groups[ch][a:a + (64 if k == 2 else 400)], seed=seed)
    elif kind == 'corr':
        for chain in J.CHAINS:
            cell = J.make_cell(chain)
            L = {1: 4 if q else 5, 2: 4, 3: 6}[len(cell)]
            if len(cell) == 1:
                names = J.alphabet(cell[0])
                pairs = [([a], [b]) for a, b in itertools.product(names, repeat=2) if cell[0].op_needs_JW(a) == cell[0].op_needs_JW(b)]
            else:  # one fermionic operator on every site which has one; the other sites are not used
                choices = [S.fermionic_names(s) or ['Id'] for s in cell]
                pairs = list(itertools.product(itertools.product(*choices), repeat=2))
            for o1, o2 in pairs:
                yield dict(chain=chain, L=L, ops1=list(o1), ops2=list(o2), seed=seed)
    elif kind == 'corr2':
        for chain in (['F:N', 'F:None', 'SHF:parity,None'] if q else ['F:N', 'F:parity', 'F:None', 'SHF:N,Sz', 'SHF:parity,None', 'SHF:None,None', 'Hole:N,Sz']):
            site = J.make_cell(chain)[0]
            for ops in itertools.product(J.alphabet(site, chain[0] != 'F'), repeat=4):
                if sum(site.op_needs_JW(o) for o in ops) % 2 == 0:
                    yield dict(chain=chain, L=5 if chain[0] == 'F' and not q else 4, ops=list(ops), seed=seed)
    elif kind == 'model':
        for chain, Lx in (('F:N', 4), ('SHF:N,Sz', 3), ('mixed:common', 2), ('species:N,Sz', 3)):
            cell = J.make_cell(chain)
            lets = [(op, u) for u, s in enumerate(cell) for op in J.alphabet(s)]
            charge = lambda ops: J.term_charge([(op, cell[u]) for op, _, u in ops])  # noqa: E731
            for (op1, u1), (op2, u2), dx in itertools.product(lets, lets, (-2, -1, 0, 1, 2)):
                ops = [[op1, 0, u1], [op2, dx, u2]]
                ch = charge(ops)
                if ch[0] == 0 and not (dx == 0 and u1 == u2) and abs(dx) < Lx:
                    # (the hermitian conjugate can only be added to a term which conserves the charges)
                    for hc, ex in ((False, False), (True, False), (True, True)) if not any(ch) else ((False, False),):
                        yield dict(chain=chain, Lx=Lx, how='coupling', ops=ops, plus_hc=hc, explicit_plus_hc=ex, seed=seed)
                    x0 = max(0, -dx)  # a single term, operators given right-to-left
                    yield dict(chain=chain, Lx=Lx, how='local', ops=[[op2, x0 + dx, u2], [op1, x0, u1]], plus_hc=not any(ch), seed=seed)
            for dxs, ks in MULTI[tier].get(chain, []):
                pos = [(op, dx, u) for (op, u) in lets for dx in dxs]
                for ops in itertools.chain(*[itertools.product(pos, repeat=k) for k in ks]):
                    ch = charge(ops)
                    if ch[0] == 0 and len({(dx, u) for _, dx, u in ops}) > 1:
                        sw = 'middle_op' if sum(dx for _, dx, _ in ops) % 2 else 'middle_i'
                        yield dict(chain=chain, Lx=Lx, how='multi', ops=[list(o) for o in ops], plus_hc=not any(ch) and bool(ops[0][1] % 2), switchLR=sw, seed=seed)
    elif kind == 'gterm':
        for chain, L, n, k in [('F:N', 4, 2, 2), ('F:parity', 4, 2, 2), ('SHF:parity,None', 4, 2, 2), ('mixed:None', 4, 2, 2), ('species:N,Sz', 4, 2, 2),
                               ('F:None', 6, 3, 2)] + ([] if q else [('F:N', 4, 2, 3), ('F:N', 6, 2, 2), ('species:N,Sz', 4, 2, 3), ('SHF:N,Sz', 4, 2, 2)]):
            for t in itertools.product(letters(chain, L), repeat=k):
                yield dict(chain=chain, L=L, n=n, term=[list(x) for x in t], seed=seed)


def nontrivial(kind, case):
    """Cases in which the bookkeeping under test actually matters (a charge is conserved / a JW string is needed)."""
    if kind in ('site', 'mutate'):
        return any(case['spec'][1].get(k) for k in ('conserve', 'cons_N', 'cons_Sz'))
    if kind in ('term', 'gterm'):  # (the names of the fermionic operators of the sites used start with 'C')
        return len({i for op, i in case['term'] if op.startswith('C')}) >= 2
    return True


def units(tier, seed, label):
    us = []
    for kind in CHECKS:
        n = sum(1 for _ in cases(kind, tier, seed))
        us += [(kind, a, min(n, a + CHUNK[kind]), tier, seed) for a in range(0, n, CHUNK[kind])]
    return us


def run_case(kind, case):
    try:
        return CHECKS[kind](case)
    except Exception as e:  # noqa: BLE001
        return [('%s:exception:%s' % (kind, type(e).__name__), '%s: %s\n%s' % (case, e, traceback.format_exc()[-1500:]))]


def run_unit(unit):
    kind, a, b, tier, seed = unit
    ev = nt = 0
    viol, per_key, outcomes, samples = [], {}, set(), []
    for case in itertools.islice(cases(kind, tier, seed), a, b):
        ev += 1
        nt += bool(nontrivial(kind, case))
        res = run_case(kind, case)
        nf = ':%d fermionic operators' % sum(op.startswith('C') for op, _ in case['term']) if 'term' in case else ''
        outcomes.add(kind + nf + (':ok' if not res else ':violation'))
        for key, what in res:
            per_key[key] = per_key.get(key, 0) + 1
            if per_key[key] <= 2 and len(viol) < 16:
                viol.append(dict(key=key, what=what[:3000], case=dict(case, kind=kind)))
        if not samples:
            samples.append(dict(case, kind=kind) if kind != 'mposum' else dict(kind=kind, chain=case['chain'], L=case['L'], n_terms=len(case['terms'])))
    return dict(evaluations=ev, nontrivial_count=nt, violations=viol, outcomes=outcomes, samples=samples, extra={'cases_' + kind: ev})


def replay(case):
    case = dict(case)
    kind = case.pop('kind')
    res = run_case(kind, case)
    return dict(evaluations=1, violations=[dict(key=k, what=w, case=dict(case, kind=kind)) for k, w in res])


def selfcheck(tier, seed, label):
    """Determinism: the same unit twice gives the same observations."""
    unit = ('term', 0, 40, tier, seed)
    r1, r2 = run_unit(unit), run_unit(unit)
    if (r1['evaluations'], r1['violations']) != (r2['evaluations'], r2['violations']):
        return 'unit %r gives different results when repeated' % (unit,)
