"""C07 -- an MPS always denotes the state it was built from.

Grid parts (exhaustive over stated finite spaces, dense reference = own numpy contraction, checks/c07_dense.py):
  P    from_product_state: all product states (index / label / vector / mixed entries, permute on/off, forms, bc)
  LP   from_lat_product_state: all tilings of small 2D lattices in every order
  F    from_full: all basis states, all two-term superpositions inside a charge sector, generic vectors, segments
  BF   from_Bflat: non-canonical charge-symmetric tensors with non-uniform bond dimensions (finite and infinite)
  S    from_singlets: all oriented perfect / imperfect matchings
  SI   from_singlets with bc='infinite': all matchings with pairs inside or reaching into the next unit cell
  COV  from_product_mps_covering: all coverings by 1-, 2- (and one 3-) site MPS with every index map
  PROJ project_onto_charge_sector: all reachable sectors
Model-checking part (checks/c07_hist.py):
  H    BFS (to the fixed point of the abstract state graph, and unmerged to depth 2-3) over histories of
       convert_form / canonical_form* / set_B / set_SL / copy / gauge changes, from finite, segment and infinite seeds.
"""
import itertools
import logging
import warnings

import numpy as np

from checks import c07_dense as D
from checks import c07_hist as H
from checks import c07_univ as U
from checks.c07_hist import Bad

UNIT_TIMEOUT = 1500.0
FORMS = ['B', 'A', 'C', 'G', None]


# ------------------------------------------------------------------------------------------------ shared checks

def call(name, fn):
    try:
        with warnings.catch_warnings():
            warnings.simplefilter('ignore')
            return fn()
    except Exception as e:  # noqa: BLE001
        raise Bad('%s:exception:%s' % (name, type(e).__name__), '%s raised %r' % (name, e))


def expect_state(psi, ref, norm, name, canonical=True, undo_sort=False):
    """The finite/segment MPS denotes `ref` (dense [vL, p.., vR] incl. norm) and, if canonical, its S are the Schmidt
    values.  Reuses the observation of the history part."""
    if undo_sort:
        ref_sorted = ref
        for k, s in enumerate(psi.sites):  # reference order -> basis of the sites (perm[new] = old)
            ref_sorted = np.take(ref_sorted, np.asarray(s.perm), axis=1 + k)
        ref = ref_sorted
    model = H.Model(psi, ref, canonical)
    model.norm = norm
    try:
        soft = H.observe(psi, model)
    except Bad as e:
        raise Bad('%s:%s' % (name, e.key), e.what)
    if soft:
        raise soft[0]


def expect_product(psi, vecs, name, canonical=True, undo_sort=False):
    """The MPS (any bc) denotes the product state of the local vectors."""
    if psi.finite:
        T = np.ones((1,))
        for v in vecs:
            T = np.multiply.outer(T, np.asarray(v))
        return expect_state(psi, T[0][None, ..., None], 1.0, name, canonical, undo_sort)
    Ns = [(np.asarray(v)[np.asarray(s.perm)] if undo_sort else np.asarray(v))[None, :, None] for v, s in zip(vecs, psi.sites)]
    inf = D.Infinite(Ns)
    model = H.Model(psi, dict(rho=inf.rho(1), schmidt=[np.ones(1)] * psi.L), canonical)
    model.norm, model.scale = 1.0, 1.0
    try:
        soft = H.observe(psi, model, window=1)
    except Bad as e:
        raise Bad('%s:%s' % (name, e.key), e.what)
    if soft:
        raise soft[0]


# ------------------------------------------------------------------------------------------------ P: product states

def ref_label(key, j):
    """A label of reference-basis state j of the site (from the conserve=None twin)."""
    tw = U.twin(key)
    if tw is None:
        return None
    names = sorted(n for n, v in tw.state_labels.items() if v == j)
    return names[0] if names else None


def check_P(case):
    from tenpy.networks.mps import MPS
    keys = U.chain_keys(case['chain'], case['L'])
    sites = [U.site(k) for k in keys]
    kind, permute = case['kind'], case.get('permute', True)
    rng = np.random.default_rng([case.get('seed', 0), 3])
    p_state, vecs = [], []
    for i, (k, s, j) in enumerate(zip(keys, sites, case['idx'])):
        e = np.zeros(s.dim)
        e[j] = 1.0
        how = kind if kind != 'mix' else ('int', 'label', 'vec')[i % 3]
        if how == 'label' and ref_label(k, j) is None:
            how = 'int'
        if how == 'gen':  # generic vector inside the local charge sector of reference state j
            lq = U.local_charges(s)
            inv = np.argsort(np.asarray(s.perm)) if permute else np.arange(s.dim)
            same = [m for m in range(s.dim) if lq[inv[m]] == lq[inv[j]]]
            e = np.zeros(s.dim, dtype=complex)
            e[same] = U.values(rng, (len(same),), True)
            e /= np.linalg.norm(e)
        vecs.append(e)
        p_state.append(int(j) if how == 'int' else (ref_label(k, j) if how == 'label' else e))
    dtype = complex if kind == 'gen' else float
    psi = call('from_product_state', lambda: MPS.from_product_state(sites, p_state, bc=case['bc'], dtype=dtype, permute=permute, form=case['form'],
                                                                    unit_cell_width=case['L']))
    if psi.form != H.form_tuples(case['form'], case['L']):
        raise Bad('from_product_state:forms', 'psi.form = %r for form=%r' % (psi.form, case['form']))
    if psi.bc != case['bc'] or any(c != 1 for c in psi.chi):
        raise Bad('from_product_state:bc-chi', 'bc %r chi %r' % (psi.bc, psi.chi))
    expect_product(psi, vecs, 'from_product_state', canonical=case['form'] is not None, undo_sort=permute)
    if kind != 'gen' and case['bc'] == 'finite' and sites[0].leg.chinfo.qnumber:
        inv = [np.argsort(np.asarray(s.perm)) if permute else np.arange(s.dim) for s in sites]
        q = tuple([0] * sites[0].leg.chinfo.qnumber)
        for s, iv, j in zip(sites, inv, case['idx']):
            q = U.add_charges(s.leg.chinfo, q, U.local_charges(s)[iv[j]])
        got = tuple(int(x) for x in call('get_total_charge', lambda: psi.get_total_charge(only_physical_legs=True)))
        if got != q:
            raise Bad('get_total_charge', 'get_total_charge(True) = %r, the basis state has charge %r' % (got, q))


def cases_P(unit):
    _, chain, L, bc, form, tier = unit
    sites = U.chain(chain, L)
    charged = sites[0].leg.chinfo.qnumber > 0
    for idx in itertools.product(*[range(s.dim) for s in sites]):
        kinds = ['int', 'label', 'vec', 'mix'] if form == 'B' else ['mix']
        for kind in kinds:
            yield dict(part='P', chain=chain, L=L, bc=bc, form=form, kind=kind, idx=list(idx), permute=True)
        if charged and form in ('B', None):
            yield dict(part='P', chain=chain, L=L, bc=bc, form=form, kind='int', idx=list(idx), permute=False)
        if form in ('B', 'C'):
            yield dict(part='P', chain=chain, L=L, bc=bc, form=form, kind='gen', idx=list(idx), permute=(form == 'B'))


# ------------------------------------------------------------------------------------------------ LP: lattice product states

LATTICES = [('Square', [2, 2], ['sh']), ('Square', [3, 2], ['shz']), ('Ladder', [2], ['shz', 'shz']), ('Honeycomb', [2, 1], ['fN', 'fN']),
            ('Chain', [4], ['s1z']), ('Kagome', [1, 2], ['sh', 'sh', 'sh'])]
ORDERS = ['default', 'snake', 'Fstyle', 'snakeFstyle']


def make_lattice(name, Ls, skeys, order, bc_MPS):
    from tenpy.models import lattice
    cls = getattr(lattice, name)
    ss = [U.site(k) for k in skeys]
    args = list(Ls) + [ss if name in ('Ladder', 'Honeycomb', 'Kagome') else ss[0]]
    return cls(*args, order=order, bc_MPS=bc_MPS, bc=['periodic' if bc_MPS == 'infinite' else 'open'] + ['open'] * (len(Ls) - 1))


def check_LP(case):
    from tenpy.networks.mps import MPS
    name, Ls, skeys = LATTICES[case['lat']]
    lat = call('lattice', lambda: make_lattice(name, Ls, skeys, case['order'], case['bc']))
    tile = tuple(case['tile'])
    entries = np.array(case['entries']).reshape(tile)
    sites = lat.mps_sites()
    how = case['how']
    p = np.empty(tile, dtype=object)
    for t in np.ndindex(*tile):
        p[t] = int(entries[t]) if how == 'int' else ref_label(skeys[0], int(entries[t]))
    if how == 'vec':
        d = sites[0].dim
        p = np.zeros(tile + (d,))
        for t in np.ndindex(*tile):
            p[t + (int(entries[t]),)] = 1.0
    psi = call('from_lat_product_state', lambda: MPS.from_lat_product_state(lat, p.tolist() if how != 'vec' else p))
    vecs = []
    for k in range(lat.N_sites):
        li = tuple(int(x) % tile[a] for a, x in enumerate(lat.order[k]))
        e = np.zeros(sites[k].dim)
        e[int(entries[li])] = 1.0
        vecs.append(e)
    if psi.bc != case['bc'] or psi.L != lat.N_sites:
        raise Bad('from_lat_product_state:bc-L', 'bc %r L %r' % (psi.bc, psi.L))
    expect_product(psi, vecs, 'from_lat_product_state', undo_sort=True)


def cases_LP(unit):
    _, li, order, bc, tier = unit
    name, Ls, skeys = LATTICES[li]
    d = U.site(skeys[0]).dim
    shape = tuple(Ls) + (len(skeys) if name in ('Ladder', 'Honeycomb', 'Kagome') else 1,)
    tiles = list(itertools.product(*[[t for t in range(1, n + 1) if n % t == 0] for n in shape]))
    for tile in tiles:
        n = int(np.prod(tile))
        if d ** n <= (64 if tier == 'quick' else 256):
            assigns = itertools.product(range(d), repeat=n)
        else:  # larger tiles: every cyclic shift of a pattern with distinct neighbours
            assigns = [[(a + k + (k // tile[-1])) % d for k in range(n)] for a in range(d)]
        for ent in assigns:
            for how in ('int', 'label', 'vec'):
                yield dict(part='LP', lat=li, order=order, bc=bc, tile=list(tile), entries=[int(x) for x in ent], how=how)


# ------------------------------------------------------------------------------------------------ F: from_full

COEF = [(1.0 / np.sqrt(3.0), -np.sqrt(2.0 / 3.0)), (np.sqrt(0.5) * np.exp(0.7j), np.sqrt(0.5) * np.exp(-1j * np.sqrt(2.0)))]


def check_F(case):
    from tenpy.networks.mps import MPS
    sites = U.chain(case['chain'], case['L'])
    L = case['L']
    src = case['src']
    bc = case.get('bc', 'finite')
    extra, outer = [], None
    if src[0] == 'basis':
        v = np.zeros(U.dims(sites))
        v[tuple(src[1])] = src[2]
    elif src[0] == 'pair':
        a, b = COEF[src[3]]
        v = np.zeros(U.dims(sites), dtype=np.result_type(a, b))
        v[tuple(src[1])] = 2.0 * a
        v[tuple(src[2])] = 2.0 * b
    elif src[0] == 'gen':
        v = U.generic_vector(sites, tuple(src[1]), case['seed'], src[2])
    else:  # segment
        v, legs, outer = H.segment_theta(sites, case['seed'], src[1])
        v = 1.5 * v
        extra = [('vL', legs[0], 0), ('vR', legs[1], -1)]
    a = U.to_npc(v, sites, extra=extra)
    if case.get('shuffle'):
        a = a.transpose(a.get_leg_labels()[::-1])
    psi = call('from_full', lambda: MPS.from_full(sites, a, form=case['form'], normalize=case['normalize'], bc=bc, outer_S=outer, unit_cell_width=L))
    forms = H.form_tuples('A', 1) + H.form_tuples('B', L - 1) if case['form'] is None else H.form_tuples(case['form'], L)
    if psi.form != forms:
        raise Bad('from_full:forms', 'psi.form = %r for form=%r' % (psi.form, case['form']))
    nrm = float(np.linalg.norm(v))
    ref = v if bc == 'segment' else v[None, ..., None]
    expect_state(psi, ref / nrm if case['normalize'] else ref, 1.0 if case['normalize'] else nrm, 'from_full')


def cases_F(unit):
    _, chain, L, what, tier, seed = unit
    sites = U.chain(chain, L)
    sec = U.sectors(sites)
    combos = [(f, n) for f in [None, 'A', 'B', 'C', 'G'] for n in (True, False)]
    base = dict(part='F', chain=chain, L=L, seed=seed)
    if what == 'basis':
        k = 0
        for q in sorted(sec):
            for idx in sec[q]:
                for f, n in (combos if k % 7 == 0 else [combos[k % len(combos)]]):
                    yield dict(base, src=['basis', list(idx), [1.0, -0.5, 2.0][k % 3]], form=f, normalize=n, shuffle=bool(k % 2))
                k += 1
    elif what == 'pair':
        k = 0
        for q in sorted(sec):
            for i1, i2 in itertools.combinations(sec[q], 2):
                f, n = combos[k % len(combos)]
                yield dict(base, src=['pair', list(i1), list(i2), k % 2], form=f, normalize=n, shuffle=bool((k // 2) % 2))
                k += 1
    elif what == 'gen':
        for q in sorted(sec):
            if len(sec[q]) < 2:
                continue
            for cplx in (False, True):
                for f, n in combos:
                    yield dict(base, src=['gen', list(q), cplx], form=f, normalize=n, shuffle=cplx)
    else:
        for cplx in (False, True):
            for f, n in combos:
                yield dict(base, bc='segment', src=['seg', cplx], form=f, normalize=n, shuffle=cplx)


# ------------------------------------------------------------------------------------------------ BF: from_Bflat

def check_BF(case):
    from tenpy.networks.mps import MPS
    sites = U.chain(case['chain'], case['L'])
    L = case['L']
    infinite = case['bc'] == 'infinite'
    sector = None if infinite else tuple(case['sector'])
    Bs, virt, qtot = U.raw_tensors(sites, sector, case['mult'], case['seed'], case['cplx'], infinite)
    if case.get('canonical'):
        # right-canonical tensors and their singular values from our own dense sweep: form 'B' with SVs must be kept
        Bs, SVs = right_canonical(Bs)
        form = 'B'
    else:
        SVs = [np.ones(len(v)) / np.sqrt(len(v)) for v in virt] if case['svs'] else None
        form = None
    flat = []
    for s, B in zip(sites, Bs):
        Bp = B.transpose(1, 0, 2)
        flat.append(Bp[np.argsort(np.asarray(s.perm))] if case['permute'] else Bp)
    import tenpy.linalg.np_conserved as npc
    legL = npc.LegCharge.from_qflat(sites[0].leg.chinfo, [list(q) for q in virt[0]]).bunch()[1]  # conventional charges on bond 0
    psi = call('from_Bflat', lambda: MPS.from_Bflat(sites, flat, SVs, bc=case['bc'], permute=case['permute'], form=form, legL=legL, unit_cell_width=L))
    # from_Bflat canonicalises (and thereby normalises) only if L > 1 and chi > 1; otherwise the tensors are kept as given
    canon = all(f is not None for f in psi.form)
    if canon != (L > 1 and max(len(v) for v in virt) > 1) and form is None:
        raise Bad('from_Bflat:forms', 'psi.form = %r with L = %d, chi = %r' % (psi.form, L, psi.chi))
    if infinite:
        inf = D.Infinite(Bs)
        model = H.Model(psi, dict(rho=inf.rho(2), schmidt=[inf.schmidt(b) for b in range(L)]), canon)
        model.norm, model.scale = 1.0, (1.0 if canon else inf.eta)
        try:
            H.observe(psi, model)
        except Bad as e:
            raise Bad('from_Bflat:infinite:' + e.key, e.what)
        return
    T = U.contract(Bs)
    expect_state(psi, T / np.linalg.norm(T) if canon else T, 1.0, 'from_Bflat', canonical=canon)


def right_canonical(Bs):
    """Own dense right-to-left SVD sweep of finite-chain tensors: B-form tensors and all singular values."""
    Bs = [B.copy() for B in Bs]
    L = len(Bs)
    SVs = [np.ones(1)] * (L + 1)
    for i in range(L - 1, 0, -1):
        a, d, b = Bs[i].shape
        Um, s, Vh = np.linalg.svd(Bs[i].reshape(a, d * b), full_matrices=False)
        keep = s > 1e-12 * s[0]
        Um, s, Vh = Um[:, keep], s[keep], Vh[keep]
        Bs[i] = Vh.reshape(-1, d, b)
        Bs[i - 1] = np.tensordot(Bs[i - 1], Um * (s / np.linalg.norm(s)), axes=[[2], [0]])
        SVs[i] = s / np.linalg.norm(s)
    Bs[0] = Bs[0] / np.linalg.norm(Bs[0])
    return Bs, SVs


def cases_BF(unit):
    _, chain, L, bc, tier, seed = unit
    sites = U.chain(chain, L)
    mults = [[1, 2, 3, 2], [2, 1], [3]] if tier != 'quick' else [[1, 2, 3, 2], [2, 1]]
    base = dict(part='BF', chain=chain, L=L, bc=bc, seed=seed)
    secs = [None] if bc == 'infinite' else U.big_sectors(sites, 2 if tier == 'quick' else 4)
    for q in secs:
        if q is not None and len(U.sectors(sites)[q]) < 2:
            continue
        for mult in mults:
            for cplx in (False, True):
                for svs in (False, True):
                    yield dict(base, sector=None if q is None else list(q), mult=mult, cplx=cplx, svs=svs, permute=not svs)
            if bc == 'finite' and not sites[0].leg.chinfo.qnumber:
                yield dict(base, sector=list(q), mult=mult, cplx=True, svs=True, permute=True, canonical=True)


# ------------------------------------------------------------------------------------------------ S / COV: coverings

def matchings(L):
    """All oriented partial matchings of range(L): list of (pairs, lonely)."""
    out = []

    def rec(free, pairs):
        if not free:
            out.append(pairs)
            return
        i = free[0]
        rec(free[1:], pairs)
        for j in free[1:]:
            rest = [x for x in free[1:] if x != j]
            rec(rest, pairs + [(i, j)])
            rec(rest, pairs + [(j, i)])

    rec(list(range(L)), [])
    return [(p, [i for i in range(L) if all(i not in q for q in p)]) for p in out]


def place(blocks):
    """Product of local tensors: blocks = list of (dense local tensor, tuple of global site indices)."""
    full = np.ones(())
    order = []
    for t, inds in blocks:
        full = np.multiply.outer(full, t)
        order += list(inds)
    return full.transpose(np.argsort(order))[None, ..., None]


def check_S(case):
    from tenpy.networks.mps import MPS
    s = U.site(case['site'])
    L = case['L']
    up, down = s.state_labels['up'], s.state_labels['down']
    sing = np.zeros((s.dim, s.dim))
    sing[up, down], sing[down, up] = np.sqrt(0.5), -np.sqrt(0.5)
    blocks = [(sing, tuple(p)) for p in case['pairs']]
    lon = case['lonely_state']
    for i in case['lonely']:
        e = np.zeros(s.dim)
        e[s.state_labels[lon]] = 1.0
        blocks.append((e, (i,)))
    kw = dict(lonely=case['lonely'], lonely_state=lon) if case['lonely'] else {}
    if case.get('by_index') and list(s.perm) == list(range(s.dim)):  # indices refer to the conserve=None order
        kw.update(up=int(up), down=int(down))
    psi = call('from_singlets', lambda: MPS.from_singlets(s, L, [tuple(p) for p in case['pairs']], bc='finite', unit_cell_width=L, **kw))
    if psi.form != H.form_tuples('B', L):
        raise Bad('from_singlets:forms', 'psi.form = %r' % (psi.form,))
    expect_state(psi, place(blocks), 1.0, 'from_singlets')


def cases_S(unit):
    _, skey, L, tier = unit
    for k, (pairs, lonely) in enumerate(matchings(L)):
        if not pairs:
            continue
        yield dict(part='S', site=skey, L=L, pairs=[list(p) for p in pairs], lonely=lonely, lonely_state=('up', 'down')[k % 2], by_index=bool(k % 3 == 0))


def check_SI(case):
    """from_singlets with bc='infinite': pairs may reach into the next unit cell; the state is the product of the
    singlets (i + n L, j + n L) over all n.  Reference: dense state of all singlets touching a window of 2 unit cells,
    outside sites traced out."""
    from tenpy.networks.mps import MPS
    s = U.site(case['site'])
    L, W = case['L'], 2
    up, down = s.state_labels['up'], s.state_labels['down']
    sing = np.zeros((s.dim, s.dim))
    sing[up, down], sing[down, up] = np.sqrt(0.5), -np.sqrt(0.5)
    lone = np.zeros(s.dim)
    lone[s.state_labels[case['lonely_state']]] = 1.0
    blocks = []
    for n in range(-2, W + 2):
        for i, j in case['pairs']:
            if any(0 <= x + n * L < W * L for x in (i, j)):
                blocks.append((sing, (i + n * L, j + n * L)))
    blocks += [(lone, (i + n * L,)) for n in range(W) for i in case['lonely']]
    where = sorted(x for _, inds in blocks for x in inds)
    T = place([(t, tuple(where.index(x) for x in inds)) for t, inds in blocks])[0, ..., 0]
    inside = [k for k, x in enumerate(where) if 0 <= x < W * L]
    T = np.moveaxis(T, inside, range(len(inside))).reshape(s.dim ** len(inside), -1)
    crossing = [sum(1 for n in range(-3, 4) for i, j in case['pairs'] if min(i, j) + n * L < b <= max(i, j) + n * L) for b in range(L)]
    kw = dict(lonely=case['lonely'], lonely_state=case['lonely_state']) if case['lonely'] else {}
    psi = call('from_singlets', lambda: MPS.from_singlets(s, L, [tuple(p) for p in case['pairs']], bc='infinite', unit_cell_width=L, **kw))
    model = H.Model(psi, dict(rho=T @ T.conj().T, schmidt=[np.full(2 ** k, 2.0 ** (-k / 2.0)) for k in crossing]), True)
    model.norm, model.scale = 1.0, 1.0
    try:
        soft = H.observe(psi, model, window=W)
    except Bad as e:
        raise Bad('from_singlets:infinite:' + e.key, e.what)
    if soft:
        raise soft[0]


def cases_SI(unit):
    _, skey, L, tier = unit
    k = 0
    for pairs, lonely in matchings(L):
        if not pairs or any(i > j for i, j in pairs):
            continue
        # every pair (i, j), i < j, may instead join j with site i of the next unit cell, in both orientations
        for choice in itertools.product(range(4), repeat=len(pairs)):
            pp = [[(i, j), (j, i), (j, i + L), (i + L, j)][c] for (i, j), c in zip(pairs, choice)]
            yield dict(part='SI', site=skey, L=L, pairs=[list(p) for p in pp], lonely=lonely, lonely_state=('up', 'down')[k % 2])
            k += 1


def partitions(L, sizes):
    """All ordered-block coverings of range(L): set partitions with block sizes in `sizes`, every order inside a block."""
    out = []

    def rec(free, blocks):
        if not free:
            out.append(blocks)
            return
        i = free[0]
        for n in sizes:
            for others in itertools.combinations(free[1:], n - 1):
                rest = [x for x in free[1:] if x not in others]
                for perm in itertools.permutations((i,) + others):
                    rec(rest, blocks + [perm])

    rec(list(range(L)), [])
    return out


def local_state(sites_loc, k, seed):
    """Deterministic generic local state on 1-3 sites inside a charge sector (dense tensor, normalised)."""
    sec = U.sectors(sites_loc)
    qs = sorted(sec, key=lambda q: (-len(sec[q]), q))
    q = qs[k % min(len(qs), 3)]
    v = U.generic_vector(sites_loc, q, seed + 17 * k, len(sites_loc) > 1 and k % 2 == 1)
    return v / np.linalg.norm(v)


def check_COV(case):
    from tenpy.networks.mps import MPS
    L = case['L']
    keys = U.chain_keys(case['chain'], L)
    blocks, covering = [], []
    for k, inds in enumerate(case['index_map']):
        sl = [U.site(keys[i]) for i in inds]
        v = local_state(sl, k + case.get('shift', 0), case['seed'])
        blocks.append((v, tuple(inds)))
        if len(inds) == 1:
            covering.append(MPS.from_product_state(sl, [v], dtype=v.dtype, permute=False, unit_cell_width=1))
        else:
            covering.append(MPS.from_full(sl, U.to_npc(v, sl), form=('B', 'A', 'C')[k % 3], unit_cell_width=len(sl)))
    # classes of index maps (for stable keys): a block whose sorting permutation is not an involution / a block that
    # spans a site of another block
    cyclic = any(list(np.argsort(np.argsort(b))) != list(np.argsort(b)) for b in case['index_map'])
    crossing = any(min(b) < i < max(b) for b in case['index_map'] for c in case['index_map'] if c is not b for i in c)
    try:
        psi = call('from_product_mps_covering', lambda: MPS.from_product_mps_covering(covering, [tuple(i) for i in case['index_map']], unit_cell_width=L))
        if psi.form != H.form_tuples('B', L):
            raise Bad('from_product_mps_covering:forms', 'psi.form = %r' % (psi.form,))
        if [s.dim for s in psi.sites] != [U.site(k).dim for k in keys]:
            raise Bad('from_product_mps_covering:sites', 'sites of the result are not those of the local MPS at the mapped positions')
        expect_state(psi, place(blocks), 1.0, 'from_product_mps_covering')
    except Bad as e:
        tag = (':crossing' if crossing else '') if 'exception' in e.key else (':cyclic-index-map' if cyclic else '')
        raise Bad(e.key + tag, e.what)


def cases_COV(unit):
    _, chain, L, sizes, tier, seed = unit
    for k, blocks in enumerate(partitions(L, sizes)):
        if max(len(b) for b in blocks) < max(sizes):
            continue
        for shift in range(2 if tier == 'quick' else 3):
            yield dict(part='COV', chain=chain, L=L, index_map=[list(b) for b in blocks], shift=shift, seed=seed)


# ------------------------------------------------------------------------------------------------ PROJ

def check_PROJ(case):
    from tenpy.networks.mps import MPS
    sites = U.chain(case['chain'], case['L'])
    L = case['L']
    d = sites[0].dim
    rng = np.random.default_rng([case['seed'], 5])
    # palindromic local vectors: the (undocumented) basis order of p_state_list does not matter for them
    pl = []
    for i in range(L):
        x = 0.5 + rng.random(d)
        pl.append((x + x[::-1]) if case['generic'] else np.ones(d))
    q = tuple(case['sector'])
    psi = call('project_onto_charge_sector', lambda: MPS.project_onto_charge_sector(sites, np.array(pl), q, unit_cell_width=L))
    T = np.zeros(U.dims(sites))
    for idx in U.sectors(sites)[q]:
        T[idx] = np.prod([pl[i][j] for i, j in enumerate(idx)])
    expect_state(psi, (T / np.linalg.norm(T))[None, ..., None], 1.0, 'project_onto_charge_sector')


def cases_PROJ(unit):
    _, chain, L, tier, seed = unit
    sites = U.chain(chain, L)
    for q in sorted(U.sectors(sites)):
        for generic in (False, True):
            yield dict(part='PROJ', chain=chain, L=L, sector=list(q), generic=generic, seed=seed)


# ------------------------------------------------------------------------------------------------ driver API

CHECK = dict(P=check_P, LP=check_LP, F=check_F, BF=check_BF, S=check_S, SI=check_SI, COV=check_COV, PROJ=check_PROJ)
CASES = dict(P=cases_P, LP=cases_LP, F=cases_F, BF=cases_BF, S=cases_S, SI=cases_SI, COV=cases_COV, PROJ=cases_PROJ)
SAME_DIM = [c for c in U.CHAINS if len(set(U.CHAINS[c])) == 1]


def history_seeds(tier, seed):
    quick = tier == 'quick'
    out = []
    fin = ['shz', 'sh', 's1z', 'fp', 'shf', 'mixSz'] if quick else list(U.CHAINS)
    for k, ch in enumerate(fin):
        big = U.site(U.CHAINS[ch][0]).dim > 2
        for L in ([3] if big else [4]) if quick else ([3, 4] if big else [3, 4, 5, 6]):
            out.append(dict(chain=ch, L=L, bc='finite', kind='full', seed=seed, cplx=bool(k % 2)))
            out.append(dict(chain=ch, L=L, bc='finite', kind='raw', seed=seed, cplx=not k % 2, mult=[1, 2, 3, 2], norm=1.7))
            if L == 4:  # more virtual states than the Schmidt rank: canonical_form has to reduce the bond dimensions
                out.append(dict(chain=ch, L=L, bc='finite', kind='raw', seed=seed, cplx=bool(k % 2), mult=[1, 3, 5, 3], norm=0.5))
        out.append(dict(chain=ch, L=3, bc='segment', kind='segment', seed=seed, cplx=bool(k % 2)))
        out.append(dict(chain=ch, L=3, bc='segment', kind='segment_raw', seed=seed, cplx=not k % 2))
    out.append(dict(chain='shz', L=4, bc='finite', kind='raw', seed=seed, cplx=True, mult=[1, 2, 2, 2], norm=0.5, unbunched=True))
    inf = [('sh', 1), ('shz', 2), ('s1z', 1), ('shp', 3), ('fN', 2), ('mix0', 3)] if quick else \
        [('sh', 1), ('sh', 2), ('sh', 3), ('shz', 2), ('s1z', 1), ('s1z', 2), ('s1z', 3), ('shp', 1), ('shp', 3), ('fp', 2), ('fN', 2), ('b2N', 2),
         ('shf', 2), ('shfN', 2), ('mix0', 3), ('mixSz', 2), ('mixN', 2), ('grp', 2), ('f', 3)]
    for k, (ch, L) in enumerate(inf):
        cell = int(np.prod(U.dims(U.chain(ch, L))))
        out.append(dict(chain=ch, L=L, bc='infinite', kind='raw', seed=seed, cplx=bool(k % 2), mult=[2, 1, 2][:L] if L > 1 else [3], norm=1.3,
                        window=3 if cell ** 3 <= 256 else 2))  # unit cells in the compared reduced density matrix
    out.append(dict(chain='shz', L=2, bc='infinite', kind='raw', seed=seed, cplx=False, mult=[2, 1], norm=1.0, unbunched=True))
    out.append(dict(chain='sh', L=2, bc='infinite', kind='raw', seed=seed, cplx=True, mult=[2, 5], norm=0.5, window=3))  # rank deficient
    return out


def units(tier, seed, label):
    if label == 'PY':  # the pure-Python configuration runs the quick-sized universe
        tier = 'quick'
    quick = tier == 'quick'
    us = []
    seeds = history_seeds(tier, seed)
    for sd in seeds:
        us.append(('H', sd, 8, tier, True))     # to the fixed point of the abstract state graph
    for sd in [x for x in seeds if x['chain'] in ('shz', 's1z') and x['L'] <= 4 and not x.get('unbunched')]:
        us.append(('H', sd, 2 if quick else 3, tier, False))  # every history, no merging of states
    chains = list(U.CHAINS)
    for ch in chains:
        big = max(U.site(k).dim for k in U.CHAINS[ch]) > 2
        for L in (2, 3):
            for form in FORMS:
                us.append(('P', ch, L, 'finite', form, tier))
            us.append(('P', ch, L, 'infinite', 'B', tier))
            us.append(('P', ch, L, 'segment', 'B', tier))
        if not big:
            for L in range(4, 7 if quick else 9):
                us.append(('P', ch, L, 'finite', 'B' if L % 2 else 'A', tier))
    for li in range(len(LATTICES)):
        for order in ORDERS:
            for bc in ('finite', 'infinite'):
                us.append(('LP', li, order, bc, tier))
    for ch in chains:
        big = max(U.site(k).dim for k in U.CHAINS[ch]) > 2
        Ls = ([2, 3] if big else [2, 3, 4]) if quick else ([2, 3, 4] if big else [2, 3, 4, 5, 6])
        if ch == 'b2N' and not quick:
            Ls = [2, 3, 4, 5, 6]
        for L in Ls:
            for what in ('basis', 'pair', 'gen', 'seg'):
                if what == 'seg' and L > 4:
                    continue
                if what == 'pair' and int(np.prod(U.dims(U.chain(ch, L)))) > (81 if quick else 256):
                    continue
                us.append(('F', ch, L, what, tier, seed))
    for ch in chains:
        for L in ([3, 5] if quick else [2, 3, 4, 5, 6]):
            us.append(('BF', ch, L, 'finite', tier, seed))
    for ch, L in ([('sh', 1), ('shz', 2), ('s1z', 1), ('fN', 2), ('mix0', 3), ('shp', 3)] if quick else
                  [(sd['chain'], sd['L']) for sd in history_seeds(tier, seed) if sd['bc'] == 'infinite' and not sd.get('unbunched')]):
        us.append(('BF', ch, L, 'infinite', tier, seed))
    for skey in ('shz', 'sh', 'shp', 's1z'):
        for L in range(2, 6 if quick else 7):
            if skey in ('shp', 's1z') and L > (4 if quick else 5):
                continue
            us.append(('S', skey, L, tier))
    for skey in ('shz', 'sh'):
        for L in (2, 3, 4):
            us.append(('SI', skey, L, tier))
    for ch in ('shz', 's1z', 'sh', 'mixSz', 'shp') if not quick else ('shz', 's1z', 'mixSz'):
        for L in (2, 3, 4):
            us.append(('COV', ch, L, [1, 2], tier, seed))
        us.append(('COV', ch, 4, [1, 2, 3], tier, seed))
        us.append(('COV', ch, 6, [2], tier, seed))  # three two-site states: all ways of crossing / nesting them
        if not quick:
            us.append(('COV', ch, 5, [1, 2, 3], tier, seed))
    for ch in [c for c in U.CHARGED if c in SAME_DIM]:
        for L in ([2, 3] if quick else [2, 3, 4]):
            us.append(('PROJ', ch, L, tier, seed))
    return us


def run_unit(unit):
    logging.disable(logging.CRITICAL)
    warnings.simplefilter('ignore')
    if unit[0] == 'H':
        return H.bfs(*unit[1:])
    part = unit[0]
    ev = nontriv = 0
    viol, outcomes = [], set()
    sample = None
    for case in CASES[part](unit):
        ev += 1
        try:
            CHECK[part](case)
            outcomes.add(part + ':ok')
        except Bad as e:
            outcomes.add(part + ':' + e.key)
            if e.key not in [v['key'] for v in viol] and len(viol) < 12:
                viol.append(dict(key=e.key, what='%r: %s' % (case, e.what), case=case))
        nontriv += 1
        sample = case
    return dict(evaluations=ev, nontrivial_count=nontriv, violations=viol, outcomes=sorted(outcomes), samples=[sample] if sample else [])


def replay(case):
    logging.disable(logging.CRITICAL)
    warnings.simplefilter('ignore')
    viol = []
    try:
        if case['part'] == 'H':
            H.replay_history(case['seed'], case['ops'])
        else:
            CHECK[case['part']](case)
    except Bad as e:
        viol.append(dict(key=e.key, what=e.what, case=case))
    return dict(evaluations=1, violations=viol)
