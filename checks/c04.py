"""C04 -- compiled and pure-Python kernels are observationally equivalent.

The same deterministic program list (kernel operation histories of C01 incl. float32/complex64/int64 operands,
direct calls of the paired helper functions, out-of-domain calls that must raise, two small algorithm runs) is
executed in two interpreter processes: CY (helper compiled from the *current* .pyx) and PY (TENPY_NO_CYTHON=1).
Every step emits a digest; checks/c04_finalize.py compares the two digest streams step by step."""
import itertools
import os
import warnings

import numpy as np

from vk import kengine, kernel as K, kseeds

UNIT_TIMEOUT = 1800.0
DTYPES = ('float64', 'complex128', 'float32', 'complex64', 'int64')


def seed_list(ch, tier):
    return kseeds.seeds(ch, tier, ranks=(1, 2, 3), dtypes=DTYPES)


def units(tier, seed, label):
    us = []
    chs = K.CHINFOS_QUICK if tier == 'quick' else K.CHINFOS_THOROUGH
    for ci, ch in enumerate(chs):
        n = len(seed_list(ch, tier))
        stride = (8 if ch in ('U1', 'Z3', 'U1xZ2') else 16) if tier == 'quick' else 2
        chunk = 400 if tier == 'quick' else 150
        for a in range(0, n, chunk):
            us.append(('engine', ch, a, min(n, a + chunk), stride, (ci + 3) % stride, 1))
        if ch in ('U1', 'Z3', 'U1xZ2') or tier != 'quick':
            seeds = seed_list(ch, tier)
            idx = [i for i, (_s, f) in enumerate(seeds) if f == 'r1+conj' and len(_s[0]['present']) >= 2]
            for k in range(1 if tier == 'quick' else 4):
                us.append(('engine', ch, idx[(5 * k + ci) % len(idx)], None, 1, 0, 2))
    for which in ('make_valid', 'find_row_differences', 'map_blocks', 'sliced_copy', 'make_stride', 'pipe_init'):
        for shard in range(2):
            us.append(('helpers', which, shard, 2, tier))
    us.append(('errors',))
    us.append(('smoke', 'dmrg'))
    us.append(('smoke', 'tebd'))
    us.sort(key=lambda u: (u[0] != 'smoke', u[0] != 'engine' or u[6] < 2))
    return us


# ----------------------------------------------------------------------------------------------- engine programs

def run_engine(unit, tier):
    _, ch, a, b, stride, offset, depth = unit
    seeds = seed_list(ch, tier)
    sel = [a] if b is None else [i for i in range(a, b) if i % stride == offset]
    digests = []
    ev = 0
    keys = set()
    sample = None
    for i in sel:
        seed, fam = seeds[i]
        dg = []
        stats, v, k, o = kengine.bfs(seed, depth, set(), tier, digests=dg)
        ev += stats['evaluations']
        for name, d in dg:
            digests.append(('%s#%d:%s' % (ch, i, name), d))
            if (isinstance(d, tuple) and len(d) == 8 and len(d[4]) >= 2) or (isinstance(d, str) and d.startswith('exc')):
                keys.add(hash((ch, i, name)))
        sample = dict(kind='engine', ch=ch, seed_index=i, family=fam, depth=depth, dtype=seed[0]['dtype'], steps=len(dg))
    return dict(evaluations=ev, transitions=ev, states=len(digests), traces=ev, nontrivial_count=len(keys), digests=digests, samples=[sample] if sample else [])


# ----------------------------------------------------------------------------------------------- direct helper calls

def _arr_digest(x):
    if isinstance(x, np.ndarray):
        return ('nd', str(x.dtype), tuple(x.shape), x.tobytes())
    if isinstance(x, (tuple, list)):
        return tuple(_arr_digest(y) for y in x)
    if isinstance(x, (bool, np.bool_)):
        return bool(x)
    return repr(x)


def _call(f, *args):
    try:
        return ('ok', _arr_digest(f(*args)))
    except Exception as e:  # noqa: BLE001
        return ('exc', type(e).__name__)


def run_helpers(unit):
    from tenpy.linalg import charges
    import tenpy.linalg.np_conserved as npc
    _, which, shard, nshards, tier = unit
    out = []
    cnt = 0

    def emit(name, val):
        nonlocal cnt
        if cnt % nshards == shard:
            out.append((name, val))
        cnt += 1

    if which == 'make_valid':
        for chname in K.CHINFOS_THOROUGH:
            ci = K.chinfo(chname)
            qn = ci.qnumber
            window = list(itertools.product(range(-3, 7), repeat=qn))[:400]
            for q in window:
                a1 = np.array(q, dtype=np.int64)
                before = a1.copy()
                r = _call(ci.make_valid, a1)
                try:
                    alias = bool(np.shares_memory(ci.make_valid(a1), a1))  # documented: returns a copy
                except Exception:  # noqa: BLE001
                    alias = None
                emit('make_valid:%s:%r' % (chname, q), (r, 'arg-modified' if not np.array_equal(a1, before) else 'arg-kept', 'aliases-arg' if alias else 'copy'))
                emit('check_valid:%s:%r' % (chname, q), _call(ci.check_valid, np.array([q], dtype=np.int64).reshape(1, qn)))
            for rows in (0, 1, 3):
                a2 = np.array(window[:rows] if rows else [], dtype=np.int64).reshape(rows, qn)
                before = a2.copy()
                r = _call(ci.make_valid, a2)
                try:
                    alias = bool(rows and np.shares_memory(ci.make_valid(a2), a2))
                except Exception:  # noqa: BLE001
                    alias = None
                emit('make_valid2D:%s:%d' % (chname, rows), (r, 'arg-modified' if not np.array_equal(a2, before) else 'arg-kept', 'aliases-arg' if alias else 'copy'))
                emit('check_valid2D:%s:%d' % (chname, rows), _call(ci.check_valid, a2))
            emit('make_valid:None:%s' % chname, _call(ci.make_valid, None))
            emit('make_valid:list:%s' % chname, _call(ci.make_valid, [5] * qn))
    elif which == 'find_row_differences':
        for ncol in (0, 1, 2):
            for nrow in range(0, 5):
                for vals in itertools.product(range(2), repeat=nrow * ncol) if ncol else [()]:
                    q = np.array(vals, dtype=np.int64).reshape(nrow, ncol)
                    emit('frd:%d:%d:%r' % (nrow, ncol, vals), _call(charges._find_row_differences, q))
    elif which == 'map_blocks':
        for n in range(0, 4):
            for sizes in itertools.product(range(0, 4), repeat=n):
                emit('map_blocks:%r' % (sizes,), _call(charges._map_blocks, np.array(sizes, dtype=np.intp)))
    elif which == 'sliced_copy':
        for nd in (1, 2, 3):
            shp_d = (4, 3, 2)[:nd]
            shp_s = (3, 4, 3)[:nd]
            for dtype in (np.float64, np.complex128, np.int64, np.float32):
                src = np.arange(int(np.prod(shp_s)), dtype=dtype).reshape(shp_s) + 1
                for db in itertools.product(range(2), repeat=nd):
                    for sb in itertools.product(range(2), repeat=nd):
                        for sl in itertools.product((1, 2), repeat=nd):
                            if any(db[k] + sl[k] > shp_d[k] or sb[k] + sl[k] > shp_s[k] for k in range(nd)):
                                continue
                            dest = np.zeros(shp_d, dtype=dtype)

                            def f():
                                charges._sliced_copy(dest, np.array(db, dtype=np.intp), src, np.array(sb, dtype=np.intp), np.array(sl, dtype=np.intp))
                                return dest
                            emit('sliced_copy:%s:%r:%r:%r' % (np.dtype(dtype).name, db, sb, sl), _call(f))
    elif which == 'make_stride':
        for n in range(1, 4):  # (rank 0 does not occur: tensors without legs are not allowed)
            for shp in itertools.product(range(1, 4), repeat=n):
                for cstyle in (True, False):
                    emit('make_stride:%r:%s' % (shp, cstyle), _call(charges._make_stride, tuple(shp), cstyle))
    elif which == 'pipe_init':
        for chname in ('U1', 'Z3', 'U1xZ2', 'none'):
            lib = K.leg_library(chname, small=True)
            for l1, l2 in itertools.product(lib, lib):
                for qc in (1, -1):
                    for so, bu in ((True, True), (True, False), (False, True), (False, False)):
                        def f():
                            p = npc.LegPipe([l1.make(), l2.make()], qconj=qc, sort=so, bunch=bu)
                            return (np.asarray(p.slices), np.asarray(p.charges), np.asarray(p.q_map), np.asarray(p.q_map_slices),
                                    np.asarray(p._perm) if p._perm is not None else np.zeros(0), bool(p.sorted), bool(p.bunched))
                        emit('pipe:%s:%s:%s:%d:%s%s' % (chname, l1.key()[1:], l2.key()[1:], qc, so, bu), _call(f))
    return dict(evaluations=len(out), nontrivial_count=len(out), digests=out, samples=[dict(kind='helper', which=which, first=out[0][0] if out else None)])


# ----------------------------------------------------------------------------------------------- error classes

def run_errors(unit):
    import tenpy.linalg.np_conserved as npc
    out = []
    ci = K.chinfo('U1')
    l = npc.LegCharge.from_qflat(ci, [0, 1, 1], 1)
    l2 = npc.LegCharge.from_qflat(ci, [0, 0, 1], 1)
    a = npc.Array.from_func(np.ones, [l, l.conj()], labels=['a', 'b'])
    b = npc.Array.from_func(np.ones, [l, l.conj()], qtotal=[1], labels=['a', 'b'])
    c = npc.Array.from_func(np.ones, [l2, l.conj()], labels=['a', 'b'])
    z = npc.Array.from_func(np.ones, [npc.LegCharge.from_qflat(K.chinfo('Z2'), [0, 1, 1], 1)] * 2)
    progs = [
        ('tensordot:same-qconj', lambda: npc.tensordot(a, a, axes=(0, 0))),
        ('tensordot:different-blocks', lambda: npc.tensordot(a, c, axes=(1, 0))),
        ('tensordot:axes-length', lambda: npc.tensordot(a, a, axes=([0, 1], [0]))),
        ('tensordot:chinfo', lambda: npc.tensordot(a, z, axes=(1, 0))),
        ('tensordot:shape', lambda: npc.tensordot(a, npc.Array.from_func(np.ones, [npc.LegCharge.from_qflat(ci, [0], -1)]), axes=(1, 0))),
        ('inner:rank', lambda: npc.inner(a, npc.Array.from_func(np.ones, [l]), axes='range')),
        ('inner:not-contractible', lambda: npc.inner(a, a, axes='range')),
        ('add:qtotal', lambda: a + b),
        ('add:legs', lambda: a + c),
        ('iadd_prefactor_other:qtotal', lambda: a.copy().iadd_prefactor_other(2., b)),
        ('transpose:wrong-length', lambda: a.transpose([0])),
        ('transpose:twice', lambda: a.transpose([0, 0])),
        ('itranspose:label-unknown', lambda: a.copy().itranspose(['a', 'zz'])),
        ('split_legs:no-pipe', lambda: a.split_legs([0])),
        ('take_slice:out-of-range', lambda: a.take_slice(7, 0)),
        ('combine_legs:twice', lambda: a.combine_legs([[0, 0]])),
        ('combine_legs:wrong-pipe', lambda: a.combine_legs([[0, 1]], pipes=[npc.LegPipe([l, l])])),
        ('get_leg_index:unknown', lambda: a.get_leg_index('zz')),
        ('trace:not-contractible', lambda: npc.trace(npc.Array.from_func(np.ones, [l, l]), 0, 1)),
        ('outer:chinfo', lambda: npc.outer(a, z)),
        ('scale_axis:wrong-length', lambda: a.scale_axis(np.ones(5), 0)),
        ('iproject:wrong-length', lambda: a.copy().iproject(np.array([True, False]), 0)),
        ('make_valid:wrong-qnumber', lambda: ci.make_valid(np.zeros((2, 3), dtype=np.int64))),
        ('concatenate:legs', lambda: npc.concatenate([a, c], axis=1)),
        ('tensordot:ok-control', lambda: npc.tensordot(a, a, axes=(1, 0)).to_ndarray().sum()),
    ]
    for name, f in progs:
        try:
            with warnings.catch_warnings():
                warnings.simplefilter('ignore')
                r = f()
            out.append((name, ('ok', repr(type(r).__name__))))
        except Exception as e:  # noqa: BLE001
            out.append((name, ('exc', type(e).__name__)))
    return dict(evaluations=len(out), nontrivial_count=len(out), digests=out, samples=[dict(kind='errors', programs=[n for n, _ in out[:5]])])


# ----------------------------------------------------------------------------------------------- algorithm smoke runs

def run_smoke(unit):
    import logging
    logging.disable(logging.CRITICAL)
    from tenpy.models.xxz_chain import XXZChain
    from tenpy.networks.mps import MPS
    out = []
    M = XXZChain(dict(L=4, Jxx=1.0, Jz=0.7, hz=0.1, bc_MPS='finite'))
    psi = MPS.from_product_state(M.lat.mps_sites(), ['up', 'down', 'up', 'down'], bc='finite')
    if unit[1] == 'dmrg':
        from tenpy.algorithms import dmrg
        eng = dmrg.TwoSiteDMRGEngine(psi, M, dict(mixer=True, max_sweeps=4, min_sweeps=4, trunc_params=dict(chi_max=16, svd_min=1e-12)))
        E, _ = eng.run()
        vals = [E] + list(psi.entanglement_entropy()) + list(psi.expectation_value('Sz'))
    else:
        from tenpy.algorithms import tebd
        eng = tebd.TEBDEngine(psi, M, dict(order=2, dt=0.05, N_steps=4, trunc_params=dict(chi_max=16, svd_min=1e-12)))
        eng.run()
        vals = list(psi.entanglement_entropy()) + list(psi.expectation_value('Sz')) + [float(np.real(psi.norm))]
    out.append(('smoke:' + unit[1], ('float', [float(np.real(v)) for v in vals])))
    return dict(evaluations=1, nontrivial_count=1, digests=out, samples=[dict(kind='smoke', which=unit[1], values=[float(np.real(v)) for v in vals[:3]])])


def run_unit(unit):
    warnings.simplefilter('ignore')
    tier = os.environ.get('VERIF_TIER', 'quick')
    if unit[0] == 'engine':
        r = run_engine(unit, tier)
    elif unit[0] == 'helpers':
        r = run_helpers(unit)
    elif unit[0] == 'errors':
        r = run_errors(unit)
    else:
        r = run_smoke(unit)
    r['unit'] = list(unit) if unit[0] != 'engine' else [unit[0], unit[1], unit[2], unit[3], unit[4], unit[5], unit[6]]
    return r


def replay(case):
    """Re-run the unit that contained the disagreeing step (in the configuration of this process)."""
    unit = tuple(tuple(x) if isinstance(x, list) else x for x in case['unit'])
    r = run_unit(unit)
    r['digests'] = [d for d in r['digests'] if d[0] == case['step']]
    return r
