"""C17 -- saving and loading reproduces an equal object (HDF5 in all leg formats, pickle, copy).

Units:
  cls      every instance of the universe (c17_universe: all classes found by reflection) x medium
           {h5 file (blocks), in-memory hdf5 'compact' + partial load by path, 'flat' (plain legs only), pickle file, deepcopy}
  share    every instance in sharing scenarios ([X, X], {'a': X, 'b': X}, X next to its own exportable parts, two equal
           but distinct X) -> the `is`-pattern must survive
  plain    supported python / numpy data: every atom in every container nesting up to depth 2, pairs of dict keys
  fallback objects taking the pickle-protocol (`__reduce__`) fallback of the Hdf5Saver
  graph    every reference graph with <= 3 container nodes of out-degree <= 2 (sharing, self/mutual references), the nodes
           being containers, exportables or objects stored through the `__reduce__` fallback (these also through pickle)
  reflect  classes found by reflection vs classes with an instance in the universe
The oracle (c17_oracle) compares original and copy observationally, calls the copy's `test_sanity`, demands the
same `is`-pattern and independence of the copy, and that saving does not modify the original.
"""
import collections
import copy
import fractions
import itertools
import os
import pickle
import re
import types
import warnings

import numpy as np

from checks import c17_universe as U
from checks.c17_oracle import Diff, independent, is_exportable, reachable

UNIT_TIMEOUT = 1500.0
CHEAP = ('chinfo', 'leg', 'pipe', 'array', 'other')
SHARDS = dict(chinfo=1, leg=4, pipe=4, array=4, site=2, other=1, mps=6, mpo=2, lattice=2, model=6)


def units(tier, seed, label):
    media = ['h5', 'compact', 'pkl', 'deepcopy'] + (['pklz', 'blocks'] if tier == 'thorough' else [])
    us = [('reflect', seed, tier)]
    for g, n in SHARDS.items():
        for m in media + (['flat'] if g == 'leg' else []):
            us += [('cls', g, m, k, n, seed, tier) for k in range(n)]
        for m in ('compact', 'pkl'):
            us += [('share', g, m, k, n, seed, tier) for k in range(n)]
    us += [('plain', k, 8) for k in range(8)] + [('fallback',)]
    nsh = 16 if tier == 'quick' else 64
    us += [('graph', 1, 0, 1, tier)] + [('graph', 2, k, 4, tier) for k in range(4)] + [('graph', 3, k, nsh, tier) for k in range(nsh)]
    return us


# ------------------------------------------------------------------ media

def _h5mem(obj, fmt, nested):
    """Save into an in-memory HDF5 file with the given LegCharge format; load everything or by path."""
    import h5py
    from tenpy.tools import hdf5_io
    with h5py.File('c17-%d.h5' % os.getpid(), 'w', driver='core', backing_store=False) as f:
        hdf5_io.Hdf5Saver(f, {'LegCharge': fmt}).save({'data': obj, 'n': 1} if nested else obj)
        return hdf5_io.load_from_hdf5(f, '/data' if nested else None, ignore_unknown=False)


def _file(obj, ending):
    from tenpy.tools import hdf5_io
    fn = os.path.join(os.environ.get('VERIF_WORKDIR', '/tmp'), 'c17-%d.%s' % (os.getpid(), ending))
    try:
        hdf5_io.save(obj, fn)
        return hdf5_io.load(fn)
    finally:
        if os.path.exists(fn):
            os.remove(fn)


MEDIA = dict(h5=lambda x: _file(x, 'h5'), pkl=lambda x: _file(x, 'pkl'), pklz=lambda x: _file(x, 'pklz'), deepcopy=copy.deepcopy,
             compact=lambda x: _h5mem(x, 'compact', True), blocks=lambda x: _h5mem(x, 'blocks', True), flat=lambda x: _h5mem(x, 'flat', True),
             root=lambda x: _h5mem(x, 'blocks', False), pickle=lambda x: pickle.loads(pickle.dumps(x)))
KIND = dict(h5='hdf5', compact='hdf5', blocks='hdf5', flat='hdf5', root='hdf5', pkl='pickle', pklz='pickle', pickle='pickle', deepcopy='copy')


def _slug(msg):
    """Stable key part of a message: no numbers, no quoted names, no punctuation."""
    msg = re.sub(r"'[^']*'|\"[^\"]*\"|0x[0-9a-f]+|-?\d+(\.\d+)?(e[-+]?\d+)?j?", '#', msg.split('\n')[0])
    return re.sub(r'[^A-Za-z_.#\[\]]+', '-', msg)[:60].strip('-')


def _slug_diff(msg):
    """Key part of a difference 'path: path: title: details': the path without indices and the title."""
    parts = msg.split(': ')
    n = 0
    while n < len(parts) - 1 and (parts[n][:1] in '.[' or parts[n] == 'chinfo' or parts[n].startswith('legs[')):
        n += 1
    return ':'.join([re.sub(r'\[[^\]]*\]', '[]', p) for p in parts[:n]] + [_slug(parts[n])])


def _blame(exc, kind, cls):
    """(stage, class name) of a failure: save/load/copy, and the innermost class whose export/import method raised."""
    frames, tb = [], exc.__traceback__
    while tb is not None:
        frames.append(tb.tb_frame)
        tb = tb.tb_next
    names = [f.f_code.co_name for f in frames]
    stage = 'copy' if kind == 'copy' else 'load' if any(n.startswith(('load', 'from_hdf5')) for n in names) else 'save'
    for f in reversed(frames):
        if f.f_code.co_name in ('from_hdf5', 'save_hdf5', '__setstate__', '__getstate__'):
            owner = f.f_locals.get('cls') or type(f.f_locals.get('self'))
            return stage, owner.__name__
    return stage, cls


def _sane(obj):
    try:
        obj.test_sanity()
    except Exception as e:  # noqa: BLE001
        return '%s: %s' % (type(e).__name__, e)


def roundtrip(obj, medium, diff, what, full=True):
    """Run one original through one medium and the oracle; returns (outcome, violation-dict or None).

    full: also check that saving left the original unchanged and that the copy shares nothing with it."""
    cls = type(obj).__name__
    kind = KIND[medium]

    def bad(stage, msg, slug=_slug_diff):
        return '%s:%s' % (stage, msg.split(':')[0][:30]), dict(key='%s:%s:%s:%s' % (cls, kind, stage, slug(msg)), what='%s via %s: %s: %s' % (what, medium, stage, msg))

    with warnings.catch_warnings():
        warnings.simplefilter('ignore')
        snap = None
        if full and kind == 'hdf5':
            try:
                snap = copy.deepcopy(obj)
                snap = None if Diff(ident=None).diff(obj, snap) else snap
            except Exception:  # noqa: BLE001  (a broken deepcopy is reported by the 'deepcopy' medium, not here)
                pass
        try:
            new = MEDIA[medium](obj)
        except Exception as e:  # noqa: BLE001
            stage, cls = _blame(e, kind, cls)
            return bad(stage, '%s: %s' % (type(e).__name__, e), _slug)
        d = snap is not None and Diff(ident=None).diff(snap, obj)
        if d:
            return bad('original-modified', d)  # (saving must not change the object that is saved)
        d = diff.diff(obj, new)
        if d:
            out, v = bad('differs', d)
            if diff.blame:  # key: the innermost exportable object that differs, not the container it sits in
                v['key'] = '%s:%s:differs:%s' % (diff.blame[0], kind, _slug_diff(diff.blame[1]))
            return out, v
        if hasattr(new, 'test_sanity') and _sane(obj) is None:
            d = _sane(new)
            if d:
                return bad('test_sanity', d, _slug)
        d = full and independent(obj, new)
        if d:
            return bad('not-independent', d)
    return 'ok', None


def _result(**more):
    return dict(dict(evaluations=0, nontrivial_count=0, outcomes=set(), violations=[], samples=[]), **more)


def _add(res, outcome, v, case, sample, nontrivial=True):
    """Book one executed case: counts, observed outcome, at most one violation per key, first sample."""
    res['evaluations'] += 1
    res['nontrivial_count'] += bool(nontrivial)
    res['outcomes'].add(outcome)
    if v and len(res['violations']) < 20 and all(w['key'] != v['key'] for w in res['violations']):
        res['violations'].append(dict(v, case=case))
    if not res['samples'] and nontrivial:
        res['samples'].append(sample)


# ------------------------------------------------------------------ class grid and sharing scenarios

def _instances(group, k, n, seed):
    return U.build(group, seed)[k::n]


def check_instance(group, name, obj, medium):
    from tenpy.linalg.charges import LegCharge
    if medium == 'flat' and type(obj) is not LegCharge:
        return None, None  # 'flat' is documented as insufficient for anything but the charges of a plain leg
    return roundtrip(obj, medium, Diff(flat=(medium == 'flat')), '%s[%s] (%s)' % (group, name, type(obj).__name__))


def run_cls(unit):
    _, group, medium, k, n, seed, tier = unit
    res = _result()
    for name, obj in _instances(group, k, n, seed):
        out, v = check_instance(group, name, obj, medium)
        if out is not None:
            case = dict(kind='cls', group=group, name=name, medium=medium, seed=seed, tier=tier)
            _add(res, '%s:%s:%s' % (type(obj).__name__, KIND[medium], out), v, case, dict(case, cls=type(obj).__name__))
    return res


def scenarios(obj, tier, group):
    """Containers in which `obj` (and exportable parts of it) are referenced more than once."""
    picked = {}
    for p in reachable(obj)[1:]:  # one exportable part per class
        if is_exportable(p):
            picked.setdefault(type(p), p)
    picked = list(picked.values())[:1 if tier == 'quick' else 6]
    out = [('tuple-and-general-dict', lambda: (obj, {1: obj, (2, 3): [obj]}))] + [('part-before:%s' % type(p).__name__, lambda p=p: [p, obj]) for p in picked]
    if tier != 'quick' or group in CHEAP:
        out += [('two-dict-values', lambda: {'a': obj, 'b': {'c': obj}}), ('equal-but-distinct', lambda: [obj, copy.deepcopy(obj)])]
    if tier != 'quick':
        out += [('twice-in-list', lambda: [obj, obj])] + [('part-after:%s' % type(p).__name__, lambda p=p: {'x': obj, 'y': p}) for p in picked]
    return out


def check_scenario(group, name, obj, sc_name, medium, tier):
    make = dict(scenarios(obj, tier, group))[sc_name]
    try:
        with warnings.catch_warnings():
            warnings.simplefilter('ignore')
            data = make()
    except Exception:  # noqa: BLE001  (deepcopy failing is reported by the class grid)
        return None, None
    out, v = roundtrip(data, medium, Diff(ident='all'), '%s[%s] in scenario %s' % (group, name, sc_name), full=False)
    if v and v['key'].split(':')[0] in ('list', 'dict', 'tuple'):  # blame the class inside rather than the plain container
        v['key'] = '%s:%s' % (type(obj).__name__, v['key'].split(':', 1)[1])
    return out, v


def run_share(unit):
    _, group, medium, k, n, seed, tier = unit
    res = _result()
    for name, obj in _instances(group, k, n, seed):
        for sc_name, _ in scenarios(obj, tier, group):
            out, v = check_scenario(group, name, obj, sc_name, medium, tier)
            if out is not None:
                case = dict(kind='share', group=group, name=name, scenario=sc_name, medium=medium, seed=seed, tier=tier)
                _add(res, 'share:%s:%s' % (sc_name.split(':')[0], out), v, case, case)
    return res


def run_reflect(unit):
    """Every class found by reflection needs an instance in the universe; an abstract base class (cannot be
    instantiated itself) counts as reached through instances of its subclasses, which run its export code."""
    _, seed, tier = unit
    classes = U.exportable_classes()
    objs = [o for g in U.GROUPS for _, o in U.build(g, seed)]
    direct = {type(o) for o in objs}
    via_subclass = {c for c in classes.values() if c not in direct and any(isinstance(o, c) for o in objs)}
    uncovered = sorted(f for f, c in classes.items() if c not in direct and c not in via_subclass)
    return dict(evaluations=len(classes), keys=['class:' + f for f, c in classes.items() if c in direct], violations=[],
                outcomes=['uncovered:' + f for f in uncovered] + ['only-via-subclass:' + c.__name__ for c in via_subclass], capped=bool(uncovered),
                extra=dict(exportable_classes_found=len(classes), classes_with_own_instance=len(classes) - len(via_subclass) - len(uncovered),
                           abstract_classes_via_subclass=len(via_subclass), uncovered_classes=len(uncovered)),
                samples=[dict(uncovered_classes=uncovered, only_via_subclass=sorted(c.__name__ for c in via_subclass))])


# ------------------------------------------------------------------ plain data

class WithState:
    """A class without HDF5 interface whose state goes through `__getstate__` / `__setstate__`."""

    def __init__(self, v):
        self.v = v

    def __getstate__(self):
        return {'value': self.v}

    def __setstate__(self, state):
        self.v = state['value']


class PlainObject:
    """A class without HDF5 interface and without `__getstate__`: `__dict__` is the state."""

    def __init__(self, v=None):
        if v is not None:
            self.v, self.w = v, [v]


def atoms():
    """(label, factory, hashable) of every supported atom; factories return fresh objects."""
    ma = np.ma.array
    A = [('None', lambda: None), ('True', lambda: True), ('False', lambda: False), ('0', lambda: 0), ('-3', lambda: -3),
         ('2**63-1', lambda: 2**63 - 1), ('2**63', lambda: 2**63), ('2**64+5', lambda: 2**64 + 5), ('-2**63-1', lambda: -2**63 - 1),
         ('-2**63', lambda: -2**63), ('10**40', lambda: 10**40), ('1.5', lambda: 1.5), ('-0.0', lambda: -0.0), ('inf', lambda: float('inf')),
         ('nan', lambda: float('nan'), False), ('1+2j', lambda: 1 + 2j), ("''", lambda: ''), ("'abc'", lambda: 'abc'), ("'ü/.'", lambda: 'ü/.\n'),
         ("b''", lambda: b''), ("b'ab'", lambda: b'ab\xff'), ('np.int64', lambda: np.int64(-7)), ('np.int32', lambda: np.int32(7)),
         ('np.float64', lambda: np.float64(2.5)), ('np.float32', lambda: np.float32(2.5)), ('np.complex128', lambda: np.complex128(1j)),
         ('np.complex64', lambda: np.complex64(1 - 1j)), ('np.bool_', lambda: np.bool_(True)), ('np.False_', lambda: np.bool_(False)),
         ('range:3', lambda: range(3)), ('range:1-10-3', lambda: range(1, 10, 3)), ('range:5-0--2', lambda: range(5, 0, -2)), ('range:0', lambda: range(0)),
         ('dtype:f8', lambda: np.dtype('f8')), ('dtype:c16', lambda: np.dtype(complex)), ('dtype:i4', lambda: np.dtype('i4')), ('dtype:bool', lambda: np.dtype(bool)),
         ('dtype:>f4', lambda: np.dtype('f4')), ('dtype:struct', lambda: np.dtype([('a', 'i4'), ('b', 'f8', (2,))])),
         ('dtype-str:U3', lambda: np.dtype('U3')), ('dtype-str:S3', lambda: np.dtype('S3'))]
    A = [(a + (True,))[:3] for a in A]  # (all hashable, but nan != nan makes it useless as set element / dict key)
    arrs = [('arr:0d', lambda: np.array(3.0)), ('arr:empty', lambda: np.array([])), ('arr:(0,3)', lambda: np.zeros((0, 3), int)),
            ('arr:bool', lambda: np.array([True, False])), ('arr:complex', lambda: np.array([[1j, 2], [3, 4]])), ('arr:int', lambda: np.arange(3)),
            ('arr:f4', lambda: np.arange(3, dtype='f4')), ('arr:i1', lambda: np.array([-1, 1], 'i1')), ('arr:nan', lambda: np.array([np.nan, np.inf])),
            ('arr:S1', lambda: np.array([b'a', b'b'])), ('arr:view', lambda: np.arange(12.0).reshape(3, 4)[::2, 1:].T),
            ('ma:some-masked', lambda: ma([1.0, 2.0, 3.0], mask=[0, 1, 0])), ('ma:nomask', lambda: ma([1, 2, 3])), ('ma:mask-all-false', lambda: ma([1e20, 1.0], mask=[0, 0])),
            ('ma:data-equals-fill-unmasked', lambda: ma([1e20, 2.0], mask=[0, 1])), ('ma-unmasked-fill:float', lambda: ma([1e20, 1e20])),
            ('ma-unmasked-fill:int', lambda: ma([999999])), ('ma:fill_value', lambda: ma([[1, 2], [3, 4]], mask=[[0, 1], [0, 0]], fill_value=2)),
            ('ma:complex', lambda: ma([1j, 2], mask=[0, 1])), ('ma:bool', lambda: ma([True, False], mask=[0, 1])), ('ma:all-masked', lambda: ma([1.0, 2.0], mask=True)),
            ('ma:empty', lambda: ma([], dtype=float)), ('ma:0d-masked', lambda: ma(5.0, mask=True)), ('ma:0d', lambda: ma(5.0))]
    return A + [(n, f, False) for n, f in arrs]


CONTAINERS = dict(list=lambda x: [x], tuple=lambda x: (x,), set=lambda x: {x}, sdict=lambda x: {'k': x}, gdict_value=lambda x: {1: x, None: 2},
                  gdict_key=lambda x: {x: 'v', 'w': x}, list3=lambda x: [x, 'between', x])
NEEDS_HASH = ('set', 'gdict_key')
KEYS = ['a', 'A', 'ü', 'a b', ' ', 'keys', 'values', '0', '-1', '..', '.x', 'a.b', "'", 'x' * 300, 'type', 'len',  # simple
        '.', 'a/b', '/', 0, 1, -1, 1.5, None, True, (1, 'a'), (), b'a', 2**70, 'a\n']  # general


def plain_cases():
    """(label, factory): every atom alone, in every container, in every container nesting of depth 2; all pairs of dict keys."""
    out = []
    for n, f, h in atoms():
        out.append((n, f))
        for c1, w1 in CONTAINERS.items():
            if h or c1 not in NEEDS_HASH:
                out.append(('%s(%s)' % (c1, n), lambda f=f, w1=w1: w1(f())))
            for c2, w2 in CONTAINERS.items():
                inner_hashable = h and c2 == 'tuple'
                if (h or c2 not in NEEDS_HASH) and (inner_hashable or c1 not in NEEDS_HASH):
                    out.append(('%s(%s(%s))' % (c1, c2, n), lambda f=f, w1=w1, w2=w2: w1(w2(f()))))
    for k1, k2 in itertools.combinations_with_replacement(range(len(KEYS)), 2):
        out.append(('dict-keys(%r,%r)' % (KEYS[k1], KEYS[k2]), lambda k1=k1, k2=k2: {KEYS[k1]: [k1], KEYS[k2]: (k2,)}))
    good = [(n, f, h) for n, f, h in atoms() if check_plain(n, f)[1] is None]  # (a failing atom is reported on its own)
    out.append(('all-atoms-in-one-list', lambda: [f() for _, f, _ in good]))
    out.append(('all-atoms-in-one-dict', lambda: {n: f() for n, f, _ in good}))
    out.append(('all-hashable-atoms-in-one-set', lambda: {f() for _, f, h in good if h}))
    return out


# The only plain data the saver may refuse (error while saving; its documentation promises a copy only "provided that
# the save did not fail with an error"): a dict key '' passes `valid_hdf5_path_component` but h5py rejects the name.
PLAIN_MAY_REFUSE = ("gdict_key('')",)


def check_plain(label, make):
    data = make()
    diff = Diff(strict=True, ident='all')
    out, v = roundtrip(data, 'root' if isinstance(data, (list, tuple, set, dict)) else 'blocks', diff, 'plain data ' + label)
    if v and out.startswith('save') and any(p in label for p in PLAIN_MAY_REFUSE):
        return 'refused-' + out, None
    if v:
        atom = 'dict-keys' if label.startswith('dict-keys') else re.sub(r'^(?:\w+\()*|\)*$', '', label).split(':')[0]  # family of the atom
        v['key'] = 'plain:%s:%s' % (atom, _slug_diff(diff.leaf) if diff.leaf else v['key'].split(':', 2)[2])
    return out, v


def run_plain(unit):
    _, k, n = unit
    res = _result()
    for label, make in plain_cases()[k::n]:
        out, v = check_plain(label, make)
        _add(res, 'plain:' + out, v, dict(kind='plain', label=label), dict(plain=label))
    return res


def fallback_cases():
    od = collections.OrderedDict
    return [('OrderedDict', lambda: od([('b', 1), ('a', [2])])), ('OrderedDict:empty', lambda: od()), ('deque', lambda: collections.deque([1, 'x', (2,)])),
            ('deque:maxlen', lambda: collections.deque([1, 2], maxlen=3)), ('defaultdict', lambda: collections.defaultdict(list, a=[1])),
            ('defaultdict:empty', lambda: collections.defaultdict(int)), ('frozenset', lambda: frozenset([1, 'a'])), ('bytearray', lambda: bytearray(b'ab')),
            ('slice', lambda: slice(1, None, 2)), ('WithState', lambda: WithState([1, 2.5])), ('PlainObject', lambda: PlainObject('v')),
            ('builtin-function', lambda: len), ('function', lambda: copy.deepcopy),
            ('class', lambda: collections.OrderedDict), ('tenpy-class', lambda: U.exportable_classes()['tenpy.linalg.np_conserved.Array']),
            ('Fraction', lambda: fractions.Fraction(1, 3)), ('numpy-dispatched-function', lambda: np.sum), ('Ellipsis', lambda: Ellipsis),
            ('np.uint64', lambda: np.uint64(2**63)), ('np.float16', lambda: np.float16(1.5))]


# Objects the saver may refuse (raise while saving, see above); everything else in the list has to come back equal.
MAY_REFUSE = ('Fraction', 'numpy-dispatched-function', 'Ellipsis', 'np.uint64', 'np.float16')


def check_fallback(label, make):
    obj = make()
    out, v = roundtrip({'x': obj}, 'root', Diff(strict=True, ident='all'), 'fallback object ' + label)
    if v and out.startswith('save') and label in MAY_REFUSE:
        return 'refused-' + out, None
    if v:  # key: which optional parts of the pickle protocol the object uses
        rv = obj.__reduce__()
        used = [n for n, x in zip(('state', 'listitems', 'dictitems', 'state_setter'), rv[2:]) if x is not None] if isinstance(rv, tuple) else ['global']
        v['key'] = 'fallback:reduce[%s]:%s' % ('+'.join(used), v['key'].split(':', 2)[2])
    return out, v


def run_fallback(unit):
    res = _result()
    for label, make in fallback_cases():
        out, v = check_fallback(label, make)
        _add(res, 'fallback:%s:%s' % (label, out), v, dict(kind='fallback', label=label), dict(fallback=[n for n, _ in fallback_cases()]))
    return res


# ------------------------------------------------------------------ reference graphs

# node types: List, Tuple, simple Dict, General dict, Config, hdf5-Exportable; stored via `__reduce__`: simple Namespace, Plain user object
NODE_TYPES = {1: 'LTDGCENP', 2: 'LTDGCENP', ('quick', 3): 'LTDG', ('thorough', 3): 'LTDGN'}
ATTR_NODES = 'ENP'  # children are attributes k0, k1


def graph_specs(n, tier):
    """All canonical graphs: n nodes, each (type, children) with <= 2 children from the nodes and the shared leaf 'A'.

    Canonical = nodes numbered in order of discovery from node 0 (the root), all nodes reachable; graphs that cannot
    exist in Python (a cycle through tuples only) are dropped."""
    targets = list(range(n)) + ['A']
    kids = [()] + [(a,) for a in targets] + list(itertools.product(targets, repeat=2))
    types = NODE_TYPES.get(n) or NODE_TYPES[tier, n]
    for spec in itertools.product(itertools.product(types, kids), repeat=n):
        order = [0]
        for i in order:  # (the list grows while we walk it: breadth first search)
            order += [c for c in dict.fromkeys(spec[i][1]) if c != 'A' and c not in order]
        if order != list(range(n)):
            continue
        if _tuple_order(spec) is None:
            continue
        yield spec


def _tuple_order(spec):
    """Order in which the tuple nodes can be built (children first); None if tuples form a cycle among themselves."""
    tup = [i for i, (t, _) in enumerate(spec) if t == 'T']
    done, order = set(), []
    while len(order) < len(tup):
        ready = [i for i in tup if i not in done and all(c == 'A' or spec[c][0] != 'T' or c in done for c in spec[i][1])]
        if not ready:
            return None
        done.update(ready)
        order += ready
    return order


def _on_cycle(spec, i):
    seen, stack = set(), [c for c in spec[i][1] if c != 'A']
    while stack:
        j = stack.pop()
        if j == i:
            return True
        if j not in seen:
            seen.add(j)
            stack += [c for c in spec[j][1] if c != 'A']
    return False


def build_graph(spec):
    from tenpy.tools.hdf5_io import Hdf5Exportable
    from tenpy.tools.params import Config
    leaf = np.arange(2.0)
    new = dict(L=list, D=dict, G=dict, C=lambda: Config({}, 'cfg'), E=Hdf5Exportable, N=types.SimpleNamespace, P=PlainObject)
    nodes = [None if t == 'T' else new[t]() for t, _ in spec]
    get = lambda c: leaf if c == 'A' else nodes[c]  # noqa: E731
    for i in _tuple_order(spec):
        nodes[i] = tuple(get(c) for c in spec[i][1])
    for i, (t, kids) in enumerate(spec):
        for s, c in enumerate(kids):
            if t == 'L':
                nodes[i].append(get(c))
            elif t == 'D':
                nodes[i]['k%d' % s] = get(c)
            elif t == 'G':
                nodes[i][s] = get(c)
            elif t == 'C':
                nodes[i].options['k%d' % s] = get(c)
            elif t in ATTR_NODES:
                setattr(nodes[i], 'k%d' % s, get(c))
    return nodes[0]


def check_graph(spec, medium='root'):
    """One graph through HDF5 (`root`) or pickle; in HDF5 a tuple on a cycle may come back as list (documented)."""
    loose = medium == 'root' and any(t == 'T' and _on_cycle(spec, i) for i, (t, _) in enumerate(spec))
    diff = Diff(strict=True, ident='all', loose_tuples=loose)
    out, v = roundtrip(build_graph(spec), medium, diff, 'reference graph %s' % (spec,), full=False)
    if v:  # key: family of the nodes, shape, medium, and the difference itself (not where in the graph it sits)
        types_ = {t for t, _ in spec}
        family = 'reduce-objects' if types_ & set('NP') else 'exportables' if types_ & set('CE') else 'containers'
        shape = 'cyclic' if any(_on_cycle(spec, i) for i in range(len(spec))) else 'acyclic'
        what = 'differs:' + _slug_diff(diff.leaf) if diff.leaf else v['key'].split(':', 2)[2]
        v['key'] = 'graph:%s:%s:%s:%s' % (family, shape, KIND[medium], what)
    return ('tuple-on-cycle:' if loose else '') + out, v


def run_graph(unit):
    _, n, k, nsh, tier = unit
    res = _result(states=0, transitions=0, traces=0)
    for spec in itertools.islice(graph_specs(n, tier), k, None, nsh):
        res['states'] += 1
        res['transitions'] += sum(len(kids) for _, kids in spec)
        shared = any(sum(kids.count(c) for _, kids in spec) > 1 for c in list(range(n)) + ['A'])
        nontrivial = shared or any(_on_cycle(spec, j) for j in range(n))
        for medium in ('root', 'pickle') if any(t in 'NP' for t, _ in spec) else ('root',):  # reduce-fallback objects: pickle is the reference
            out, v = check_graph(spec, medium)
            res['traces'] += 1
            case = dict(kind='graph', spec=[[t, list(kids)] for t, kids in spec], medium=medium)
            _add(res, 'graph:%s:%s' % (KIND[medium], out), v, case, case, nontrivial)
    return res


# ------------------------------------------------------------------ entry points

def run_unit(unit):
    warnings.simplefilter('ignore')
    res = dict(cls=run_cls, share=run_share, reflect=run_reflect, plain=run_plain, fallback=run_fallback, graph=run_graph)[unit[0]](unit)
    res['outcomes'] = sorted(res.get('outcomes', ()))
    return res


def replay(case):
    warnings.simplefilter('ignore')
    kind = case['kind']
    if kind in ('cls', 'share'):
        obj = dict(U.build(case['group'], case['seed']))[case['name']]
        if kind == 'cls':
            out, v = check_instance(case['group'], case['name'], obj, case['medium'])
        else:
            out, v = check_scenario(case['group'], case['name'], obj, case['scenario'], case['medium'], case['tier'])
    elif kind == 'plain':
        out, v = check_plain(case['label'], dict(plain_cases())[case['label']])
    elif kind == 'fallback':
        out, v = check_fallback(case['label'], dict(fallback_cases())[case['label']])
    else:
        out, v = check_graph(tuple((t, tuple(kids)) for t, kids in case['spec']), case.get('medium', 'root'))
    return dict(evaluations=1, outcomes=[str(out)], violations=[dict(v, case=case)] if v else [])
