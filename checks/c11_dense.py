"""C11 helpers: boring dense reference models for matrix product operators and states.

Conventions: site 0 is the most significant index of a Kronecker product; an operator matrix has the `p` (outgoing)
index as row and `p*` as column, i.e. ``W[wL, wR, p, p*]`` contributes ``|p><p*|``.
"""
import functools

import numpy as np

TOL = 1e-10


def close(a, b, tol=TOL):
    a, b = np.asarray(a), np.asarray(b)
    return a.shape == b.shape and bool(np.all(np.isfinite(a))) and (a.size == 0 or float(np.abs(a - b).max()) <= tol * (1 + float(np.abs(b).max())))


def kron(mats):
    return functools.reduce(np.kron, mats, np.eye(1))


def op_dense(site, name):
    return site.get_op(name).transpose(['p', 'p*']).to_ndarray()


def term_dense(sites, term, jw=False):
    """Dense matrix of ``[(opname, i), ...]`` on `sites` (all indices inside).

    `jw=False`: the literal Kronecker product of the named matrices (identity elsewhere).  `jw=True`: the convention
    of doc/intro/JordanWigner.rst -- an operator which needs a string stands for ``[JW, ..., JW, op, Id, ...]`` and the
    term is the matrix product of its operators from left to right."""
    mats = [np.eye(s.dim) for s in sites]  # (Kronecker factors on different sites commute: multiply site by site)
    for name, i in term:
        mats[i] = mats[i] @ op_dense(sites[i], name)
        if jw and sites[i].op_needs_JW(name):
            mats[:i] = [m @ op_dense(s, 'JW') for m, s in zip(mats[:i], sites[:i])]
    return kron(mats)


def terms_dense(sites, terms, coefs, jw=False):
    dim = int(np.prod([s.dim for s in sites]))
    return sum((c * term_dense(sites, t, jw) for t, c in zip(terms, coefs)), np.zeros((dim, dim), complex))


def window_terms_dense(cell, L, n, terms, coefs, jw=True, first=0):
    """Infinite system with unit cell `cell` (`L` sites): all translates (by multiples of L) of the terms which
    start at a site >= `first` and fit completely into the window of sites ``0 .. n-1``."""
    sites = [cell[i % L] for i in range(n)]
    res = np.zeros((int(np.prod([s.dim for s in sites])),) * 2, complex)
    for t, c in zip(terms, coefs):
        lo, hi = min(i for _, i in t), max(i for _, i in t)
        for shift in range(-(lo // L) * L, n, L):
            if first <= lo + shift and hi + shift < n:
                res += c * term_dense(sites, [(op, i + shift) for op, i in t], jw)
    return res


def mpo_window_dense(H, first, n):
    """Contraction of ``W[first] ... W[first+n-1]`` between ``IdL`` on the left and ``IdR`` on the right."""
    cur = None
    for i in range(first, first + n):
        W = H.get_W(i).transpose(['wL', 'wR', 'p', 'p*']).to_ndarray()
        if cur is None:
            cur = W[H.get_IdL(i)].transpose(1, 2, 0)
        else:
            cur = np.einsum('abw,wvcd->acbdv', cur, W)
            cur = cur.reshape(cur.shape[0] * cur.shape[1], cur.shape[2] * cur.shape[3], cur.shape[4])
    res = cur[:, :, H.get_IdR(first + n - 1)]
    return res + res.conj().T if H.explicit_plus_hc else res


def mpo_dense(H):
    """Dense operator denoted by a finite MPO."""
    return mpo_window_dense(H, 0, H.L)


def mps_dense(psi, form='B', with_norm=True):
    """Dense state of a finite MPS from its tensors in the given form (``None``: the raw stored tensors)."""
    cur = np.ones((1, 1))
    for i in range(psi.L):
        B = psi.get_B(i, form).transpose(['vL', 'p', 'vR']).to_ndarray()
        cur = np.tensordot(cur, B, axes=(1, 0)).reshape(-1, B.shape[2])
    assert cur.shape[1] == 1
    return cur[:, 0] * (psi.norm if with_norm else 1.)


def imps_window(psi, first, n):
    """``theta[vL, p_first .. p_{first+n-1}, vR]`` of an infinite MPS in canonical form, as a matrix
    (physical index, (vL, vR)): expectation values of window operators are ``sum_e theta[:,e]^+ O theta[:,e]``."""
    cur = np.diag(psi.get_SL(first))
    cur = cur.reshape(cur.shape[0], 1, cur.shape[1])
    for i in range(first, first + n):
        B = psi.get_B(i, 'B').transpose(['vL', 'p', 'vR']).to_ndarray()
        cur = np.tensordot(cur, B, axes=(2, 0))
        cur = cur.reshape(cur.shape[0], -1, B.shape[2])
    return cur.transpose(1, 0, 2).reshape(cur.shape[1], -1)


def window_expval(theta, O):
    return complex(np.einsum('ie,ij,je->', theta.conj(), O, theta))


def group_perm(gsites):
    """Index map of a chain of GroupedSites: ``kron_index -> grouped_index`` such that
    ``O_grouped[np.ix_(perm, perm)] == O_kron`` (the pipes of grouped sites sort the product basis by charge)."""
    perms = []
    for gs in gsites:
        dims = [s.dim for s in gs.sites]
        perms.append(np.array([gs.leg.map_incoming_flat(idx) for idx in np.ndindex(*dims)]) if len(dims) > 1 else np.arange(dims[0]))
    total = np.zeros(1, int)
    for p, gs in zip(perms, gsites):
        total = (total[:, None] * gs.dim + p[None, :]).reshape(-1)
    return total
