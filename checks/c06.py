"""C06 -- leg fusion is a lossless, consistently ordered bijection (complete small scope).

All legs with <=3 blocks of size 1-2 and charges in a small window (U(1): -1..1, Z2, Z3, U(1)xZ2), both
directions; all pairs (complete for <=2-block legs, 3-block legs against a fixed partner set), triples of
<=2-block legs, nested pipes; pipe qconj +-1 x sort x bunch.  Plus every single-leg operation on every leg.
"""
import itertools
import os
import warnings

import numpy as np

from vk import kernel as K

UNIT_TIMEOUT = 1800.0
WINDOW = {'U1': [(-1,), (0,), (1,)], 'Z2': [(0,), (1,)], 'Z3': [(0,), (1,), (2,)], 'U1xZ2': [(-1, 1), (0, 0), (1, 1), (0, 1)], 'none': [()]}
MODS = {'U1': [1], 'Z2': [2], 'Z3': [3], 'U1xZ2': [1, 2], 'none': []}


def chinfo(ch):
    import tenpy.linalg.np_conserved as npc
    return npc.ChargeInfo(MODS[ch], ['q%d' % i for i in range(len(MODS[ch]))])


def all_legs(ch, max_blocks):
    """(charges tuple, sizes tuple, qconj) for every leg of the scope."""
    out = []
    for nb in range(1, max_blocks + 1):
        for chs in itertools.product(WINDOW[ch], repeat=nb):
            for sizes in itertools.product((1, 2), repeat=nb):
                for qc in (1, -1):
                    out.append((chs, sizes, qc))
    return out


def mk(ci, spec):
    import tenpy.linalg.np_conserved as npc
    chs, sizes, qc = spec
    sl = [0] + list(np.cumsum(sizes))
    return npc.LegCharge.from_qind(ci, sl, np.array(chs, dtype=np.int64).reshape(len(sizes), ci.qnumber), qc)


def phys(leg):
    q = np.asarray(leg.to_qflat()).reshape(leg.ind_len, leg.chinfo.qnumber) * leg.qconj
    return leg.chinfo.make_valid(q.copy()) if leg.chinfo.qnumber else q


class Bad(Exception):
    def __init__(self, key, msg):
        super().__init__(msg)
        self.key = key
        self.msg = msg


def check_pipe(legs, qc, sort, bunch, with_array=True):
    """All promised properties of LegPipe(legs) (raises Bad)."""
    import tenpy.linalg.np_conserved as npc
    from vk import kernel as K
    ci = legs[0].chinfo
    pipe = npc.LegPipe(legs, qconj=qc, sort=sort, bunch=bunch)
    inv = K.leg_invariants(pipe)
    if inv:
        raise Bad('pipe:invariant', inv[0])
    dims = [l.ind_len for l in legs]
    n = int(np.prod(dims))
    if pipe.ind_len != n:
        raise Bad('pipe:ind_len', 'pipe has %d indices, product of the legs is %d' % (pipe.ind_len, n))
    imap = {}
    pp = phys(pipe)
    lp = [phys(l) for l in legs]
    for idx in itertools.product(*[range(d) for d in dims]):
        j = int(pipe.map_incoming_flat(np.array(idx, dtype=np.intp)))
        if j in imap or not (0 <= j < n):
            raise Bad('pipe:map-not-bijective', 'map_incoming_flat sends %r and %r to %d' % (imap.get(j), idx, j))
        imap[j] = idx
        if ci.qnumber:
            tot = ci.make_valid(sum(lp[k][i] for k, i in enumerate(idx)))
            if not np.array_equal(tot, pp[j]):
                raise Bad('pipe:fusion-rule', 'index tuple %r with charges summing to %s lands on pipe index %d of charge %s' % (idx, tot, j, pp[j]))
    # q_map ordering as documented: rows lex-sorted by (I_s, i_1, ..., i_n); C order inside a row
    qm = np.asarray(pipe.q_map)
    keys = [tuple(r[2:]) for r in qm.tolist()]
    if keys != sorted(keys):
        raise Bad('pipe:q_map-order', 'rows of q_map are not lex-sorted by (I_s, i...)')
    sls = np.asarray(pipe.slices)
    for row in qm.tolist():
        b0, b1, I = row[:3]
        qis = row[3:]
        ranges = [range(int(legs[k].slices[q]), int(legs[k].slices[q + 1])) for k, q in enumerate(qis)]
        for t, idx in enumerate(itertools.product(*ranges)):
            j = int(pipe.map_incoming_flat(np.array(idx, dtype=np.intp)))
            if j != sls[I] + b0 + t:
                raise Bad('pipe:block-order', 'entries of incoming blocks %r are not stored in C order inside their slice' % (qis,))
    if sort and ci.qnumber:
        ch = np.asarray(pipe.charges)
        ks = [tuple(r[::-1]) for r in ch.tolist()]
        if ks != sorted(ks):
            raise Bad('pipe:not-sorted', 'pipe charges not sorted although sort=True')
    if bunch and sort and ci.qnumber and len(set(map(tuple, np.asarray(pipe.charges).tolist()))) != pipe.block_number:
        raise Bad('pipe:not-blocked', 'sorted and bunched pipe has a charge in two blocks')
    # conjugate pipe contractible with the pipe, represents negated charges
    pc = pipe.conj()
    try:
        pipe.test_contractible(pc)
    except Exception as e:  # noqa: BLE001
        raise Bad('pipe:conj-not-contractible', 'pipe.conj() is not contractible with the pipe: %s' % e)
    if ci.qnumber and not np.array_equal(phys(pc), ci.make_valid(-pp)):
        raise Bad('pipe:conj-charges', 'pipe.conj() does not carry the negative charges')
    for a, b in zip(pc.legs, legs):
        if a.qconj != -b.qconj:
            raise Bad('pipe:conj-incoming', 'incoming legs of pipe.conj() are not conjugated')
    lc = pipe.to_LegCharge()
    if type(lc) is not npc.LegCharge or not np.array_equal(phys(lc), pp) or lc.qconj != pipe.qconj:
        raise Bad('pipe:to_LegCharge', 'to_LegCharge changes the charges')
    if not with_array:
        return pipe, imap
    # agreement with where Array.combine_legs puts entries, and exact round trip
    for qtot in _qtotals(ci, lp)[:(2 if (sort and bunch) else 1)]:
        a = npc.Array.from_func(_filler, legs, dtype=np.float64, qtotal=qtot, labels=['l%d' % k for k in range(len(legs))])
        if a.stored_blocks == 0:
            continue
        dense = a.to_ndarray()
        for variant in ('new', 'given', 'conj-given') if (sort and bunch) else ('given',):
            if variant == 'new':
                c = a.combine_legs([list(range(len(legs)))], qconj=qc) if (sort and bunch) else a.combine_legs([list(range(len(legs)))], pipes=[pipe])
            elif variant == 'given':
                c = a.combine_legs([list(range(len(legs)))], pipes=[pipe])
            else:
                ac = a.conj()
                c = ac.combine_legs([list(range(len(legs)))], pipes=[pipe])  # documented: pipe is conjugated if necessary
                dense_c = ac.to_ndarray()
            src = dense if variant != 'conj-given' else dense_c
            cd = c.to_ndarray()
            used = c.legs[0]
            if not isinstance(used, npc.LegPipe) or not np.array_equal(np.asarray(used.q_map), np.asarray(pipe.q_map)) or used.qconj != (pipe.qconj if variant != 'conj-given' else -pipe.qconj):
                raise Bad('combine:pipe-used:' + variant, 'combine_legs did not use a pipe equivalent to the given / expected one')
            for idx in itertools.product(*[range(d) for d in dims]):
                j = int(used.map_incoming_flat(np.array(idx, dtype=np.intp)))
                if cd[j] != src[idx]:
                    raise Bad('combine:placement:' + variant, 'combine_legs puts entry %r elsewhere than map_incoming_flat says (%d)' % (idx, j))
            back = c.split_legs()
            ref = a if variant != 'conj-given' else ac
            if not np.array_equal(back.to_ndarray(), ref.to_ndarray()) or back.get_leg_labels() != ref.get_leg_labels() or not np.array_equal(back.qtotal, ref.qtotal):
                raise Bad('combine:split-roundtrip:' + variant, 'split_legs(combine_legs(x)) != x')
            for l1, l2 in zip(back.legs, ref.legs):
                try:
                    l1.test_equal(l2)
                except Exception as e:  # noqa: BLE001
                    raise Bad('combine:split-roundtrip-legs:' + variant, 'legs after the round trip differ: %s' % e)
    return pipe, imap


_counter = [0]


def _filler(shape):
    n = int(np.prod(shape))
    out = (np.arange(n, dtype=np.float64) + 1 + _counter[0]).reshape(shape)
    _counter[0] += n
    return out


def _qtotals(ci, lp):
    if not ci.qnumber:
        return [None]
    tot = set()
    for idx in itertools.product(*[range(len(p)) for p in lp]):
        tot.add(tuple(ci.make_valid(sum(lp[k][i] for k, i in enumerate(idx))).tolist()))
    z = tuple([0] * ci.qnumber)
    return sorted(tot, key=lambda q: (q != z, q))


def check_single(ci, spec):
    """Every single-leg operation on one leg (raises Bad)."""
    import tenpy.linalg.np_conserved as npc
    from vk import kernel as K
    leg = mk(ci, spec)
    p0 = phys(leg)
    n = leg.ind_len
    fp = K.leg_fingerprint(leg)

    def same_phys(l2, perm=None, what=''):
        inv = K.leg_invariants(l2)
        if inv:
            raise Bad('leg:%s:invariant' % what, inv[0])
        exp = p0 if perm is None else p0[perm]
        if l2.ind_len != len(exp) or (ci.qnumber and not np.array_equal(phys(l2), exp)):
            raise Bad('leg:%s:charges' % what, '%s changed the charge attached to an index' % what)

    for bunch in (True, False):
        perm_q, s = leg.sort(bunch=bunch)
        pf = leg.perm_flat_from_perm_qind(perm_q)
        if sorted(pf.tolist()) != list(range(n)):
            raise Bad('leg:sort:perm', 'perm_flat_from_perm_qind is not a permutation')
        same_phys(s, pf, 'sort')
        ks = [tuple(r[::-1]) for r in np.asarray(s.charges).tolist()]
        if ks != sorted(ks):
            raise Bad('leg:sort:not-sorted', 'sort() result is not sorted')
        if bunch and not s.is_blocked():
            raise Bad('leg:sort:not-blocked', 'sort(bunch=True) result is not blocked')
        try:
            s.conj().test_contractible(s)
        except Exception as e:  # noqa: BLE001
            raise Bad('leg:sort:raises', str(e))
    idx, b = leg.bunch()
    same_phys(b, None, 'bunch')
    if not b.is_bunched():
        raise Bad('leg:bunch:not-bunched', 'bunch() result has adjacent equal charges')
    if idx[-1] != leg.block_number or not np.array_equal(np.asarray(b.charges), np.asarray(leg.charges)[idx[:-1]]):
        raise Bad('leg:bunch:idx', 'returned idx inconsistent')
    c = leg.conj()
    if c.qconj != -leg.qconj or (ci.qnumber and not np.array_equal(phys(c), ci.make_valid(-p0))):
        raise Bad('leg:conj', 'conj() does not negate the charges')
    try:
        leg.test_contractible(c)
    except Exception as e:  # noqa: BLE001
        raise Bad('leg:conj:not-contractible', str(e))
    f = leg.flip_charges_qconj()
    same_phys(f, None, 'flip_charges_qconj')
    if f.qconj != -leg.qconj:
        raise Bad('leg:flip:qconj', 'flip_charges_qconj keeps qconj')
    try:
        leg.test_equal(f)
        f.conj().test_contractible(f)
    except Exception as e:  # noqa: BLE001
        raise Bad('leg:flip:not-equal', str(e))
    # sort after flip (stale flag consumer)
    pq, fs = f.sort(bunch=True)
    ks = [tuple(r[::-1]) for r in np.asarray(fs.charges).tolist()]
    if ks != sorted(ks) or not fs.is_blocked():
        raise Bad('leg:flip-then-sort', 'sorting a flipped leg does not give a sorted, blocked leg')
    for mask in itertools.product((False, True), repeat=n):
        if not any(mask):
            continue
        m = np.array(mask)
        map_qind, block_masks, pr = leg.project(m)
        same_phys(pr, np.nonzero(m)[0], 'project')
        if len(map_qind) != leg.block_number or sum(int(bm.sum()) for bm in block_masks) != int(m.sum()) or len(block_masks) != pr.block_number:
            raise Bad('leg:project:maps', 'map_qind / block_masks inconsistent')
        for qi_old, qi_new in enumerate(map_qind):
            if qi_new >= 0 and ci.qnumber and not np.array_equal(np.asarray(pr.charges)[qi_new], np.asarray(leg.charges)[qi_old]):
                raise Bad('leg:project:map_qind', 'map_qind maps blocks of different charge')
        # stale-flag consumer: sorting the projected leg
        _, ps = pr.sort(bunch=True)
        if not ps.is_blocked():
            raise Bad('leg:project-then-sort', 'sort(bunch=True) of a projected leg is not blocked')
    for extra in (1, 2):
        e = leg.extend(extra)
        same_phys_e = phys(e)
        if e.ind_len != n + extra or (ci.qnumber and (not np.array_equal(same_phys_e[:n], p0) or np.any(same_phys_e[n:] != 0))):
            raise Bad('leg:extend:int', 'extend(int) changes existing charges or adds non-zero ones')
    for other_spec in ((spec[0][:1], (1,), 1), (spec[0][:1], (2,), -1)):
        o = mk(ci, other_spec)
        e = leg.extend(o)
        inv = K.leg_invariants(e)
        if inv:
            raise Bad('leg:extend:invariant', inv[0])
        if e.qconj != leg.qconj or (ci.qnumber and not np.array_equal(phys(e), np.concatenate([p0, phys(o)], axis=0))):
            raise Bad('leg:extend:leg', 'extend(leg) does not append the physical charges of the extra leg')
    for i in range(-n, n):
        qi, within = leg.get_qindex(i)
        ii = i % n
        if not (leg.slices[qi] <= ii < leg.slices[qi + 1]) or within != ii - leg.slices[qi]:
            raise Bad('leg:get_qindex', 'get_qindex(%d) = (%d, %d)' % (i, qi, within))
    secs = leg.charge_sectors()
    if sorted(set(map(tuple, np.asarray(leg.charges).tolist())), key=lambda r: r[::-1]) != [tuple(r) for r in np.asarray(secs).tolist()]:
        raise Bad('leg:charge_sectors', 'charge_sectors() != sorted unique charges')
    if leg.is_blocked():
        for qi in range(leg.block_number):
            if leg.get_qindex_of_charges(leg.get_charge(qi)) != qi:
                raise Bad('leg:get_qindex_of_charges', 'not inverse of get_charge')
    # constructors round trip
    l2 = npc.LegCharge.from_qflat(ci, leg.to_qflat(), leg.qconj)
    same_phys(l2, None, 'from_qflat')
    if leg.is_blocked() and ci.qnumber:
        l3 = npc.LegCharge.from_qdict(ci, leg.to_qdict(), leg.qconj)
        same_phys(l3, None, 'from_qdict')
        _, l3s = l3.sort(bunch=True)
        ks = [tuple(r[::-1]) for r in np.asarray(l3s.charges).tolist()]
        if ks != sorted(ks):
            raise Bad('leg:from_qdict-then-sort', 'sort() of a leg built by from_qdict is not sorted')
    if ci.qnumber:
        added = npc.LegCharge.from_add_charge([leg, leg])
        if np.asarray(added.to_qflat()).shape != (n, 2 * ci.qnumber) or not np.array_equal(np.asarray(added.to_qflat())[:, :ci.qnumber], np.asarray(leg.to_qflat())):
            raise Bad('leg:from_add_charge', 'charges not preserved')
        for which in (0, 'q0'):
            try:
                dr = npc.LegCharge.from_drop_charge(leg, which)
            except Exception as e:  # noqa: BLE001
                raise Bad('leg:from_drop_charge:raises:%s' % type(which).__name__, 'from_drop_charge(leg, %r) raised %s: %s' % (which, type(e).__name__, e))
            if dr.ind_len != n or dr.chinfo.qnumber != ci.qnumber - 1 or not np.array_equal(np.asarray(dr.to_qflat()), np.asarray(leg.to_qflat())[:, 1:]):
                raise Bad('leg:from_drop_charge', 'remaining charges changed')
        chg = npc.LegCharge.from_change_charge(leg, 0, 2, 'par')
        exp = np.asarray(mk(ci, spec).to_qflat()).copy()
        exp[:, 0] = exp[:, 0] % 2
        if not np.array_equal(np.asarray(chg.to_qflat()), exp):
            raise Bad('leg:from_change_charge', 'charges not reduced mod 2')
    if K.leg_fingerprint(leg) != fp:
        raise Bad('leg:mutated', 'an operation modified the leg it was called on')
    return True


def check_multi(legs4, qcs, order, new_axes):
    """Several pipes at once and nested pipes on a rank-4 tensor (raises Bad):
    combine_legs([g0, g1], new_axes) in any order of the groups / of new_axes equals the dense transposition + the
    pipe maps; split_legs with the axes listed in any order restores the tensor; conj() of a nested pipe conjugates the
    legs at every depth (after splitting everything, all legs are contractible with the original ones)."""
    import tenpy.linalg.np_conserved as npc
    ci = legs4[0].chinfo
    a = npc.Array.from_func(_filler, legs4, dtype=np.float64, labels=['a', 'b', 'c', 'd'])
    if a.stored_blocks == 0:
        return False
    dense = a.to_ndarray()
    groups = [[0, 1], [2, 3]] if order == 0 else [[2, 3], [0, 1]] if order == 1 else [[3, 0], [1, 2]]
    kw = dict(qconj=list(qcs))
    if new_axes is not None:
        kw['new_axes'] = new_axes
    c = a.combine_legs(groups, **kw)
    pos = new_axes if new_axes is not None else [0, 1] if min(groups[0]) < min(groups[1]) else [1, 0]
    if c.rank != 2:
        raise Bad('multi:rank', 'combining two pairs of a rank-4 tensor gives rank %d' % c.rank)
    exp_labels = [None, None]
    for g, p_ in zip(groups, pos):
        exp_labels[p_] = '(' + '.'.join('abcd'[k] for k in g) + ')'
    if c.get_leg_labels() != exp_labels:
        raise Bad('multi:labels', 'labels %r, expected %r' % (c.get_leg_labels(), exp_labels))
    cd = c.to_ndarray()
    pipes = [c.legs[pos[0]], c.legs[pos[1]]]
    for gi, (g, pipe) in enumerate(zip(groups, pipes)):
        if not isinstance(pipe, npc.LegPipe) or [l.ind_len for l in pipe.legs] != [legs4[k].ind_len for k in g] or pipe.qconj != qcs[gi]:
            raise Bad('multi:pipe-legs', 'pipe at position %d is not the pipe of legs %r with the requested qconj' % (pos[gi], g))
        for l_in, k in zip(pipe.legs, g):
            try:
                l_in.test_equal(legs4[k])
            except Exception as e:  # noqa: BLE001
                raise Bad('multi:pipe-legs', 'pipe for group %r does not contain the legs of that group: %s' % (g, e))
    for idx in itertools.product(*[range(l.ind_len) for l in legs4]):
        j = [int(pipes[gi].map_incoming_flat(np.array([idx[k] for k in g], dtype=np.intp))) for gi, g in enumerate(groups)]
        at = [0, 0]
        at[pos[0]], at[pos[1]] = j[0], j[1]
        if cd[tuple(at)] != dense[idx]:
            raise Bad('multi:placement', 'entry %r of the tensor is not where the two pipe maps put it' % (idx,))
    ref_t = a.transpose([k for p_ in sorted(range(2), key=lambda t: pos[t]) for k in groups[p_]])
    for axes in (None, [0, 1], [1, 0], ['%s' % c.get_leg_labels()[1], 0]):
        back = c.split_legs(axes)
        inv = K.array_invariants(back)
        if inv:
            raise Bad('multi:split:invariant', 'split_legs(%r): %s' % (axes, inv[0]))
        if back.get_leg_labels() != ref_t.get_leg_labels() or not np.array_equal(back.to_ndarray(), ref_t.to_ndarray()):
            raise Bad('multi:split-roundtrip', 'split_legs(%r) after combine_legs(%r, new_axes=%r) does not restore the tensor' % (axes, groups, new_axes))
    # nested pipe: ((a.b).c) ; conj ; split completely
    n1 = a.combine_legs([[0, 1]], qconj=qcs[0])
    n2 = n1.combine_legs([[0, 1]], qconj=qcs[1])
    nc = n2.conj()
    full = nc.split_legs(0).split_legs(0)
    ac = a.conj()
    if not np.array_equal(full.to_ndarray(), ac.to_ndarray()):
        raise Bad('nested:conj-split:values', 'conj of a nested pipe, split completely, differs from conj of the tensor')
    for k, (l1, l2) in enumerate(zip(full.legs, a.legs)):
        try:
            l1.test_contractible(l2)
        except Exception as e:  # noqa: BLE001
            raise Bad('nested:conj-split:legs', 'leg %d after conj + complete split is not contractible with the original leg: %s' % (k, e))
    inner = nc.legs[0].legs[0]
    if isinstance(inner, npc.LegPipe):
        for l_in, l_orig in zip(inner.legs, legs4[:2]):
            if l_in.qconj != -l_orig.qconj:
                raise Bad('nested:conj:inner-legs', 'conj() of a nested pipe does not conjugate the innermost legs')
        if K.leg_invariants(nc.legs[0]):
            raise Bad('nested:conj:invariant', K.leg_invariants(nc.legs[0])[0])
    try:
        npc.tensordot(n2, nc, axes=[[0, 1], [0, 1]])
    except Exception as e:  # noqa: BLE001
        raise Bad('nested:conj:not-contractible', str(e))
    return True


def units(tier, seed, label):
    us = []
    chs = ['U1', 'Z3', 'U1xZ2', 'Z2', 'none']
    for ch in chs:
        n1 = len(all_legs(ch, 3))
        for a in range(0, n1, 150):
            us.append(('single', ch, a, min(n1, a + 150)))
        n2 = len(all_legs(ch, 2))
        chunk = 6 if tier == 'quick' else 3
        for a in range(0, n2, chunk):
            if tier == 'quick' and ch not in ('U1', 'Z3') and (a // chunk) % 3 != 0:
                continue  # complete for U(1) and Z3 in the quick tier, every third first leg for the others
            us.append(('pairs', ch, a, min(n2, a + chunk), tier))
        if ch in ('U1', 'Z3', 'U1xZ2') or tier != 'quick':
            n3 = len(all_legs(ch, 3))
            for a in range(0, n3, 40):
                us.append(('pairs3', ch, a, min(n3, a + 40), tier))
        n1b = len(all_legs(ch, 1 if tier == 'quick' else 2))
        for a in range(0, n1b, 2 if tier == 'quick' else 4):
            us.append(('triples', ch, a, min(n1b, a + (2 if tier == 'quick' else 4)), tier))
    for ch in ('U1', 'Z3', 'U1xZ2'):
        nm = len(all_legs(ch, 2))
        for a in range(0, nm, 12):
            us.append(('multi', ch, a, min(nm, a + 12), tier))
    if label == 'PY' and tier == 'quick':
        # the pure-Python kernels differ only in LegPipe._init_from_legs and small helpers (compared directly in C04):
        # all single-leg cases, every fourth pipe unit
        pipes = [u for u in us if u[0] != 'single']
        us = [u for u in us if u[0] == 'single'] + pipes[::4]
    return us


def run_unit(unit):
    warnings.simplefilter('ignore')
    kind, ch = unit[0], unit[1]
    ci = chinfo(ch)
    ev = 0
    keys = set()
    viol = []
    sample = None

    def record(e, case):
        if len(viol) < 8:
            viol.append(dict(key=e.key, what='%s: %s' % (case, e.msg), case=case))

    if kind == 'multi':
        tier = unit[4]
        base = all_legs(ch, 2)
        first = base[unit[2]:unit[3]]
        partners = [s_ for s_ in base if len(s_[1]) == 2][:: (5 if tier == 'quick' else 2)] + [base[0]]
        for s0 in first:
            for pi, s1 in enumerate(partners):
                s2, s3 = partners[(pi * 7 + 3) % len(partners)], base[(unit[2] + pi) % len(base)]
                legs4 = [mk(ci, sp) for sp in (s0, s1, s2, s3)]
                for (qcs, order, new_axes) in [((1, -1), 0, None), ((-1, 1), 1, None), ((1, 1), 1, [1, 0]), ((-1, -1), 2, [1, 0]), ((1, -1), 0, [1, 0])]:
                    ev += 1
                    case = dict(kind='multi', ch=ch, legs=[[list(map(list, sp[0])), list(sp[1]), sp[2]] for sp in (s0, s1, s2, s3)], qconj=list(qcs), order=order, new_axes=new_axes)
                    try:
                        if check_multi(legs4, qcs, order, new_axes):
                            keys.add('m:%s:%r' % (ch, (s0, s1, s2, s3, qcs, order, new_axes)))
                    except Bad as e:
                        record(e, case)
                    except Exception as e:  # noqa: BLE001
                        import traceback
                        record(Bad('multi:exception:' + type(e).__name__, traceback.format_exc()[-800:]), case)
                    sample = case
    elif kind == 'single':
        legs = all_legs(ch, 3)[unit[2]:unit[3]]
        for spec in legs:
            ev += 1
            case = dict(kind='single', ch=ch, leg=[list(map(list, spec[0])), list(spec[1]), spec[2]])
            try:
                check_single(ci, spec)
            except Bad as e:
                record(e, case)
            except Exception as e:  # noqa: BLE001
                import traceback
                record(Bad('leg:exception:' + type(e).__name__, traceback.format_exc()[-800:]), case)
            if len(set(spec[0])) < len(spec[0]) or list(spec[0]) != sorted(spec[0]):
                keys.add('s:%s:%r' % (ch, spec))
            sample = case
    else:
        tier = unit[4]
        if kind == 'pairs':
            first = all_legs(ch, 2)[unit[2]:unit[3]]
            others = [all_legs(ch, 2)]
        elif kind == 'pairs3':
            first = all_legs(ch, 3)[unit[2]:unit[3]]
            first = [s for s in first if len(s[1]) == 3]
            partner = [s for s in all_legs(ch, 2) if s[1] in ((1,), (2, 1), (1, 2))][::(3 if len(WINDOW[ch]) <= 3 or tier != 'quick' else 10)]
            others = [partner]
        else:
            nb = 1 if tier == 'quick' else 2
            first = all_legs(ch, nb)[unit[2]:unit[3]]
            base = all_legs(ch, nb)
            others = [base, base[::2]] if tier == 'quick' else [base[::3], base[::5]]
        for s0 in first:
            for rest in itertools.product(*others):
                specs = (s0,) + tuple(rest)
                legs = [mk(ci, s) for s in specs]
                opts = [(qc, so, bu) for qc in (1, -1) for so in (True, False) for bu in (True, False)]
                if kind == 'triples' and tier == 'quick':
                    opts = [(1, True, True), (-1, True, False), (-1, False, True), (1, False, False)]
                if kind == 'pairs3' and tier == 'quick':
                    opts = [(1, True, True), (-1, True, True), (-1, True, False), (1, False, True), (1, False, False)]
                for (qc, so, bu) in opts:
                    ev += 1
                    case = dict(kind='pipe', ch=ch, legs=[[list(map(list, s[0])), list(s[1]), s[2]] for s in specs], qconj=qc, sort=so, bunch=bu)
                    try:
                        pipe, imap = check_pipe(legs, qc, so, bu, with_array=(so and bu))
                        # nested pipe: pipe of (pipe, first leg)
                        if kind == 'pairs' and so and bu and qc == 1:
                            check_pipe([pipe, legs[0]], -1, True, True, with_array=False)
                        if pipe.block_number < int(np.prod([l.block_number for l in legs])):
                            keys.add('p:%s:%r:%d%d%d' % (ch, specs, qc, so, bu))
                    except Bad as e:
                        record(e, case)
                    except Exception as e:  # noqa: BLE001
                        import traceback
                        record(Bad('pipe:exception:' + type(e).__name__, traceback.format_exc()[-800:]), case)
                    sample = case
    return dict(evaluations=ev, keys=keys, violations=viol, samples=[sample] if sample else [])


def replay(case):
    warnings.simplefilter('ignore')
    ci = chinfo(case['ch'])
    viol = []
    try:
        if case['kind'] == 'multi':
            legs4 = [mk(ci, (tuple(map(tuple, l[0])), tuple(l[1]), l[2])) for l in case['legs']]
            check_multi(legs4, tuple(case['qconj']), case['order'], case['new_axes'])
        elif case['kind'] == 'single':
            l = case['leg']
            check_single(ci, (tuple(map(tuple, l[0])), tuple(l[1]), l[2]))
        else:
            legs = [mk(ci, (tuple(map(tuple, l[0])), tuple(l[1]), l[2])) for l in case['legs']]
            check_pipe(legs, case['qconj'], case['sort'], case['bunch'])
    except Bad as e:
        viol.append(dict(key=e.key, what=e.msg, case=case))
    return dict(evaluations=1, violations=viol)
