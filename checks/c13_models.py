"""Model zoo + boring dense reference for C13 (kron / Jordan-Wigner products, ED per charge sector).

Every model is a list of abstract terms that is fed (a) to tenpy's CouplingModel generators and (b) to a dense
evaluation written here with full-space matrices.  The seed only changes the coupling values.
"""
import functools
import itertools
import zlib

import numpy as np


def _rng(seed, *what):
    return np.random.default_rng([seed, zlib.crc32(repr(what).encode())])


def _site(kind):
    from tenpy.networks import site as S
    return {'spin_Sz': lambda: S.SpinHalfSite('Sz'), 'spin_par': lambda: S.SpinHalfSite('parity'),
            'spin_none': lambda: S.SpinHalfSite(None), 'spin1_Sz': lambda: S.SpinSite(1.0, 'Sz'),
            'ferm_N': lambda: S.FermionSite('N'), 'ferm_par': lambda: S.FermionSite('parity'),
            'bose_N': lambda: S.BosonSite(2, 'N')}[kind]()


def _terms(name, L, seed):
    """-> (site kind, terms); term = ('onsite', coefs[L], op) | ('coupling', coefs[L-dx], op_i, op_j, dx, plus_hc)
    | ('exp', coef, lambda, op_i, op_j, plus_hc) | ('multi', coef, [(op, dx), ...], plus_hc)."""
    if name.endswith('_neg'):  # same model minus 4 per site: all energies negative (needed for `orthogonal_to`)
        kind, t = _terms(name[:-4], L, seed)
        return kind, t + [('onsite', np.full(L, -4.0), 'Id')]
    r = _rng(seed, name, L)
    u = lambda n, lo=0.5, hi=1.5: r.uniform(lo, hi, n)  # noqa: E731
    if name == 'xxz':  # NN, site-dependent couplings, operators with non-zero charge
        return 'spin_Sz', [('coupling', 0.5 * u(L - 1), 'Sp', 'Sm', 1, True), ('coupling', u(L - 1), 'Sz', 'Sz', 1, False),
                           ('onsite', u(L, -0.3, 0.3), 'Sz')]
    if name == 'j1j2':  # next-nearest neighbours + 3-site term
        t = [('coupling', 0.5 * u(L - 1), 'Sp', 'Sm', 1, True), ('coupling', u(L - 1), 'Sz', 'Sz', 1, False),
             ('coupling', 0.3 * u(L - 2), 'Sp', 'Sm', 2, True), ('coupling', 0.6 * u(L - 2), 'Sz', 'Sz', 2, False),
             ('onsite', u(L, -0.3, 0.3), 'Sz')]
        return 'spin_Sz', t + [('multi', 0.4, [('Sp', 0), ('Sz', 1), ('Sm', 2)], True)]
    if name == 'expdecay':  # exponentially decaying couplings
        return 'spin_Sz', [('exp', 0.9, 0.6, 'Sz', 'Sz', False), ('exp', 0.4, 0.5, 'Sp', 'Sm', True),
                           ('coupling', 0.5 * u(L - 1), 'Sp', 'Sm', 1, True), ('onsite', u(L, -0.3, 0.3), 'Sz')]
    if name == 'cfermi':  # fermions, complex NN + NNN hopping (Jordan-Wigner strings through a site)
        return 'ferm_N', [('coupling', u(L - 1) * np.exp(0.7j), 'Cd', 'C', 1, True), ('coupling', 0.5 * u(L - 2) * np.exp(-0.4j), 'Cd', 'C', 2, True),
                          ('coupling', u(L - 1), 'N', 'N', 1, False), ('onsite', u(L, -0.5, 0.5), 'N')]
    if name == 'bose':  # bosons d=3
        return 'bose_N', [('coupling', -u(L - 1), 'Bd', 'B', 1, True), ('onsite', 0.5 * u(L), 'NN'), ('onsite', u(L, -1.0, 0.0), 'N')]
    if name == 'kitaev':  # pairing terms: operators with non-zero (parity-breaking N) charge, complex
        return 'ferm_par', [('coupling', -u(L - 1), 'Cd', 'C', 1, True), ('coupling', 0.7 * u(L - 1) * np.exp(0.3j), 'Cd', 'Cd', 1, True),
                            ('onsite', u(L, -0.8, 0.2), 'N')]
    if name == 'tfi':  # Z2
        return 'spin_par', [('coupling', -u(L - 1), 'Sigmax', 'Sigmax', 1, False), ('coupling', 0.3 * u(L - 2), 'Sigmax', 'Sigmax', 2, False),
                            ('onsite', -u(L), 'Sigmaz')]
    if name == 'nocons':  # no charges, complex hermitian
        return 'spin_none', [('coupling', u(L - 1), 'Sx', 'Sx', 1, False), ('coupling', u(L - 1), 'Sy', 'Sz', 1, False),
                             ('coupling', 0.5 * u(L - 1) * np.exp(0.5j), 'Sp', 'Sm', 1, True), ('onsite', u(L, -0.4, 0.4), 'Sx'), ('onsite', u(L, -0.4, 0.4), 'Sy')]
    if name == 'spin1':  # d=3, U(1)
        return 'spin1_Sz', [('coupling', 0.5 * u(L - 1), 'Sp', 'Sm', 1, True), ('coupling', u(L - 1), 'Sz', 'Sz', 1, False),
                            ('onsite', u(L, 0.1, 0.5), 'Sz Sz'), ('onsite', u(L, -0.2, 0.2), 'Sz')]
    raise ValueError(name)


MODELS = ['xxz', 'cfermi', 'expdecay', 'kitaev', 'spin1', 'j1j2', 'bose', 'tfi', 'nocons']


def tenpy_model(name, L, ephc, seed):
    """The tenpy side: CouplingModel generators -> MPOModel."""
    from tenpy.models.lattice import Chain
    from tenpy.models.model import CouplingModel, MPOModel
    kind, terms = _terms(name, L, seed)
    lat = Chain(L, _site(kind), bc='open', bc_MPS='finite')

    class Zoo(CouplingModel, MPOModel):
        def __init__(self):
            CouplingModel.__init__(self, lat, explicit_plus_hc=ephc)
            for t in terms:
                if t[0] == 'onsite':
                    self.add_onsite(t[1], 0, t[2])
                elif t[0] == 'coupling':
                    self.add_coupling(t[1], 0, t[2], 0, t[3], t[4], plus_hc=t[5])
                elif t[0] == 'exp':
                    self.add_exponentially_decaying_coupling(t[1], t[2], t[3], t[4], plus_hc=t[5])
                else:
                    self.add_multi_coupling(t[1], [(op, dx, 0) for op, dx in t[2]], plus_hc=t[3])
            MPOModel.__init__(self, lat, self.calc_H_MPO())
    return Zoo()


class Reference:
    """Dense Hamiltonian, charges of the product basis and exact spectrum per charge sector."""

    def __init__(self, name, L, seed):
        kind, terms = _terms(name, L, seed)
        site = _site(kind)
        d = site.dim
        self.L, self.d = L, d
        JW = site.get_op('JW').to_ndarray()

        def full(opname, i):  # operator on site i in the full space, with Jordan-Wigner string if fermionic
            mats = [JW if (j < i and site.op_needs_JW(opname)) else np.eye(d) for j in range(L)]
            mats[i] = site.get_op(opname).to_ndarray()
            return functools.reduce(np.kron, mats)

        H = np.zeros((d**L, d**L), complex)
        for t in terms:
            if t[0] == 'onsite':
                parts = [(t[1][i], full(t[2], i), False) for i in range(L)]
            elif t[0] == 'coupling':
                parts = [(t[1][i], full(t[2], i) @ full(t[3], i + t[4]), t[5]) for i in range(L - t[4])]
            elif t[0] == 'exp':
                parts = [(t[1] * t[2]**(j - i), full(t[3], i) @ full(t[4], j), t[5]) for i in range(L) for j in range(i + 1, L)]
            else:
                span = max(dx for _, dx in t[2])
                parts = [(t[1], functools.reduce(np.matmul, [full(op, i + dx) for op, dx in t[2]]), t[3]) for i in range(L - span)]
            for c, m, hc in parts:
                H += c * m
                if hc:
                    H += np.conj(c * m).T
        assert np.abs(H - H.conj().T).max() < 1e-13
        self.H = H
        q1 = site.leg.to_qflat()  # (d, qnumber)
        mod = site.leg.chinfo.mod
        self.states = list(itertools.product(range(d), repeat=L))
        q = np.array([np.sum([q1[s] for s in st], axis=0) for st in self.states]).reshape(len(self.states), len(mod))
        for k, m in enumerate(mod):
            if m > 1:
                q[:, k] %= m
        self.charges = [tuple(int(x) for x in row) for row in q]
        self.sectors = sorted(set(self.charges))
        self.levels, self.vectors = {}, {}
        for s in self.sectors:
            idx = self.index(s)
            w, v = np.linalg.eigh(H[np.ix_(idx, idx)])
            self.levels[s], self.vectors[s] = w, v
        self.E_min = min(w[0] for w in self.levels.values())

    def index(self, sector):
        return [i for i, c in enumerate(self.charges) if c == sector]

    def product_states(self, sector):
        return [st for st, c in zip(self.states, self.charges) if c == sector]

    def ground_overlap(self, sector, vec, level=0):
        """Weight of `vec` in the (degenerate) eigenspace of the given level; gap to the next level above it."""
        w = self.levels[sector]
        below = int(np.sum(w < w[level] - 1e-7))  # first index of the degenerate multiplet
        sel = np.abs(w - w[level]) < 1e-7
        amp = self.vectors[sector][:, sel].conj().T @ vec[self.index(sector)]
        above = w[w > w[level] + 1e-7]
        return float(np.sum(np.abs(amp)**2)), (above[0] - w[level] if len(above) else np.inf), below


def dense_state(psi):
    """Own contraction of the stored tensors (no form conversion by tenpy): state = prod_i S^e_i B_i."""
    L = psi.L
    v = np.ones((1, 1), complex)
    for i in range(L):
        B = psi._B[i].transpose(['vL', 'p', 'vR']).to_ndarray()
        left_exp = 1.0 - psi.form[i][0] - (psi.form[i - 1][1] if i > 0 else 1.0)  # power of S on bond (i-1, i)
        S = psi._S[i]
        if not isinstance(S, np.ndarray):
            raise ValueError('singular values on bond %d are not a 1D array' % i)
        if left_exp != 0.0:
            B = (S**left_exp)[:, None, None] * B
        v = np.tensordot(v, B, axes=(-1, 0))
        v = v.reshape(-1, v.shape[-1])
    if psi.form[L - 1][1] != 1.0:
        v = v * psi._S[L][None, :]**(1.0 - psi.form[L - 1][1])
    return v.reshape(-1) * psi.norm


# ---------------------------------------------------------------- infinite chains with closed-form energy density

INF_TERMS = {  # uniform nearest-neighbour chains: terms as in _terms but with scalar coefficients
    'tfi': [('coupling', -1.0, 'Sigmax', 'Sigmax', 1, False), ('onsite', -1.5, 'Sigmaz')],  # J=1, g=1.5 (gapped)
    'xxz': [('coupling', 0.5, 'Sp', 'Sm', 1, True), ('coupling', 2.0, 'Sz', 'Sz', 1, False)],  # Delta=2 (gapped, Neel)
    # complex couplings.  cxxz: XXZ + Dzyaloshinskii-Moriya term = XXZ with J=|1-0.6i|, Delta=3/J after a twist about z
    'cxxz': [('coupling', 0.5 - 0.3j, 'Sp', 'Sm', 1, True), ('coupling', 3.0, 'Sz', 'Sz', 1, False)],
    # cxy: no charge, gapped (field); reference = exact ring of 8 sites (rings of 6, 8, 10 sites agree to 1e-7)
    'cxy': [('coupling', -1.0, 'Sx', 'Sx', 1, False), ('coupling', -0.5, 'Sy', 'Sy', 1, False), ('coupling', 0.2, 'Sz', 'Sz', 1, False),
            ('coupling', 0.3j, 'Sm', 'Sp', 1, True), ('onsite', -1.5, 'Sz'), ('onsite', -0.3, 'Sx')],
}
INF_SITES = {'tfi': ['spin_par', 'spin_none'], 'xxz': ['spin_Sz', 'spin_none'], 'cxxz': ['spin_Sz'], 'cxy': ['spin_none']}
INF_TOL = {'tfi': (1e-9, 1e-6), 'xxz': (1e-9, 1e-6), 'cxxz': (1e-9, 1e-6), 'cxy': (1e-5, 1e-5)}  # (slack of the lower bound, convergence)


def _xxz_density(delta):
    lam = np.arccosh(delta)
    n = np.arange(1, 100)
    return float(delta / 4 - np.sinh(lam) * (0.5 + 2 * np.sum(1.0 / (1.0 + np.exp(2 * n * lam)))))


@functools.lru_cache(maxsize=None)
def exact_density(name):
    """Closed forms: TFI -(1/pi) int_0^pi sqrt(1+g^2-2g cos k) dk; XXZ (Delta=cosh(lam)>1, Bethe ansatz)
    Delta/4 - sinh(lam) [1/2 + 2 sum_n 1/(1+exp(2 n lam))]; 'cxy': dense periodic ring of 8 sites."""
    if name == 'tfi':
        k = (np.arange(20000) + 0.5) * np.pi / 20000  # midpoint rule, smooth periodic integrand
        return float(-np.mean(np.sqrt(1 + 1.5**2 - 2 * 1.5 * np.cos(k))))
    if name == 'xxz':
        return _xxz_density(2.0)
    if name == 'cxxz':
        J = abs(1 - 0.6j)
        return J * _xxz_density(3.0 / J)
    site, N = _site('spin_none'), 8
    full = lambda n, i: functools.reduce(np.kron, [site.get_op(n).to_ndarray() if j == i else np.eye(2) for j in range(N)])  # noqa: E731
    H = np.zeros((2**N, 2**N), complex)
    for t in INF_TERMS[name]:
        for i in range(N):
            m = t[1] * (full(t[2], i) if t[0] == 'onsite' else full(t[2], i) @ full(t[3], (i + 1) % N))
            H += m + (m.conj().T if t[0] == 'coupling' and t[5] else 0)
    return float(np.linalg.eigvalsh(H)[0] / N)


def infinite_model(name, L, ephc, kind):
    from tenpy.models.lattice import Chain
    from tenpy.models.model import CouplingModel, MPOModel
    lat = Chain(L, _site(kind), bc='periodic', bc_MPS='infinite')

    class Zoo(CouplingModel, MPOModel):
        def __init__(self):
            CouplingModel.__init__(self, lat, explicit_plus_hc=ephc)
            for t in INF_TERMS[name]:
                if t[0] == 'onsite':
                    self.add_onsite(t[1], 0, t[2])
                else:
                    self.add_coupling(t[1], 0, t[2], 0, t[3], t[4], plus_hc=t[5])
            MPOModel.__init__(self, lat, self.calc_H_MPO())
    return Zoo()


def infinite_energy_density(name, psi):
    """Own evaluation for a canonical infinite MPS: mean over bonds of <theta| h_bond |theta>, theta = S B B."""
    site = psi.sites[0]
    d = site.dim
    op = lambda n: site.get_op(n).to_ndarray()  # noqa: E731
    h = np.zeros((d * d, d * d), complex)
    for t in INF_TERMS[name]:
        if t[0] == 'onsite':
            h += 0.5 * t[1] * (np.kron(op(t[2]), np.eye(d)) + np.kron(np.eye(d), op(t[2])))
        else:
            m = t[1] * np.kron(op(t[2]), op(t[3]))
            h += m + (m.conj().T if t[5] else 0)
    es = []
    for i in range(psi.L):
        S = psi.get_SL(i)
        B0 = psi.get_B(i, 'B').transpose(['vL', 'p', 'vR']).to_ndarray()
        B1 = psi.get_B(i + 1, 'B').transpose(['vL', 'p', 'vR']).to_ndarray()
        th = np.tensordot(S[:, None, None] * B0, B1, axes=(2, 0))  # vL p0 p1 vR
        th = th.transpose(1, 2, 0, 3).reshape(d * d, -1)
        es.append(np.real(np.einsum('ax,ab,bx->', th.conj(), h, th)) / np.real(np.vdot(th, th)))
    return float(np.mean(es))
