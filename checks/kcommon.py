"""Shared driver for the kernel checks C01, C02, C03: units = slices of the deterministic seed list (+ BFS depth)."""
import warnings

from vk import kengine, kernel as K, kseeds


def seed_list(ch, tier):
    ranks = (1, 2, 3) if tier == 'quick' else (1, 2, 3, 4)
    return kseeds.seeds(ch, tier, ranks=ranks)


def plan(tier, focus, label):
    """Returns list of units: ('grid'|'bfs', ch, start, stop, stride, offset, depth)."""
    chs = K.CHINFOS_QUICK if tier == 'quick' else K.CHINFOS_THOROUGH
    us = []
    bfs_fams = ('r1+conj', 'r2', 'r2+same', 'r1+same')
    for ci, ch in enumerate(chs):
        seeds = seed_list(ch, tier)
        n = len(seeds)
        stride = 1
        if tier == 'quick':
            stride = 9 if ch in ('U1', 'Z3', 'U1xZ2') else 18
        if tier == 'quick' and (label not in ('CY',) or focus == 'C03'):
            stride *= 2  # secondary configurations (pure Python, other optimization levels) and the snapshot-heavy C03
        if tier != 'quick' and label != 'CY' and focus in ('C02', 'C03'):
            stride = 3  # thorough: every seed in the compiled default configuration, every third one in the others
        offset = (ci + {'C01': 0, 'C02': 1, 'C03': 2}[focus]) % stride
        chunk = 300 if tier == 'quick' else 100
        for a in range(0, n, chunk):
            us.append(('grid', ch, a, min(n, a + chunk), stride, offset, 1))
        # deeper histories from a deterministic subset of seeds (one per family and charge info in quick)
        per_fam = 1 if tier == 'quick' else 6
        if tier == 'quick' and ch not in ('U1', 'Z3', 'U1xZ2'):
            continue
        for fi, fam in enumerate(bfs_fams):
            idx = [i for i, (_s, f) in enumerate(seeds) if f == fam]
            # prefer seeds with >= 2 stored blocks
            idx = [i for i in idx if len(seeds[i][0][0]['present']) >= 2] or idx
            if tier == 'quick' and ((fi + ci) % 2 == 1 or (label != 'CY' and fi >= 2)):
                continue
            step = max(1, len(idx) // per_fam)
            for k in range(per_fam):
                us.append(('bfs', ch, idx[(k * step + 3 * ci + 1) % len(idx)], None, None, None, 2))
        # rank-3 seeds with a traceable pair of legs and missing blocks: producer (trace / take_slice / ...) -> consumer
        def traceable(spec):
            ls = spec['legs']
            return any(ls[x]['charges'] == ls[y]['charges'] and ls[x]['sizes'] == ls[y]['sizes'] and ls[x]['qconj'] == -ls[y]['qconj']
                       for x in range(3) for y in range(x + 1, 3))
        idx3 = [i for i, (_s, f) in enumerate(seeds) if f == 'r3' and traceable(_s[0]) and len(_s[0]['present']) >= 3]
        if idx3 and (tier != 'quick' or (label == 'CY' and ch in ('U1', 'Z3'))):
            for k in range(1 if tier == 'quick' else 3):
                us.append(('bfs', ch, idx3[(k * 5 + ci) % len(idx3)], None, None, None, 2))
        # tensors without any stored block (rank 2 and 3): the zero-block shortcuts of every producer -> consumer pair
        for fam in ('r2', 'r3'):
            idx0 = [i for i, (_s, f) in enumerate(seeds) if f == fam and not _s[0]['present']]
            if idx0 and (tier != 'quick' or label == 'CY'):
                for k in range(1 if tier == 'quick' else 3):
                    us.append(('bfs', ch, idx0[(k * 7 + ci + len(idx0) // 2) % len(idx0)], None, None, None, 2))
        if tier != 'quick':
            idx = [i for i, (_s, f) in enumerate(seeds) if f == 'r1+conj']
            us.append(('bfs', ch, idx[len(idx) // 2], None, None, None, 3))
    # longest units first
    us.sort(key=lambda u: (u[0] != 'bfs', -u[6]))
    return us


def run(unit, focus, tier, max_states_bfs=None):
    warnings.simplefilter('ignore')
    kind, ch, a, b, stride, offset, depth = unit
    seeds = seed_list(ch, tier)
    sel = [a] if kind == 'bfs' else [i for i in range(a, b) if i % stride == offset]
    tot = dict(evaluations=0, states=0, transitions=0, traces=0)
    keys, outcomes, viol = set(), set(), []
    capped = False
    sample = None
    for i in sel:
        seed, fam = seeds[i]
        if kind == 'bfs' and depth >= 3:
            max_states = 4000
        else:
            max_states = max_states_bfs
        stats, v, k, o = kengine.bfs(seed, depth, {focus}, tier, max_states=max_states)
        for x in tot:
            tot[x] += stats[x]
        capped = capped or stats['capped']
        keys.update('%s:%d:%d' % (ch, i, h) for h in k)
        outcomes.update(o)
        for vv in v:
            if vv['cat'] != focus:
                continue  # (other properties' oracles are not this check's business)
            if len(viol) < 12:
                viol.append(dict(key=vv['key'], what='%s seed#%d (%s) ops %r: %s' % (ch, i, fam, vv['ops'], vv['msg']),
                                 case=dict(ch=ch, seed=seed, ops=[list(o_) for o_ in vv['ops']], focus=focus, tier=tier)))
        sample = dict(ch=ch, seed_index=i, family=fam, depth=depth, legs=[l['charges'] for l in seed[0]['legs']], qtotal=seed[0]['qtotal'],
                      blocks=seed[0]['present'])
    res = dict(tot)
    res.update(keys=keys, outcomes=outcomes, violations=viol, samples=[sample] if sample else [], capped=capped)
    return res


def _tuplify(x):
    if isinstance(x, list):
        return [_tuplify(y) for y in x]
    return x


def replay(case):
    warnings.simplefilter('ignore')
    ops = [tuple(o) for o in case['ops']]
    heap, viol = kengine.replay(case['seed'], ops, {case['focus']}, case.get('tier', 'quick'))
    v = [dict(key=k, what=m, case=case) for (c, k, m) in viol if c == case['focus']]
    return dict(evaluations=len(ops), violations=v)


def selfcheck(focus, tier):
    """Same history replayed twice gives the same canonical state."""
    ch = 'U1'
    seed, _ = seed_list(ch, tier)[5]
    h1, _ = kengine.replay(seed, [('conj', 0, False), ('transpose', 0, None, False, False)], {focus}, tier)
    h2, _ = kengine.replay(seed, [('conj', 0, False), ('transpose', 0, None, False, False)], {focus}, tier)
    if kengine.canon(h1) != kengine.canon(h2):
        return 'replaying one history twice gives different canonical states'
    return None
