"""C16 helper: the finite universe of operators / vector spaces and their dense references.

A `Space` is one charge sector (dimension d) of a block-sparse vector space together with converters between
npc vectors and flat numpy vectors *of that sector*.  An operator is given by its dense matrix on the sector
(`M`, d x d); the other charge sectors of the full operator get a fixed block with a much *lower* spectrum, so a
solver that leaves the sector of the start vector is noticed.
"""
import numpy as np

import tenpy.linalg.np_conserved as npc

STRUCTS = ('triv', 'u1x2', 'u1mix', 'rank3')
HERMITIAN_SPECTRA = ('nondeg', 'degmin', 'equal', 'zero', 'rank1neg', 'rank1pos', 'pm')
BASES = ('diag', 'rot', 'urot')


class MatvecOnly:
    """An operator object implementing nothing but `matvec` (the documented minimal interface)."""

    def __init__(self, fn):
        self._fn = fn

    def matvec(self, vec):
        return self._fn(vec)


class Space:
    def __init__(self, struct, d):
        self.struct, self.d = struct, d
        U1 = npc.ChargeInfo([1], ['N'])
        self.labels = ['p']
        if struct == 'triv':
            self.leg = npc.LegCharge.from_qflat(npc.ChargeInfo(), [[]] * d, 1)
            self.q = []
        elif struct == 'u1x2':  # target sector first, a second sector (dimension 2) after it
            self.leg = npc.LegCharge.from_qflat(U1, [[0]] * d + [[1]] * 2, 1)
            self.q = [0]
        elif struct == 'u1mix':  # three charges, not sorted, not bunched: the target sector is spread over blocks
            qf = [[1], [-1]] + [[1], [0]] * (d - 1) if d > 1 else [[-1], [1], [0]]
            self.leg = npc.LegCharge.from_qflat(U1, qf, 1)
            self.q = [1]
        elif struct == 'rank3':  # "vectors" are rank-3 tensors; target = charge-1 sector of a (x) b (x) c
            a = npc.LegCharge.from_qflat(U1, [[0], [1]], 1)
            b = npc.LegCharge.from_qflat(U1, [[0], [1]] if d > 1 else [[0]], 1)
            c = npc.LegCharge.from_qflat(U1, [[0]] * max(1, d // 2) + [[1]] * (d % 2 if d > 1 else 0), -1)
            # c has qconj=-1: charge-1 sector of a+b-c
            self.split = [a, b, c]
            self.labels = ['a', 'b', 'c']
            self.leg = npc.LegPipe(self.split, qconj=1)
            self.q = [1]
        else:
            raise ValueError(struct)
        qflat = self.leg.to_qflat()
        self.D = self.leg.ind_len
        self.mask = np.all(qflat == np.array(self.q, dtype=qflat.dtype)[np.newaxis, :], axis=1) if self.q else np.ones(self.D, bool)
        self.others = sorted(set(map(tuple, qflat[~self.mask].tolist())))
        self.qflat = qflat
        assert self.mask.sum() == d, (struct, d, self.mask.sum())

    # -- vectors
    def vec(self, v):
        """npc vector of the sector from a flat vector of length d."""
        full = np.zeros(self.D, dtype=np.asarray(v).dtype)
        full[self.mask] = v
        a = npc.Array.from_ndarray(full, [self.leg], qtotal=self.q or None, labels=['(a.b.c)' if self.struct == 'rank3' else 'p'])
        return a.split_legs(0) if self.struct == 'rank3' else a

    def flat(self, a):
        """(sector part, norm of the part outside the sector) of an npc vector."""
        if self.struct == 'rank3':
            a = a.combine_legs(self.labels, pipes=self.leg)
        full = a.to_ndarray()
        return full[self.mask], float(np.linalg.norm(full[~self.mask]))

    def same_legs(self, a, ref):
        if a.get_leg_labels() != ref.get_leg_labels() or not np.array_equal(a.qtotal, ref.qtotal):
            return False
        try:
            for x, y in zip(a.legs, ref.legs):
                x.test_equal(y)
        except ValueError:
            return False
        return True

    # -- operators
    def full_matrix(self, M):
        """Dense matrix on the full space: M on the sector, a low-lying fixed block on every other charge."""
        M = np.asarray(M)
        F = np.zeros((self.D, self.D), dtype=M.dtype)
        F[np.ix_(self.mask, self.mask)] = M
        for i, q in enumerate(self.others):
            m = np.all(self.qflat == np.array(q)[np.newaxis, :], axis=1)
            n = int(m.sum())
            blk = np.diag(-9.0 - i - 0.5 * np.arange(n)) + 0.25 * (np.ones((n, n)) - np.eye(n))
            F[np.ix_(m, m)] = blk
        return F

    def operator(self, M, form):
        """The operator with sector matrix M as rank-2 Array ('array'), or an object having only `matvec`."""
        F = self.full_matrix(M)
        A = npc.Array.from_ndarray(F, [self.leg, self.leg.conj()], labels=['p', 'p*'])
        if self.struct == 'rank3':
            A = npc.Array.from_ndarray(F, [self.leg, self.leg.conj()], labels=['(a.b.c)', '(a*.b*.c*)']).split_legs()
            return MatvecOnly(lambda v: npc.tensordot(A, v, axes=[['a*', 'b*', 'c*'], ['a', 'b', 'c']]))
        if form == 'array':
            return A
        return MatvecOnly(lambda v: npc.tensordot(A, v, axes=['p*', 'p']))


def spectrum(kind, d, rng):
    """Eigenvalues (ascending) of the named type; only the non-structural values depend on rng."""
    jit = rng.uniform(-0.05, 0.05, d)
    if kind == 'nondeg':
        return np.sort(-1.3 + 0.6 * np.arange(d) + jit)
    if kind == 'degmin':
        e = -1.3 + 0.6 * np.arange(d) + jit
        e[:2] = e[0]
        return np.sort(e)
    if kind == 'equal':
        return np.full(d, 0.7)
    if kind == 'zero':
        return np.zeros(d)
    if kind == 'rank1neg':
        return np.array([-1.5 + jit[0]] + [0.0] * (d - 1))
    if kind == 'rank1pos':
        return np.array([0.0] * (d - 1) + [1.5 + jit[0]])
    if kind == 'pm':
        a = 0.5 + 0.7 * np.arange(d // 2) + jit[:d // 2]
        return np.sort(np.concatenate([-a, a, [0.0] * (d % 2)]))
    raise ValueError(kind)


def basis(kind, d, rng):
    """Fixed unitary defining the eigenbasis: identity / real orthogonal / complex unitary."""
    if kind == 'diag':
        return np.eye(d)
    X = rng.standard_normal((d, d))
    if kind == 'urot':
        X = X + 1j * rng.standard_normal((d, d))
    Q, R = np.linalg.qr(X)
    return Q * (np.diag(R) / np.abs(np.diag(R)))


def hermitian(kind, bas, d, seed):
    """(M, eigenvalues, eigenvectors as columns) of the Hermitian test operator."""
    rng = np.random.default_rng([seed, d, HERMITIAN_SPECTRA.index(kind), BASES.index(bas)])
    lam = spectrum(kind, d, rng)
    Q = basis(bas, d, rng)
    M = (Q * lam) @ Q.conj().T
    return (M + M.conj().T) / 2, lam, Q


def general(kind, d, seed):
    """Non-Hermitian d x d test matrices for Arnoldi / GMRES."""
    rng = np.random.default_rng([seed, d, 77])
    if kind == 'real':
        return rng.standard_normal((d, d)) / np.sqrt(d) + np.diag(0.4 * np.arange(d))
    if kind == 'complex':
        return (rng.standard_normal((d, d)) + 1j * rng.standard_normal((d, d))) / np.sqrt(2 * d) + np.diag(0.4 * np.arange(d))
    if kind == 'triangular':  # known distinct eigenvalues on the diagonal
        return np.triu(rng.standard_normal((d, d)), 1) * 0.5 + np.diag(-1.0 + 0.7 * np.arange(d))
    if kind == 'antiherm':
        G = rng.standard_normal((d, d)) + 1j * rng.standard_normal((d, d))
        return 0.5j * (G + G.conj().T) / np.sqrt(d)
    raise ValueError(kind)


def start_vectors(d, lam, Q, seed):
    """Named start vectors (flat, length d): basis vectors, exact eigenvectors, two-eigenvector mix, generic."""
    rng = np.random.default_rng([seed, d, 55])
    cplx = np.iscomplexobj(Q)
    out = [('e%d' % i, np.eye(d)[i].astype(Q.dtype)) for i in range(d)]
    out.append(('eig0', Q[:, 0].copy()))
    if d > 1:
        out.append(('eig%d' % (d - 1), 2.5 * Q[:, d - 1]))
        out.append(('mix0+last', 0.6 * Q[:, 0] + 0.8 * Q[:, d - 1]))
        out.append(('noground', Q[:, 1:] @ (0.5 + np.arange(d - 1) * 0.3)))
    g = rng.standard_normal(d) + (1j * rng.standard_normal(d) if cplx else 0)
    out.append(('generic', 1.7 * g / np.linalg.norm(g)))
    return out
