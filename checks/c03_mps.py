"""C03, network level: tensors stored inside an MPS / MPO (and legs shared with sites) are never changed by operations
that only take the network as an operand; copies are independent.

Exhaustive small scope: pairs (psi, phi) of finite MPS over site families x gauges of the outer charge x forms, one MPO
per family; every non-in-place operation of the alphabet is applied with a full snapshot (identity of the tensor
objects, dense values, legs incl. fingerprints, qtotal, labels, forms, singular values, norm) of every operand before
and after; every in-place operation is applied to a `copy()` and the original must stay untouched.
"""
import itertools
import warnings

import numpy as np

from vk import kernel as K


def families():
    from tenpy.networks import site
    return {
        'spinSz': lambda: site.SpinHalfSite('Sz'),
        'spinSz-unsorted': lambda: site.SpinHalfSite('Sz', sort_charge=False),
        'spinNone': lambda: site.SpinHalfSite(None),
        'fermN': lambda: site.FermionSite('N'),
        'spin1': lambda: site.SpinSite(1.0, 'Sz'),
    }


def make_state(s, L, seed, chargeL, form):
    """Entangled finite MPS: product state + a few two-site unitaries, optional charge gauge on the left leg."""
    import tenpy.linalg.np_conserved as npc
    from tenpy.networks.mps import MPS
    d = s.dim
    prod = [i % d for i in range(L)]
    prod = prod[seed:] + prod[:seed]  # rotation: all seeds are in the same charge sector (needed for `add`)
    kw = {}
    if chargeL is not None and s.leg.chinfo.qnumber:
        kw['chargeL'] = [chargeL] * s.leg.chinfo.qnumber
    psi = MPS.from_product_state([s] * L, prod, bc='finite', **kw)
    rng = np.random.default_rng(100 + seed)
    for i in range(L - 1):
        # random charge-conserving hermitian two-site generator
        leg = s.leg
        h = npc.Array.from_func(rng.standard_normal, [leg, leg, leg.conj(), leg.conj()], labels=['p0', 'p1', 'p0*', 'p1*'])
        h = h + h.conj().transpose(['p0', 'p1', 'p0*', 'p1*'])
        H2 = h.combine_legs([['p0', 'p1'], ['p0*', 'p1*']], qconj=[+1, -1])
        U = npc.expm(0.3j * H2).split_legs()
        psi.apply_local_op(i, U, unitary=True)
    psi.canonical_form()
    psi.norm = 1.0 + 0.25 * seed
    if form != 'B':
        psi.convert_form(form)
    return psi


def snapshot_mps(psi):
    snap = dict(Bs=list(psi._B), ids=[id(B) for B in psi._B], dense=[B.to_ndarray().copy() for B in psi._B],
                labels=[B.get_leg_labels() for B in psi._B], qtotal=[np.array(B.qtotal).copy() for B in psi._B],
                legs=[[(l, K.leg_fingerprint(l)) for l in B.legs] for B in psi._B], form=[f for f in psi.form],
                S=[None if S is None else np.array(S).copy() for S in psi._S], norm=psi.norm, sites=list(psi.sites),
                site_legs=[(s.leg, K.leg_fingerprint(s.leg)) for s in psi.sites],
                site_ops=[{name: s.get_op(name).to_ndarray().copy() for name in sorted(s.opnames)[:6]} for s in psi.sites[:1]])
    return snap


def compare_mps(psi, snap, what):
    if len(psi._B) != len(snap['Bs']):
        return '%s: number of tensors changed' % what
    for i, B in enumerate(psi._B):
        if B is not snap['Bs'][i]:
            return '%s: tensor %d stored in the operand MPS was replaced by another object' % (what, i)
        if B.get_leg_labels() != snap['labels'][i]:
            return '%s: labels of tensor %d changed' % (what, i)
        if not np.array_equal(B.qtotal, snap['qtotal'][i]):
            return '%s: qtotal of tensor %d changed %s -> %s' % (what, i, snap['qtotal'][i], B.qtotal)
        for k, (l, fp) in enumerate(snap['legs'][i]):
            if B.legs[k] is not l:
                return '%s: leg %d of tensor %d was replaced' % (what, k, i)
            if K.leg_fingerprint(l) != fp:
                return '%s: leg object %d of tensor %d was mutated' % (what, k, i)
        try:
            d = B.to_ndarray()
        except Exception as e:  # noqa: BLE001
            return '%s: tensor %d unusable: %s' % (what, i, e)
        if d.shape != snap['dense'][i].shape or not np.array_equal(d, snap['dense'][i]):
            return '%s: values of tensor %d changed' % (what, i)
        inv = K.array_invariants(B)
        if inv:
            return '%s: tensor %d inconsistent: %s' % (what, i, inv[0])
    if list(psi.form) != snap['form']:
        return '%s: form changed %s -> %s' % (what, snap['form'], psi.form)
    for b, (S0, S1) in enumerate(zip(snap['S'], psi._S)):
        if (S0 is None) != (S1 is None) or (S0 is not None and (np.shape(S0) != np.shape(S1) or not np.array_equal(S0, S1))):
            return '%s: singular values on bond %d changed' % (what, b)
    if psi.norm != snap['norm']:
        return '%s: norm changed %r -> %r' % (what, snap['norm'], psi.norm)
    for s, (l, fp) in zip(psi.sites, snap['site_legs']):
        if s.leg is not l or K.leg_fingerprint(l) != fp:
            return '%s: leg of a Site changed' % what
    for name, d0 in snap['site_ops'][0].items():
        if not np.array_equal(psi.sites[0].get_op(name).to_ndarray(), d0):
            return '%s: operator %s of the shared Site changed' % (what, name)
    return None


def snapshot_mpo(H):
    return dict(Ws=list(H._W), dense=[W.to_ndarray().copy() for W in H._W], legs=[[(l, K.leg_fingerprint(l)) for l in W.legs] for W in H._W],
                IdL=list(H.IdL), IdR=list(H.IdR), labels=[W.get_leg_labels() for W in H._W])


def compare_mpo(H, snap, what):
    for i, W in enumerate(H._W):
        if W is not snap['Ws'][i]:
            return '%s: W tensor %d of the operand MPO was replaced' % (what, i)
        if W.get_leg_labels() != snap['labels'][i]:
            return '%s: labels of W %d changed' % (what, i)
        for k, (l, fp) in enumerate(snap['legs'][i]):
            if W.legs[k] is not l or K.leg_fingerprint(l) != fp:
                return '%s: leg %d of W %d changed' % (what, k, i)
        d = W.to_ndarray()
        if d.shape != snap['dense'][i].shape or not np.array_equal(d, snap['dense'][i]):
            return '%s: values of W %d changed' % (what, i)
    if list(H.IdL) != snap['IdL'] or list(H.IdR) != snap['IdR']:
        return '%s: IdL/IdR of the operand MPO changed: %s %s -> %s %s' % (what, snap['IdL'], snap['IdR'], list(H.IdL), list(H.IdR))
    return None


def nonmutating_ops(fam):
    from tenpy.networks.mps import MPSEnvironment
    ops = [
        ('overlap', lambda psi, phi, H: psi.overlap(phi)),
        ('overlap-reversed', lambda psi, phi, H: phi.overlap(psi)),
        ('add', lambda psi, phi, H: psi.add(phi, 0.5, -0.25j)),
        ('MPSEnvironment', lambda psi, phi, H: MPSEnvironment(psi, phi).full_contraction(1)),
        ('MPSEnvironment.expectation_value', lambda psi, phi, H: MPSEnvironment(psi, phi).expectation_value(psi.sites[0].opnames and 'Id')),
        ('expectation_value', lambda psi, phi, H: psi.expectation_value('Id')),
        ('correlation_function', lambda psi, phi, H: psi.correlation_function('Id', 'Id')),
        ('entanglement_entropy', lambda psi, phi, H: psi.entanglement_entropy()),
        ('get_theta', lambda psi, phi, H: psi.get_theta(0, 2)),
        ('get_B(copy=False)+conj', lambda psi, phi, H: psi.get_B(1, copy=False).conj()),
        ('get_rho_segment', lambda psi, phi, H: psi.get_rho_segment([0, 2])),
        ('copy', lambda psi, phi, H: psi.copy()),
        ('get_total_charge', lambda psi, phi, H: psi.get_total_charge()),
        ('H.expectation_value', lambda psi, phi, H: H.expectation_value(psi)),
        ('H.variance', lambda psi, phi, H: H.variance(psi)),
        ('H+H', lambda psi, phi, H: H + H),
        ('H.dagger', lambda psi, phi, H: H.dagger()),
        ('H.is_hermitian', lambda psi, phi, H: H.is_hermitian()),
        ('H.copy', lambda psi, phi, H: H.copy()),
        ('H.get_full_hamiltonian-like', lambda psi, phi, H: H.get_W(1).conj()),
        # propagators are built from the W tensors of H and then modified in place: H itself must stay intact
        # (real dt on a real H / any dt on a complex H needs no dtype conversion, i.e. no implicit copy)
        ('H.make_U_I(real dt)', lambda psi, phi, H: H.make_U_I(0.25)),
        ('H.make_U_I(imag dt)', lambda psi, phi, H: H.make_U_I(-0.25j)),
        ('H.make_U_II(real dt)', lambda psi, phi, H: H.make_U_II(0.25)),
        ('H.make_U_II(imag dt)', lambda psi, phi, H: H.make_U_II(-0.25j)),
        ('H.make_U_I(real dt)-then-modify', lambda psi, phi, H: H.make_U_I(0.25).get_W(1, copy=False).iscale_prefactor(3.0)),
    ]
    return ops


def inplace_on_copy_ops():
    """In-place methods: applied to a copy(), the source must be untouched (a deep copy is fully independent)."""
    return [
        ('canonical_form', lambda c, H: c.canonical_form()),
        ('convert_form(A)', lambda c, H: c.convert_form('A')),
        ('apply_local_op', lambda c, H: c.apply_local_op(1, c.sites[1].opnames and 'Id', unitary=False)),
        ('swap_sites', lambda c, H: c.swap_sites(1)),
        ('compress_svd', lambda c, H: c.compress_svd(dict(chi_max=2))),
        ('group_sites', lambda c, H: c.group_sites(2)),
        ('enlarge_chi', lambda c, H: c.enlarge_chi([0, 1, 1, 0, 0][:c.L + 1])),
        ('gauge_total_charge', lambda c, H: c.gauge_total_charge()),
        ('set_B-scaled', lambda c, H: c.set_B(0, c.get_B(0, copy=False) * 2.0)),
        ('inplace-on-tensor', lambda c, H: c.get_B(1, copy=False).iscale_prefactor(3.0)),
        ('H.apply_naively', lambda c, H: H.apply_naively(c)),
        ('H.apply(SVD)', lambda c, H: H.apply(c, dict(compression_method='SVD', trunc_params=dict(chi_max=4)))),
    ]


def mpo_inplace_on_copy_ops():
    return [
        ('sort_legcharges', lambda Hc: Hc.sort_legcharges()),
        ('group_sites', lambda Hc: Hc.group_sites(2)),
        ('prefactor-like-scale', lambda Hc: Hc.get_W(0, copy=False).iscale_prefactor(2.0)),
    ]


def build_mpo(s, L, fam):
    from tenpy.networks.mpo import MPOGraph
    from tenpy.networks.terms import TermList
    if fam.startswith('ferm'):
        terms = [[('Cd', i), ('C', i + 1)] for i in range(L - 1)] + [[('C', i + 1), ('Cd', i)] for i in range(L - 1)] + [[('N', i)] for i in range(L)]
        strength = [1.0] * (L - 1) + [-1.0] * (L - 1) + [0.3 * (i + 1) for i in range(L)]
    else:
        terms = [[('Sp', i), ('Sm', i + 1)] for i in range(L - 1)] + [[('Sm', i), ('Sp', i + 1)] for i in range(L - 1)] + [[('Sz', i), ('Sz', (i + 2))] for i in range(L - 2)]
        strength = [0.5] * (2 * (L - 1)) + [0.7] * (L - 2)
    tl = TermList(terms, strength)
    return MPOGraph.from_term_list(tl, [s] * L, 'finite', unit_cell_width=L).build_MPO()


def cases(tier):
    out = []
    for fam in families():
        for (cL1, cL2) in ((None, None), (None, 1), (1, 2)):
            for (f1, f2) in (('B', 'B'), ('A', 'B'), ('B', 'C')):
                if tier == 'quick' and (f1, f2) != ('B', 'B') and cL1 is not None:
                    continue
                out.append((fam, cL1, cL2, f1, f2))
    return out


def run_case(case, tier):
    warnings.simplefilter('ignore')
    fam, cL1, cL2, f1, f2 = case
    L = 4
    viol = []
    ev = 0
    keys = set()

    def fresh():
        s = families()[fam]()  # ONE site object shared by both states and the MPO (as in a model)
        psi = make_state(s, L, 0, cL1, f1)
        phi = make_state(s, L, 1, cL2, f2)
        H = build_mpo(s, L, fam)
        return s, psi, phi, H

    for name, fn in nonmutating_ops(fam):
        ev += 1
        s, psi, phi, H = fresh()
        s1, s2, s3 = snapshot_mps(psi), snapshot_mps(phi), snapshot_mpo(H)
        try:
            fn(psi, phi, H)
        except Exception as e:  # noqa: BLE001
            viol.append(('mps:%s:raises:%s' % (name, type(e).__name__), '%s on %r raised %s: %s' % (name, case, type(e).__name__, e)))
            continue
        for msg in (compare_mps(psi, s1, 'first operand'), compare_mps(phi, s2, 'second operand'), compare_mpo(H, s3, 'MPO')):
            if msg:
                viol.append(('mps:%s:operand-changed' % name, '%s on %r: %s' % (name, case, msg)))
        if cL1 != cL2:
            keys.add('%s:%r' % (name, case))
    for name, fn in inplace_on_copy_ops():
        ev += 1
        s, psi, phi, H = fresh()
        s1, s3 = snapshot_mps(psi), snapshot_mpo(H)
        c = psi.copy()
        try:
            fn(c, H)
        except Exception as e:  # noqa: BLE001
            viol.append(('mps:copy-then-%s:raises:%s' % (name, type(e).__name__), '%s on a copy (%r) raised %s: %s' % (name, case, type(e).__name__, e)))
            continue
        for msg in (compare_mps(psi, s1, 'source of the copy'), compare_mpo(H, s3, 'MPO')):
            if msg:
                viol.append(('mps:copy-then-%s:source-changed' % name, '%s applied to psi.copy() (%r): %s' % (name, case, msg)))
        keys.add('copy:%s:%r' % (name, case))
    for name, fn in mpo_inplace_on_copy_ops():
        ev += 1
        s, psi, phi, H = fresh()
        s3 = snapshot_mpo(H)
        import copy
        Hc = copy.deepcopy(H)  # (MPO.copy() is documented to be shallow; a deep copy must be fully independent)
        try:
            fn(Hc)
        except Exception as e:  # noqa: BLE001
            viol.append(('mpo:copy-then-%s:raises:%s' % (name, type(e).__name__), '%s on deepcopy(H) (%r) raised %s: %s' % (name, case, type(e).__name__, e)))
            continue
        msg = compare_mpo(H, s3, 'source MPO of the copy')
        if msg:
            viol.append(('mpo:copy-then-%s:source-changed' % name, '%s applied to copy.deepcopy(H) (%r): %s' % (name, case, msg)))
        keys.add('mpocopy:%s:%r' % (name, case))
    # constructor aliasing: MPS(sites, Bs, SVs) must not be affected by later changes of the caller's lists
    ev += 1
    s, psi, phi, H = fresh()
    from tenpy.networks.mps import MPS
    Bs = [B.copy() for B in psi._B]
    SVs = [np.array(S) for S in psi._S]
    new = MPS(psi.sites, Bs, SVs, bc='finite', form='B' if f1 == 'B' else None)
    before = [B.to_ndarray().copy() for B in new._B]
    Bs[0] = Bs[0] * 5.0
    Bs.pop()
    SVs[1] = SVs[1] * 0.0
    if len(new._B) != L or any(not np.array_equal(B.to_ndarray(), d) for B, d in zip(new._B, before)) or np.all(np.array(new._S[1]) == 0):
        viol.append(('mps:constructor:aliases-caller-lists', 'MPS(sites, Bs, SVs) changed when the caller modified its lists afterwards (%r)' % (case,)))
    return ev, keys, viol


def units(tier):
    cs = cases(tier)
    return [('mps', i, tier) for i in range(len(cs))]


def run_unit(unit):
    _, i, tier = unit
    case = cases(tier)[i]
    ev, keys, viol = run_case(case, tier)
    vs = [dict(key=k, what=m, case=dict(mps_case=list(case), tier=tier)) for k, m in viol[:12]]
    return dict(evaluations=ev, transitions=ev, states=1, traces=ev, keys=keys, violations=vs, samples=[dict(kind='mps-aliasing', case=list(case), operations=ev)])


def replay(case):
    c = tuple(case['mps_case'])
    ev, keys, viol = run_case(c, case.get('tier', 'quick'))
    return dict(evaluations=ev, violations=[dict(key=k, what=m, case=case) for k, m in viol])
