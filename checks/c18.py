"""C18 -- results on disk survive a crash; a resumed run equals an uninterrupted one.

Part A (fault enumeration + explicit-state search): the real Simulation.save_results -> hdf5_io.save -> pickle/h5py
write path runs in forked children of a warmed server under an LD_PRELOAD libc shim that kills the process right
before (or in the middle of) the n-th file-system operation of the s-th save.  Every n of the recorded operation
log is visited, torn writes at byte prefixes {1, len/2, len-1}; the abstract file-state graph is closed under
crash -> resume -> crash.  Invariant in every dead state after >=1 acknowledged save: the output file or its
backup loads completely and holds the last acknowledged checkpoint or the one being written.

Part B (exhaustive histories): resume from every checkpoint of ground-state searches and time evolutions and
compare final state, energies and measurement sequences with the uninterrupted run.
"""
import copy
import json
import os
import shutil
import subprocess
import sys
import tempfile

import numpy as np

UNIT_TIMEOUT = 2400.0
HERE = os.path.dirname(os.path.dirname(os.path.abspath(__file__)))
SHIM = os.path.join(HERE, '.build', 'crashfs_shim.so')


# ------------------------------------------------------------------------------------------------ server client

class Server:
    def __init__(self, workdir):
        self.dir = os.path.join(workdir, 'cf')
        os.makedirs(self.dir, exist_ok=True)
        env = dict(os.environ)
        env['LD_PRELOAD'] = SHIM
        env['CRASHFS_DIR'] = self.dir
        self.p = subprocess.Popen([sys.executable, '-m', 'vk.crashfs.runner'], stdin=subprocess.PIPE, stdout=subprocess.PIPE, env=env, cwd=HERE,
                                  text=True, bufsize=1)
        ready = json.loads(self.p.stdout.readline())
        assert ready.get('ready')

    def cmd(self, c):
        self.p.stdin.write(json.dumps(c) + '\n')
        self.p.stdin.flush()
        line = self.p.stdout.readline()
        if not line:
            raise RuntimeError('crash server died')
        return json.loads(line)

    def close(self):
        try:
            self.cmd({'kind': 'quit'})
        except Exception:  # noqa: BLE001
            pass
        try:
            self.p.wait(5)
        except Exception:  # noqa: BLE001
            self.p.kill()


def sim_params(fmt, outdir, kind='dmrg'):
    p = dict(
        output_filename=os.path.join(outdir, 'res.' + fmt),
        overwrite_output=True,
        save_every_x_seconds=0.0,
        log_params=dict(to_stdout=None, to_file=None),
        model_class='XXZChain',
        model_params=dict(L=4, Jxx=1.0, Jz=0.5, hz=0.0, bc_MPS='finite'),
        initial_state_params=dict(method='lat_product_state', product_state=[['up'], ['down']]),
    )
    if kind == 'dmrg':
        p.update(algorithm_class='TwoSiteDMRGEngine',
                 algorithm_params=dict(min_sweeps=3, max_sweeps=3, mixer=False, trunc_params=dict(chi_max=8), max_E_err=1e-30, max_S_err=1e-30, N_sweeps_check=1))
        return 'GroundStateSearch', p
    p.update(algorithm_class='TEBDEngine', final_time=0.3,
             algorithm_params=dict(dt=0.05, N_steps=2, order=2, trunc_params=dict(chi_max=8)))
    return 'RealTimeEvolution', p


class History:
    """Executes a list of process lifetimes on a clean directory; tracks acknowledged saves."""

    def __init__(self, srv, fmt, kind):
        self.srv = srv
        self.fmt = fmt
        self.kind = kind
        self.out = os.path.join(srv.dir, 'res.' + fmt)
        self.backup = os.path.join(srv.dir, 'res.backup.' + fmt)
        self.ack = os.path.join(os.path.dirname(srv.dir), 'ack.txt')
        self.clean()

    def clean(self):
        for f in os.listdir(self.srv.dir):
            p = os.path.join(self.srv.dir, f)
            shutil.rmtree(p) if os.path.isdir(p) else os.remove(p)
        for f in (self.ack, self.ack + '.err'):
            if os.path.exists(f):
                os.remove(f)

    def snapshot(self, name):
        """Copy the on-disk state (files + acknowledgements) aside; `restore` puts it back."""
        dst = os.path.join(os.path.dirname(self.srv.dir), 'snap_' + name)
        shutil.rmtree(dst, ignore_errors=True)
        shutil.copytree(self.srv.dir, os.path.join(dst, 'cf'))
        if os.path.exists(self.ack):
            shutil.copy(self.ack, os.path.join(dst, 'ack.txt'))
        return dst

    def restore(self, snap):
        self.clean()
        for f in os.listdir(os.path.join(snap, 'cf')):
            shutil.copy(os.path.join(snap, 'cf', f), os.path.join(self.srv.dir, f))
        if os.path.exists(os.path.join(snap, 'ack.txt')):
            shutil.copy(os.path.join(snap, 'ack.txt'), self.ack)

    def acks(self):
        """list of (save index in its process, checkpoint id) acknowledged so far, over all processes."""
        if not os.path.exists(self.ack):
            return []
        out = []
        for line in open(self.ack):
            s, cid = line.split(' ', 1)
            out.append((int(s), json.loads(cid)))
        return out

    def run(self, step, record=None):
        """step = ('fresh'|'resume', crash or None). Returns exit info."""
        simcls, params = sim_params(self.fmt, self.srv.dir, self.kind)
        cmd = dict(kind=step[0], sim_class=simcls, params=params, ackfile=self.ack, timeout=120)
        if step[0] == 'resume':
            st = self.states()
            f = self.pick_resume_file(st)
            if f is None:
                return dict(exit='nothing-to-resume')
            cmd['file'] = f
        if step[1]:
            cmd['crash'] = dict(save=step[1][0], n=step[1][1], tear=step[1][2])
        if record:
            cmd['record'] = record
        return self.srv.cmd(cmd)

    def states(self):
        return self.srv.cmd(dict(kind='classify', paths=[self.out, self.backup]))['states']

    def pick_resume_file(self, st):
        """What a user / resume script does: take the output file if it loads, else the backup."""
        if isinstance(st[0], list) and not st[0][2]:
            return self.out
        if isinstance(st[1], list) and not st[1][2]:
            return self.backup
        return None


def abstract(st, last_ack):
    """Abstract file state relative to the last acknowledged checkpoint."""
    def ab(s):
        if isinstance(s, list):
            n = s[1]
            rel = None if (n is None or last_ack is None) else n - last_ack
            return ('complete', rel, s[2])
        return s
    return (ab(st[0]), ab(st[1]))


def read_oplog(prefix, s):
    ops = []
    path = '%s.%d' % (prefix, s)
    if not os.path.exists(path):
        return ops
    for line in open(path):
        parts = line.rstrip('\n').split(' ')
        if parts[0] == '' or not parts[0].isdigit() or '->' in parts:
            continue
        ops.append((int(parts[0]), parts[1], parts[2], int(parts[3]), int(parts[4])))
    # one entry per op number (the '->' continuation lines of rename are skipped above)
    seen, out = set(), []
    for o in ops:
        if o[0] not in seen:
            seen.add(o[0])
            out.append(o)
    return out


def crash_points(oplog, tears='all'):
    """All (n, tear) for one save: before every op; for writes additionally torn prefixes."""
    pts = []
    for (n, op, path, a, b) in oplog:
        pts.append((n, -1, op))
        if op in ('write', 'pwrite', 'writev') and a > 1 and tears != 'none':
            for t in sorted({1, a // 2, a - 1} if tears == 'all' else {a // 2}):
                if 0 < t < a:
                    pts.append((n, t, op + '-torn'))
    # and "after the last op" = no crash in this save is covered by the crash points of the next save
    return pts


def check_dead_state(hist, what, viol, case):
    """Invariant of the property in a state where the process is dead."""
    st = hist.states()
    acks = hist.acks()
    if not acks:
        return st, None  # nothing acknowledged yet: nothing promised
    last = acks[-1][1]  # [n, finished]
    ok = False
    for s in st:
        if isinstance(s, list):
            n = s[1]
            if n is not None and last[0] is not None and n >= last[0] and s[4]:
                ok = True
            if s[2] and last[1]:
                ok = True
    if not ok:
        key = 'A:%s:%s:no-complete-file:%s' % (hist.fmt, hist.kind, '>'.join('%s.s%d@%s' % (st_[0], st_[1][0], st_[1][3]) for st_ in case))
        if len(viol) < 10:
            viol.append(dict(key=key, what='after %s the files are out=%r backup=%r but checkpoint %r had been acknowledged: no complete results file left' % (
                case, _short(st[0]), _short(st[1]), last), case=dict(part='A', fmt=hist.fmt, kind=hist.kind, history=case)))
    return st, last


def _short(s):
    if isinstance(s, list):
        return ['complete', s[1], s[2]]
    return s


def partA(unit):
    _, fmt, kind, save_idx, depth, tier = unit[:6]
    tears1, tears2, saves2 = unit[6:9] if len(unit) > 6 else ('all', 'all', 2)
    shard, nshards = unit[9:11] if len(unit) > 9 else (0, 1)
    mode = unit[11] if len(unit) > 11 else 'both'  # 'l1': first crash only (sharded over crash points);
    # 'l2': discover the abstract dead states with a pass over all operations (no torn writes) and expand, after a
    # resume, those states whose discovery index falls into this shard
    wd = tempfile.mkdtemp(prefix='c18_', dir=os.environ.get('VERIF_WORKDIR'))
    srv = Server(wd)
    viol, keys, outcomes = [], set(), set()
    ev = states_n = trans = 0
    samples = []
    try:
        hist = History(srv, fmt, kind)
        # recording pass: op log of every save of an uninterrupted run
        rec = os.path.join(wd, 'oplog')
        r = hist.run(('fresh', None), record=rec)
        if r['exit'] != 0:
            return dict(evaluations=1, violations=[dict(key='A:%s:%s:reference-run-failed' % (fmt, kind), what='uninterrupted run exits with %r: %s' % (
                r['exit'], open(hist.ack + '.err').read()[-1500:] if os.path.exists(hist.ack + '.err') else ''), case=dict(part='A', fmt=fmt, kind=kind, history=[]))])
        n_saves = len(hist.acks())
        ref_states = hist.states()
        logs = {s: read_oplog(rec, s) for s in range(1, n_saves + 1)}
        if save_idx > n_saves:
            return dict(evaluations=1, samples=[dict(note='only %d saves' % n_saves)])
        seen = set()
        # level 1: fresh run killed inside save `save_idx`
        level1 = [[['fresh', [save_idx, n, t, o]]] for (n, t, o) in crash_points(logs[save_idx], tears1 if mode != 'l2' else 'none')]
        if mode != 'l2':
            level1 = level1[shard::nshards]
        snaps = {}
        frontier = []
        for h in level1:
            hist.clean()
            r = hist.run(('fresh', tuple(h[0][1][:3])))
            ev += 1
            trans += 1
            if r['exit'] == 0:
                outcomes.add('completed')
                continue  # crash point beyond the ops of this save (should not happen)
            st, last = check_dead_state(hist, 'crash-in-save', viol, h)
            ab = abstract(st, last[0] if last else None)
            outcomes.add(str(ab))
            if any(s == 'torn' for s in st):
                keys.add('A:%s:%s:%r' % (fmt, kind, h))
            if ab not in seen:
                seen.add(ab)
                frontier.append(h)
                snaps[json.dumps(h)] = hist.snapshot('%d' % len(snaps))
            if not samples:
                samples.append(dict(part='A', fmt=fmt, kind=kind, history=h, files=[_short(s) for s in st], acknowledged=last))
        if mode == 'l2':
            frontier = frontier[shard::nshards]
        # deeper levels: resume, crash in the first / second save after the resume
        for d in range(1, depth if mode != 'l1' else 1):
            new = []
            for fi, h in enumerate(frontier):
                # op logs of the saves of the resumed process: record once per abstract state
                snap = snaps.get(json.dumps(h))
                if snap is not None:
                    hist.restore(snap)  # the files (and acknowledgements) left by the history h
                else:
                    hist.clean()
                    _replay(hist, h)
                    snap = snaps[json.dumps(h)] = hist.snapshot('%d' % len(snaps))
                rec2 = os.path.join(wd, 'oplog_r%d_%d' % (d, fi))
                r = hist.run(('resume', None), record=rec2)
                if r['exit'] == 'nothing-to-resume':
                    continue
                n2 = 0
                while os.path.exists('%s.%d' % (rec2, n2 + 1)):
                    n2 += 1
                for s2 in range(1, min(n2, saves2) + 1):
                    for (n, t, o) in crash_points(read_oplog(rec2, s2), tears2):
                        h2 = h + [['resume', [s2, n, t, o]]]
                        hist.restore(snap)
                        r = hist.run(('resume', (s2, n, t)))
                        ev += 1
                        trans += 1
                        if r['exit'] == 0:
                            continue
                        st, last = check_dead_state(hist, 'crash-after-resume', viol, h2)
                        ab = abstract(st, last[0] if last else None)
                        outcomes.add(str(ab))
                        if any(s == 'torn' for s in st):
                            keys.add('A:%s:%s:%r' % (fmt, kind, h2))
                        if (d, ab) not in seen:
                            seen.add((d, ab))
                            new.append(h2)
                            if d + 1 < depth:
                                snaps[json.dumps(h2)] = hist.snapshot('%d' % len(snaps))
            frontier = new
        states_n = len(seen)
    finally:
        srv.close()
        shutil.rmtree(wd, ignore_errors=True)
    return dict(evaluations=ev, states=states_n, transitions=trans, traces=ev, keys=keys, outcomes=outcomes, violations=viol, samples=samples)


def _replay(hist, h):
    for step in h:
        hist.run((step[0], tuple(step[1][:3]) if step[1] else None))


def units(tier, seed, label):
    us = []
    for fmt in ('h5', 'pkl'):
        for kind in ('dmrg',) if tier == 'quick' else ('dmrg', 'tebd'):
            for s in (1, 2, 3, 4) if tier == 'quick' else (1, 2, 3, 4, 5):
                if tier == 'quick' and fmt == 'h5':
                    # HDF5 saves consist of ~100 pwrite operations: quick = every operation of the 1st and 2nd save,
                    # torn writes at half length, second crash (after resume) before every operation of the first save
                    if s <= 2:
                        for sh in range(4):
                            us.append(('A', fmt, kind, s, 1, tier, 'mid', 'none', 1, sh, 4, 'l1'))
                    if s == 2:
                        for sh in range(6):
                            us.append(('A', fmt, kind, s, 2, tier, 'mid', 'none', 1, sh, 6, 'l2'))
                elif fmt == 'pkl':
                    us.append(('A', fmt, kind, s, 2 if tier == 'quick' else 3, tier, 'all', 'all', 2, 0, 1, 'both'))
                else:
                    for sh in range(8):
                        us.append(('A', fmt, kind, s, 1, tier, 'all', 'all', 2, sh, 8, 'l1'))
                    for sh in range(4):
                        us.append(('A', fmt, kind, s, 3, tier, 'all', 'all', 2, sh, 4, 'l2'))
    us.sort(key=lambda u: (len(u) > 11 and u[11] == 'l2', u[1] == 'h5'), reverse=True)
    for (name, simcls, params) in partB_configs(tier):
        for fmt in ('pkl',) if tier == 'quick' else ('pkl', 'h5'):
            us.append(('B', name, simcls, params, fmt, tier))
    return us


def run_unit(unit):
    if unit[0] == 'A':
        return partA(unit)
    return partB(unit)


def replay(case):
    if case.get('part') == 'B':
        cfg = [c for c in partB_configs(case['tier']) if c[0] == case['name']][0]
        r = partB(('B', cfg[0], cfg[1], cfg[2], case['fmt'], case['tier']))
        r['violations'] = [v for v in r['violations'] if v['case'].get('resume_from') == case.get('resume_from')]
        return r
    wd = tempfile.mkdtemp(prefix='c18_', dir=os.environ.get('VERIF_WORKDIR'))
    srv = Server(wd)
    viol = []
    try:
        hist = History(srv, case['fmt'], case['kind'])
        _replay(hist, case['history'])
        check_dead_state(hist, 'replay', viol, case['history'])
    finally:
        srv.close()
        shutil.rmtree(wd, ignore_errors=True)
    return dict(evaluations=1, violations=viol)


# ------------------------------------------------------------------------------------------------ Part B

def partB_configs(tier):
    """(name, simulation class, parameters) of the resume-equivalence family."""
    base = dict(overwrite_output=True, save_every_x_seconds=0.0, log_params=dict(to_stdout=None, to_file=None), model_class='XXZChain',
                model_params=dict(L=4, Jxx=1.0, Jz=0.5, hz=0.1, bc_MPS='finite'),
                initial_state_params=dict(method='lat_product_state', product_state=[['up'], ['down']]),
                connect_measurements=[['tenpy.simulations.measurement', 'm_onsite_expectation_value', dict(opname='Sz')],
                                      ['psi_method', 'wrap correlation_function', dict(results_key='SpSm', ops1='Sp', ops2='Sm')]])
    dm = dict(min_sweeps=4, max_sweeps=4, max_E_err=1e-30, max_S_err=1e-30, N_sweeps_check=1, trunc_params=dict(chi_max=8, svd_min=1e-12))
    out = []

    def gs(name, alg, ap, **extra):
        p = copy.deepcopy(base)
        p.update(algorithm_class=alg, algorithm_params=ap)
        p.update(extra)
        out.append((name, 'GroundStateSearch', p))

    def te(name, alg, ap, final_time=0.4, **extra):
        p = copy.deepcopy(base)
        p.update(algorithm_class=alg, algorithm_params=ap, final_time=final_time)
        p.update(extra)
        out.append((name, 'RealTimeEvolution', p))

    gs('dmrg2', 'TwoSiteDMRGEngine', dict(dm, mixer=False))
    gs('dmrg2-mixer', 'TwoSiteDMRGEngine', dict(dm, mixer=True, mixer_params=dict(amplitude=1e-3, decay=2.0, disable_after=3)))
    gs('dmrg1-mixer', 'SingleSiteDMRGEngine', dict(dm, mixer=True, mixer_params=dict(amplitude=1e-3, decay=2.0, disable_after=3)))
    gs('dmrg2-chi_list', 'TwoSiteDMRGEngine', dict(dm, mixer=False, chi_list={0: 2, 2: 8}))
    gs('dmrg2-chi_list-unordered', 'TwoSiteDMRGEngine', dict(dm, mixer=False, chi_list={2: 8, 0: 2}))
    gs('dmrg2-measure-at-checkpoints', 'TwoSiteDMRGEngine', dict(dm, mixer=False), measure_at_algorithm_checkpoints=True)
    te('tebd-trunc', 'TEBDEngine', dict(dt=0.05, N_steps=2, order=2, trunc_params=dict(chi_max=2, svd_min=1e-12)))
    te('tebd4', 'TEBDEngine', dict(dt=0.05, N_steps=2, order=4, trunc_params=dict(chi_max=8, svd_min=1e-12)))
    te('tdvp2', 'TwoSiteTDVPEngine', dict(dt=0.05, N_steps=2, trunc_params=dict(chi_max=8, svd_min=1e-12)))
    te('expmpo', 'ExpMPOEvolution', dict(dt=0.05, N_steps=2, order=2, approximation='II', compression_method='SVD', trunc_params=dict(chi_max=8, svd_min=1e-12)))
    if tier != 'quick':
        te('tdvp1', 'SingleSiteTDVPEngine', dict(dt=0.05, N_steps=2, trunc_params=dict(chi_max=8)), initial_state_params=dict(method='lat_product_state', product_state=[['up'], ['down']]))
        gs('dmrg2-group', 'TwoSiteDMRGEngine', dict(dm, mixer=False), group_sites=2)
        te('tebd-imag-like', 'TEBDEngine', dict(dt=0.05, N_steps=1, order=1, trunc_params=dict(chi_max=4, svd_min=1e-12)), final_time=0.3)
    return out


def _ckpt_class(base_name, store):
    """Subclass keeping a copy of the output file after every save (the files a user could resume from)."""
    from tenpy.simulations.simulation import Simulation
    from tenpy.tools.misc import find_subclass
    Base = find_subclass(Simulation, base_name)

    def save_results(self, results=None):
        res = Base.save_results(self, results)
        if self.output_filename is not None and not self.results.get('finished_run', False):
            k = len(store)
            root, ext = os.path.splitext(str(self.output_filename))
            dst = '%s_ckpt%d%s' % (root, k, ext)
            shutil.copy(str(self.output_filename), dst)
            store.append(dst)
        return res

    cls = type('Ckpt' + base_name, (Base,), {'save_results': save_results, '__module__': __name__})
    globals()[cls.__name__] = cls  # resume_from_checkpoint looks the class up by module + name
    return cls


def _final_obs(results):
    """What must agree between an uninterrupted and a resumed run."""
    psi = results['psi']
    obs = dict(measurements={k: np.array(v) for k, v in results.get('measurements', {}).items()})
    obs['psi'] = psi
    if 'energy' in results:
        obs['energy'] = float(np.real(results['energy']))
    obs['sweep_E'] = list(np.real(results['sweep_stats']['E'])) if 'sweep_stats' in results and 'E' in results['sweep_stats'] else None
    return obs


def partB(unit):
    import logging
    import warnings
    logging.disable(logging.CRITICAL)
    warnings.simplefilter('ignore')
    from tenpy.simulations.simulation import resume_from_checkpoint
    from tenpy.tools import hdf5_io
    _, name, simcls, params, fmt, tier = unit
    wd = tempfile.mkdtemp(prefix='c18b_', dir=os.environ.get('VERIF_WORKDIR'))
    viol, keys = [], set()
    ev = 0
    sample = None

    def bad(key, what, case):
        if len(viol) < 12:
            viol.append(dict(key='B:%s:%s' % (name, key), what=what, case=dict(part='B', name=name, fmt=fmt, tier=tier, **case)))

    try:
        store = []
        cls = _ckpt_class(simcls, store)
        p = copy.deepcopy(params)
        p['output_filename'] = os.path.join(wd, 'full.' + fmt)
        sim = cls(p)
        with sim:
            ref = sim.run()
        ref_obs = _final_obs(ref)
        n_ref = {k: len(v) for k, v in ref_obs['measurements'].items()}
        sample = dict(part='B', name=name, checkpoints=len(store), measurement_lengths=n_ref)

        def compare(res, what, case):
            o = _final_obs(res)
            if set(o['measurements']) != set(ref_obs['measurements']):
                bad('measurement-keys', '%s: measurement keys %s vs uninterrupted %s' % (what, sorted(o['measurements']), sorted(ref_obs['measurements'])), case)
                return
            for k, v in o['measurements'].items():
                r = ref_obs['measurements'][k]
                if k in ('walltime',):
                    if len(v) != len(r):
                        bad('measurement-count', '%s: %d measurements of %r, uninterrupted run has %d (lost or duplicated)' % (what, len(v), k, len(r)), case)
                    continue
                if len(v) != len(r):
                    bad('measurement-count', '%s: %d measurements of %r, uninterrupted run has %d (lost or duplicated)' % (what, len(v), k, len(r)), case)
                    continue
                try:
                    va, ra = np.array(v, dtype=complex), np.array(r, dtype=complex)
                except (TypeError, ValueError):
                    continue
                if va.shape != ra.shape or np.abs(va - ra).max() > 1e-7 * (1 + np.abs(ra).max()):
                    bad('measurement-values:' + str(k), '%s: values of %r differ from the uninterrupted run: %s vs %s' % (what, k, np.round(va, 9).tolist(), np.round(ra, 9).tolist()), case)
            if 'energy' in ref_obs and abs(o.get('energy', np.nan) - ref_obs['energy']) > 1e-8:
                bad('energy', '%s: final energy %r vs %r' % (what, o.get('energy'), ref_obs['energy']), case)
            ov = abs(o['psi'].overlap(ref_obs['psi']))
            if abs(ov - abs(ref_obs['psi'].overlap(ref_obs['psi']))) > 1e-6:
                bad('final-state', '%s: |<resumed|uninterrupted>| = %r' % (what, ov), case)

        for k, ck in enumerate(store):
            ev += 1
            keys.add('B:%s:%s:ckpt%d' % (name, fmt, k))
            try:
                res = resume_from_checkpoint(filename=ck, update_sim_params=dict(output_filename=os.path.join(wd, 'res%d.%s' % (k, fmt))))
            except Exception as e:  # noqa: BLE001
                import traceback
                bad('resume-raises:' + type(e).__name__, 'resume from checkpoint %d raised: %s' % (k, traceback.format_exc()[-1200:]), dict(resume_from=[k]))
                continue
            compare(res, 'resumed from checkpoint %d of %d' % (k, len(store)), dict(resume_from=[k]))
        # resume of a resumed run: interrupt the resumed run again at its first checkpoint
        if len(store) >= 2:
            ev += 1
            store2 = []
            cls2 = _ckpt_class(simcls, store2)
            from tenpy.tools import hdf5_io as h
            ck = h.load(store[0])
            sim2 = cls2.from_saved_checkpoint(checkpoint_results=ck)
            sim2.options['output_filename'] = os.path.join(wd, 'again.' + fmt)
            sim2.output_filename = type(sim2.output_filename)(os.path.join(wd, 'again.' + fmt)) if sim2.output_filename is not None else None
            sim2._backup_filename = sim2.get_backup_filename(sim2.output_filename)
            try:
                with sim2:
                    sim2.resume_run()
            except Exception as e:  # noqa: BLE001
                import traceback
                bad('resume-raises:' + type(e).__name__, 'resume from checkpoint 0 (kept for a second resume) raised: %s' % traceback.format_exc()[-1200:], dict(resume_from=[0, 0]))
                store2 = []
            if store2:
                try:
                    res = resume_from_checkpoint(filename=store2[0], update_sim_params=dict(output_filename=os.path.join(wd, 'again2.' + fmt)))
                    compare(res, 'resumed from checkpoint 0, then again from the first checkpoint of the resumed run', dict(resume_from=[0, 0]))
                    keys.add('B:%s:%s:double' % (name, fmt))
                except Exception as e:  # noqa: BLE001
                    import traceback
                    bad('resume-raises:' + type(e).__name__, 'second resume raised: %s' % traceback.format_exc()[-1200:], dict(resume_from=[0, 0]))
        # graceful abort: a real SIGINT arrives before the k-th checkpoint of a run that does NOT save regularly
        # (handle_abort_signal sets a flag, save_at_checkpoint saves and raises KeyboardInterrupt); for every k the
        # file left behind must be complete and the resumed run must equal the uninterrupted one
        import signal
        from tenpy.simulations.simulation import Simulation
        from tenpy.tools.misc import find_subclass
        Base = find_subclass(Simulation, simcls)
        for k in range(len(store)):
            ev += 1
            calls = [0]

            def save_at_checkpoint(self, alg_engine, _k=k, _calls=calls):
                if _calls[0] == _k:
                    os.kill(os.getpid(), signal.SIGINT)
                _calls[0] += 1
                return Base.save_at_checkpoint(self, alg_engine)

            cls3 = type('Sigint' + simcls, (Base,), {'save_at_checkpoint': save_at_checkpoint, '__module__': __name__})
            globals()[cls3.__name__] = cls3
            p3 = copy.deepcopy(params)
            p3['save_every_x_seconds'] = None
            out3 = os.path.join(wd, 'sigint%d.%s' % (k, fmt))
            p3['output_filename'] = out3
            case = dict(resume_from=[k], sigint=True)
            interrupted = False
            import contextlib
            import io
            try:
                sim3 = cls3(p3)
                with contextlib.redirect_stderr(io.StringIO()):  # (the handler prints its notice to stderr)
                    with sim3:
                        sim3.run()
            except KeyboardInterrupt:
                interrupted = True
            except Exception as e:  # noqa: BLE001
                import traceback
                bad('sigint:run-raises:' + type(e).__name__, 'run with SIGINT before checkpoint %d raised: %s' % (k, traceback.format_exc()[-1200:]), case)
                continue
            if signal.getsignal(signal.SIGINT) is not signal.default_int_handler and getattr(signal.getsignal(signal.SIGINT), '__self__', None) is sim3:
                bad('sigint:handler-not-restored', 'the SIGINT handler of the simulation is still installed after the with-block', case)
                signal.signal(signal.SIGINT, signal.default_int_handler)
            if calls[0] <= k:
                break  # this run has fewer algorithm checkpoints than saves: no signal was sent, nothing left to enumerate
            if not interrupted:
                bad('sigint:not-aborted', 'SIGINT before checkpoint %d: the run continued to the end instead of saving and aborting at the checkpoint' % k, case)
                continue
            keys.add('B:%s:%s:sigint%d' % (name, fmt, k))
            try:
                ck = hdf5_io.load(out3)
                ok = isinstance(ck, dict) and not ck.get('finished_run', False) and 'resume_data' in ck and 'psi' in ck
            except Exception as e:  # noqa: BLE001
                ck, ok = None, False
            if not ok:
                bad('sigint:no-complete-file', 'after the graceful abort at checkpoint %d the output file is missing / not loadable / without resume data' % k, case)
                continue
            try:
                res = resume_from_checkpoint(filename=out3, update_sim_params=dict(output_filename=os.path.join(wd, 'sigres%d.%s' % (k, fmt))))
            except Exception as e:  # noqa: BLE001
                import traceback
                bad('resume-raises:' + type(e).__name__, 'resume after a graceful abort (SIGINT) at checkpoint %d raised: %s' % (k, traceback.format_exc()[-1200:]), case)
                continue
            compare(res, 'aborted by SIGINT at checkpoint %d of %d, then resumed' % (k, len(store)), case)
    except Exception as e:  # noqa: BLE001
        import traceback
        bad('exception:' + type(e).__name__, traceback.format_exc()[-1500:], dict(resume_from=[]))
    finally:
        shutil.rmtree(wd, ignore_errors=True)
    return dict(evaluations=ev, keys=keys, violations=viol, samples=[sample] if sample else [])
