"""C18 -- results on disk survive a crash; a resumed run equals an uninterrupted one.

Part A (fault enumeration + explicit-state search): the real Simulation.save_results -> hdf5_io.save -> pickle/h5py
write path runs in forked children of a warmed server under an LD_PRELOAD libc shim that kills the process right
before (or in the middle of) the n-th file-system operation of the s-th save.  Every n of the recorded operation
log is visited, torn writes at byte prefixes {1, len/2, len-1}; the abstract file-state graph is closed under
crash -> resume -> crash.  Invariant in every dead state after >=1 acknowledged save: the output file or its
backup loads completely and holds the last acknowledged checkpoint or the one being written.

Part B (exhaustive histories): resume from every checkpoint of ground-state searches and time evolutions and
compare final state, energies and measurement sequences with the uninterrupted run.
"""
import json
import os
import shutil
import subprocess
import sys
import tempfile

import numpy as np

UNIT_TIMEOUT = 2400.0
HERE = os.path.dirname(os.path.dirname(os.path.abspath(__file__)))
SHIM = os.path.join(HERE, '.build', 'crashfs_shim.so')


# ------------------------------------------------------------------------------------------------ server client

class Server:
    def __init__(self, workdir):
        self.dir = os.path.join(workdir, 'cf')
        os.makedirs(self.dir, exist_ok=True)
        env = dict(os.environ)
        env['LD_PRELOAD'] = SHIM
        env['CRASHFS_DIR'] = self.dir
        self.p = subprocess.Popen([sys.executable, '-m', 'vk.crashfs.runner'], stdin=subprocess.PIPE, stdout=subprocess.PIPE, env=env, cwd=HERE,
                                  text=True, bufsize=1)
        ready = json.loads(self.p.stdout.readline())
        assert ready.get('ready')

    def cmd(self, c):
        self.p.stdin.write(json.dumps(c) + '\n')
        self.p.stdin.flush()
        line = self.p.stdout.readline()
        if not line:
            raise RuntimeError('crash server died')
        return json.loads(line)

    def close(self):
        try:
            self.cmd({'kind': 'quit'})
        except Exception:  # noqa: BLE001
            pass
        try:
            self.p.wait(5)
        except Exception:  # noqa: BLE001
            self.p.kill()


def sim_params(fmt, outdir, kind='dmrg'):
    p = dict(
        output_filename=os.path.join(outdir, 'res.' + fmt),
        overwrite_output=True,
        save_every_x_seconds=0.0,
        log_params=dict(to_stdout=None, to_file=None),
        model_class='XXZChain',
        model_params=dict(L=4, Jxx=1.0, Jz=0.5, hz=0.0, bc_MPS='finite'),
        initial_state_params=dict(method='lat_product_state', product_state=[['up'], ['down']]),
    )
    if kind == 'dmrg':
        p.update(algorithm_class='TwoSiteDMRGEngine',
                 algorithm_params=dict(min_sweeps=3, max_sweeps=3, mixer=False, trunc_params=dict(chi_max=8), max_E_err=1e-30, max_S_err=1e-30, N_sweeps_check=1))
        return 'GroundStateSearch', p
    p.update(algorithm_class='TEBDEngine', final_time=0.3,
             algorithm_params=dict(dt=0.05, N_steps=2, order=2, trunc_params=dict(chi_max=8)))
    return 'RealTimeEvolution', p


class History:
    """Executes a list of process lifetimes on a clean directory; tracks acknowledged saves."""

    def __init__(self, srv, fmt, kind):
        self.srv = srv
        self.fmt = fmt
        self.kind = kind
        self.out = os.path.join(srv.dir, 'res.' + fmt)
        self.backup = os.path.join(srv.dir, 'res.backup.' + fmt)
        self.ack = os.path.join(os.path.dirname(srv.dir), 'ack.txt')
        self.clean()

    def clean(self):
        for f in os.listdir(self.srv.dir):
            p = os.path.join(self.srv.dir, f)
            shutil.rmtree(p) if os.path.isdir(p) else os.remove(p)
        for f in (self.ack, self.ack + '.err'):
            if os.path.exists(f):
                os.remove(f)

    def acks(self):
        """list of (save index in its process, checkpoint id) acknowledged so far, over all processes."""
        if not os.path.exists(self.ack):
            return []
        out = []
        for line in open(self.ack):
            s, cid = line.split(' ', 1)
            out.append((int(s), json.loads(cid)))
        return out

    def run(self, step, record=None):
        """step = ('fresh'|'resume', crash or None). Returns exit info."""
        simcls, params = sim_params(self.fmt, self.srv.dir, self.kind)
        cmd = dict(kind=step[0], sim_class=simcls, params=params, ackfile=self.ack, timeout=120)
        if step[0] == 'resume':
            st = self.states()
            f = self.pick_resume_file(st)
            if f is None:
                return dict(exit='nothing-to-resume')
            cmd['file'] = f
        if step[1]:
            cmd['crash'] = dict(save=step[1][0], n=step[1][1], tear=step[1][2])
        if record:
            cmd['record'] = record
        return self.srv.cmd(cmd)

    def states(self):
        return self.srv.cmd(dict(kind='classify', paths=[self.out, self.backup]))['states']

    def pick_resume_file(self, st):
        """What a user / resume script does: take the output file if it loads, else the backup."""
        if isinstance(st[0], list) and not st[0][2]:
            return self.out
        if isinstance(st[1], list) and not st[1][2]:
            return self.backup
        return None


def abstract(st, last_ack):
    """Abstract file state relative to the last acknowledged checkpoint."""
    def ab(s):
        if isinstance(s, list):
            n = s[1]
            rel = None if (n is None or last_ack is None) else n - last_ack
            return ('complete', rel, s[2])
        return s
    return (ab(st[0]), ab(st[1]))


def read_oplog(prefix, s):
    ops = []
    path = '%s.%d' % (prefix, s)
    if not os.path.exists(path):
        return ops
    for line in open(path):
        parts = line.rstrip('\n').split(' ')
        if parts[0] == '' or not parts[0].isdigit() or '->' in parts:
            continue
        ops.append((int(parts[0]), parts[1], parts[2], int(parts[3]), int(parts[4])))
    # one entry per op number (the '->' continuation lines of rename are skipped above)
    seen, out = set(), []
    for o in ops:
        if o[0] not in seen:
            seen.add(o[0])
            out.append(o)
    return out


def crash_points(oplog):
    """All (n, tear) for one save: before every op; for writes additionally torn prefixes."""
    pts = []
    for (n, op, path, a, b) in oplog:
        pts.append((n, -1, op))
        if op in ('write', 'pwrite', 'writev') and a > 1:
            for t in sorted({1, a // 2, a - 1}):
                if 0 < t < a:
                    pts.append((n, t, op + '-torn'))
    # and "after the last op" = no crash in this save is covered by the crash points of the next save
    return pts


def check_dead_state(hist, what, viol, case):
    """Invariant of the property in a state where the process is dead."""
    st = hist.states()
    acks = hist.acks()
    if not acks:
        return st, None  # nothing acknowledged yet: nothing promised
    last = acks[-1][1]  # [n, finished]
    ok = False
    for s in st:
        if isinstance(s, list):
            n = s[1]
            if n is not None and last[0] is not None and n >= last[0] and s[4]:
                ok = True
            if s[2] and last[1]:
                ok = True
    if not ok:
        key = 'A:%s:%s:no-complete-file:%s' % (hist.fmt, hist.kind, '>'.join('%s.s%d@%s' % (st_[0], st_[1][0], st_[1][3]) for st_ in case))
        if len(viol) < 10:
            viol.append(dict(key=key, what='after %s the files are out=%r backup=%r but checkpoint %r had been acknowledged: no complete results file left' % (
                case, _short(st[0]), _short(st[1]), last), case=dict(part='A', fmt=hist.fmt, kind=hist.kind, history=case)))
    return st, last


def _short(s):
    if isinstance(s, list):
        return ['complete', s[1], s[2]]
    return s


def partA(unit):
    _, fmt, kind, save_idx, depth, tier = unit
    wd = tempfile.mkdtemp(prefix='c18_', dir=os.environ.get('VERIF_WORKDIR'))
    srv = Server(wd)
    viol, keys, outcomes = [], set(), set()
    ev = states_n = trans = 0
    samples = []
    try:
        hist = History(srv, fmt, kind)
        # recording pass: op log of every save of an uninterrupted run
        rec = os.path.join(wd, 'oplog')
        r = hist.run(('fresh', None), record=rec)
        if r['exit'] != 0:
            return dict(evaluations=1, violations=[dict(key='A:%s:%s:reference-run-failed' % (fmt, kind), what='uninterrupted run exits with %r: %s' % (
                r['exit'], open(hist.ack + '.err').read()[-1500:] if os.path.exists(hist.ack + '.err') else ''), case=dict(part='A', fmt=fmt, kind=kind, history=[]))])
        n_saves = len(hist.acks())
        ref_states = hist.states()
        logs = {s: read_oplog(rec, s) for s in range(1, n_saves + 1)}
        if save_idx > n_saves:
            return dict(evaluations=1, samples=[dict(note='only %d saves' % n_saves)])
        seen = set()
        # level 1: fresh run killed inside save `save_idx`
        level1 = [[['fresh', [save_idx, n, t, o]]] for (n, t, o) in crash_points(logs[save_idx])]
        frontier = []
        for h in level1:
            hist.clean()
            r = hist.run(('fresh', tuple(h[0][1][:3])))
            ev += 1
            trans += 1
            if r['exit'] == 0:
                outcomes.add('completed')
                continue  # crash point beyond the ops of this save (should not happen)
            st, last = check_dead_state(hist, 'crash-in-save', viol, h)
            ab = abstract(st, last[0] if last else None)
            outcomes.add(str(ab))
            if any(s == 'torn' for s in st):
                keys.add('A:%s:%s:%r' % (fmt, kind, h))
            if ab not in seen:
                seen.add(ab)
                frontier.append(h)
            if not samples:
                samples.append(dict(part='A', fmt=fmt, kind=kind, history=h, files=[_short(s) for s in st], acknowledged=last))
        # deeper levels: resume, crash in the first / second save after the resume
        for d in range(1, depth):
            new = []
            for h in frontier:
                # op logs of the saves of the resumed process: record once per abstract state
                hist.clean()
                _replay(hist, h)
                rec2 = os.path.join(wd, 'oplog_r%d_%d' % (d, len(new)))
                r = hist.run(('resume', None), record=rec2)
                if r['exit'] == 'nothing-to-resume':
                    continue
                n2 = 0
                while os.path.exists('%s.%d' % (rec2, n2 + 1)):
                    n2 += 1
                for s2 in range(1, min(n2, 2) + 1):
                    for (n, t, o) in crash_points(read_oplog(rec2, s2)):
                        h2 = h + [['resume', [s2, n, t, o]]]
                        hist.clean()
                        _replay(hist, h)
                        r = hist.run(('resume', (s2, n, t)))
                        ev += 1
                        trans += 1
                        if r['exit'] == 0:
                            continue
                        st, last = check_dead_state(hist, 'crash-after-resume', viol, h2)
                        ab = abstract(st, last[0] if last else None)
                        outcomes.add(str(ab))
                        if any(s == 'torn' for s in st):
                            keys.add('A:%s:%s:%r' % (fmt, kind, h2))
                        if (d, ab) not in seen:
                            seen.add((d, ab))
                            new.append(h2)
            frontier = new
        states_n = len(seen)
    finally:
        srv.close()
        shutil.rmtree(wd, ignore_errors=True)
    return dict(evaluations=ev, states=states_n, transitions=trans, traces=ev, keys=keys, outcomes=outcomes, violations=viol, samples=samples)


def _replay(hist, h):
    for step in h:
        hist.run((step[0], tuple(step[1][:3]) if step[1] else None))


def units(tier, seed, label):
    us = []
    for fmt in ('pkl', 'h5'):
        for kind in ('dmrg',) if tier == 'quick' else ('dmrg', 'tebd'):
            for s in (1, 2, 3, 4) if tier == 'quick' else (1, 2, 3, 4, 5):
                us.append(('A', fmt, kind, s, 2 if tier == 'quick' else 3, tier))
    return us


def run_unit(unit):
    if unit[0] == 'A':
        return partA(unit)
    raise ValueError(unit)


def replay(case):
    wd = tempfile.mkdtemp(prefix='c18_', dir=os.environ.get('VERIF_WORKDIR'))
    srv = Server(wd)
    viol = []
    try:
        hist = History(srv, case['fmt'], case['kind'])
        _replay(hist, case['history'])
        check_dead_state(hist, 'replay', viol, case['history'])
    finally:
        srv.close()
        shutil.rmtree(wd, ignore_errors=True)
    return dict(evaluations=1, violations=viol)
