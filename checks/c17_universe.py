"""C17 instance universe: for every class of tenpy offering HDF5 export, compact deterministic generators.

`build(group, seed)` -> list of (name, object); `exportable_classes()` -> reflection over the package.
The seed only changes the numerical entries of tensors, never which instances exist.
"""
import importlib
import inspect
import itertools
import pkgutil
import warnings

import numpy as np


def exportable_classes():
    """Every class defined in tenpy that defines or inherits both `save_hdf5` and `from_hdf5`."""
    import tenpy
    found = {}
    for m in pkgutil.walk_packages(tenpy.__path__, 'tenpy.'):
        try:
            mod = importlib.import_module(m.name)
        except Exception:  # noqa: BLE001  (optional dependencies)
            continue
        for c in vars(mod).values():
            if inspect.isclass(c) and c.__module__.startswith('tenpy') and hasattr(c, 'save_hdf5') and hasattr(c, 'from_hdf5'):
                found[c.__module__ + '.' + c.__qualname__] = c
    return found


# ------------------------------------------------------------------ charges, legs, pipes, tensors

def chinfos():
    from tenpy.linalg.charges import ChargeInfo, DipolarChargeInfo
    out = [('none', ChargeInfo()), ('U1', ChargeInfo([1], ['N'])), ('Z2', ChargeInfo([2])), ('Z3', ChargeInfo([3], ['ω'])),
           ('U1U1', ChargeInfo([1, 1], ['N', 'Sz'])), ('U1Z2', ChargeInfo([1, 2], ['', 'P'])), ('Z2Z3U1', ChargeInfo([2, 3, 1])),
           ('dipU1', DipolarChargeInfo([1, 1], ['N', 'P'], [0], [1])), ('dipZ4Z2', DipolarChargeInfo([4, 2], ['N', 'P'], [0], [1], [0])),
           ('dip2', DipolarChargeInfo([1, 2, 1, 2], ['a', 'pa', 'b', 'pb'], [0, 2], [1, 3], [1, 0])),
           ('dip0', DipolarChargeInfo([1], ['N']))]
    return out


def _qflats(chinfo):
    """Charge patterns (one row per index) valid for chinfo: single, sorted+bunched blocks, unsorted, repeated."""
    q = chinfo.qnumber
    base = [[(3 * i + 2 * j + i * j) % 5 - 2 for j in range(q)] for i in range(4)]
    v = [list(chinfo.make_valid(np.array(b, dtype=int))) for b in base]
    return dict(one=[v[0]], two=[v[1], v[2]], rep=[v[0], v[0], v[1]], unsorted=[v[3], v[0], v[3], v[1]], long=[v[0], v[1], v[1], v[2], v[3]])


def legs():
    from tenpy.linalg.charges import LegCharge
    out = []
    for cname, ch in chinfos():
        for pname, qf in _qflats(ch).items():
            for qconj in (1, -1):
                raw = LegCharge.from_qflat(ch, qf, qconj)
                out.append(('%s:%s:%+d:raw' % (cname, pname, qconj), raw))
                if len(qf) > 1:
                    out.append(('%s:%s:%+d:bunch' % (cname, pname, qconj), raw.bunch()[1]))
                    out.append(('%s:%s:%+d:sort' % (cname, pname, qconj), raw.sort(bunch=False)[1]))
                    out.append(('%s:%s:%+d:sortbunch' % (cname, pname, qconj), raw.sort(bunch=True)[1]))
        out.append((cname + ':trivial', LegCharge.from_trivial(3, ch, -1)))
        out.append((cname + ':qind', LegCharge.from_qind(ch, [0, 2, 3, 6], [list(ch.make_valid(np.arange(ch.qnumber) * k)) for k in (2, 0, 1)])))
        lg = LegCharge.from_qflat(ch, _qflats(ch)['unsorted']).sort(bunch=True)[1].copy()
        lg.sorted = lg.bunched = False  # the flags are only guarantees: may be unset although true
        out.append((cname + ':flags-unset', lg))
    return out


def _some_legs(ch):
    from tenpy.linalg.charges import LegCharge
    qf = _qflats(ch)
    a = LegCharge.from_qflat(ch, qf['two'])
    b = LegCharge.from_qflat(ch, qf['unsorted'], -1).sort()[1]
    c = LegCharge.from_qflat(ch, qf['rep']).bunch()[1]
    return a, b, c


def pipes():
    from tenpy.linalg.charges import LegPipe
    out = []
    for cname, ch in chinfos():
        a, b, c = _some_legs(ch)
        for (ln, ls), qconj, (sort, bunch) in itertools.product([('ab', [a, b]), ('ca', [c, a]), ('abc', [a, b, c]), ('aa*', [a, a.conj()]), ('c', [c])],
                                                                   (1, -1), [(True, True), (True, False), (False, True), (False, False)]):
            out.append(('%s:%s:%+d:%d%d' % (cname, ln, qconj, sort, bunch), LegPipe(ls, qconj, sort, bunch)))
        p = LegPipe([a, b])
        out.append((cname + ':conj', p.conj()))
        out.append((cname + ':nested', LegPipe([p, c.conj()], -1)))
        out.append((cname + ':nested-conj', LegPipe([p.conj(), LegPipe([c, a], -1)], 1, sort=False).conj()))
    return out


def arrays(seed):
    import tenpy.linalg.np_conserved as npc
    rng = np.random.default_rng(170 + seed)
    out = []

    def rand(shape, dtype):
        x = rng.standard_normal(shape)
        return (x + 1j * rng.standard_normal(shape)).astype(dtype) if np.dtype(dtype).kind == 'c' else (10 * x).astype(dtype)

    for cname, ch in chinfos():
        a, b, c = _some_legs(ch)
        shapes = dict(r1=[b], r2=[a, b], r3=[a, c, b], r4=[a, b, a.conj(), c])
        for sname, ls in shapes.items():
            for dtype in (np.float64, np.complex128) + ((np.int64, np.float32, np.complex64) if sname == 'r2' else ()):
                for qi in range(2 if ch.qnumber else 1):
                    qtotal = None if qi == 0 else list(ch.make_valid(np.ones(ch.qnumber, int)))
                    labels = [None, ['a'], ['a', None], ['vL', 'p', 'vR'], ['a', 'b', 'a*', '(x.y)']][len(ls)]
                    A = npc.Array.from_func(rand, ls, dtype=dtype, qtotal=qtotal, func_args=(dtype,), labels=labels)
                    out.append(('%s:%s:%s:q%d' % (cname, sname, np.dtype(dtype).name, qi), A))
        A = npc.Array.from_func(rand, shapes['r3'], func_args=(float,), labels=['a', 'c', 'b'])
        out.append((cname + ':zeros', npc.zeros(shapes['r3'], labels=['a', 'c', 'b'])))
        if A.stored_blocks > 1:
            B = A.copy(deep=True)
            B._data, B._qdata = B._data[1:], B._qdata[1:].copy()  # a tensor where not every allowed block is stored
            out.append((cname + ':missing-block', B))
        out.append((cname + ':transposed', A.transpose(['b', 'a', 'c'])))  # _qdata not sorted
        out.append((cname + ':combined', A.combine_legs([['a', 'c']], qconj=-1)))
        out.append((cname + ':combined2', npc.Array.from_func(rand, shapes['r4'], func_args=(complex,), labels=['a', 'b', 'a*', 'c'])
                    .combine_legs([['a', 'b'], ['a*', 'c']], qconj=[+1, -1]).conj()))
        out.append((cname + ':shared-leg', npc.outer(npc.Array.from_func(rand, [a], func_args=(float,)), npc.Array.from_func(rand, [a.conj()], func_args=(float,)))))
        out.append((cname + ':eye', npc.eye_like(A, 0, labels=['p', 'p*'])))
    out.append(('trivial:ndarray', npc.Array.from_ndarray_trivial(rand((2, 3), float), labels=['x', 'y'])))
    return out


# ------------------------------------------------------------------ sites

def sites():
    from tenpy.networks import site as S
    import tenpy.linalg.np_conserved as npc
    out = []
    for cons in ('Sz', 'parity', None):
        for sort in (True, False):
            out.append(('SpinHalf:%s:%d' % (cons, sort), S.SpinHalfSite(cons, sort)))
            out.append(('Spin1:%s:%d' % (cons, sort), S.SpinSite(1.0, cons, sort)))
    out.append(('Spin3/2:Sz', S.SpinSite(1.5, 'Sz')))
    for cons in ('N', 'parity', None):
        out.append(('Fermion:%s' % cons, S.FermionSite(cons, filling=0.25)))
        out.append(('Boson:%s' % cons, S.BosonSite(2, cons, filling=0.5)))
    out.append(('Boson:dipole', S.BosonSite(2, 'dipole')))
    for cN, cS in itertools.product(('N', 'parity', None), ('Sz', 'parity', None)):
        out.append(('SpinHalfFermion:%s:%s' % (cN, cS), S.SpinHalfFermionSite(cN, cS)))
        out.append(('SpinHalfHole:%s:%s' % (cN, cS), S.SpinHalfHoleSite(cN, cS)))
    for cons in ('Z', None):
        out.append(('Clock3:%s' % cons, S.ClockSite(3, cons)))
    out.append(('Clock4:Z:unsorted', S.ClockSite(4, 'Z', sort_charge=False)))
    f, s = S.FermionSite('N'), S.SpinHalfSite('Sz')
    for charges in ('same', 'drop', 'independent'):
        out.append(('Grouped:ff:%s' % charges, S.GroupedSite([f, f], charges=charges)))
    out.append(('Grouped:fs:independent', S.GroupedSite([f, s], labels=['f', 's'], charges='independent')))
    out.append(('Grouped:sss', S.GroupedSite([s, s, s])))
    leg = npc.LegCharge.from_qflat(npc.ChargeInfo([1], ['q']), [[1], [-1], [0]])
    plain = S.Site(leg, ['a', 'b', 'c'], sort_charge=True, X=np.diag([1.0, 2.0, 3.0]), Y=np.array([[0, 0, 1.0], [0, 0, 0], [0, 0, 0]]))
    plain.add_op('Yd', plain.Y.conj().transpose(), hc='Y')
    plain.add_op('J', np.diag([1.0, -1.0, 1.0]), need_JW=True)
    out.append(('plain:custom-ops', plain))
    out.append(('plain:no-labels', S.Site(npc.LegCharge.from_trivial(2))))
    s2 = S.SpinHalfSite(None)
    s2.rename_op('Sz', 'Z')
    s2.remove_op('Sx')
    s2.state_labels['another/name'] = 0
    out.append(('SpinHalf:renamed-ops', s2))
    sites2 = [S.FermionSite('N'), S.SpinHalfSite('Sz', False)]
    S.set_common_charges(sites2, 'independent')
    out.extend([('common:f', sites2[0]), ('common:s', sites2[1])])
    return out


# ------------------------------------------------------------------ states and operators

def _sites_for(kind):
    from tenpy.networks import site as S
    return dict(spin=S.SpinHalfSite('Sz'), spinP=S.SpinHalfSite('parity'), spin0=S.SpinHalfSite(None), fermion=S.FermionSite('N'),
                boson=S.BosonSite(2, 'N'), dipole=S.BosonSite(2, 'dipole'))[kind]


def mpss(seed):
    from tenpy.networks.mps import MPS
    from tenpy.networks.purification_mps import PurificationMPS
    from tenpy.networks.uniform_mps import UniformMPS
    from tenpy.networks.momentum_mps import MomentumMPS
    np.random.seed(1700 + seed)  # `from_random_unitary_evolution` draws from the global numpy generator
    out = []
    states = dict(spin=['up', 'down'], spinP=['up', 'down'], spin0=['up', 'down'], fermion=['full', 'empty'], boson=[1, 0], dipole=[1, 0])
    for kind in ('spin', 'spinP', 'spin0', 'fermion', 'boson'):
        s, st = _sites_for(kind), states[kind]
        for L, dtype in ((1, float), (2, complex), (4, float)):
            out.append(('%s:product:finite:L%d' % (kind, L), MPS.from_product_state([s] * L, (st * L)[:L], 'finite', dtype=dtype, unit_cell_width=L)))
        out.append((kind + ':product:infinite', MPS.from_product_state([s] * 2, st, 'infinite', unit_cell_width=2)))
        psi = MPS.from_random_unitary_evolution([s] * 4, 4, st * 2, 'finite', dtype=complex)
        out.append((kind + ':random:finite', psi))
        A = psi.copy()
        A.convert_form('A')
        out.append((kind + ':random:finite:A-form', A))
        C = psi.copy()
        C.convert_form(['B', 'C', 'A', None][:3] + ['Th'])
        C.norm = 0.7
        out.append((kind + ':random:finite:mixed-form', C))
        N = psi.copy()
        N.set_B(1, 2.0 * N.get_B(1), form=None)  # a tensor in no canonical form
        out.append((kind + ':random:finite:no-form', N))
        ipsi = MPS.from_random_unitary_evolution([s] * 2, 3, st, 'infinite')
        out.append((kind + ':random:infinite', ipsi))
        seg = ipsi.extract_segment(1, 4)
        out.append((kind + ':segment', seg))
        seg2 = seg.copy()
        seg2.canonical_form()  # sets the `segment_boundaries`
        out.append((kind + ':segment:boundaries', seg2))
        g = ipsi.copy()
        g.group_sites(2)
        out.append((kind + ':grouped', g))
        out.append((kind + ':purification:finite', PurificationMPS.from_infiniteT([s] * 3, unit_cell_width=3)))
        out.append((kind + ':purification:infinite', PurificationMPS.from_infiniteT([s] * 2, bc='infinite', dtype=complex, unit_cell_width=2)))
        with warnings.catch_warnings():
            warnings.simplefilter('ignore')
            u = UniformMPS.from_MPS(ipsi)
            out.append((kind + ':uniform', u))
            out.append((kind + ':momentum', MomentumMPS([u.get_AC(i) * (1 + i) for i in range(u.L)], u, 0.3)))
    d = _sites_for('dipole')
    out.append(('dipole:product:finite', MPS.from_product_state([d] * 3, [1, 0, 1], 'finite', unit_cell_width=3)))
    return out


def mpos():
    from tenpy.networks.mpo import MPO, MPOGraph
    from tenpy.networks.terms import TermList
    from tenpy.models.xxz_chain import XXZChain
    from tenpy.models.tf_ising import TFIChain
    from tenpy.models.fermions_spinless import FermionChain
    out = []
    for bc in ('finite', 'infinite'):
        for name, M in (('xxz', XXZChain(dict(L=3, bc_MPS=bc, hz=0.3))), ('tfi', TFIChain(dict(L=2, bc_MPS=bc, conserve='parity'))),
                        ('fermion+hc', FermionChain(dict(L=3, bc_MPS=bc, explicit_plus_hc=True, V=0.5)))):
            H = M.calc_H_MPO()
            out.append(('%s:%s' % (name, bc), H))
            if bc == 'finite' and not H.explicit_plus_hc:
                out.append(('%s:U_II' % name, H.make_U_II(0.05j)))
            elif bc == 'infinite':
                out.append(('%s:segment' % name, H.extract_segment(1, 3)))
                g = H.copy()
                g._W = list(g._W)
                g.sites = list(g.sites)
                g.group_sites(2)
                out.append(('%s:grouped' % name, g))
                H.sort_legcharges()
                H._make_graph()  # cached graph: not exported
                out.append(('%s:with-graph' % name, H))
    s = _sites_for('spin')
    out.append(('from_term_list', MPOGraph.from_term_list(TermList([[('Sz', 0)], [('Sp', 0), ('Sm', 2)]], [0.5, 1.5]), [s] * 3, 'finite', unit_cell_width=3).build_MPO()))
    out.append(('wavepacket', MPO.from_wavepacket([s] * 3, [0.6, 0.0, 0.8j], 'Sp', unit_cell_width=3)))
    return out


def lattices():
    from tenpy.models import lattice as L
    from tenpy.models.toric_code import DualSquare
    from tenpy.models.mixed_xk import MixedXKLattice
    from tenpy.networks.site import set_common_charges
    s, f, b = _sites_for('spin'), _sites_for('fermion'), _sites_for('boson')
    inf = dict(bc='periodic', bc_MPS='infinite')
    out = [('Chain', L.Chain(3, s)), ('Chain:infinite', L.Chain(2, f, **inf)), ('Chain:folded', L.Chain(4, s, order='folded')),
           ('Ladder', L.Ladder(2, [s, s])), ('Ladder:infinite', L.Ladder(2, [f, f], **inf)), ('NLegLadder', L.NLegLadder(2, 3, s)),
           ('Square', L.Square(2, 3, s, bc=['open', 'periodic'])), ('Square:shift', L.Square(2, 2, s, bc=['periodic', 1], bc_MPS='infinite')),
           ('Square:snake', L.Square(2, 2, b, order='snake')), ('Triangular', L.Triangular(2, 2, s)), ('Honeycomb', L.Honeycomb(2, 2, [s, s])),
           ('Honeycomb:rings', L.Honeycomb(2, 2, [f, f], order='rings', bc=['periodic', 'periodic'], bc_MPS='infinite')),
           ('Kagome', L.Kagome(2, 2, s)), ('DualSquare', DualSquare(2, 2, [s, s], bc='periodic')),
           ('TrivialLattice', L.TrivialLattice([s, s, s])), ('SimpleLattice', L.SimpleLattice([2, 2], s, bc=['open', 'periodic'])),
           ('Lattice:general', L.Lattice([2, 2], [s, None], order='Fstyle', bc=['open', 'periodic'], basis=[[1, 0], [0.5, 1]],
                                         positions=[[0, 0], [0.3, 0.3]], pairs={'nn': [(0, 1, np.array([0, 0]))], 'a/b': []})),
           ('Lattice:1site', L.Lattice([1], [s]))]
    dis = L.Chain(3, s)
    dis.position_disorder = np.arange(3.0).reshape(3, 1, 1) / 10
    out.append(('Chain:disorder', dis))
    big = L.Chain(2, s, **inf)
    big.enlarge_mps_unit_cell(2)
    out.append(('Chain:enlarged', big))
    fs = [_sites_for('fermion'), _sites_for('spin')]
    set_common_charges(fs, 'independent')
    out.append(('MultiSpecies', L.MultiSpeciesLattice(L.Square(2, 2, None), fs, ['f', 's'])))
    out.append(('MultiSpecies:honeycomb', L.MultiSpeciesLattice(L.Honeycomb(1, 2, None), [f, f])))
    out.append(('Irregular:remove', L.IrregularLattice(L.Lattice([3], fs, bc='open'), remove=[[2, 1]])))
    out.append(('Irregular:add', L.IrregularLattice(L.Lattice([4], fs[:1]), add=([[1, 1]], [None]), add_unit_cell=fs[1:])))
    out.append(('Irregular:remove+add', L.IrregularLattice(L.Lattice([4], fs[:1]), remove=[[0, 0]], add=([[1, 1], [3, 1]], [None, 4]), add_unit_cell=fs[1:])))
    out.append(('Irregular:nothing', L.IrregularLattice(L.Chain(3, s))))
    out.append(('Irregular:segment', L.Chain(4, s, **inf).extract_segment(1, 5)))
    for name, reg, n in (('Helical:Square', L.Square(2, 2, s, bc=['periodic', -1], bc_MPS='infinite'), 1),
                         ('Helical:Ladder-like', L.Lattice([2, 2], [s, s], order='Cstyle', bc=['periodic', -1], bc_MPS='infinite'), 2)):
        out.append((name, L.HelicalLattice(reg, n)))
    out.append(('MixedXK', MixedXKLattice(2, 2, 1, [f, f])))
    out.append(('MixedXK:orbitals', MixedXKLattice(1, 2, 2, [f] * 4, ring_order=[0, 2, 1, 3], orbital_names=['a', 'b'], orbital_values=np.arange(8.0).reshape(4, 2))))
    return out


MODEL_PARAMS = {  # beyond `dict(L=2, Lx=2, Ly=2)`: what a class needs / a second, non-default variant
    'ClockChain': [dict(q=3)], 'ClockModel': [dict(q=3, lattice='Square', Lx=1, Ly=2)],
    'MolecularModel': [dict(one_body_tensor=np.array([[0.5, 0.2], [0.2, -0.3]]), two_body_tensor=0.1 * np.ones((2, 2, 2, 2)))],
    'XXZChain': [dict(bc_MPS='infinite'), dict(L=3, hz=np.array([0.1, 0.2, 0.3]), sort_charge=False)],
    'TFIChain': [dict(L=3, conserve=None, explicit_plus_hc=True), dict(bc_MPS='infinite', L=2)],
    'SpinChain': [dict(S=1, D=0.2, conserve='parity'), dict(bc_MPS='infinite', bc_x='periodic', hx=0.1)],
    'SpinModel': [dict(lattice='Square', Lx=2, Ly=2, bc_y='cylinder')],
    'FermiHubbardModel2': [dict(lattice='Chain', L=2)], 'BoseHubbardChain': [dict(n_max=2, conserve='parity')],
    'tJChain': [dict(bc_MPS='infinite')], 'DipolarSpinChain': [dict(L=4)], 'ToricCode': [dict(Lx=1, Ly=2, bc_MPS='infinite')],
}


def models():
    from tenpy.models import lattice as L
    from tenpy.models import model as M
    out = []
    classes = exportable_classes()
    for full, cls in sorted(classes.items()):
        if not issubclass(cls, M.Model):
            continue
        for i, params in enumerate(MODEL_PARAMS.get(cls.__name__, [{}])):
            try:
                obj = cls(dict(dict(L=2, Lx=2, Ly=2), **params))
            except Exception:  # noqa: BLE001  (abstract base classes / classes with other arguments: built below or uncovered)
                if params:
                    raise
                continue
            out.append(('%s:%d' % (cls.__name__, i), obj))
    xxz = [o for n, o in out if n == 'XXZChain:0'][0]
    lat = L.Chain(3, _sites_for('spin'))
    out.append(('Model', M.Model(lat)))
    cm = M.CouplingModel(lat, explicit_plus_hc=True)
    cm.add_onsite(0.5, 0, 'Sz', category='field')
    cm.add_coupling(1.0, 0, 'Sp', 0, 'Sm', 1)
    cm.add_multi_coupling(0.25, [('Sz', [0], 0), ('Sz', [1], 0), ('Sz', [2], 0)])
    cm.add_exponentially_decaying_coupling(0.1, 0.5, 'Sz', 'Sz')
    out.append(('CouplingModel', cm))
    out.append(('MPOModel', M.MPOModel(xxz.lat, xxz.H_MPO)))
    out.append(('NearestNeighborModel', M.NearestNeighborModel(xxz.lat, xxz.H_bond)))
    out.append(('NearestNeighborModel:from_MPOModel', M.NearestNeighborModel.from_MPOModel(xxz)))
    r = [o for n, o in out if n == 'TFIChain:0'][0].copy()
    r.rng.random(3)  # a model that has used its random number generator
    out.append(('TFIChain:rng-used', r))
    out.append(('XXZChain:segment', xxz.extract_segment(0, 3)))
    g = [o for n, o in out if n == 'SpinChain:1'][0].copy()
    g.group_sites(2)
    out.append(('SpinChain:grouped', g))
    return out


def others():
    from tenpy.linalg.truncation import TruncationError
    from tenpy.networks import terms as T
    from tenpy.tools.hdf5_io import Hdf5Exportable
    from tenpy.tools.params import Config, asConfig
    out = [('TruncationError:default', TruncationError()), ('TruncationError', TruncationError(1e-9, 1 - 2e-9) + TruncationError(0.25, 0.5))]
    out.append(('TermList', T.TermList([[('Sz', 0)], [('Sp', 0), ('Sm', 2)], [('Cd', -1), ('C', 5), ('N', 2)]], [0.5, 1.5j, -2.0])))
    out.append(('TermList:empty', T.TermList([])))
    on = T.OnsiteTerms(3)
    on.add_onsite_term(0.5, 0, 'Sz')
    on.add_onsite_term(1j, 2, 'Sx')
    on.add_onsite_term(0.25, 2, 'Sz')
    out.extend([('OnsiteTerms', on), ('OnsiteTerms:empty', T.OnsiteTerms(2))])
    ct = T.CouplingTerms(4)
    ct.add_coupling_term(1.0, 0, 1, 'Sp', 'Sm')
    ct.add_coupling_term(0.5, 0, 3, 'Cd', 'C', 'JW')
    ct.add_coupling_term(2.0, 2, 5, 'Sz', 'Sz')
    out.extend([('CouplingTerms', ct), ('CouplingTerms:empty', T.CouplingTerms(1))])
    mc = T.MultiCouplingTerms(4)
    mc.add_multi_coupling_term(0.3, [0, 1, 3], ['Sz', 'Sx', 'Sz'], ['Id', 'Id'])
    mc.add_multi_coupling_term(0.7j, [1, 2, 3, 5], ['A', 'B', 'C', 'D'], ['JW', 'Id', 'JW'])
    mc.add_coupling_term(1.0, 2, 3, 'Sp', 'Sm')
    out.extend([('MultiCouplingTerms', mc), ('MultiCouplingTerms:empty', T.MultiCouplingTerms(2))])
    ed = T.ExponentiallyDecayingTerms(4)
    ed.add_exponentially_decaying_coupling(0.5, 0.3, 'Sz', 'Sz')
    ed.add_exponentially_decaying_coupling(1j, np.array([0.3, 0.5, 0.2, 0.1]), 'Cd', 'C', subsites=[0, 2], op_string='JW')
    ed.add_centered_exponentially_decaying_term(0.2, 0.4, 'N', 'N', 1)
    out.extend([('ExponentiallyDecayingTerms', ed), ('ExponentiallyDecayingTerms:empty', T.ExponentiallyDecayingTerms(2))])
    c = Config(dict(a=1, b=2.5, c='x', sub=dict(d=[1, 2], e=None), arr=np.arange(3), flag=True), 'top')
    c.subconfig('sub')['d']  # nested sub-config, partly used
    c['a']
    out.append(('Config:nested', c))
    out.append(('Config:empty', Config({}, 'empty')))
    out.append(('Config:all-used', asConfig(dict(x=1), 'used')))
    out[-1][1]['x']
    out.append(('Config:general-keys', Config({1: 'int key', ('t', 2): None, 'a/b': 3.0, 'name': 'n', 'unused': 5}, 'weird / name')))
    out[-1][1].touch(1, ('t', 2))
    shared = Config(dict(trunc=dict(chi_max=5)), 'shared')
    t = shared.subconfig('trunc')
    shared.options['again'] = t  # the same sub-config referenced under two keys
    out.append(('Config:shared-sub', shared))
    e = Hdf5Exportable()
    e.x, e.y, e._z = 1, [np.arange(2.0), 'text'], None
    e.me = e
    out.extend([('Hdf5Exportable', e), ('Hdf5Exportable:empty', Hdf5Exportable())])
    return out


GROUPS = dict(chinfo=chinfos, leg=legs, pipe=pipes, array=arrays, site=sites, mps=mpss, mpo=mpos, lattice=lattices, model=models, other=others)
SEEDED = ('array', 'mps')  # groups with random tensor entries


def build(group, seed):
    with warnings.catch_warnings():
        warnings.simplefilter('ignore')
        items = GROUPS[group](seed) if group in SEEDED else GROUPS[group]()
    names = [n for n, _ in items]
    assert len(set(names)) == len(names), 'duplicate instance names in ' + group
    return items
