"""C20 -- caches and event dispatch obey their sequential spec under any schedule.

Part A  explicit-state BFS over operation histories of a real DictCache/CacheFile for every storage class
        (reference model: one dict per cache).
Part B  stateless exploration of all interleavings (deviation-bounded) of the real Worker / ThreadedStorage code
        with the caller, under the cooperative scheduler of vk/sched.py (queue/threading substituted inside
        tenpy.tools.thread only), including injected worker faults.
Part C  explicit-state BFS over connect/disconnect/emit histories of the real EventHandler.
"""
import itertools
import os
import pickle
import shutil
import tempfile
import warnings

import queue as _real_queue
import threading as _real_threading

_ORIG = dict(queue=_real_queue, threading=_real_threading)
KEYS = ('a', 'b')
UNIT_TIMEOUT = 1500.0

# ------------------------------------------------------------------------------------------------ alphabet


def cache_ops(sub=True, close=True, rich=True):
    ops = []
    for k in KEYS:
        ops += [('set', k), ('get', k), ('del', k), ('preload', k)]
        if rich:
            ops += [('getd', k), ('in', k), ('preload_raise', k)]
    ops += [('stk', ()), ('stk', ('a',))]
    if rich:
        ops += [('stk', ('a', 'b')), ('len',), ('iter',), ('bool',)]
    if sub:
        ops += [('mksub',)]
        ops += [('sub',) + o for o in [('set', 'a'), ('get', 'a'), ('del', 'a'), ('preload', 'a'), ('stk', ('a',))]]
        if rich:
            ops += [('sub', 'in', 'a'), ('sub', 'bool')]
    if close:
        ops += [('close',)]
    return ops


class Model:
    """Reference: one dict per cache + open flags."""

    def __init__(self):
        self.d = {'main': {}, 'sub': None}
        self.closed = False


class Violation(Exception):
    def __init__(self, key, what):
        super().__init__(what)
        self.key = key
        self.what = what


def apply_op(cache, sub, model, op, idx, after_fault=lambda: False, storage_name=''):
    """Apply one operation to the real cache (and sub-cache) and to the model; raise Violation on disagreement.

    Returns (new_sub, observation)."""
    which = 'main'
    c = cache
    o = op
    if op[0] == 'sub':
        which = 'sub'
        c = sub
        o = op[1:]
    d = model.d[which]
    kind = o[0]
    closed = model.closed
    tag = storage_name + ':' + ('sub.' if which == 'sub' else '') + kind

    def call(fn, expect_exc=None):
        try:
            return ('ok', fn())
        except Exception as e:  # noqa: BLE001
            return ('exc', e)

    if kind == 'mksub':
        if closed:
            call(lambda: cache.create_subcache('s'))  # use after close: nothing demanded but termination
            return sub, 'closed'
        st, val = call(lambda: cache.create_subcache('s'))
        if st == 'exc':
            if after_fault():
                return sub, 'exc'
            raise Violation(tag + ':raises', 'create_subcache raised %r' % (val,))
        model.d['sub'] = {}
        return val, 'ok'
    if kind == 'close':
        st, val = call(cache.close)
        if st == 'exc' and not after_fault():
            raise Violation(tag + ':raises', 'close() raised %r' % (val,))
        model.closed = True
        return sub, st
    if kind == 'set':
        v = ('val', idx)
        st, val = call(lambda: c.__setitem__(o[1], v))
        if closed:
            return sub, 'closed'
        if st == 'exc':
            if after_fault():
                return sub, 'exc'
            raise Violation(tag + ':raises', 'cache[%r] = v raised %r' % (o[1], val))
        d[o[1]] = v
        return sub, 'ok'
    if kind in ('get', 'getd'):
        if kind == 'get':
            st, val = call(lambda: c[o[1]])
        else:
            st, val = call(lambda: c.get(o[1], 'DEFAULT'))
        if closed:
            return sub, 'closed'
        if st == 'exc':
            if after_fault():
                return sub, 'exc'
            if kind == 'get' and o[1] not in d and isinstance(val, KeyError):
                return sub, 'KeyError'
            raise Violation(tag + ':raises', '%s(%r) raised %r; model has %r' % (kind, o[1], val, d.get(o[1], '<absent>')))
        if o[1] not in d:
            if kind == 'getd' and val == 'DEFAULT':
                return sub, 'default'
            raise Violation(tag + ':returns-deleted-or-absent', '%s(%r) returned %r although the key is absent (never set or deleted)' % (kind, o[1], val))
        if val != d[o[1]]:
            raise Violation(tag + ':stale-value', '%s(%r) returned %r, latest value written is %r' % (kind, o[1], val, d[o[1]]))
        return sub, 'value'
    if kind == 'del':
        if o[1] not in d:
            call(lambda: c.__delitem__(o[1]))  # behaviour for absent keys is not documented: nothing demanded
            return sub, 'absent'
        st, val = call(lambda: c.__delitem__(o[1]))
        if closed:
            return sub, st
        if st == 'exc':
            if after_fault():
                return sub, 'exc'
            raise Violation(tag + ':raises', 'del cache[%r] raised %r' % (o[1], val))
        del d[o[1]]
        return sub, 'ok'
    if kind == 'in':
        st, val = call(lambda: o[1] in c)
        if st == 'exc' or (not closed and val != (o[1] in d)):
            raise Violation(tag + ':membership', '%r in cache gave %r, model %r' % (o[1], val, o[1] in d))
        return sub, val
    if kind == 'len':
        st, val = call(lambda: len(c))
        if st == 'exc' or (not closed and val != len(d)):
            raise Violation(tag + ':len', 'len(cache) gave %r, model %r' % (val, len(d)))
        return sub, val
    if kind == 'iter':
        st, val = call(lambda: sorted(c))
        if st == 'exc' or (not closed and val != sorted(d)):
            raise Violation(tag + ':iter', 'iteration gave %r, model %r' % (val, sorted(d)))
        return sub, tuple(val)
    if kind == 'bool':
        st, val = call(lambda: bool(c))
        if after_fault():
            return sub, st
        if st == 'exc' or val != (not closed):
            raise Violation(tag + ':bool', 'bool(cache) gave %r but the cache is %s' % (val, 'closed' if closed else 'open'))
        return sub, val
    if kind in ('preload', 'preload_raise'):
        rm = kind == 'preload_raise'
        st, val = call(lambda: c.preload(o[1], raise_missing=rm))
        if closed or after_fault():
            return sub, st
        if o[1] not in d:
            if rm:
                if not (st == 'exc' and isinstance(val, KeyError)):
                    raise Violation(tag + ':missing-not-raised', 'preload(%r, raise_missing=True) of an absent key: %s %r' % (o[1], st, val))
                return sub, 'KeyError'
            if st == 'exc':
                raise Violation(tag + ':raises', 'preload(%r) of an absent key raised %r' % (o[1], val))
            return sub, 'ok'
        if st == 'exc':
            raise Violation(tag + ':raises', 'preload(%r) raised %r' % (o[1], val))
        return sub, 'ok'
    if kind == 'stk':
        st, val = call(lambda: c.set_short_term_keys(*o[1]))
        if st == 'exc':
            raise Violation(tag + ':raises', 'set_short_term_keys%r raised %r' % (o[1], val))
        return sub, 'ok'
    raise ValueError(op)


def op_enabled(op, model):
    if op[0] == 'sub':
        return model.d['sub'] is not None
    if op[0] == 'mksub':
        return model.d['sub'] is None
    if op[0] == 'close':
        return not model.closed
    return True


# ------------------------------------------------------------------------------------------------ Part A

STORAGES = ['Storage', 'PickleStorage', 'Hdf5Storage', 'Threaded(PickleStorage)', 'Threaded(Hdf5Storage)']


def _fast_poll():
    """Real threads (part A): the library polls its queue with 1 s timeouts; use a Queue whose timeouts are clamped
    to 5 ms so that closing does not take a second per history.  Polling intervals are not observable behaviour."""
    import queue as _q
    import tenpy.tools.thread as tt

    class FastQueue(_q.Queue):
        def get(self, block=True, timeout=None):
            return super().get(block, None if timeout is None else min(timeout, 0.005))

        def put(self, item, block=True, timeout=None):
            return super().put(item, block, None if timeout is None else min(timeout, 0.005))

    class NS:
        Queue = FastQueue
        Empty = _q.Empty
        Full = _q.Full

    tt.queue = NS
    tt.threading = _ORIG['threading']


def open_cache(name, workdir):
    from tenpy.tools.cache import CacheFile
    _fast_poll()
    with warnings.catch_warnings():
        warnings.simplefilter('ignore')
        thr = name.startswith('Threaded')
        cls = name[9:-1] if thr else name
        kw = {}
        if cls != 'Storage':
            kw['tmpdir'] = workdir
        cache = CacheFile.open(storage_class=cls, use_threading=thr, delete=True, max_queue_size=2, **kw)
    return cache


def resource_paths(cache):
    """Files/directories/threads owned by the cache (to check clean closing)."""
    st = cache.long_term_storage
    disk = getattr(st, 'disk_storage', st)
    paths = [p for p in (getattr(disk, '_delete_directory', None), getattr(disk, '_delete_file', None)) if p]
    thread = st.worker.worker_thread if hasattr(st, 'worker') else None
    return paths, thread


def canon_cache(cache, sub, model):
    """Canonical abstract state: which keys sit where, tagged current/stale w.r.t. the model (values are opaque to
    the code under test, so futures depend on them only through equality with the latest written value)."""
    out = [model.closed, model.d['sub'] is not None]
    for which, c in (('main', cache), ('sub', sub)):
        if c is None:
            out.append(None)
            continue
        d = model.d[which]

        def tagd(dd):
            return tuple(sorted((k, 'cur' if (k in d and d[k] == v) else 'stale') for k, v in dd.items()))

        st = c.long_term_storage
        ent = [tuple(sorted(d)), tuple(sorted(c.long_term_keys)), tuple(sorted(c.short_term_keys)), tagd(c.short_term_cache)]
        if hasattr(st, 'worker'):
            if not model.closed:
                try:
                    st.worker.join_tasks()
                except Exception:  # noqa: BLE001
                    pass
            ent += [tagd(st._loaded), tuple(sorted(st._waiting_for_load))]
        out.append(tuple(ent))
    return tuple(out)


def replay_cache(storage, ops, workdir):
    """Replay a history on a fresh real cache, comparing every step with the model.

    Returns (canonical state, observations) or raises Violation."""
    cache = open_cache(storage, workdir)
    paths, thread = resource_paths(cache)
    model = Model()
    sub = None
    obs = []
    try:
        for i, op in enumerate(ops):
            sub, o = apply_op(cache, sub, model, op, i, storage_name=storage)
            obs.append(o)
        if model.closed:
            left = [p for p in paths if os.path.exists(p)]
            if left:
                raise Violation(storage + ':close:leaves-files', 'after close() these still exist: %r' % (left,))
            if thread is not None:
                thread.join(5.0)
                if thread.is_alive():
                    raise Violation(storage + ':close:thread-alive', 'worker thread still alive after close()')
        state = canon_cache(cache, sub, model)
        return state, obs, model
    finally:
        if not model.closed:
            try:
                cache.close()
            except Exception:  # noqa: BLE001
                pass
        for p in paths:
            if os.path.isdir(p):
                shutil.rmtree(p, ignore_errors=True)
            elif os.path.exists(p):
                os.remove(p)


def bfs_cache(storage, first, depth, workdir, rich):
    ops_all = cache_ops(rich=rich)
    seen = set()
    frontier = [tuple(first)]
    states = transitions = 0
    viol = []
    outcomes = set()
    sample = None
    # initial
    try:
        st, obs, model = replay_cache(storage, tuple(first), workdir)
    except Violation as v:
        return dict(states=1, transitions=len(first), traces=1, evaluations=1,
                    violations=[dict(key=v.key, what='history %r: %s' % (list(first), v.what), case=dict(part='A', storage=storage, ops=[list(o) for o in first]))])
    seen.add(st)
    transitions += len(first)
    traces = 1
    for _d in range(len(first), depth):
        new = []
        for hist in frontier:
            # model state for enabledness
            model = Model()
            for op in hist:
                if op[0] == 'mksub':
                    model.d['sub'] = {}
                if op[0] == 'close':
                    model.closed = True
            for op in ops_all:
                if not op_enabled(op, model):
                    continue
                nxt = hist + (op,)
                transitions += 1
                traces += 1
                try:
                    st, obs, _m = replay_cache(storage, nxt, workdir)
                except Violation as v:
                    if len(viol) < 15:
                        viol.append(dict(key=v.key, what='history %r: %s' % ([list(o) for o in nxt], v.what),
                                         case=dict(part='A', storage=storage, ops=[list(o) for o in nxt])))
                    continue
                outcomes.add(str(obs[-1]))
                sample = [list(o) for o in nxt]
                if st not in seen:
                    seen.add(st)
                    new.append(nxt)
        frontier = new
    return dict(states=len(seen), transitions=transitions, traces=traces, evaluations=traces, violations=viol,
                outcomes=['A:' + o for o in outcomes], keys=['A:%s:%s' % (storage, hash(s)) for s in seen if s[2] is not None and len(s[2][0]) > 0],
                samples=[dict(part='A', storage=storage, history=sample)] if sample else [])


# ------------------------------------------------------------------------------------------------ Part B

class InjectedBase(BaseException):
    pass


def make_fakedisk():
    from tenpy.tools.cache import Storage

    class FakeDisk(Storage):
        """Non-trivial 'disk': pickled bytes in a dict; every operation is one atomic worker step.

        With faults enabled each operation first asks the scheduler whether it fails."""
        trivial = False
        faults = 0
        fault_happened = False

        @classmethod
        def open(cls, delete=None):
            res = cls()
            res._owns_resources = True
            res.data = {}
            return res

        def _fault(self, what):
            from vk import sched
            if FakeDisk.faults:
                c = sched.current().choose(FakeDisk.faults + 1, 'fault')
                if c == 1:
                    FakeDisk.fault_happened = True
                    raise OSError('injected I/O error in ' + what)
                if c == 2:
                    FakeDisk.fault_happened = True
                    raise InjectedBase('injected BaseException in ' + what)

        def subcontainer(self, name):
            if not self._opened:
                raise ValueError('Trying to access closed storage')
            res = FakeDisk.open()
            self._subcontainers.append(res)
            return res

        def load(self, key):
            if not self._opened:
                raise ValueError('Trying to access closed storage')
            self._fault('load')
            return pickle.loads(self.data[key])

        def save(self, key, val):
            if not self._opened:
                raise ValueError('Trying to access closed storage')
            self._fault('save')
            self.data[key] = pickle.dumps(val)

        def delete(self, key):
            if not self._opened:
                raise ValueError('Trying to access closed storage')
            self._fault('delete')
            self.data.pop(key, None)

    return FakeDisk


def patch_thread_module():
    """Substitute the controlled primitives for the names `queue` / `threading` inside tenpy.tools.thread."""
    from vk import sched
    import tenpy.tools.thread as tt
    q, th = sched.namespaces()
    tt.queue = q
    tt.threading = th


def unpatch_thread_module():
    import tenpy.tools.thread as tt
    tt.queue = _ORIG['queue']
    tt.threading = _ORIG['threading']


def program_body(program, max_queue_size, faults, FakeDisk):
    """Returns body(S) executing `program` (+ close) on CacheFile(ThreadedStorage(FakeDisk))."""
    from tenpy.tools.cache import CacheFile, ThreadedStorage
    from vk import sched

    def body(S):
        FakeDisk.faults = faults
        FakeDisk.fault_happened = False
        disk = FakeDisk.open()
        storage = ThreadedStorage.open(disk, max_queue_size=max_queue_size)
        storage._loaded = sched.PDict()
        cache = CacheFile(storage)
        model = Model()
        sub = None
        obs = []
        violation = None
        try:
            for i, op in enumerate(tuple(program) + (('close',),)):
                had_sub = sub
                sub, o = apply_op(cache, sub, model, op, i, after_fault=lambda: FakeDisk.fault_happened, storage_name='Threaded')
                if sub is not had_sub and sub is not None:
                    sub.long_term_storage._loaded = sched.PDict()
                obs.append(o)
        except Violation as v:
            violation = v
            if not model.closed:
                try:
                    cache.close()  # let the worker terminate, so that the violation (not a hang) is what gets reported
                except Exception:  # noqa: BLE001
                    pass
        worker = storage.worker
        return dict(obs=obs, violation=violation, worker=worker, fault=FakeDisk.fault_happened)

    return body


def check_execution(x, program, viol, outcomes, info):
    case = dict(part='B', program=[list(o) for o in program], choices=x.choices, max_queue_size=info['mq'], faults=info['faults'],
                lines=bool(info.get('lines')))
    fault = bool(x.result and x.result.get('fault')) or any(k == 'fault' for (_t, k, _g) in x.log)
    sfx = ':after-fault' if fault else ''

    def add(key, what):
        if len(viol) < 12:
            viol.append(dict(key=key, what='program %r (max_queue_size=%d) schedule %r: %s' % ([list(o) for o in program], info['mq'], x.choices, what), case=case))

    if x.aborted:
        kind = x.aborted.split(':')[0]
        add('B:%s%s' % (kind, sfx), x.aborted + ' | last steps: %r' % (x.log[-8:],))
        return
    r = x.result
    if r['violation'] is not None:
        add('B:' + r['violation'].key + sfx, r['violation'].what + ' | last steps: %r' % (x.log[-8:],))
        return
    if x.leaked:
        add('B:thread-leak' + sfx, 'real threads still alive: %r' % (x.leaked,))
    outcomes.add(str(r['obs']))


def line_filter(code):
    """Code whose every source line is a scheduling point in the 'lines' units: all of tenpy/tools/thread.py (Worker) and
    the methods of ThreadedStorage - the only code that runs concurrently with the worker thread."""
    fn = code.co_filename
    if fn.endswith('tenpy/tools/thread.py'):
        return True
    return fn.endswith('tenpy/tools/cache.py') and code.co_qualname.startswith('ThreadedStorage.')


def explore_program(program, mq, faults, bound, max_exec=None, lines=False):
    from vk import sched
    patch_thread_module()
    FakeDisk = make_fakedisk()
    viol = []
    outcomes = set()
    info = dict(mq=mq, faults=faults, lines=lines)
    body = program_body(program, mq, faults, FakeDisk)
    stats = sched.explore(body, bound, lambda x: check_execution(x, program, viol, outcomes, info), max_exec=max_exec,
                          horizon=20000 if lines else 4000, trace_filter=line_filter if lines else None)
    return stats, viol, outcomes


def programs_single_key(lengths=(4, 5)):
    """Longer programs over ONE key and the operations that interact through the worker (set/get/del/preload and
    eviction from the short-term cache): needed for preload-then-overwrite-then-read-from-storage patterns."""
    ops = [('set', 'a'), ('get', 'a'), ('del', 'a'), ('preload', 'a'), ('stk', ())]
    out = []
    for n in lengths:
        for prog in itertools.product(ops, repeat=n):
            if prog[0] != ('set', 'a') or ('preload', 'a') not in prog:
                continue  # (shorter programs / programs without preload are covered by the complete family)
            if any(prog[i] == prog[i + 1] and prog[i][0] in ('get', 'stk', 'del') for i in range(n - 1)):
                continue  # immediate repetition of an idempotent operation adds no behaviour
            out.append(prog)
    return out


def programs(length, rich):
    ops = [o for o in cache_ops(sub=True, close=False, rich=rich)]
    ops = [o for o in ops if o[0] not in ('len', 'iter', 'in', 'bool') and not (o[0] == 'sub' and o[1] in ('in', 'bool'))]
    out = []
    for n in range(1, length + 1):
        for prog in itertools.product(ops, repeat=n):
            m = Model()
            ok = True
            for op in prog:
                if not op_enabled(op, m):
                    ok = False
                    break
                if op[0] == 'mksub':
                    m.d['sub'] = {}
            # a program that never writes does not interact with the worker in an interesting way
            if ok and any(op[0] == 'set' or op[:2] == ('sub', 'set') for op in prog):
                out.append(prog)
    return out


def run_partB(unit):
    _, progs, mq, faults, bound, cap = unit[:6]
    lines = len(unit) > 6 and bool(unit[6])
    ev = 0
    viol = []
    keys = set()
    outcomes = set()
    cp = 0
    capped = False
    sample = None
    for prog in progs:
        prog = tuple(tuple(tuple(x) if isinstance(x, list) else x for x in o) for o in prog)
        stats, v, outs = explore_program(prog, mq, faults, bound, max_exec=cap, lines=lines)
        ev += stats['executions']
        cp += stats['choice_points']
        capped = capped or stats['capped']
        viol.extend(v[:3])
        if stats['executions'] > 1:
            keys.add('B:%r:mq%d:f%d%s' % (prog, mq, faults, ':lines' if lines else ''))
        outcomes.update('B:%r:%s' % (prog, o) for o in outs)
        sample = dict(part='B', program=[list(o) for o in prog], max_queue_size=mq, faults=faults, bound=bound, executions=stats['executions'])
    return dict(evaluations=ev, traces=ev, transitions=cp, states=ev, violations=viol[:15], keys=keys, outcomes=outcomes,
                samples=[sample] if sample else [], capped=capped, extra=dict(B_line_granular_schedules=ev, B_line_granular_choice_points=cp) if lines else dict(B_schedules=ev, B_choice_points=cp))


# ------------------------------------------------------------------------------------------------ Part C

PRIOS = (-1, 0, 1)


def event_ops(n_ids):
    ops = [('connect', p) for p in PRIOS]
    ops += [('connect_deco', 1), ('connect_plain_deco',), ('connect_by_name', 0)]
    ops += [('disconnect', i) for i in range(n_ids)]
    ops += [('emit',), ('emit_until_result',), ('copy_emit',)]
    return ops


def named_listener(log, tagname=None):
    """Target of connect_by_name (found as checks.c20.named_listener)."""
    log.append(tagname)
    return None


def replay_events(ops):
    """Replay on a real EventHandler and on the list model; raise Violation on disagreement."""
    from tenpy.tools.events import EventHandler
    eh = EventHandler('log')
    model = []  # list of (id, tag, priority, returns)
    next_id = 0
    calls = []

    def mk(tag, ret=None):
        def cb(log, **kw):
            log.append(tag)
            return ret
        return cb

    for step, op in enumerate(ops):
        kind = op[0]
        if kind == 'connect':
            tag = 'L%d' % next_id
            ret = ('res', next_id) if next_id % 2 == 1 else None
            eh.connect(mk(tag, ret), priority=op[1])
            if eh.id_of_last_connected != next_id:
                raise Violation('events:id_of_last_connected', 'id_of_last_connected=%r, expected %d' % (eh.id_of_last_connected, next_id))
            model.append((next_id, tag, op[1], ret))
            next_id += 1
        elif kind == 'connect_deco':
            tag = 'L%d' % next_id
            f = mk(tag)
            g = eh.connect(priority=op[1])(f)
            if g is not f:
                raise Violation('events:decorator-returns-other', 'decorator form does not return the function')
            model.append((next_id, tag, op[1], None))
            next_id += 1
        elif kind == 'connect_plain_deco':
            tag = 'L%d' % next_id
            f = mk(tag)
            g = eh.connect(f)
            if g is not f:
                raise Violation('events:decorator-returns-other', 'connect(f) does not return f')
            model.append((next_id, tag, 0, None))
            next_id += 1
        elif kind == 'connect_by_name':
            tag = 'L%d' % next_id
            eh.connect_by_name('checks.c20', 'named_listener', {'tagname': tag}, priority=op[1])
            model.append((next_id, tag, op[1], None))
            next_id += 1
        elif kind == 'disconnect':
            lid = op[1]
            with warnings.catch_warnings():
                warnings.simplefilter('ignore')
                eh.disconnect(lid)
            model = [m for m in model if m[0] != lid]
        elif kind in ('emit', 'emit_until_result', 'copy_emit'):
            h = eh.copy() if kind == 'copy_emit' else eh
            log = []
            order = sorted(model, key=lambda m: -m[2])  # stable: ties in connection order
            if kind == 'emit_until_result':
                res = h.emit_until_result(log)
                exp_calls, exp_res = [], None
                for m in order:
                    exp_calls.append(m[1])
                    if m[3] is not None:
                        exp_res = m[3]
                        break
            else:
                res = h.emit(log)
                exp_calls = [m[1] for m in order]
                exp_res = [m[3] for m in order]
            got = list(log)
            if sorted(got) != sorted(exp_calls):
                raise Violation('events:%s:wrong-listeners-called' % kind, 'step %d %s: called %r, connected are %r' % (step, kind, got, exp_calls))
            if got != exp_calls:
                raise Violation('events:%s:wrong-order' % kind, 'step %d %s: call order %r, expected (priority, then connection order) %r' % (step, kind, got, exp_calls))
            if res != exp_res and not (kind != 'emit_until_result' and list(res) == exp_res):
                raise Violation('events:%s:wrong-result' % kind, 'step %d: returned %r expected %r' % (step, res, exp_res))
            calls.append(tuple(got))
            if kind == 'copy_emit':
                # the copy is independent: connecting to the copy must not change the original
                n0 = len(eh.listeners)
                h.connect(mk('X'))
                if len(eh.listeners) != n0:
                    raise Violation('events:copy-aliased', 'connect on a copy changed the original handler')
    # canonical state: the model AND the hidden state of the real object (order of its internal list, any cached
    # counters/flags) - states that differ only there have different futures (e.g. 'sorted since the last emit')
    hidden = tuple(sorted((k, repr(v)) for k, v in vars(eh).items() if k not in ('listeners', 'arg_descr') and isinstance(v, (int, bool, str, type(None), tuple))))
    state = (tuple((m[0], m[2]) for m in model), next_id, tuple(l.listener_id for l in eh.listeners), hidden)
    return state, calls


def bfs_events(first, depth, max_ids):
    seen = set()
    frontier = [tuple(first)]
    transitions = traces = 0
    viol = []
    outcomes = set()
    sample = None
    try:
        st, _ = replay_events(first)
        seen.add(st)
    except Violation as v:
        return dict(states=1, transitions=1, traces=1, evaluations=1, violations=[dict(key=v.key, what='history %r: %s' % (list(first), v.what), case=dict(part='C', ops=[list(o) for o in first]))])
    for _d in range(len(first), depth):
        new = []
        for hist in frontier:
            nconn = sum(1 for o in hist if o[0].startswith('connect'))
            for op in event_ops(min(nconn + 1, max_ids)):
                if op[0].startswith('connect') and nconn >= max_ids:
                    continue
                nxt = hist + (op,)
                transitions += 1
                traces += 1
                try:
                    st, calls = replay_events(nxt)
                except Violation as v:
                    if len(viol) < 15:
                        viol.append(dict(key=v.key, what='history %r: %s' % ([list(o) for o in nxt], v.what), case=dict(part='C', ops=[list(o) for o in nxt])))
                    continue
                if calls:
                    outcomes.add(str(calls[-1]))
                sample = [list(o) for o in nxt]
                # emits do not change the state; keep exploring from new states only
                if st not in seen:
                    seen.add(st)
                    new.append(nxt)
        frontier = new
    return dict(states=len(seen), transitions=transitions, traces=traces, evaluations=traces, violations=viol,
                outcomes=['C:' + o for o in outcomes], keys=['C:%r' % (s,) for s in seen if len(s[0]) >= 2],
                samples=[dict(part='C', history=sample)] if sample else [])


# ------------------------------------------------------------------------------------------------ driver API

def units(tier, seed, label):
    us = []
    quick = tier == 'quick'
    # Part A: one BFS per (storage, first op)
    depthA = {'Storage': 5 if quick else 6, 'PickleStorage': 5 if quick else 6, 'Hdf5Storage': 4 if quick else 5,
              'Threaded(PickleStorage)': 4 if quick else 5, 'Threaded(Hdf5Storage)': 4 if quick else 5}
    for st in STORAGES:
        rich = True
        for op in cache_ops(rich=rich):
            if op[0] in ('sub', 'close'):
                continue
            us.append(('A', st, (op,), depthA[st], rich))
    # Part B
    plist = programs(2 if quick else 3, rich=False)
    chunk = 6 if quick else 10
    for mq in (1, 2):
        for faults, bound in ((0, 2), (2, 2)) if quick else ((0, 3), (2, 3)):
            for a in range(0, len(plist), chunk):
                us.append(('B', [list(map(list, p)) for p in plist[a:a + chunk]], mq, faults, bound, None))
    if quick:
        p3 = programs(3, rich=False)
        for a in range(0, len(p3), 40):
            us.append(('B', [list(map(list, p)) for p in p3[a:a + 40]], 1, 0, 1, None))
    pk = programs_single_key((4, 5) if quick else (4, 5, 6))
    for mq in (1, 2):
        for a in range(0, len(pk), 30):
            us.append(('B', [list(map(list, p)) for p in pk[a:a + 30]], mq, 0, 1 if quick else 2, None))
    # Part B, line-granular: every source line of Worker / ThreadedStorage is a scheduling point (sys.settrace), so
    # that unsynchronised accesses between two queue/event operations are interleaved too
    p2 = programs(2, rich=False)
    for mq in (1, 2):
        for faults in (0, 2):
            # quick: two deviations (e.g. one injected fault + one preemption at a line) for max_queue_size=1 with faults
            b = 2 if (not quick or (mq == 1 and faults == 2)) else 1
            n = 2 if b == 2 else 8
            for a in range(0, len(p2), n):
                us.append(('B', [list(map(list, p)) for p in p2[a:a + n]], mq, faults, b, None, True))
    pk4 = programs_single_key((4,) if quick else (4, 5))
    for a in range(0, len(pk4), 20):
        us.append(('B', [list(map(list, p)) for p in pk4[a:a + 20]], 1, 0, 1, None, True))
    if not quick:
        p3 = programs(3, rich=False)
        for mq in (1, 2):
            for a in range(0, len(p3), 40):
                us.append(('B', [list(map(list, p)) for p in p3[a:a + 40]], mq, 0, 1, None, True))
    # Part C
    for op in event_ops(1):
        if op[0].startswith('connect'):
            for op2 in event_ops(2):
                us.append(('C', (op, op2), 6 if quick else 8, 3 if quick else 4))
    return us


def run_unit(unit):
    import logging
    logging.disable(logging.CRITICAL)  # the worker logs its own death; not an observation of this check
    try:
        return _run_unit(unit)
    finally:
        unpatch_thread_module()


def _run_unit(unit):
    if unit[0] == 'A':
        _, st, first, depth, rich = unit
        wd = tempfile.mkdtemp(prefix='c20_', dir=os.environ.get('VERIF_WORKDIR'))
        try:
            return bfs_cache(st, first, depth, wd, rich)
        finally:
            shutil.rmtree(wd, ignore_errors=True)
    if unit[0] == 'B':
        return run_partB(unit)
    _, first, depth, max_ids = unit
    return bfs_events(first, depth, max_ids)


def _tup(ops):
    return tuple(tuple(tuple(x) if isinstance(x, list) else x for x in o) for o in ops)


def replay(case):
    try:
        return _replay(case)
    finally:
        unpatch_thread_module()


def _replay(case):
    viol = []
    if case['part'] == 'A':
        wd = tempfile.mkdtemp(prefix='c20_', dir=os.environ.get('VERIF_WORKDIR'))
        try:
            replay_cache(case['storage'], _tup(case['ops']), wd)
        except Violation as v:
            viol.append(dict(key=v.key, what=v.what, case=case))
        finally:
            shutil.rmtree(wd, ignore_errors=True)
    elif case['part'] == 'C':
        try:
            replay_events(_tup(case['ops']))
        except Violation as v:
            viol.append(dict(key=v.key, what=v.what, case=case))
    else:
        from vk import sched
        patch_thread_module()
        FakeDisk = make_fakedisk()
        prog = _tup(case['program'])
        body = program_body(prog, case['max_queue_size'], case['faults'], FakeDisk)
        obs = []
        for _ in range(2):  # replay the recorded schedule twice: identical observations required
            lines = bool(case.get('lines'))
            x = sched.run_once(body, case['choices'], 20000 if lines else 4000, line_filter if lines else None)
            v = []
            check_execution(x, prog, v, set(), dict(mq=case['max_queue_size'], faults=case['faults'], lines=lines))
            obs.append((x.log, [vv['key'] for vv in v]))
            viol = v
        if obs[0] != obs[1]:
            viol.append(dict(key='B:nondeterministic-replay', what='two replays of the same schedule differ', case=case))
    return dict(evaluations=1, violations=viol)


def selfcheck(tier, seed, label):
    try:
        return _selfcheck()
    finally:
        unpatch_thread_module()


def _selfcheck():
    """Own the nondeterminism: the same schedule replayed twice gives identical step logs."""
    from vk import sched
    patch_thread_module()
    FakeDisk = make_fakedisk()
    prog = (('set', 'a'), ('preload', 'a'), ('get', 'a'))
    body = program_body(prog, 1, 0, FakeDisk)
    x1 = sched.run_once(body, ())
    # take the first deviating schedule and replay it twice
    alt = None
    for i, p in enumerate(x1.trace):
        if p['n'] > 1:
            alt = tuple(x1.choices[:i]) + (1,)
            break
    if alt is None:
        return 'no choice point in the self-check program (scheduler does not see the worker?)'
    a = sched.run_once(body, alt)
    b = sched.run_once(body, alt)
    if a.log != b.log or a.choices != b.choices:
        return 'replaying one schedule twice gave different step logs'
    return None
