"""C07 model-checking core: explicit-state BFS over histories of form conversions / canonicalisations of a real MPS.

Abstract (canonical) state of the search: per-site forms + all bond dimensions + bc + whether the tensors are in
canonical gauge / normalised + whether each virtual leg is sorted / bunched by charge.  Every transition is executed on the real MPS and compared with the dense reference
(c07_dense): denoted state incl. phase and norm, psi.norm, and - when in canonical form - norm_test, Schmidt values,
entropies and spectra.  Finite / segment and infinite MPS share the alphabet."""
import copy
import re
import warnings

import numpy as np

from checks import c07_dense as D
from checks import c07_univ as U

TOL = 1e-9
TOL_INF = 2e-6  # canonical_form_infinite1 documents a loss of precision to half the machine precision


REFUSED = ('ValueError', 'not-converged-at-rounding-level')


class SkipSeed(Exception):
    """The seeded values gave an (almost) non-injective infinite MPS, outside the domain of canonical_form."""


class Bad(Exception):
    def __init__(self, key, what):
        super().__init__(what)
        self.key = key
        self.what = what


# ------------------------------------------------------------------------------------------------ alphabet

def form_arg(spec, L):
    """json-able form spec -> argument for convert_form / get_B."""
    if spec is None or isinstance(spec, str):
        if spec == 'AB':   # mixed canonical A..A B..B
            return ['A'] * (L // 2) + ['B'] * (L - L // 2)
        if spec == 'ThG':  # alternating theta / Gamma
            return [('Th', 'G')[i % 2] for i in range(L)]
        if spec == 'CAB':
            return [('C', 'A', 'B')[i % 3] for i in range(L)]
        return spec
    return (float(spec[1]), float(spec[2]))  # ['t', nuL, nuR]


def form_tuples(spec, L):
    from tenpy.networks.mps import MPS
    arg = form_arg(spec, L)
    if isinstance(arg, list):
        return [MPS._valid_forms[f] for f in arg]
    return [arg if isinstance(arg, tuple) else MPS._valid_forms[arg]] * L


def alphabet(L, finite, tier):
    ops = [['cf', f] for f in ('A', 'B', 'C', 'G', 'Th', 'AB', 'ThG', 'CAB', ['t', 0.25, 0.75], None)]
    if finite:
        ops += [['canon', True, 0.0], ['canon', False, 0.0], ['canon', True, 1e-12]]
    else:
        ops += [['canon1', True], ['canon1', False], ['canon2', True], ['canon2', False]]
    ops += [['setB', 0, 'A'], ['setB', L - 1, 'Th'], ['setB', L // 2, 'C'], ['setB', 0, None], ['setS'], ['copy'], ['gauge', L // 2]]
    if tier != 'quick':
        ops += [['setB', L - 1, 'G'], ['gauge', 0 if not finite else 1]]
    return ops


# ------------------------------------------------------------------------------------------------ helpers

def clone(psi):
    """Independent snapshot without MPS.copy (which is itself an operation under test)."""
    c = copy.copy(psi)
    c._B = [B.copy(deep=True) for B in psi._B]
    c._S = [None if s is None else s.copy() for s in psi._S]
    c.form = list(psi.form)
    return c


def bond_exponents_zero(psi):
    """True if the plain product of the stored tensors is the denoted state (so that a form may be 'forgotten')."""
    f = psi.form
    if any(x is None for x in f):
        return True
    L = psi.L
    for i in range(L):
        if i == 0 and psi.finite:
            if psi.bc == 'segment' and f[0][0] != 1.0:
                return False
            continue
        if 1.0 - f[i - 1][1] - f[i][0] != 0.0:
            return False
    return not (psi.bc == 'segment' and f[-1][1] != 1.0)


def bond_dims(psi):
    Bs = [psi.get_B(i, form=None) for i in range(psi.L)]
    return tuple([Bs[0].get_leg('vL').ind_len] + [B.get_leg('vR').ind_len for B in Bs])


class Model:
    """What the history should have produced (reference side)."""

    def __init__(self, psi, ref, canon):
        self.finite = psi.finite
        self.bc = psi.bc
        self.ref = ref          # finite/segment: dense theta incl. norm; infinite: dict(rho=.., schmidt=[..])
        self.norm = psi.norm
        self.canon = canon      # tensors in canonical gauge with stored S = Schmidt values
        self.scale = 1.0        # infinite: norm**2 * eta (weight per unit cell)
        self.src = ref          # segment: theta of the seed (related to the current one by psi.segment_boundaries)
        self.forms = None       # forms the last operation promises (None: whatever they were)

    def copy(self):
        return copy.copy(self)


def abstract_state(psi, model):
    """Only called after a successful observation."""
    if psi.finite:
        nrm = round(float(np.linalg.norm(D.theta(psi))), 6) == 1.0
    else:
        nrm = round(D.infinite(psi).eta, 6) == 1.0
    legs = tuple((leg.is_sorted(), leg.is_bunched()) for leg in (psi.get_B(i, None).get_leg('vL') for i in range(psi.L)))
    return (tuple(psi.form), bond_dims(psi), psi.bc, bool(model.canon), nrm, legs)


# ------------------------------------------------------------------------------------------------ observation

def observe(psi, model, window=2):
    """Compare the real MPS with the model; raises Bad, returns the list of 'soft' findings (exploration goes on)."""
    try:
        return _observe(psi, model, window)
    except Bad:
        raise
    except Exception as e:  # noqa: BLE001  (e.g. singular values whose length does not fit the tensors)
        raise Bad('inconsistent-tensors:%s' % type(e).__name__, 'the stored tensors / singular values cannot be contracted: %r' % (e,))


def _observe(psi, model, window):
    L = psi.L
    soft = []
    try:
        psi.test_sanity()
    except Exception as e:  # noqa: BLE001
        if not (isinstance(e, AssertionError) and off_table(psi)):
            raise Bad('test_sanity:%s' % type(e).__name__, 'test_sanity() fails after the history: %r' % (e,))
        soft.append(Bad(OFF_TABLE_KEY, 'test_sanity() raises AssertionError for the documented form tuple %r' % (off_table(psi),)))
    if model.forms is not None and list(psi.form) != list(model.forms):
        raise Bad('forms-not-as-requested', 'psi.form = %r, the operation promises %r' % (psi.form, model.forms))
    dims = bond_dims(psi)
    nt = range(L + 1)[psi.nontrivial_bonds]
    if list(psi.chi) != [dims[b] for b in nt]:
        raise Bad('chi-inconsistent', 'psi.chi = %r but the tensors have bond dimensions %r' % (psi.chi, dims))
    if abs(psi.norm - model.norm) > 1e-10 * abs(model.norm):
        raise Bad('norm', 'psi.norm = %r, expected %r' % (psi.norm, model.norm))
    noncanon = any(f is None for f in psi.form)
    if noncanon:
        i = [k for k, f in enumerate(psi.form) if f is None][0]
        try:
            psi.get_B(i, 'B')
        except ValueError:
            pass
        else:
            raise Bad('get_B-of-None-form-no-ValueError', 'get_B(%d, "B") of a site with form None did not raise the documented ValueError' % i)
    if psi.finite:
        T = D.theta(psi)
        got = psi.norm * T
        if got.shape != model.ref.shape or np.abs(got - model.ref).max() > TOL * max(1.0, np.abs(model.ref).max()):
            err = np.abs(got - model.ref).max() if got.shape == model.ref.shape else 'shape %r vs %r' % (got.shape, model.ref.shape)
            raise Bad('state-changed', 'dense state differs from the source by %s (overlap %s)' % (err, _overlap(got, model.ref)))
        if noncanon or not model.canon:
            return soft
        ref_s = [D.schmidt(T, b) for b in range(L + 1)]
        tol = TOL
        if psi.bc == 'finite':
            w = _call(psi, 'get_full_wavefunction', lambda: _gfw(psi))
            if np.abs(w - U_vec(T, psi)).max() > TOL:
                raise Bad('get_full_wavefunction', 'get_full_wavefunction differs from the dense contraction by %g' % np.abs(w - U_vec(T, psi)).max())
    else:
        inf = D.infinite(psi)
        rho = inf.rho(window)
        if np.abs(rho - model.ref['rho']).max() > TOL_INF:
            raise Bad('state-changed', 'reduced density matrix of %d unit cells differs from the source by %g' % (window, np.abs(rho - model.ref['rho']).max()))
        if abs(abs(psi.norm) ** 2 * inf.eta - model.scale) > 1e-7 * model.scale:
            raise Bad('norm', 'norm**2 * (dominant transfer matrix eigenvalue) = %r, expected %r' % (abs(psi.norm) ** 2 * inf.eta, model.scale))
        if noncanon or not model.canon:
            return soft
        if abs(inf.eta - 1.0) > 1e-7:
            raise Bad('not-normalised', 'dominant transfer matrix eigenvalue %r after canonical_form' % inf.eta)
        ref_s = model.ref['schmidt'] + [model.ref['schmidt'][0]]
        tol = TOL_INF
    # canonical form: stored singular values are the Schmidt values
    err = _call(psi, 'norm_test', psi.norm_test)
    if np.abs(err).max() > (1e-8 if psi.finite else 1e-5):
        raise Bad('norm_test', 'norm_test() = %r in (claimed) canonical form' % err.tolist())
    for b in nt:
        S = psi.get_SL(b) if b < L else psi.get_SR(L - 1)
        if not D.same_spectrum(S, ref_s[b], tol):
            raise Bad('schmidt-values', 'S on bond %d = %r, dense Schmidt values %r' % (b, np.sort(S)[::-1].tolist(), ref_s[b].tolist()))
    for n in (1, 2, np.inf):
        ee = _call(psi, 'entanglement_entropy', lambda: psi.entanglement_entropy(n=n))
        ref = np.array([D.entropy(ref_s[b], n) for b in nt])
        if ee.shape != ref.shape or np.abs(ee - ref).max() > 1e3 * tol:
            raise Bad('entanglement_entropy', 'entanglement_entropy(n=%r) = %r, dense %r' % (n, ee.tolist(), ref.tolist()))
    spec = _call(psi, 'entanglement_spectrum', psi.entanglement_spectrum)
    for k, b in enumerate(nt):
        ref = ref_s[b][ref_s[b] > 1e-6]
        got = np.sort(np.exp(-0.5 * np.asarray(spec[k])))[::-1]
        if not D.same_spectrum(got[got > 1e-6], ref, 1e3 * tol):
            raise Bad('entanglement_spectrum', 'bond %d: exp(-xi/2) = %r, dense Schmidt values %r' % (b, got.tolist(), ref.tolist()))
    if psi.bc == 'finite' and psi.chinfo.qnumber:
        by_charge(psi, T, _call(psi, 'entanglement_spectrum', lambda: psi.entanglement_spectrum(by_charge=True)))
    return soft


def by_charge(psi, T, spec):
    """entanglement_spectrum(by_charge=True): per bond the Schmidt values resolved by the charge of the left part.
    The charges of a virtual leg are only defined up to one offset per bond, which is fitted."""
    ci = psi.chinfo
    lq = [U.local_charges(s) for s in psi.sites]
    for k, b in enumerate(range(1, psi.L)):
        M = T.reshape(int(np.prod(T.shape[:b + 1])), -1)
        rows = {}
        for r, idx in enumerate(np.ndindex(*T.shape[1:b + 1])):
            q = tuple([0] * ci.qnumber)
            for i, j in enumerate(idx):
                q = U.add_charges(ci, q, lq[i][j])
            rows.setdefault(q, []).append(r)
        ref = {}
        for q, rr in rows.items():
            sv = np.linalg.svd(M[rr], compute_uv=False) / np.linalg.norm(M)
            if (sv > 1e-6).any():
                ref[q] = np.sort(sv[sv > 1e-6])
        got = {}
        for q, xi in spec[k]:
            sv = np.exp(-0.5 * np.asarray(xi))
            if (sv > 1e-6).any():
                q = tuple(int(x) for x in q)
                got[q] = np.sort(np.concatenate([got.get(q, np.zeros(0)), sv[sv > 1e-6]]))
        ok = False
        for q0 in got:  # offsets that map some library charge onto the first reference charge
            off = U.add_charges(ci, q0, sorted(ref)[0], -1)
            shifted = {U.add_charges(ci, q, off, -1): v for q, v in got.items()}
            if set(shifted) == set(ref) and all(len(shifted[q]) == len(ref[q]) and np.abs(shifted[q] - ref[q]).max() < 1e-7 for q in ref):
                ok = True
                break
        if not ok:
            raise Bad('entanglement_spectrum:by_charge', 'bond %d: charge resolved spectrum %r, dense (charge of the left part) %r' % (
                b, {q: v.tolist() for q, v in got.items()}, {q: v.tolist() for q, v in ref.items()}))


OFF_TABLE_KEY = 'form-tuple-outside-table:test_sanity-AssertionError'


def off_table(psi):
    """Form tuples (documented as `tuple(float, float)`) that are not one of the five named forms."""
    return [f for f in psi.form if f is not None and f not in psi._valid_forms.values()]


def _overlap(a, b):
    return abs(np.vdot(a.reshape(-1), b.reshape(-1))) / max(np.linalg.norm(a) * np.linalg.norm(b), 1e-300) if a.size == b.size else None


def _gfw(psi):
    from tenpy.algorithms.exact_diag import get_full_wavefunction
    return get_full_wavefunction(psi, undo_sort_charge=True)


def U_vec(T, psi):
    return D.undo_perm(T[0, ..., 0], psi.sites).reshape(-1)


def _call(psi, name, fn):
    try:
        return fn()
    except Exception as e:  # noqa: BLE001
        raise Bad('%s:exception:%s' % (name, type(e).__name__), '%s raised %r' % (name, e))


# ------------------------------------------------------------------------------------------------ transitions

def enabled(op, psi):
    """Operations outside the documented domain are not part of the alphabet in that state: rescaling a site with
    singular values while another site has form None, or dropping the form where a bond still needs its S
    (for segment MPS the role of the outer S of a form-None state is not documented: never dropped there)."""
    noncanon = any(f is None for f in psi.form)
    if op[0] == 'gauge' or (op[0] == 'cf' and op[1] is None) or (op[0] == 'setB' and op[2] is None):
        return psi.bc != 'segment' and bond_exponents_zero(psi)
    if op[0] == 'setB' and noncanon:
        return psi.form[op[1]] is None  # documented ValueError
    return True


def apply(psi, model, op):
    """Execute one operation on the real MPS and update the model.  Returns (psi, outcome); raises Bad."""
    try:
        return _apply(psi, model, op)
    except Bad:
        raise
    except Exception as e:  # noqa: BLE001  (library calls are wrapped by run(); this is the dense contraction)
        raise Bad('inconsistent-tensors:%s' % type(e).__name__, 'after %r the stored tensors / singular values cannot be contracted: %r' % (op, e))


def _apply(psi, model, op):
    L = psi.L
    kind = op[0]
    noncanon = any(f is None for f in psi.form)
    model.forms = None

    def run(fn, expect_valueerror=False):
        try:
            res = fn()
        except ValueError as e:
            if expect_valueerror:
                return 'ValueError'
            raise Bad('exception:ValueError', '%r raised %r' % (op, e))
        except Exception as e:  # noqa: BLE001
            if isinstance(e, AssertionError) and off_table(psi):
                raise Bad(OFF_TABLE_KEY, '%r raised AssertionError (test_sanity) for the documented form tuple %r' % (op, off_table(psi)))
            raise Bad('exception:%s' % type(e).__name__, '%r raised %r' % (op, e))
        if expect_valueerror:
            raise Bad('no-ValueError-from-None-form', '%r on an MPS with a form None did not raise the documented ValueError' % (op,))
        return res

    if kind == 'cf':
        arg = form_arg(op[1], L)
        if arg is None:
            run(lambda: psi.convert_form(None))
            model.forms = [None] * L
            return psi, 'forgot'
        if run(lambda: psi.convert_form(arg), expect_valueerror=noncanon) == 'ValueError':
            return psi, 'ValueError'
        model.forms = form_tuples(op[1], L)
        return psi, 'converted'
    if kind == 'setB':
        i, f = op[1], op[2]
        B = run(lambda: psi.get_B(i, f, copy=True), expect_valueerror=(psi.form[i] is None and f is not None))
        if isinstance(B, str):
            return psi, 'ValueError'
        run(lambda: psi.set_B(i, B, f))
        model.forms = list(psi.form)
        model.forms[i] = form_tuples(f, 1)[0] if f is not None else None
        return psi, 'set'
    if kind == 'setS':
        for i in range(L):
            psi.set_SL(i, np.array(psi.get_SL(i)))
        psi.set_SR(L - 1, np.array(psi.get_SR(L - 1)))
        return psi, 'set'
    if kind == 'copy':
        before = clone(psi)
        c = run(psi.copy)
        if c is psi or any(a is b for a, b in zip(c._B, psi._B)):
            raise Bad('aliased', 'copy() shares tensors with the original')
        # the copy is independent: changing it must not change the original
        run(lambda: c.canonical_form() if (noncanon or not psi.finite) else c.convert_form('Th'))
        if list(psi.form) != list(before.form) or any(np.abs(a.to_ndarray() - b.to_ndarray()).max() > 0 for a, b in zip(psi._B, before._B)):
            raise Bad('aliased', 'changing the copy changed the original')
        return run(psi.copy), 'copied'
    if kind == 'gauge':
        b = op[1]
        i0, i1 = (b - 1) % L, b % L
        n = psi.get_B(i1, None).get_leg('vL').ind_len
        d = 1.0 + 0.5 * np.arange(n) / n
        B0 = psi.get_B(i0, None, copy=True).iscale_axis(d, 'vR')
        B1 = psi.get_B(i1, None, copy=True)
        if i0 == i1:
            B1 = B0
        B1 = B1.iscale_axis(1.5 / d, 'vL')
        psi.set_B(i0, B0, None)
        psi.set_B(i1, B1, None)
        model.canon = False
        if psi.finite:
            model.ref = model.ref * 1.5
        else:
            model.scale = model.scale * 1.5 ** 2
        model.forms = list(psi.form)
        return psi, 'gauged'
    # canonical forms
    if psi.finite:
        T0 = D.theta(psi)
        n0 = float(np.linalg.norm(T0))
        ret = run(lambda: psi.canonical_form(renormalize=op[1], cutoff=op[2]))
        if op[1]:
            model.ref, model.src = model.ref / n0, model.src / n0
        else:
            model.norm = model.norm * n0
        if psi.bc == 'segment':
            if ret is None or len(ret) != 2:
                raise Bad('segment-no-U_L-V_R', 'canonical_form of a segment MPS returned %r' % (ret,))
            UL, VR = [x.to_ndarray() for x in (ret[0].itranspose(['vL', 'vR']), ret[1].itranspose(['vL', 'vR']))]
            new = psi.norm * D.theta(psi)
            back = np.tensordot(np.tensordot(UL, new, axes=[[1], [0]]), VR, axes=[[-1], [0]])
            if back.shape != model.ref.shape or np.abs(back - model.ref).max() > TOL * max(1.0, np.abs(model.ref).max()):
                raise Bad('segment-state-changed', 'U_L theta_new V_R differs from the old theta (returned unitaries do not relate old and new Schmidt states)')
            model.ref = new
            UL, VR = [x.to_ndarray() for x in (psi.segment_boundaries[0].itranspose(['vL', 'vR']), psi.segment_boundaries[1].itranspose(['vL', 'vR']))]
            back = np.tensordot(np.tensordot(UL, new, axes=[[1], [0]]), VR, axes=[[-1], [0]])
            if back.shape != model.src.shape or np.abs(back - model.src).max() > TOL * max(1.0, np.abs(model.src).max()):
                raise Bad('segment_boundaries', 'psi.segment_boundaries do not relate the current theta to the one of the original segment')
        elif ret is not None:
            raise Bad('returns', 'canonical_form of a finite MPS returned %r' % (ret,))
    else:
        eta0 = D.infinite(psi).eta
        meth = psi.canonical_form_infinite1 if kind == 'canon1' else psi.canonical_form_infinite2
        with warnings.catch_warnings():
            warnings.simplefilter('ignore')
            def call():
                # canonical_form_infinite2 gives up loudly ("did not converge up to tol=1e-15 ... Consider increasing
                # the tolerance") when its fixed-point error stalls at rounding level: a refusal, not a wrong state.
                # Only a stall below 1e-13 is accepted as that; anything larger is reported like any other exception.
                try:
                    return meth(renormalize=op[1])
                except RuntimeError as e:
                    m = re.search(r'did not converge up to tol=.*Final error after \d+ iterations: ([-+.0-9eE]+)\. ', str(e))
                    if m is not None and float(m.group(1)) < 1.0e-13:
                        return REFUSED[1]
                    raise

            if run(call) == REFUSED[1]:
                return psi, REFUSED[1]
        if op[1]:
            model.scale = model.scale / eta0
        else:
            model.norm = model.norm * np.sqrt(eta0)
    model.canon = True
    model.forms = form_tuples('B', L)
    return psi, 'canonical'


# ------------------------------------------------------------------------------------------------ seeds

def build_seed(seed):
    """seed descriptor -> (psi, model)."""
    from tenpy.networks.mps import MPS
    sites = U.chain(seed['chain'], seed['L'])
    L = seed['L']
    bc = seed['bc']
    kind = seed['kind']
    if kind == 'full':       # canonical, forms A B .. B, norm != 1
        sector = U.big_sectors(sites, 1)[0]
        v = U.generic_vector(sites, sector, seed['seed'], seed['cplx'])
        psi = MPS.from_full(sites, U.to_npc(v, sites), form=None, normalize=False, unit_cell_width=L)
        return psi, Model(psi, v[None, ..., None], True)
    if kind in ('segment', 'segment_raw'):
        # from_full with outer_S: a canonical segment, or ('segment_raw') one whose outer Schmidt states / values are
        # not yet those of theta, so that canonical_form has to find U_L, V_R and new outer singular values
        th, legs, outer = segment_theta(sites, seed['seed'], seed['cplx'], fix=(kind == 'segment'))
        a = U.to_npc(th, sites, extra=[('vL', legs[0], 0), ('vR', legs[1], -1)])
        psi = MPS.from_full(sites, a, form=None, normalize=False, bc='segment', outer_S=outer, unit_cell_width=L)
        return psi, Model(psi, th, kind == 'segment')
    # raw: non-canonical generic tensors, form None
    infinite = bc == 'infinite'
    sector = None if infinite else U.big_sectors(sites, 1)[0]
    Bs, virt, qtot = U.raw_tensors(sites, sector, seed['mult'], seed['seed'], seed['cplx'], infinite)
    arrs = U.raw_npc(sites, Bs, virt, qtot, bunch=not seed.get('unbunched', False))
    SVs = [np.ones(len(v)) / np.sqrt(len(v)) for v in virt]
    psi = MPS(sites, arrs, SVs, bc=bc, form=None, norm=seed.get('norm', 1.0), unit_cell_width=L)
    if infinite:
        inf = D.Infinite(Bs)
        if inf.gap > 0.99:
            raise SkipSeed('ratio of the two largest transfer matrix eigenvalues %.4f: not safely injective' % inf.gap)
        model = Model(psi, dict(rho=inf.rho(seed.get('window', 2)), schmidt=[inf.schmidt(b) for b in range(L)]), False)
        model.scale = psi.norm ** 2 * inf.eta
        return psi, model
    return psi, Model(psi, psi.norm * U.contract(Bs), False)


def segment_theta(sites, seed, cplx, fix=True):
    """Generic normalised theta [vL, p0.., vR] with charge-symmetric outer legs, the outer LegCharges and outer
    singular values.  fix=True: the reduced density matrices on vL and vR are diagonal with the returned singular
    values (a canonical segment); fix=False: generic theta and arbitrary positive outer values."""
    import tenpy.linalg.np_conserved as npc
    ci = sites[0].leg.chinfo
    rng = np.random.default_rng([seed, 13, len(sites)])
    zero = tuple([0] * ci.qnumber)
    qL = sorted({zero, U.local_charges(sites[0])[0]})
    qL = [q for q in qL for _ in range(2)][:3]
    tot = {}
    for sec, idxs in U.sectors(sites).items():
        for a, q in enumerate(qL):
            tot.setdefault(U.add_charges(ci, q, sec), []).extend((a,) + idx for idx in idxs)
    qR = sorted(tot, key=lambda q: (-len(tot[q]), q))[:2]
    qR = [q for q in qR for _ in range(2)][:3]
    th = np.zeros([len(qL)] + U.dims(sites) + [len(qR)], dtype=complex if cplx else float)
    for c, q in enumerate(qR):
        for idx in tot[q]:
            th[idx + (c,)] = U.values(rng, (), cplx)

    def gauge(M, charges):  # rows of equal charge -> s * Vh
        for q in set(charges):
            rows = [k for k, x in enumerate(charges) if x == q]
            _, s, Vh = np.linalg.svd(M[rows], full_matrices=False)
            M[rows] = s[:len(rows), None] * Vh[:len(rows)]
        return M

    sh = th.shape
    if fix:
        th = gauge(th.reshape(sh[0], -1), qL).reshape(sh)
        th = gauge(th.reshape(-1, sh[-1]).T.copy(), qR).T.reshape(sh)
    th = th / np.linalg.norm(th)
    SL = np.linalg.norm(th.reshape(sh[0], -1), axis=1)
    SR = np.linalg.norm(th.reshape(-1, sh[-1]), axis=0)
    if not fix:
        SL, SR = [(1.0 + np.arange(len(x))) / np.linalg.norm(1.0 + np.arange(len(x))) for x in (SL, SR)]
    legs = (npc.LegCharge.from_qflat(ci, [list(q) for q in qL], qconj=+1).bunch()[1],
            npc.LegCharge.from_qflat(ci, [list(q) for q in qR], qconj=-1).bunch()[1])
    return th, legs, (SL, SR)


# ------------------------------------------------------------------------------------------------ search

def replay_history(seed, ops):
    """Run one history from the seed, observing after every step.  Raises Bad."""
    psi, model = build_seed(seed)
    window = seed.get('window', 2)
    step = 'seed'
    try:
        soft = observe(psi, model, window)
        outcome = 'seed'
        for op in ops:
            if outcome in REFUSED:
                break
            step = op[0]
            psi, outcome = apply(psi, model, op)
            if outcome not in REFUSED:
                soft = soft + observe(psi, model, window)
        if soft:
            raise soft[0]
    except Bad as e:
        raise Bad(history_key(seed['bc'], step, e), e.what)
    return psi, model, outcome


def history_key(bc, step, e):
    return e.key if e.key == OFF_TABLE_KEY else 'history:%s:%s:%s' % (bc, step, e.key)


def bfs(seed, depth, tier, merge=True):
    """Breadth-first search from the seed.  merge=True: a history is only extended if it reached a new abstract state
    (search to the fixed point if `depth` allows: `closed`); merge=False: every history up to `depth` is executed."""
    viol, outcomes = [], set()
    case0 = dict(part='H', seed=seed, ops=[])
    try:
        psi, model, _ = replay_history(seed, [])
    except SkipSeed as e:
        return dict(evaluations=0, states=0, transitions=0, traces=0, outcomes=['seed-skipped'], violations=[], extra=dict(seeds_skipped=1), samples=[dict(seed=seed, skipped=str(e))])
    except Bad as e:
        return dict(evaluations=1, states=1, transitions=0, traces=1, outcomes=['seed-fails'],
                    violations=[dict(key=e.key, what='seed %r: %s' % (seed, e.what), case=case0)])
    ops = alphabet(seed['L'], psi.finite, tier)
    window = seed.get('window', 2)
    seen = {abstract_state(psi, model)}
    frontier = [([], clone(psi), model.copy())]
    transitions = 0
    sample = None
    for _ in range(depth):
        new = []
        for hist, snap, smodel in frontier:
            for op in ops:
                if not enabled(op, snap):
                    continue
                psi, model = clone(snap), smodel.copy()
                transitions += 1
                h = hist + [op]
                soft = []
                try:
                    psi, outcome = apply(psi, model, op)
                    if outcome not in REFUSED:
                        soft = observe(psi, model, window)
                except Bad as e:
                    soft = [e]
                    outcome = None
                for e in soft:
                    key = history_key(snap.bc, op[0], e)
                    if key not in [v['key'] for v in viol]:
                        viol.append(dict(key=key, what='seed %r, history %r: %s' % (seed, h, e.what), case=dict(part='H', seed=seed, ops=h)))
                if outcome is None:
                    continue
                outcomes.add('%s:%s' % (op[0], outcome))
                if outcome in REFUSED:
                    continue
                st = abstract_state(psi, model)
                sample = h
                if st not in seen or not merge:
                    seen.add(st)
                    new.append((h, clone(psi), model.copy()))
        frontier = new
    return dict(evaluations=transitions + 1, states=len(seen), transitions=transitions, traces=transitions + 1, outcomes=sorted(outcomes),
                violations=viol[:15], keys=['H:%r:%r' % (sorted(seed.items()), s) for s in seen],
                extra=dict(bfs_closed=int(merge and not frontier), bfs_searches=1),
                samples=[dict(part='H', seed=seed, history=sample, merge=merge)] if sample else [])
