"""C16 -- Krylov solvers return Ritz data of the operator they are given.

Exhaustive grid over a finite universe of small block-sparse operators (spectrum type x eigenbasis x charge structure
x operator form, see c16_space.py) x start vectors x option lattice, plus short histories (the same operator object
/ the same solver object used for consecutive runs).  Oracle: dense linear algebra only -- an orthonormal basis V_N
of the Krylov space built by double Gram-Schmidt gives the exact Ritz data eig(V_N^+ M V_N) for *every* N the
solver may stop at, `eigh`/`expm` give the exact answers once the Krylov space is exhausted.
"""
import functools
import itertools
import logging
import warnings

import numpy as np
import scipy.linalg

from checks.c16_space import BASES, HERMITIAN_SPECTRA, STRUCTS, Space, general, hermitian, start_vectors

UNIT_TIMEOUT = 1200.0
EPS_CUT = np.finfo(float).eps * 100  # documented default of `cutoff`
GENERAL = ('real', 'complex', 'triangular', 'antiherm')
ORTHO_KINDS = ('none', 'gs', 'gs+1', 'generic', 'nonorth2', 'dep2')
DELTAS = {'real': -0.3, 'imag': 0.5j, 'complex': -0.2 + 0.4j, 'real+': 0.25}


# ---------------------------------------------------------------- dense references

def krylov_ref(M, v, nmax):
    """(V, betas): ONB of span{v, Mv, ..} (at most nmax columns, double Gram-Schmidt) and, for every column k, the
    norm of the component of M V[:,k] outside span V[:, :k+1] (= sub-diagonal entry h[k+1,k] of the projection)."""
    V = [v / np.linalg.norm(v)]
    betas = []
    scale = 1.0 + np.abs(M).max()
    for k in range(nmax):
        w = M @ V[-1]
        for _ in range(2):
            for u in V:
                w = w - u * (u.conj() @ w)
        betas.append(float(np.linalg.norm(w)))
        if betas[-1] < 1e-9 * scale or k == nmax - 1:
            break
        V.append(w / betas[-1])
    return np.array(V).T, betas


def sort_key(which):
    return {'LM': lambda e: -np.abs(e), 'LR': lambda e: -np.real(e), 'SR': lambda e: np.real(e)}[which]


def expm_apply(M, delta, v):
    if np.abs(M - M.conj().T).max() <= 1e-14 * (1 + np.abs(M).max()):  # Hermitian up to round-off
        lam, U = np.linalg.eigh((M + M.conj().T) / 2)
        return U @ (np.exp(delta * lam) * (U.conj().T @ v))
    return scipy.linalg.expm(delta * M) @ v


class Ctx:
    """One (operator, start vector) pair: space, sector matrix M, flat start vector v, and caches of everything that
    does not depend on the solver options (npc operators that the solvers do not modify, dense references)."""

    def __init__(self, struct, form, d, fam, spec, bas, seed, start):
        self.sp, self.form, self.seed = Space(struct, d), form, seed
        if fam == 'herm':
            self.M, lam, self.Q = hermitian(spec, bas, d, seed)
        else:
            self.M = general(spec, d, seed)
            lam, Q = np.linalg.eig(self.M)
            self.Q = Q[:, np.argsort(lam.real)]
        v = dict(start_vectors(d, lam, self.Q, seed))[start]
        self.v = v.real if np.iscomplexobj(v) and np.abs(v.imag).max() == 0 else v
        self._psi0 = self.sp.vec(self.v)
        self._ops, self._refs = {}, {}

    def psi0(self):
        return self._psi0.copy()

    def base_op(self, name, M):
        if name not in self._ops:
            self._ops[name] = self.sp.operator(M, self.form)
        return self._ops[name]

    def operator(self, wrap):
        """A fresh outermost operator object (E_shift may re-wire it) and E_shift -> dense matrix the solver is documented to see."""
        from tenpy.linalg import sparse
        M, d = self.M, len(self.M)
        one = np.eye(d)
        if wrap is None:
            return self.base_op('M', M), lambda s: M
        if wrap == 'shift':  # (M - 0.7) + 0.7
            return sparse.ShiftNpcLinearOperator(self.base_op('M-0.7', M - 0.7 * one), 0.7), lambda s: M
        if wrap == 'sum':
            D = np.diag(0.1 * np.arange(d))
            return sparse.SumNpcLinearOperator(self.base_op('M/3+D', M / 3 + D), self.base_op('2M/3-D', 2 * M / 3 - D)), lambda s: M
        rng = np.random.default_rng([self.seed, d, 91])
        g = [rng.standard_normal(d) + (1j * rng.standard_normal(d) if np.iscomplexobj(self.Q) else 0) for _ in range(2)]
        Q = self.Q
        vecs = {'none': [], 'gs': [Q[:, 0]], 'gs+1': [Q[:, 0], Q[:, min(1, d - 1)]], 'generic': [g[0]],
                'nonorth2': [1.5 * g[0], g[0] + 0.7 * g[1]], 'dep2': [g[0], 2.0 * g[0]]}[wrap[len('ortho:'):]]
        P = one
        if vecs:
            U, S, _ = np.linalg.svd(np.array(vecs).T, full_matrices=False)
            U = U[:, S > 1e-10]
            P = one - U @ U.conj().T
        op = sparse.OrthogonalNpcLinearOperator(self.base_op('M', M), [self.sp.vec(o) for o in vecs])
        # documented: H -> P H P; E_shift shifts the inner operator, the orthogonal vectors keep eigenvalue 0
        return op, lambda s: P @ (M + (s or 0.0) * one) @ P - (s or 0.0) * one

    def cached(self, key, fn):
        if key not in self._refs:
            self._refs[key] = fn()
        return self._refs[key]

    def reference(self, Mref, key):
        """Krylov ONB V of Mref for the start vector, norms of the new Krylov directions, scale of Mref."""
        return self.cached(('krylov', key), lambda: krylov_ref(Mref, self.v, len(self.v)) + (1.0 + np.abs(Mref).max(),))


context = functools.lru_cache(maxsize=64)(Ctx)


def ctx_of(case):
    return context(*[case[k] for k in ('struct', 'form', 'd', 'fam', 'spec', 'bas', 'seed', 'start')])


def start_names(d, tier='thorough'):
    names = [n for n, _ in start_vectors(d, np.zeros(d), np.eye(d), 0)]
    return [n for n in names if tier == 'thorough' or n in ('e0', 'e%d' % (d - 1)) or not n[1:].isdigit()]


class Checker:
    """Collects the failed checks of one case."""

    def __init__(self):
        self.failed = []

    def __call__(self, ok, name, what=''):
        if not ok:
            self.failed.append((name, what))
        return ok


def stop_rule(chk, N, betas, dK, opt, converged):
    """Documented stopping rule: at most N_max steps; abort when the new Krylov vector is shorter than `cutoff`;
    otherwise stop early only after N_min steps and only when converged.  Norms within 1e-6 of the cutoff and the
    round-off sized norm at an exhausted Krylov space (which may or may not be below the default cutoff) decide nothing."""
    cutoff = opt.get('cutoff', EPS_CUT)
    if not chk(1 <= N <= opt['N_max'], 'N-out-of-range', 'N=%d N_max=%d' % (N, opt['N_max'])) or N > dK:
        return
    if any(abs(b - cutoff) <= 1e-6 * cutoff for b in betas) or any(EPS_CUT / 100 < b < 1e-6 for b in betas):
        return
    for k in range(N - 1):
        chk(betas[k] >= cutoff, 'continued-below-cutoff', 'step %d: |new Krylov vector|=%.3g < cutoff=%.3g but N=%d' % (k + 1, betas[k], cutoff, N))
    if N < opt['N_max'] and betas[N - 1] >= cutoff:
        chk(N >= opt['N_min'], 'stopped-before-N_min', 'N=%d N_min=%d, |new Krylov vector|=%.3g >= cutoff' % (N, opt['N_min'], betas[N - 1]))
        chk(converged(), 'stopped-unconverged', 'N=%d < N_max=%d without abort, but the result is not converged' % (N, opt['N_max']))


def observe(sp, psi, psi0):
    """(flat sector part or None, description of what is structurally wrong)."""
    import tenpy.linalg.np_conserved as npc
    if not isinstance(psi, npc.Array):
        return None, 'result is %s, not an Array' % type(psi).__name__
    if not sp.same_legs(psi, psi0):
        return None, 'result does not have the legs / labels / qtotal of the start vector'
    f, out = sp.flat(psi)
    if out != 0 or not np.all(np.isfinite(f)):
        return None, 'result not finite or outside the charge sector'
    return f, ''


# ---------------------------------------------------------------- Lanczos ground state

def case_gs(case):
    from tenpy.linalg.krylov_based import LanczosGroundState
    ctx = ctx_of(case)
    sp, v, opt = ctx.sp, ctx.v, dict(case['opt'])
    op, ref_of = ctx.operator(case.get('wrap'))
    shift_matters = (case.get('wrap') or '').startswith('ortho') and opt.get('E_shift')
    Mref = ref_of(opt.get('E_shift'))
    V, betas, scale = ctx.reference(Mref, (case.get('wrap'), opt.get('E_shift') if shift_matters else None))
    dK = V.shape[1]
    lam_min = np.linalg.eigvalsh(Mref)[0]
    thK = np.linalg.eigvalsh(V.conj().T @ Mref @ V)[0]
    out = []
    for run in range(case.get('runs', 1)):
        chk = Checker()
        psi0 = ctx.psi0()
        E0, psi, N = LanczosGroundState(op, psi0, dict(opt)).run()
        chk(np.array_equal(sp.flat(psi0)[0], v), 'start-vector-modified')
        p, bad = observe(sp, psi, psi0)
        if chk(p is not None, 'result-structure', bad) and chk(np.isfinite(E0), 'E0-not-finite'):
            chk(abs(np.linalg.norm(p) - 1) <= 1e-10, 'not-normalized', '|psi|=%r' % np.linalg.norm(p))
            ray = (p.conj() @ Mref @ p).real / (p.conj() @ p).real
            chk(abs(ray - E0) <= 1e-8 * scale, 'E0-not-rayleigh-quotient', 'E0=%.12g <psi|H|psi>=%.12g' % (E0, ray))
            chk(E0 >= lam_min - 1e-10 * scale, 'E0-below-spectrum', 'E0=%.12g lambda_min=%.12g' % (E0, lam_min))
            if opt['N_max'] >= dK and opt.get('cutoff', EPS_CUT) == EPS_CUT:
                chk(abs(E0 - thK) <= 2e-6 * scale, 'not-ground-energy-at-full-krylov-dimension', 'E0=%.12g, smallest eigenvalue reachable from psi0=%.12g' % (E0, thK))
            resid = np.linalg.norm(Mref @ p - E0 * p)
            stop_rule(chk, N, betas, dK, opt, lambda: resid <= 1e-6 * scale)
            if 1 <= N <= dK and not case.get('large'):  # (large: finite-precision Lanczos drifts from the exact Krylov basis)
                th, y = np.linalg.eigh(V[:, :N].conj().T @ Mref @ V[:, :N])
                chk(abs(E0 - th[0]) <= 1e-8 * scale, 'not-ritz-value', 'N=%d E0=%.12g Ritz value=%.12g' % (N, E0, th[0]))
                if N == 1 or th[1] - th[0] > 1e-3:
                    ov = abs((V[:, :N] @ y[:, 0]).conj() @ p)
                    chk(abs(ov - 1) <= 1e-8, 'not-ritz-vector', 'N=%d overlap with the Ritz vector %.12g' % (N, ov))
        out.append(dict(failed=chk.failed, E0=float(np.real(E0)), N=int(N), psi=p))
    return out


def gs_options(d, tier, wrapped):
    """Option lattice N_min x N_max x reortho x cutoff x N_cache x E_shift (largest N_cache first); quick tier: N_min=3
    and cutoff=0.3 only with N_cache in {2, N_max} and no shift, and 7 of the 9 (N_cache, E_shift) pairs."""
    for N_min, N_max, reortho, cutoff in itertools.product((2, 3), sorted({2, 3, d, d + 3}), (False, True), (None, 0.3)):
        for N_cache, E_shift in itertools.product(sorted({2, 3, max(2, N_max)}, reverse=True), (None, -5.0, 5.0)):
            if tier == 'quick' and ((cutoff or N_min == 3) and (wrapped or E_shift or N_cache == 3) or (N_cache, E_shift) in ((3, 5.0), (2, -5.0))):
                continue
            opt = dict(N_min=N_min, N_max=N_max, reortho=reortho, N_cache=N_cache)
            opt.update(dict(cutoff=cutoff) if cutoff else {})
            opt.update(dict(E_shift=E_shift) if E_shift else {})
            yield opt


def tags(case, cache=True):
    opt = case['opt']
    t = [(case.get('wrap') or 'plain').split(':')[0]]
    t += ['E_shift'] if opt.get('E_shift') else []
    t += ['small-cache'] if cache and (opt.get('N_cache') or opt['N_max']) < opt['N_max'] else []
    return ':'.join(t)


def describe(failed):
    return '; '.join('%s (%s)' % f if f[1] else f[0] for f in failed)


def run_gs(unit):
    _, struct, form, d, spec, wrap, tier, seed = unit
    res = Result()
    if d > 12:
        return run_gs_large(unit, res)
    bases = BASES if wrap is None or tier == 'thorough' else ('rot', 'urot')
    starts = start_names(d, tier) if wrap is None else [s for s in ('generic', 'mix0+last', 'e0') if s in start_names(d)]
    for bas, start in itertools.product(bases, starts):
        base = dict(kind='gs', struct=struct, form=form, d=d, fam='herm', spec=spec, bas=bas, seed=seed, start=start, wrap=wrap,
                    runs=1 if wrap is None else 2)
        full = {}
        for opt in gs_options(d, tier, wrap is not None):
            case = dict(base, opt=opt)
            runs = res.execute(case, case_gs)
            if runs is None:
                continue
            res.outcomes.add('N%s%d' % ('<' if runs[0]['N'] < opt['N_max'] else '=', min(runs[0]['N'], 3)))
            if runs[0]['N'] > 1:
                res.nontrivial += 1
            for i, r in enumerate(runs):
                if r['failed'] and i > 0 and not runs[0]['failed']:
                    res.bad('LanczosGroundState:operator-reuse:%s' % tags(case, cache=False), 'run %d with the same operator object: %s' % (i + 1, describe(r['failed'])), case)
                elif r['failed']:
                    res.bad('LanczosGroundState:%s:%s' % (r['failed'][0][0], tags(case)), describe(r['failed']), case)
            # the result must not depend on how many basis vectors are kept in memory
            r = runs[0]
            k = (opt['N_min'], opt['N_max'], opt['reortho'], opt.get('cutoff'), opt.get('E_shift'))
            if k not in full:  # options are enumerated with the largest N_cache (>= N_max) first
                full[k] = r
            elif r['psi'] is not None and full[k]['psi'] is not None:
                f = full[k]
                tol = 1e-9 if opt['reortho'] else 1e-12
                same = r['N'] == f['N'] and abs(r['E0'] - f['E0']) <= tol * 10 and abs(abs(r['psi'].conj() @ f['psi']) - 1) <= tol
                if not opt['reortho']:
                    same = same and np.linalg.norm(r['psi'] - f['psi']) <= 1e-10
                if (not opt['reortho'] or r['N'] == f['N']) and not same:
                    res.bad('LanczosGroundState:depends-on-N_cache:%s' % tags(case), 'N_cache=%d: E0=%.14g N=%d; N_cache=N_max: E0=%.14g N=%d, |dpsi|=%.3g'
                            % (opt['N_cache'], r['E0'], r['N'], f['E0'], f['N'], np.linalg.norm(r['psi'] - f['psi'])), dict(case, compare_full_cache=True))
    return res.done()


def run_gs_large(unit, res):
    """Dimensions up to 60 (N_max below and above the dimension): everything except the comparison with exact Ritz data."""
    _, struct, form, d, spec, wrap, tier, seed = unit
    for bas, N_max, reortho, E_shift in itertools.product(('rot', 'urot'), (20, d + 3), (False, True), (None, -5.0)):
        base = dict(kind='gs', struct=struct, form=form, d=d, fam='herm', spec=spec, bas=bas, seed=seed, start='generic', wrap=wrap, large=True)
        full = None
        for N_cache in (N_max, 2, 7):
            opt = dict(N_min=2, N_max=N_max, reortho=reortho, N_cache=N_cache)
            opt.update(dict(E_shift=E_shift) if E_shift else {})
            case = dict(base, opt=opt)
            runs = res.execute(case, case_gs)
            if runs is None:
                continue
            res.nontrivial += 1
            res.outcomes.add('large:N%s' % ('<' if runs[0]['N'] < N_max else '='))
            r, full = runs[0], full or runs[0]
            if r['failed']:
                res.bad('LanczosGroundState:%s:large:%s' % (r['failed'][0][0], tags(case)), describe(r['failed']), case)
            elif not reortho and full['psi'] is not None and (r['N'] != full['N'] or abs(r['E0'] - full['E0']) > 1e-11 * d or np.linalg.norm(r['psi'] - full['psi']) > 1e-9):
                res.bad('LanczosGroundState:depends-on-N_cache:large:%s' % tags(case), 'N_cache=%d: E0=%.14g N=%d; N_cache=N_max: E0=%.14g N=%d, |dpsi|=%.3g'
                        % (N_cache, r['E0'], r['N'], full['E0'], full['N'], np.linalg.norm(r['psi'] - full['psi'])), dict(case, compare_full_cache=True))
    return res.done()


# ---------------------------------------------------------------- evolution (Lanczos and Arnoldi)

def case_evo(case):
    """One solver object, `run` called for every (delta, normalize) of case['calls'] in turn."""
    from tenpy.linalg import krylov_based
    ctx = ctx_of(case)
    sp, M, v, opt = ctx.sp, ctx.M, ctx.v, dict(case['opt'])
    s = opt.get('E_shift') or 0.0
    lanczos = case['solver'] == 'LanczosEvolution'
    Ms = M + s * np.eye(len(M))  # documented: with E_shift, approximates expm(delta (H + E_shift)) psi
    V, betas, _ = ctx.reference(M, None)
    dK = V.shape[1]
    psi0 = ctx.psi0()
    eng = getattr(krylov_based, case['solver'])(ctx.operator(None)[0], psi0, dict(opt))
    out = []
    for dname, normalize in case['calls']:
        delta = DELTAS[dname]
        chk = Checker()
        psi, N = eng.run(delta, normalize=normalize)
        chk(np.array_equal(sp.flat(psi0)[0], v), 'start-vector-modified')
        p, bad = observe(sp, psi, psi0)
        if chk(p is not None, 'result-structure', bad):
            norm_eff = (np.real(delta) == 0.0 if lanczos else False) if normalize is None else normalize
            exact = ctx.cached(('expm', dname, s), lambda: expm_apply(Ms, delta, v))
            err_exact = np.linalg.norm(p - (exact / np.linalg.norm(exact) if norm_eff else exact)) / (1.0 if norm_eff else np.linalg.norm(exact))
            if norm_eff:
                chk(abs(np.linalg.norm(p) - 1) <= 1e-10, 'not-normalized', '|psi|=%r' % np.linalg.norm(p))
            elif np.real(delta) == 0.0 and case['fam'] == 'herm' or np.imag(delta) == 0.0 and case['spec'] == 'antiherm' and not s:
                chk(abs(np.linalg.norm(p) - np.linalg.norm(v)) <= 1e-9 * np.linalg.norm(v), 'norm-not-preserved',
                    '|psi_f|=%.12g |psi0|=%.12g for an anti-Hermitian exponent' % (np.linalg.norm(p), np.linalg.norm(v)))
            if opt['N_max'] >= dK:
                chk(err_exact <= 1e-8, 'differs-from-expm', 'relative error %.3g to expm(delta H) psi0 although N_max >= Krylov dimension %d' % (err_exact, dK))
            stop_rule(chk, N, betas, dK, dict(opt, N_min=opt.get('N_min', 2)), lambda: err_exact <= 1e-8)
            if 1 <= N <= dK:
                VN = V[:, :N]
                kry = ctx.cached(('expm', dname, s, N), lambda: np.linalg.norm(v) * (VN @ expm_apply(VN.conj().T @ Ms @ VN, delta, np.eye(N)[0])))
                if norm_eff:
                    kry = kry / np.linalg.norm(kry)
                err = np.linalg.norm(p - kry) / np.linalg.norm(kry)
                chk(err <= 1e-8, 'not-krylov-approximation', 'N=%d: relative error %.3g to V expm(delta V^+HV) V^+ psi0' % (N, err))
        out.append(dict(failed=chk.failed, N=int(N)))
    return out


def run_evo(unit):
    _, solver, struct, form, d, fam, spec, tier, seed = unit
    res = Result()
    lanczos = solver == 'LanczosEvolution'
    bases = (BASES if tier == 'thorough' else ('rot', 'urot')) if fam == 'herm' else (None,)
    starts = [s for s in ['generic', 'mix0+last', 'eig0', 'noground'] + ([] if tier == 'quick' else ['e0', 'e%d' % (d - 1)]) if s in start_names(d)]
    calls = [('real', None), ('imag', None), ('complex', False), ('imag', False), ('real', True)]
    if tier == 'thorough':
        calls = [(dn, nz) for dn in ('real', 'imag', 'complex') for nz in (None, True, False)] + [('real+', None)]
    for bas, start in itertools.product(bases, starts):
        base = dict(kind='evo', solver=solver, struct=struct, form=form, d=d, fam=fam, spec=spec, bas=bas, seed=seed, start=start)
        for N_max, reortho, E_shift in itertools.product(sorted({2, 3, d, d + 3}), (False, True) if lanczos else (False,), (None, -5.0)):
            for N_cache in (sorted({2, 3, max(2, N_max)}) if lanczos else (None,)):
                opt = dict(N_max=N_max)
                opt.update(dict(N_cache=N_cache, reortho=reortho) if lanczos else {})
                opt.update(dict(E_shift=E_shift) if E_shift else {})
                case = dict(base, opt=opt, calls=calls)
                runs = res.execute(case, case_evo)
                if runs is None:
                    continue
                res.evaluations += len(calls) - 1
                res.nontrivial += sum(r['N'] > 1 for r in runs)
                res.outcomes.update('N%s%d' % ('<' if r['N'] < N_max else '=', min(r['N'], 3)) for r in runs)
                for i, r in enumerate(runs):
                    if not r['failed']:
                        continue
                    # does the same call fail on a fresh solver object?  (otherwise: state left over from earlier runs)
                    single = dict(case, calls=[calls[i]])
                    fresh = res.execute(single, case_evo, count=False) if i > 0 else runs
                    if i > 0 and fresh is not None and not fresh[0]['failed']:
                        key = '%s:rerun-of-same-solver-object%s%s' % (solver, ':reortho' if opt.get('reortho') else '', ':small-cache' if 'small-cache' in tags(case) else '')
                        res.bad(key, 'call %d %s on the same object (correct on a fresh one): %s' % (i + 1, calls[i], describe(r['failed'])), dict(case, calls=calls[:i + 1]))
                    elif fresh is not None:
                        res.bad('%s:%s:%s' % (solver, fresh[0]['failed'][0][0], tags(case)), describe(fresh[0]['failed']), single)
    return res.done()


# ---------------------------------------------------------------- Arnoldi

def case_arnoldi(case):
    from tenpy.linalg.krylov_based import Arnoldi
    ctx = ctx_of(case)
    sp, M, opt = ctx.sp, ctx.M, dict(case['opt'])
    s = opt.get('E_shift') or 0.0
    key = sort_key(opt['which'])
    V, betas, scale = ctx.reference(M, None)
    dK = V.shape[1]
    chk = Checker()
    psi0 = ctx.psi0()
    Es, psis, N = Arnoldi(ctx.operator(None)[0], psi0, dict(opt)).run()
    chk(np.array_equal(sp.flat(psi0)[0], ctx.v), 'start-vector-modified')
    n = min(N, opt['num_ev'])
    chk(len(psis) == n and len(Es) >= n, 'wrong-number-of-pairs', 'N=%d num_ev=%d: %d values, %d vectors' % (N, opt['num_ev'], len(Es), len(psis)))
    ps = [observe(sp, psi, psi0) for psi in psis]
    if chk(all(p is not None for p, _ in ps), 'result-structure', '; '.join(b for _, b in ps)) and chk(np.all(np.isfinite(Es[:n])), 'E-not-finite') and len(psis) == n:
        ps = [p for p, _ in ps]
        resid0 = np.linalg.norm(M @ ps[0] - Es[0] * ps[0])
        stop_rule(chk, N, betas, dK, opt, lambda: resid0 <= 1e-6 * scale)
        for i, p in enumerate(ps):
            chk(abs(np.linalg.norm(p) - 1) <= 1e-10, 'not-normalized', 'pair %d: |psi|=%r' % (i, np.linalg.norm(p)))
        if 1 <= N <= dK:
            VN = V[:, :N]
            ritz = np.linalg.eigvals(VN.conj().T @ (M + s * np.eye(len(M))) @ VN)
            ritz = ritz[np.argsort(key(ritz), kind='stable')]
            # sensitivity of the Ritz values of a non-normal projection: generous but far below the spacings
            tol = 1e-7 * scale
            free = list(ritz - s)
            for i in range(n):
                chk(abs(key(Es[i] + s) - key(ritz[i])) <= tol, 'not-ordered-as-requested',
                    'which=%s: value %d is %r, the Ritz values in requested order are %r' % (opt['which'], i, complex(Es[i]), [complex(x) for x in ritz - s]))
                j = int(np.argmin(np.abs(np.array(free) - Es[i]))) if free else -1
                if chk(j >= 0 and abs(free[j] - Es[i]) <= tol, 'not-ritz-value', 'value %d = %r is not a (further) Ritz value' % (i, complex(Es[i]))):
                    free.pop(j)
                r = M @ ps[i] - Es[i] * ps[i]
                chk(np.linalg.norm(ps[i] - VN @ (VN.conj().T @ ps[i])) <= 1e-8 and np.linalg.norm(VN.conj().T @ r) <= 10 * tol, 'not-ritz-vector',
                    'pair %d: component outside the Krylov space %.3g, projected residual %.3g' % (i, np.linalg.norm(ps[i] - VN @ (VN.conj().T @ ps[i])), np.linalg.norm(VN.conj().T @ r)))
                if N == dK:
                    chk(np.linalg.norm(r) <= 100 * tol, 'not-eigenpair-at-full-krylov-dimension', 'pair %d: |H psi - E psi|=%.3g' % (i, np.linalg.norm(r)))
    return [dict(failed=chk.failed, N=int(N))]


def run_arnoldi(unit):
    _, struct, form, d, fam, spec, tier, seed = unit
    res = Result()
    bases = (('rot', 'urot') if tier == 'quick' else BASES) if fam == 'herm' else (None,)
    starts = [s for s in (['generic', 'mix0+last', 'e0', 'eig0'] if tier == 'quick' else start_names(d)) if s in start_names(d)]
    for bas, start in itertools.product(bases, starts):
        base = dict(kind='arnoldi', struct=struct, form=form, d=d, fam=fam, spec=spec, bas=bas, seed=seed, start=start)
        for which, num_ev, E_shift, N_min in itertools.product(('LM', 'LR', 'SR'), sorted({1, 2, d}), (None, -5.0), (2, 3)):
            for N_max in sorted({num_ev + 1, d + 1, d + 3}):  # documented domain assumed: num_ev < N_max
                opt = dict(which=which, num_ev=num_ev, N_min=N_min, N_max=N_max)
                opt.update(dict(E_shift=E_shift) if E_shift else {})
                case = dict(base, opt=opt)
                runs = res.execute(case, case_arnoldi)
                if runs is None:
                    continue
                res.nontrivial += runs[0]['N'] > 1
                res.outcomes.add('N%s%d' % ('<' if runs[0]['N'] < N_max else '=', min(runs[0]['N'], 3)))
                if runs[0]['failed']:
                    res.bad('Arnoldi:%s:%s:%s' % (runs[0]['failed'][0][0], which, tags(case)), describe(runs[0]['failed']), case)
    return res.done()


# ---------------------------------------------------------------- Gram-Schmidt

GS_SETS = ('indep', 'dup', 'lincomb', 'zero-first', 'overcomplete', 'orthonormal', 'tiny', 'single')


def case_gram_schmidt(case):
    from tenpy.linalg.krylov_based import gram_schmidt
    sp = Space(case['struct'], case['d'])
    d = case['d']
    rng = np.random.default_rng([case['seed'], d, 33])
    g = [rng.standard_normal(d) + (1j * rng.standard_normal(d) if case['complex'] else 0) for i in range(d + 2)]
    g = [(0.5 + 0.1 * i) * x / np.linalg.norm(x) for i, x in enumerate(g)]
    a, b, c = g[0], g[1 % len(g)], g[2 % len(g)]
    vs = {'indep': g[:max(1, d - 1)], 'dup': [a, a.copy(), b], 'lincomb': [a, b, 0.3 * a - 2 * b, c], 'zero-first': [0 * a, a, b],
          'overcomplete': g, 'orthonormal': list(np.eye(d, dtype=a.dtype)), 'tiny': [a, 1e-20 * b, b], 'single': [a]}[case['set']]
    rcond = case['rcond']
    # reference: documented sequential rule -- discard when the norm after projecting out the previous ones is < rcond
    keep, basis, ambiguous = [], np.zeros((d, 0), dtype=complex), False
    for i, x in enumerate(vs):
        r = x - basis @ (basis.conj().T @ x)
        r = r - basis @ (basis.conj().T @ r)
        nr = np.linalg.norm(r)
        # (round-off of one Gram-Schmidt pass ~ eps |x| sqrt(k): too close to rcond to decide)
        ambiguous = ambiguous or rcond / 50 < nr < rcond * 50 or (nr <= rcond and 8 * np.finfo(float).eps * np.linalg.norm(x) * np.sqrt(i + 1) > rcond)
        if nr > rcond:
            keep.append(i)
            basis = np.concatenate([basis, (r / nr)[:, None]], axis=1)
    chk = Checker()
    vecs = [sp.vec(x) for x in vs]
    out = gram_schmidt(vecs, rcond=rcond)
    if ambiguous:
        return [dict(failed=[], kept=len(out))]
    if chk(len(out) == len(keep), 'wrong-number-kept', 'kept %d of %d vectors, documented rule keeps %d' % (len(out), len(vs), len(keep))):
        chk(all(o is vecs[i] for o, i in zip(out, keep)), 'not-in-place', 'returned vectors are not the (modified) input objects in input order')
        fl = [observe(sp, o, vecs[0])[0] for o in out]
        if chk(all(f is not None for f in fl), 'result-structure'):
            W = np.array(fl).T.reshape(d, len(fl))
            chk(np.abs(W.conj().T @ W - np.eye(len(fl))).max() <= 1e-12, 'not-orthonormal', 'max deviation %.3g' % np.abs(W.conj().T @ W - np.eye(len(fl))).max())
            chk(np.abs(W @ W.conj().T - basis @ basis.conj().T).max() <= 1e-9, 'span-changed', 'projector onto the result differs from projector onto the inputs')
            for m in range(len(fl)):  # triangular: m-th result in the span of the first inputs up to keep[m]
                chk(np.linalg.norm(fl[m] - basis[:, :m + 1] @ (basis[:, :m + 1].conj().T @ fl[m])) <= 1e-9, 'not-sequential', 'vector %d not in span of the inputs up to it' % m)
    return [dict(failed=chk.failed, kept=len(out))]


def run_gram_schmidt(unit):
    _, struct, tier, seed = unit
    res = Result()
    for d, cplx, name, rcond in itertools.product(range(1, 7 if tier == 'quick' else 13), (False, True), GS_SETS, (1e-14, 1e-8)):
        case = dict(kind='gram_schmidt', struct=struct, d=d, complex=cplx, set=name, rcond=rcond, seed=seed)
        runs = res.execute(case, case_gram_schmidt)
        if runs is None:
            continue
        res.nontrivial += 1
        res.outcomes.add('kept%d' % min(runs[0]['kept'], 4))
        if runs[0]['failed']:
            res.bad('gram_schmidt:%s:%s' % (runs[0]['failed'][0][0], name), describe(runs[0]['failed']), case)
    return res.done()


# ---------------------------------------------------------------- GMRES

def case_gmres(case):
    """A = 1 + E with |E|_2 = 0.4 (real): minimal residuals shrink at least by 0.4 per step."""
    from tenpy.linalg.krylov_based import GMRES
    d = case['d']
    sp = Space(case['struct'], d)
    rng = np.random.default_rng([case['seed'], d, 44])
    E = rng.standard_normal((d, d))
    A = np.eye(d) + 0.4 * E / np.linalg.norm(E, 2)
    b = rng.standard_normal(d)
    x0 = {'zero': 0 * b, 'b': b.copy(), 'generic': rng.standard_normal(d), 'solution': np.linalg.solve(A, b)}[case['x0']]
    opt = dict(case['opt'])
    chk = Checker()
    bv, xv = sp.vec(b), sp.vec(x0)
    with np.errstate(all='ignore'):
        x, res, total_error, total_iters = GMRES(sp.operator(A, case['form']), xv, bv, dict(opt)).run()
    chk(np.array_equal(sp.flat(bv)[0], b) and np.array_equal(sp.flat(xv)[0], x0), 'arguments-modified')
    xf, bad = observe(sp, x, bv)
    if chk(xf is not None, 'result-structure', bad) and chk(np.isfinite(res), 'residual-not-finite', repr(res)):
        true = np.linalg.norm(A @ xf - b) / np.linalg.norm(b)
        chk(abs(res - true) <= 1e-9 * true + 1e-14, 'reported-residual-wrong', 'reported %.6g, |Ax-b|/|b| = %.6g' % (res, true))
        r0 = np.linalg.norm(A @ x0 - b) / np.linalg.norm(b)
        steps = sum(total_iters)
        chk(len(total_iters) <= opt['restart'] and all(t <= opt['N_max'] for t in total_iters), 'too-many-iterations', repr(total_iters))
        bound = max(opt['res'] * 1.001, r0 * 0.4 ** steps * 1.001 if r0 >= opt['res'] else r0) + 1e-13
        chk(true <= bound, 'not-a-solution', 'residual %.3g after %s steps (start %.3g, requested %.3g, minimal-residual bound %.3g)' % (true, total_iters, r0, opt['res'], bound))
    return [dict(failed=chk.failed, steps=int(sum(total_iters)))]


def run_gmres(unit):
    _, struct, form, tier, seed = unit
    res = Result()
    for d in range(3, 8 if tier == 'quick' else 13):
        # domain: the Krylov space (dimension d for generic b) is not exhausted before the solver may stop: N_min < d, N_min < N_max
        for N_min, N_max, restart, tol in itertools.product((1, 2, 5), (2, 3, d, 20), (3, 10), (1e-8, 1e-4)):
            if not (N_min < N_max and N_min < d):
                continue
            for x0 in ('zero', 'b', 'generic', 'solution'):
                case = dict(kind='gmres', struct=struct, form=form, d=d, x0=x0, seed=seed, opt=dict(N_min=N_min, N_max=N_max, restart=restart, res=tol))
                runs = res.execute(case, case_gmres)
                if runs is None:
                    continue
                res.nontrivial += runs[0]['steps'] > 0
                res.outcomes.add('steps%d' % min(runs[0]['steps'], 8))
                if runs[0]['failed']:
                    res.bad('GMRES:%s:%s' % (runs[0]['failed'][0][0], 'restarted' if runs[0]['steps'] > N_max else 'single-cycle'), describe(runs[0]['failed']), case)
    return res.done()


# ---------------------------------------------------------------- operator wrappers and FlatLinearOperator

class FullOp:
    """Operator with the complete NpcLinearOperator interface (matvec, to_matrix, adjoint) around an Array."""

    def __init__(self, sp, F):
        import tenpy.linalg.np_conserved as npc
        self.sp, self.F, self.dtype = sp, F, F.dtype
        lab = ['(a.b.c)', '(a*.b*.c*)'] if sp.struct == 'rank3' else ['p', 'p*']
        self.A = npc.Array.from_ndarray(F, [sp.leg, sp.leg.conj()], labels=lab)
        self.A6 = self.A.split_legs() if sp.struct == 'rank3' else None

    def matvec(self, v):
        import tenpy.linalg.np_conserved as npc
        if self.A6 is not None:
            return npc.tensordot(self.A6, v, axes=[['a*', 'b*', 'c*'], ['a', 'b', 'c']])
        return npc.tensordot(self.A, v, axes=['p*', 'p'])

    def to_matrix(self):
        return self.A.copy()

    def adjoint(self):
        return FullOp(self.sp, self.F.conj().T)


def case_wrapper(case):
    """matvec / to_matrix / adjoint / unwrapped of the wrappers against dense matrices on the full space."""
    from tenpy.linalg import sparse
    d, northo = case['d'], case['northo']
    sp = Space(case['struct'], d)
    rng = np.random.default_rng([case['seed'], d, 66])

    def rnd(*sh):
        return rng.standard_normal(sh) + 1j * rng.standard_normal(sh)

    def embed(x):
        full = np.zeros(sp.D, dtype=complex)
        full[sp.mask] = x
        return full

    F1, F2 = sp.full_matrix(rnd(d, d)), sp.full_matrix(rnd(d, d))
    one = np.eye(sp.D)
    vecs = [rnd(d) for _ in range(northo)]
    U = np.linalg.qr(np.array([embed(x) for x in vecs]).T)[0] if vecs else np.zeros((sp.D, 0))
    P = one - U @ U.conj().T
    s = 0.7 - 0.2j
    op1, op2 = FullOp(sp, F1), FullOp(sp, F2)
    op, ref = {'shift': lambda: (sparse.ShiftNpcLinearOperator(op1, s), F1 + s * one),
               'shift-shift': lambda: (sparse.ShiftNpcLinearOperator(sparse.ShiftNpcLinearOperator(op1, s), -2.0), F1 + (s - 2.0) * one),
               'sum': lambda: (sparse.SumNpcLinearOperator(op1, op2), F1 + F2),
               'sum-shift': lambda: (sparse.SumNpcLinearOperator(sparse.ShiftNpcLinearOperator(op1, s), op2), F1 + F2 + s * one),
               'ortho': lambda: (sparse.OrthogonalNpcLinearOperator(op1, [sp.vec(x) for x in vecs]), P @ F1 @ P),
               'ortho-shift': lambda: (sparse.OrthogonalNpcLinearOperator(sparse.ShiftNpcLinearOperator(op1, s), [sp.vec(x) for x in vecs]),
                                       P @ (F1 + s * one) @ P)}[case['wrapper']]()
    chk = Checker()
    tol = 1e-12 * (1 + np.abs(ref).max())
    for name, o, R in (('', op, ref), ('adjoint:', op.adjoint(), ref.conj().T)):
        for x in list(np.eye(d)) + [rnd(d)]:
            xv = sp.vec(x)
            y, bad = observe(sp, o.matvec(xv), xv)
            chk(np.array_equal(sp.flat(xv)[0], x), name + 'matvec-modifies-argument')
            if chk(y is not None, name + 'matvec-structure', bad):
                chk(np.abs(y - (R @ embed(x))[sp.mask]).max() <= tol, name + 'matvec-wrong', 'differs from the dense reference')
        if sp.struct == 'rank3' or not case['wrapper'].startswith('ortho'):  # Orthogonal.to_matrix: legs of the vectors combined to the pipe
            mat = o.to_matrix()
            chk(mat.rank == 2 and np.abs(mat.to_ndarray() - R).max() <= tol, name + 'to_matrix-wrong', 'to_matrix() differs from the dense reference')
    chk(op.unwrapped() is op1, 'unwrapped-wrong')
    return [dict(failed=chk.failed)]


def run_wrappers(unit):
    _, struct, tier, seed = unit
    res = Result()
    for d, wrapper in itertools.product(range(1, 6 if tier == 'quick' else 9), ('shift', 'shift-shift', 'sum', 'sum-shift', 'ortho', 'ortho-shift')):
        for northo in sorted({0, 1, min(2, d)}) if wrapper.startswith('ortho') else (0,):
            case = dict(kind='wrapper', struct=struct, d=d, wrapper=wrapper, northo=northo, seed=seed)
            runs = res.execute(case, case_wrapper)
            if runs is None:
                continue
            res.nontrivial += 1
            if runs[0]['failed']:
                res.bad('sparse:%s:%s' % (wrapper, runs[0]['failed'][0][0]), describe(runs[0]['failed']), case)
    return res.done()


def case_flat(case):
    """FlatLinearOperator / FlatHermitianOperator / lanczos_arpack against the dense matrix of the same operator."""
    from tenpy.linalg.krylov_based import lanczos_arpack
    from tenpy.linalg.sparse import FlatHermitianOperator, FlatLinearOperator
    d, seed, herm = case['d'], case['seed'], case['hermitian']
    sp = Space(case['struct'], d)
    rng = np.random.default_rng([seed, d, 88])
    M = hermitian('nondeg', 'urot' if case['complex'] else 'rot', d, seed)[0] if herm else general('complex' if case['complex'] else 'real', d, seed)
    F = sp.full_matrix(M)
    full = FullOp(sp, F)
    scale = 1 + np.abs(F).max()
    chk = Checker()
    q = {'target': sp.q, 'other': list(sp.others[0]) if sp.others else sp.q, 'all': None, 'default': 0}[case['sector']]
    qv = np.zeros(len(sp.q), int) if case['sector'] == 'default' else q
    mask = np.ones(sp.D, bool) if q is None else np.all(sp.qflat == np.array(qv, dtype=sp.qflat.dtype)[np.newaxis, :], axis=1)
    n = int(mask.sum())
    R = F[np.ix_(mask, mask)]
    x0 = rng.standard_normal(n) + (1j * rng.standard_normal(n) if case['complex'] else 0)
    if case['what'] == 'arpack':
        psi = sp.vec(x0)
        E0, psi0 = lanczos_arpack(full, psi, {})
        p, bad = observe(sp, psi0, psi)
        if chk(p is not None, 'lanczos_arpack:result-structure', bad):
            lam = np.linalg.eigvalsh(M)
            chk(abs(E0 - lam[0]) <= 1e-9 * scale, 'lanczos_arpack:not-ground-energy', 'E0=%.12g lambda_min=%.12g' % (E0, lam[0]))
            chk(np.linalg.norm(M @ p - E0 * p) <= 1e-7 * scale and abs(np.linalg.norm(p) - 1) <= 1e-10, 'lanczos_arpack:not-ground-state')
        return [dict(failed=chk.failed)]
    cls = FlatHermitianOperator if herm else FlatLinearOperator
    try:
        if case['pipe']:  # matvec acting on the rank-3 tensors, flat vectors on the combined pipe
            op, guess = cls.from_guess_with_pipe(full.matvec, sp.vec(x0), dtype=F.dtype, compact_flat=bool(case['compact']))
            chk(np.allclose(guess, x0, atol=1e-14, rtol=0), 'from_guess_with_pipe:guess_flat-wrong')
        elif q is None:  # all sectors at once: the vector label has to be given (from_NpcArray has no argument for it)
            op = cls(full.A.matvec, sp.leg, F.dtype, None, full.A.get_leg_labels()[0], case['compact'])
        else:
            op = cls.from_NpcArray(full.A, charge_sector=q, compact_flat=case['compact'])
    except ValueError:
        if case['compact'] and (q is None or not sp.leg.is_blocked()):
            return [dict(failed=[])]  # documented: compact_flat needs a blocked leg and a fixed charge sector
        raise
    if not chk(tuple(op.shape) == (n, n), 'shape-wrong', 'shape %s for a sector of dimension %d' % (op.shape, n)):
        return [dict(failed=chk.failed)]
    if case['what'] == 'matvec':
        xs = list(np.eye(n)) + [x0]
        for x in xs:
            chk(np.abs(op.matvec(x) - R @ x).max() <= 1e-12 * scale, 'matvec-wrong', 'differs from the dense block')
            a = op.flat_to_npc(x)
            dense = a.to_ndarray() if q is not None else a.to_ndarray().sum(axis=1)
            chk(np.array_equal(dense[mask], x) and not np.any(dense[~mask]), 'flat_to_npc-wrong')
            chk(np.array_equal(op.npc_to_flat(a), x), 'npc_to_flat-not-inverse')
        chk(op.matvec_count == len(xs), 'matvec_count-wrong', '%d after %d products' % (op.matvec_count, len(xs)))
        if q is not None and not case['pipe']:  # documented property: the charge sector can be changed afterwards
            m2 = np.all(sp.qflat == sp.qflat[-1][np.newaxis, :], axis=1)
            op.charge_sector = sp.qflat[-1]
            x = rng.standard_normal(int(m2.sum()))
            chk(tuple(op.shape) == (m2.sum(), m2.sum()) and np.abs(op.matvec(x) - F[np.ix_(m2, m2)] @ x).max() <= 1e-12 * scale, 'charge_sector-setter-wrong')
        return [dict(failed=chk.failed)]
    # eigenvectors
    which, k = case['which'], min(case['num_ev'], n)
    eta, ws = op.eigenvectors(num_ev=k, which=which, v0=x0.astype(complex if not herm else x0.dtype))
    key = sort_key({'LA': 'LR', 'SA': 'SR'}.get(which, which))
    ref = np.linalg.eigvals(R)
    ref = ref[np.argsort(key(ref), kind='stable')]
    tol = 1e-8 * scale
    if chk(len(eta) == k and len(ws) == k, 'eigenvectors:wrong-number', '%d values %d vectors for num_ev=%d' % (len(eta), len(ws), k)):
        free = list(ref)
        for i in range(k):
            chk(abs(key(eta[i]) - key(ref[i])) <= tol, 'eigenvectors:not-ordered-as-requested', 'which=%s: %r, dense %r' % (which, list(eta), list(ref[:k])))
            j = int(np.argmin(np.abs(np.array(free) - eta[i])))
            if chk(abs(free[j] - eta[i]) <= tol, 'eigenvectors:not-an-eigenvalue', repr(eta[i])):
                free.pop(j)
            w = ws[i].to_ndarray()
            chk(w.shape == (sp.D,) and abs(np.linalg.norm(w) - 1) <= 1e-8 and np.linalg.norm(F @ w - eta[i] * w) <= 100 * tol, 'eigenvectors:not-an-eigenvector',
                'pair %d: |A w - eta w| = %.3g' % (i, np.linalg.norm(F @ w - eta[i] * w) if w.shape == (sp.D,) else -1))
            if q is not None:
                chk(np.array_equal(ws[i].qtotal, sp.leg.chinfo.make_valid(qv)) and not np.any(w[~mask]), 'eigenvectors:wrong-sector')
    return [dict(failed=chk.failed)]


def run_flat(unit):
    _, struct, tier, seed = unit
    res = Result()
    for d, cplx, herm in itertools.product(range(1, 7 if tier == 'quick' else 10), (False, True), (False, True)):
        base = dict(kind='flat', struct=struct, d=d, complex=cplx, hermitian=herm, seed=seed, pipe=False)
        # all sectors at once (charge_sector=None): only for blocked legs (pipes), as in the library's own use
        sectors = ('target', 'other', 'default') + (('all',) if struct == 'rank3' else ())
        cases = [dict(base, what='matvec', sector=s, compact=c) for s in sectors for c in (None, True, False)]
        cases += [dict(base, what='eig', sector=s, compact=None, which=w, num_ev=k) for s in sectors[::3]
                  for w in (('LM', 'LA', 'SA') if herm else ('LM', 'LR', 'SR')) for k in sorted({1, 2, d})]
        if struct == 'rank3':
            cases += [dict(base, what='matvec', sector='target', compact=c, pipe=True) for c in (True, False)]
        if herm:
            cases.append(dict(base, what='arpack', sector='target', compact=None))
        for case in cases:
            runs = res.execute(case, case_flat)
            if runs is None:
                continue
            res.nontrivial += 1
            if runs[0]['failed']:
                res.bad('FlatLinearOperator:%s:%s%s' % (runs[0]['failed'][0][0], case['sector'], ':compact' if case['compact'] else ''), describe(runs[0]['failed']), case)
    return res.done()


# ---------------------------------------------------------------- plumbing

class Result:
    def __init__(self):
        self.evaluations = self.nontrivial = 0
        self.violations, self.samples, self.outcomes = [], [], set()

    def execute(self, case, fn, count=True):
        """Run one case on the real code; any library exception inside the documented domain is a violation."""
        self.evaluations += bool(count)
        if not self.samples:
            self.samples.append(case)
        try:
            return fn(case)
        except Exception as e:  # noqa: BLE001
            import traceback
            frames = traceback.extract_tb(e.__traceback__)
            tb = ([f for f in frames if '/tenpy/' in f.filename] or frames)[-1]  # innermost frame inside tenpy
            name = case.get('solver') or {'gs': 'LanczosGroundState', 'arnoldi': 'Arnoldi', 'gmres': 'GMRES', 'wrapper': 'sparse', 'flat': 'FlatLinearOperator'}.get(case['kind'], case['kind'])
            self.bad('%s:exception:%s@%s%s' % (name, type(e).__name__, tb.name, ':' + tags(case) if 'N_max' in case.get('opt', ()) else ''),
                     '%s: %s (%s line %d)' % (type(e).__name__, e, tb.filename.split('/')[-1], tb.lineno), case)
            return None

    def bad(self, key, what, case):
        if len(self.violations) < 20 and key not in [v['key'] for v in self.violations]:
            self.violations.append(dict(key=key, what='%s  [case %s]' % (what, {k: v for k, v in case.items() if k != 'calls'}), case=case))

    def done(self):
        return dict(evaluations=self.evaluations, nontrivial_count=self.nontrivial, violations=self.violations, samples=self.samples[:1], outcomes=sorted(self.outcomes))


RUNNERS = {'flat': run_flat, 'gs': run_gs, 'evo': run_evo, 'arnoldi': run_arnoldi, 'gram_schmidt': run_gram_schmidt, 'gmres': run_gmres, 'wrappers': run_wrappers}
CASES = {'flat': case_flat, 'gs': case_gs, 'evo': case_evo, 'arnoldi': case_arnoldi, 'gram_schmidt': case_gram_schmidt, 'gmres': case_gmres, 'wrapper': case_wrapper}
FORMS = (('triv', 'array'), ('triv', 'matvec'), ('u1x2', 'array'), ('u1mix', 'array'), ('rank3', 'matvec'))


def units(tier, seed, label):
    if label == 'PY':  # pure-Python configuration (thorough only): the quick-sized enumeration
        tier = 'quick'
    dmax = 6 if tier == 'quick' else 10
    us = []
    for d, spec, (struct, form) in itertools.product(range(1, dmax + 1), HERMITIAN_SPECTRA, FORMS):
        if d == 1 and spec not in ('nondeg', 'zero'):
            continue  # all spectrum types coincide for d = 1
        us.append(('gs', struct, form, d, spec, None, tier, seed))
    for d, spec, wrap in itertools.product(range(1, dmax + 1), ('nondeg', 'degmin', 'pm'), ['shift', 'sum'] + ['ortho:' + k for k in ORTHO_KINDS]):
        if d > 1 or spec == 'nondeg':
            us.append(('gs', 'rank3' if d % 2 else 'u1x2', 'matvec' if d % 2 else 'array', d, spec, wrap, tier, seed))
    for d, spec, (struct, form) in itertools.product((30,) if tier == 'quick' else (20, 40, 60), ('nondeg', 'degmin', 'pm'), FORMS[2:]):
        us.append(('gs', struct, form, d, spec, None, tier, seed))
    for d, (struct, form) in itertools.product(range(1, dmax + 1), FORMS):
        for spec in ('nondeg', 'degmin', 'rank1neg', 'pm') if d > 1 else ('nondeg',):
            us.append(('evo', 'LanczosEvolution', struct, form, d, 'herm', spec, tier, seed))
        for spec in GENERAL:
            us.append(('evo', 'ArnoldiEvolution', struct, form, d, 'gen', spec, tier, seed))
            us.append(('arnoldi', struct, form, d, 'gen', spec, tier, seed))
        us.append(('evo', 'ArnoldiEvolution', struct, form, d, 'herm', 'nondeg', tier, seed))
        for spec in ('nondeg', 'degmin', 'pm') if d > 1 else ('nondeg',):
            us.append(('arnoldi', struct, form, d, 'herm', spec, tier, seed))
    for struct in STRUCTS:
        us.append(('gram_schmidt', struct, tier, seed))
        us.append(('wrappers', struct, tier, seed))
        us.append(('flat', struct, tier, seed))
    for struct, form in FORMS:
        us.append(('gmres', struct, form, tier, seed))
    return us


def run_unit(unit):
    warnings.simplefilter('ignore')
    logging.getLogger('tenpy').setLevel(logging.CRITICAL)
    return RUNNERS[unit[0]](unit)


def replay(case):
    warnings.simplefilter('ignore')
    logging.getLogger('tenpy').setLevel(logging.CRITICAL)
    res = Result()
    runs = res.execute(case, CASES[case['kind']])
    for i, r in enumerate(runs or []):
        if r['failed']:
            res.bad('replay:run%d:%s' % (i + 1, r['failed'][0][0]), describe(r['failed']), case)
    if runs and case.get('compare_full_cache'):
        full = res.execute(dict(case, opt=dict(case['opt'], N_cache=case['opt']['N_max'])), case_gs)
        if full and (full[0]['N'] != runs[0]['N'] or abs(full[0]['E0'] - runs[0]['E0']) > 1e-8 or np.linalg.norm(full[0]['psi'] - runs[0]['psi']) > 1e-8):
            res.bad('replay:depends-on-N_cache', 'E0=%.14g N=%d, with N_cache=N_max: E0=%.14g N=%d' % (runs[0]['E0'], runs[0]['N'], full[0]['E0'], full[0]['N']), case)
    return res.done()
