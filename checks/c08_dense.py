"""C08 helpers: the state family and a boring dense reference for measurements.

A *window* is a contiguous range of sites ``w0 .. w0+n-1`` of an MPS together with the two virtual legs at its
ends.  In canonical form the Schmidt states of the virtual legs are orthonormal, so the dense tensor
``T[a, s_0, ..., s_{n-1}, b]`` is a state vector of (left environment) x sites x (right environment) and every
operator acting inside the window has the expectation value ``<T_bra| 1 x O x 1 |T_ket>``.  For a finite MPS
the window is the whole chain and `T` is the source vector the MPS was built from (``a = b = 0``).
Operators are applied one site at a time; Jordan-Wigner strings are inserted explicitly as the site's ``JW``
matrix on every window site left of a fermionic operator (doc/intro/JordanWigner.rst).
"""
import functools
import itertools

import numpy as np

TOL = 1e-10

# name -> (unit cell [site class, kwargs], how to make the charges compatible)
CHAINS = {
    'S:Sz': [['SpinHalfSite', {'conserve': 'Sz'}]],
    'S:parity': [['SpinHalfSite', {'conserve': 'parity'}]],
    'S:None': [['SpinHalfSite', {'conserve': None}]],
    'S1:Sz': [['SpinSite', {'S': 1.0, 'conserve': 'Sz'}]],
    'F:N': [['FermionSite', {'conserve': 'N'}]],
    'F:parity': [['FermionSite', {'conserve': 'parity'}]],
    'F:None': [['FermionSite', {'conserve': None}]],
    'B:N': [['BosonSite', {'Nmax': 2, 'conserve': 'N'}]],
    'SHF:N,Sz': [['SpinHalfFermionSite', {'cons_N': 'N', 'cons_Sz': 'Sz'}]],
    'FS:N,Sz': [['FermionSite', {'conserve': 'N'}], ['SpinHalfSite', {'conserve': 'Sz'}]],  # mixed chain
}
# operator pools (names) per site class: (bosonic, fermionic)
POOL = {
    'SpinHalfSite': (['Sz', 'Sp', 'Sm'], []),
    'SpinSite': (['Sz', 'Sp', 'Sm'], []),
    'FermionSite': (['N'], ['C', 'Cd']),
    'BosonSite': (['N', 'B', 'Bd'], []),
    'SpinHalfFermionSite': (['Ntot', 'Sp'], ['Cu', 'Cdu', 'Cd', 'Cdd']),
}
# bond charges (left of each unit cell site) and B.qtotal of generic injective infinite MPS
IMPS = {
    'S:Sz': dict(L=2, bonds=[[[0], [0], [2], [-2]], [[1], [1], [-1]]], qtotal=[[0], [0]]),
    'S:None': dict(L=3, bonds=[[[]] * 3, [[]] * 2, [[]] * 3], qtotal=[[], [], []]),
    'S1:Sz': dict(L=1, bonds=[[[0], [0], [2], [-2]]], qtotal=[[0]]),
    'F:N': dict(L=2, bonds=[[[0], [0], [1], [-1]], [[0], [1], [1]]], qtotal=[[0], [1]]),
    'F:parity': dict(L=3, bonds=[[[0], [0], [1]], [[0], [1]], [[0], [1], [1]]], qtotal=[[0], [0], [0]]),
}


@functools.lru_cache(maxsize=None)
def make_cell(chain):
    from tenpy.networks import site as S
    cell = [getattr(S, cls)(**kw) for cls, kw in CHAINS[chain]]
    if len(cell) > 1:
        S.set_common_charges(cell, 'independent')
    return cell


def pool(site, fermionic=None):
    bos, fer = POOL[type(site).__name__]
    return fer if fermionic else bos if fermionic is False else bos + fer


@functools.lru_cache(maxsize=None)
def _opmat(site, name):
    """Dense matrix of an onsite operator name; a space-separated product is the matrix product of its factors."""
    return functools.reduce(np.dot, [site.get_op(n).to_ndarray() for n in name.split()])


def opmat(site, op):
    return _opmat(site, op) if isinstance(op, str) else np.asarray(op)


def is_fermionic(site, name):
    """Parity of the number of JW-operators among the factors of `name`."""
    return sum(bool(site.op_needs_JW(n)) for n in name.split()) % 2 == 1


def entropy(p, n=1):
    p = np.asarray(p, dtype=float)
    p = p[p > 1e-30]
    return float(-np.sum(p * np.log(p))) if n == 1 else float(np.log(np.sum(p**n)) / (1 - n))


class Dense:
    """``<bra| ... |ket>`` on a window; `ket`/`bra` have shape (chiL, d_0, ..., d_{n-1}, chiR)."""

    def __init__(self, sites, ket, bra=None, w0=0, scale=1.0):
        self.sites, self.n, self.w0, self.scale = list(sites), len(sites), w0, scale
        self.ket = np.asarray(ket, dtype=complex)
        self.bra = self.ket if bra is None else np.asarray(bra, dtype=complex)
        self.JW = [_opmat(s, 'JW') for s in self.sites]

    def site(self, i):
        return self.sites[i - self.w0]

    @staticmethod
    def _apply(T, M, k):
        assert 0 <= k < T.ndim - 2, 'site outside the window'
        return np.moveaxis(np.tensordot(M, T, axes=(1, k + 1)), 0, k + 1)

    def amp(self, ops):
        """``scale * <bra| M_1(i_1) M_2(i_2) ... |ket>``: `ops` = [(matrix, site index)], the last one acts first."""
        T = self.ket
        for M, i in reversed(ops):
            T = self._apply(T, M, i - self.w0)
        return self.scale * np.vdot(self.bra, T)

    def G(self, op, i, jw=True):
        """The (fermionic) operator `op` on site `i` as a list for `amp`: JW on the window sites left of it."""
        s = self.site(i)
        string = [(self.JW[k - self.w0], k) for k in range(self.w0, i)] if jw and is_fermionic(s, op) else []
        return string + [(opmat(s, op), i)]

    def term(self, term, jw=True):
        """Expectation value of ``op_0(i_0) op_1(i_1) ...`` (mathematical order) with explicit JW strings."""
        return self.amp([x for op, i in term for x in self.G(op, i, jw)])

    def nsite(self, O, i):
        """``<bra|O|ket>`` for a dense n-site operator O[s_0', .., s_0, ..] acting on sites i, i+1, ..."""
        m = O.ndim // 2
        k = i - self.w0
        assert 0 <= k <= self.n - m, 'sites outside the window'
        T = np.tensordot(O, self.ket, axes=(list(range(m, 2 * m)), list(range(k + 1, k + 1 + m))))
        T = np.moveaxis(T, list(range(m)), list(range(k + 1, k + 1 + m)))
        return self.scale * np.vdot(self.bra, T)

    def rho(self, segment):
        """Reduced density matrix of the ket on the (sorted) sites `segment`, indices [s.., s'..]."""
        ax = [i - self.w0 + 1 for i in segment]
        assert all(1 <= x <= self.n for x in ax), 'sites outside the window'
        rest = [a for a in range(self.ket.ndim) if a not in ax]
        return np.tensordot(self.ket, self.ket.conj(), axes=(rest, rest))

    def bond_charges(self, b, q_left, q_sites):
        """Distribution {charge tuple: probability} of ``q_left[a] + sum_{i<b} q_sites[i][s_i]`` in the ket."""
        k = b - self.w0
        P = np.abs(self.ket)**2
        P = P.sum(axis=tuple(range(k + 1, P.ndim)))
        dist = {}
        for idx in itertools.product(*[range(d) for d in P.shape]):
            if P[idx] > 0:
                q = tuple(int(x) for x in q_left[idx[0]] + sum(q_sites[j][s] for j, s in enumerate(idx[1:])))
                dist[q] = dist.get(q, 0.0) + P[idx]
        return dist


# ---------------------------------------------------------------- states

def raw_tensor(psi, i, form):
    """Tensor of site `i` as ndarray [vL, p, vR] in the canonical form (nuL, nuR), from the stored data only."""
    j = i % psi.L
    B = psi._B[j].transpose(['vL', 'p', 'vR']).to_ndarray()
    nuL, nuR = psi.form[j]
    SL, SR = np.asarray(psi._S[j]), np.asarray(psi._S[(j + 1) % len(psi._S)])
    return B * (SL ** (form[0] - nuL))[:, None, None] * (SR ** (form[1] - nuR))[None, None, :]


def window_tensor(psi, w0, n):
    """Dense window state ``S G S G S ...`` from the stored tensors (own contraction; `norm` not included)."""
    T = raw_tensor(psi, w0, (1.0, 1.0))
    for i in range(w0 + 1, w0 + n):
        T = np.tensordot(T, raw_tensor(psi, i, (0.0, 1.0)), axes=(-1, 0))
    return T


def sector_vector(sites, idx, rng):
    """Generic (all allowed amplitudes non-zero) npc tensor in the charge sector of the basis state `idx`."""
    import tenpy.linalg.np_conserved as npc
    qtotal = sites[0].leg.chinfo.make_valid(sum(s.leg.to_qflat()[x] for x, s in zip(idx, sites)))
    func = lambda shape: rng.uniform(0.3, 1.0, shape) * np.exp(2j * np.pi * rng.uniform(size=shape))  # noqa: E731
    T = npc.Array.from_func(func, [s.leg for s in sites], dtype=complex, qtotal=qtotal, labels=['p%d' % i for i in range(len(sites))])
    return T / npc.norm(T)


def finite_state(chain, L, k, seed, form=None, norm=1.0, low_rank=False):
    """(MPS, dense source vector) of a generic state of the k-th charge sector: the sector of the basis state in which
    the x-th site of each kind is in state x % dim, with the last site raised by k.
    `low_rank`: product of generic states of the first two and of the other sites (smaller bond dimensions)."""
    from tenpy.networks.mps import MPS
    import tenpy.linalg.np_conserved as npc
    cell = make_cell(chain)
    sites = [cell[i % len(cell)] for i in range(L)]
    idx = [(i // len(cell) + (k if i == L - 1 else 0)) % s.dim for i, s in enumerate(sites)]
    rng = np.random.default_rng([seed, L, k, int(low_rank), sorted(CHAINS).index(chain)])
    if low_rank:
        a, b = sector_vector(sites[:2], idx[:2], rng), sector_vector(sites[2:], idx[2:], rng)
        T = npc.outer(a, b.replace_labels(b.get_leg_labels(), ['p%d' % i for i in range(2, L)]))
    else:
        T = sector_vector(sites, idx, rng)
    psi = MPS.from_full(sites, T, unit_cell_width=L)
    if form is not None:
        psi.convert_form(form)
    psi.norm = norm
    return psi, T.to_ndarray()[None, ..., None]


def infinite_state(chain, seed, norm=1.0):
    """Generic injective infinite MPS with the bond charges of `IMPS`, brought into canonical form by tenpy."""
    from tenpy.networks.mps import MPS
    import tenpy.linalg.np_conserved as npc
    spec = IMPS[chain]
    cell = make_cell(chain)
    L = spec['L']
    sites = [cell[i % len(cell)] for i in range(L)]
    chinfo = sites[0].leg.chinfo
    rng = np.random.default_rng([seed, 77, sorted(IMPS).index(chain)])
    legs = [npc.LegCharge.from_qflat(chinfo, spec['bonds'][b % L], 1).sort(bunch=True)[1] for b in range(L + 1)]
    func = lambda shape: rng.uniform(0.3, 1.0, shape) * np.exp(2j * np.pi * rng.uniform(size=shape))  # noqa: E731
    Bs = [npc.Array.from_func(func, [legs[i], sites[i].leg, legs[i + 1].conj()], dtype=complex, qtotal=spec['qtotal'][i],
                              labels=['vL', 'p', 'vR']) for i in range(L)]
    psi = MPS(sites, Bs, [np.ones(legs[b].ind_len) for b in range(L + 1)], bc='infinite', form=None, unit_cell_width=L)
    psi.canonical_form()
    psi.norm = norm
    return psi


def is_canonical(psi, T):
    """Assumption of the window picture: the window tensor is normalised and the stored tensors are isometries."""
    if abs(np.linalg.norm(T) - 1) > 1e-9:
        return False
    for i in range(psi.L):
        B = raw_tensor(psi, i, (0.0, 1.0))
        A = raw_tensor(psi, i, (1.0, 0.0))
        if np.abs(np.einsum('apb,cpb->ac', B, B.conj()) - np.eye(B.shape[0])).max() > 1e-9:
            return False
        if np.abs(np.einsum('apb,apc->bc', A.conj(), A) - np.eye(A.shape[2])).max() > 1e-9:
            return False
    return True
