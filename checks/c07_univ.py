"""Universe for C07: sites, chains, charge sectors, source vectors and raw (non-canonical) charge-symmetric tensors.

Everything is a deterministic function of small json-able descriptors (chain name, L, seed, ...)."""
import itertools

import numpy as np

# site key -> (constructor description, key of the same site with conserve=None or None)
_SITE_DEFS = {
    'sh': ('SpinHalfSite', dict(conserve=None), None),
    'shz': ('SpinHalfSite', dict(conserve='Sz'), 'sh'),
    'shp': ('SpinHalfSite', dict(conserve='parity'), 'sh'),
    's1': ('SpinSite', dict(S=1., conserve=None), None),
    's1z': ('SpinSite', dict(S=1., conserve='Sz'), 's1'),
    'f': ('FermionSite', dict(conserve=None), None),
    'fN': ('FermionSite', dict(conserve='N'), 'f'),
    'fp': ('FermionSite', dict(conserve='parity'), 'f'),
    'b2': ('BosonSite', dict(Nmax=2, conserve=None), None),
    'b2N': ('BosonSite', dict(Nmax=2, conserve='N'), 'b2'),
    'shf0': ('SpinHalfFermionSite', dict(cons_N=None, cons_Sz=None), None),
    'shf': ('SpinHalfFermionSite', dict(cons_N='N', cons_Sz='Sz'), 'shf0'),
    'shfN': ('SpinHalfFermionSite', dict(cons_N='N', cons_Sz=None), 'shf0'),
}
_cache = {}


def site(key):
    """One shared Site object per key (sites of one chain must share their ChargeInfo)."""
    if key not in _cache:
        from tenpy.networks import site as ts
        if key == 'grp':  # one GroupedSite: spin-1/2 x spin-1 with the common 2*Sz charge
            _cache[key] = ts.GroupedSite([site('shz'), site('s1z')], charges='same')
        else:
            cls, kw, _ = _SITE_DEFS[key]
            _cache[key] = getattr(ts, cls)(**kw)
    return _cache[key]


def twin(key):
    """The same site without charge conservation (reference basis order and labels)."""
    return None if key == 'grp' else site(_SITE_DEFS[key][2] or key)


# chain name -> unit of site keys that is repeated / cut to length L
CHAINS = {
    'sh': ['sh'], 'shz': ['shz'], 'shp': ['shp'], 's1z': ['s1z'], 'f': ['f'], 'fN': ['fN'], 'fp': ['fp'], 'b2N': ['b2N'],
    'shf': ['shf'], 'shfN': ['shfN'],
    'mixSz': ['shz', 's1z'],        # same charge 2*Sz, different dimensions
    'mixN': ['fN', 'b2N'],          # fermions and bosons sharing N
    'mix0': ['sh', 's1', 'f'],      # no charges, dimensions 2,3,2
    'grp': ['grp', 'shz'],          # GroupedSite (dim 6) next to a plain site
}
CHARGED = [c for c in CHAINS if c not in ('sh', 'f', 'mix0')]


def chain_keys(name, L):
    u = CHAINS[name]
    return [u[i % len(u)] for i in range(L)]


def chain(name, L):
    return [site(k) for k in chain_keys(name, L)]


def dims(sites):
    return [s.dim for s in sites]


def local_charges(s):
    """Charge (tuple) of every basis state of the site, in the basis order of the site."""
    return [tuple(int(x) for x in q) for q in s.leg.to_qflat()]


def add_charges(chinfo, a, b, sign=1):
    return tuple(int(x) for x in chinfo.make_valid(np.array(a, dtype=int) + sign * np.array(b, dtype=int)))


def sectors(sites):
    """dict total charge -> list of multi-indices (basis of the sites) of the product basis states."""
    ci = sites[0].leg.chinfo
    lq = [local_charges(s) for s in sites]
    out = {}
    for idx in itertools.product(*[range(s.dim) for s in sites]):
        q = tuple([0] * ci.qnumber)
        for i, j in enumerate(idx):
            q = add_charges(ci, q, lq[i][j])
        out.setdefault(q, []).append(idx)
    return out


def values(rng, shape, cplx):
    x = rng.standard_normal(shape)
    if cplx:
        x = x + 1j * rng.standard_normal(shape)
    return x


def generic_vector(sites, sector, seed, cplx):
    """Seeded generic tensor [d0, .., d{L-1}] supported on one charge sector (not normalised)."""
    rng = np.random.default_rng([seed, 7, len(sites)])
    v = np.zeros(dims(sites), dtype=complex if cplx else float)
    for idx in sectors(sites)[sector]:
        v[idx] = values(rng, (), cplx)
    return v


def big_sectors(sites, n=1):
    """The n largest charge sectors (deterministic order)."""
    sec = sectors(sites)
    return sorted(sec, key=lambda q: (-len(sec[q]), q))[:n]


def to_npc(v, sites, extra=()):
    """npc.Array with labels p0.. (and optional extra legs (label, leg, position)) of a dense tensor."""
    import tenpy.linalg.np_conserved as npc
    legs = [s.leg for s in sites]
    labels = ['p%d' % i for i in range(len(sites))]
    for lab, leg, pos in extra:
        legs.insert(pos if pos >= 0 else len(legs), leg)
        labels.insert(pos if pos >= 0 else len(labels), lab)
    return npc.Array.from_ndarray(v, legs, labels=labels)


# ------------------------------------------------------------------------------------------------ raw tensors

def _smallest(qs, k):
    return sorted(sorted(qs, key=lambda q: (sum(abs(x) for x in q), q))[:k])


def bond_charges(sites, sector, infinite=False):
    """Charges allowed on each bond 0..L.  Finite: reachable from the left with 0 and from the right with `sector`.
    Infinite: the 2-3 smallest charges reachable on each bond (bond L = bond 0; the charge per unit cell goes into
    the qtotal of the last tensor)."""
    ci = sites[0].leg.chinfo
    L = len(sites)
    lq = [local_charges(s) for s in sites]
    zero = tuple([0] * ci.qnumber)

    def step(cur, i, sign=1):
        return {add_charges(ci, q, p, sign) for q in cur for p in lq[i]}

    if not infinite:
        left = [{zero}]
        for i in range(L):
            left.append(step(left[-1], i))
        right = [{tuple(sector)}]
        for i in reversed(range(L)):
            right.insert(0, step(right[0], i, -1))
        return [sorted(a & b) for a, b in zip(left, right)]
    cur = {zero}
    for i in range(L):
        cur = set(_smallest(step(cur, i), 2 + i % 2))
    shift = _smallest(cur, 1)[0]
    out = [_smallest({zero} | {add_charges(ci, q, shift, -1) for q in cur}, 2)]
    for i in range(L - 1):
        out.append(_smallest(step(out[-1], i), 2 + (i + 1) % 2))
    return out + [out[0]]


def raw_tensors(sites, sector, mult, seed, cplx, infinite=False):
    """Generic charge-symmetric MPS tensors with one virtual state per (bond charge, copy): dense arrays [vL, p, vR] in
    the basis of the sites, the charge of every virtual state on every bond, and the qtotal of every tensor.

    `mult[b]` copies per charge on bond b (trivial outer bonds for finite chains)."""
    ci = sites[0].leg.chinfo
    L = len(sites)
    rng = np.random.default_rng([seed, 11, L, int(infinite)])
    lq = [local_charges(s) for s in sites]
    bq = bond_charges(sites, sector, infinite)
    virt = []
    for b in range(L + 1):
        m = 1 if (not infinite and b in (0, L)) else mult[b % len(mult)]
        virt.append([q for q in bq[b] for _ in range(m)])
    if infinite:
        virt[L] = virt[0]
    qtot = [tuple([0] * ci.qnumber)] * L
    if infinite:  # the qtotal of the last tensor that connects most entries
        count = {}
        for qa in virt[L - 1]:
            for qp in lq[L - 1]:
                for qc in virt[L]:
                    d = add_charges(ci, add_charges(ci, qa, qp), qc, -1)
                    count[d] = count.get(d, 0) + 1
        qtot[L - 1] = sorted(count, key=lambda d: (-count[d], sum(abs(x) for x in d), d))[0]
    Bs = []
    for i in range(L):
        B = np.zeros((len(virt[i]), sites[i].dim, len(virt[i + 1])), dtype=complex if cplx else float)
        for a, qa in enumerate(virt[i]):
            for j, qp in enumerate(lq[i]):
                qb = add_charges(ci, add_charges(ci, qa, qp), qtot[i], -1)
                for c, qc in enumerate(virt[i + 1]):
                    if qc == qb:
                        B[a, j, c] = values(rng, (), cplx)
        Bs.append(B)
    return Bs, virt, qtot


def raw_npc(sites, Bs, virt, qtot, bunch=True):
    """The raw tensors as npc Arrays with labels vL, p, vR (virtual legs blocked by charge unless bunch=False)."""
    import tenpy.linalg.np_conserved as npc
    ci = sites[0].leg.chinfo

    def leg(b, qconj):
        res = npc.LegCharge.from_qflat(ci, [list(q) for q in virt[b]], qconj=qconj)
        return res.bunch()[1] if bunch else res

    return [npc.Array.from_ndarray(B, [leg(i, +1), sites[i].leg, leg(i + 1, -1)], qtotal=list(qtot[i]), labels=['vL', 'p', 'vR'])
            for i, B in enumerate(Bs)]


def contract(Bs):
    T = Bs[0]
    for B in Bs[1:]:
        T = np.tensordot(T, B, axes=[[-1], [0]])
    return T
