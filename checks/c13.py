"""C13 -- variational ground-state search (DMRG, VUMPS) is sound and converges on small systems.

Grid: model zoo (c13_models) x L x explicit_plus_hc x engine x mixer (one unit each) x every charge sector x initial
product states x diag_method x combine x chi schedule x sweep budget.  Reference: dense kron/Jordan-Wigner
Hamiltonian + numpy eigh per charge sector; the returned MPS is contracted to a dense vector by our own code.
Further unit kinds: first excited state (orthogonal_to), segment DMRG (reference: the Hamiltonian projected on
left-Schmidt x physical x right-Schmidt space), iDMRG and VUMPS on chains with closed-form energy densities.
"""
import functools
import logging
import traceback
import warnings

import numpy as np

from checks import c13_models as Z

UNIT_TIMEOUT = 1500.0
ENGINES = ['TwoSiteDMRGEngine', 'SingleSiteDMRGEngine']
MIXERS = [None, True, 'DensityMatrixMixer', 'SubspaceExpansion']
DIAGS = ['default', 'lanczos', 'arpack', 'ED_block', 'ED_all', 'lanczos+E_shift']
SCHEDULES = [('full', 'long'), ('list', 'long'), ('trunc', 'short'), ('full', 'short')]  # (chi, sweeps)
TOL = 1e-8


# ---------------------------------------------------------------- enumeration

def option_grid(name):
    """(diag, combine, chi, sweeps) tuples: 'full' = whole product; 'checker' = every (diag, schedule) pair with combine
    alternating on the checkerboard (all pairs of option values covered); 'mini' = two eigensolvers only."""
    out = []
    for i, diag in enumerate(DIAGS):
        for j, (chi, sweeps) in enumerate(SCHEDULES):
            for combine in (False, True):
                if name == 'full' or (combine == bool((i + j) % 2) and (name == 'checker' or diag in ('default', 'lanczos'))):
                    out.append((diag, combine, chi, sweeps))
    return out


def plan(tier):
    """(model, L, #initial product states per sector, sectors 'all'|'central', option grid) entries."""
    if tier == 'quick':
        return [('xxz', 4, 1, 'all', 'checker'), ('cfermi', 4, 1, 'all', 'checker'), ('expdecay', 3, 1, 'all', 'checker'), ('spin1', 3, 1, 'central', 'checker')]
    p = [(m, 4, 2 if m in ('xxz', 'cfermi') else 1, 'all', 'full') for m in Z.MODELS if m not in ('spin1', 'bose')]
    p += [(m, 3, 1, 'all', 'full') for m in ('spin1', 'bose', 'xxz', 'cfermi', 'kitaev')]
    p += [(m, 6, 1, 'central', 'checker') for m in ('xxz', 'cfermi', 'expdecay')]
    p += [(m, 8, 1, 'central', 'mini') for m in ('xxz', 'cfermi')]
    return p + [('xxz', 10, 1, 'central', 'mini')]


def infinite_cases(tier):
    """iDMRG / VUMPS configurations on the chains with closed-form (or exact-ring) energy density."""
    out = []
    for model in ('tfi', 'xxz'):
        for ephc in (False, True):
            for ik, kind in enumerate(Z.INF_SITES[model]):
                if tier == 'quick' and ik != int(ephc):
                    continue  # quick: conserve alternates with explicit_plus_hc
                for eng in ENGINES:
                    for mixer in ([True] if eng.startswith('Single') else [None, True]):
                        out.append(dict(kind='inf', model=model, L=2, ephc=ephc, site=kind, engine=eng, mixer=mixer, chi=24))
                for mixer in ([None] if tier == 'quick' and model == 'xxz' else [None, True]):
                    if not (tier == 'quick' and model == 'xxz' and ephc):
                        out.append(dict(kind='inf', model=model, L=2, ephc=ephc, site=kind, engine='TwoSiteVUMPSEngine', mixer=mixer, chi=24))
                if kind == 'spin_none':  # single-site VUMPS needs a charge-free random start of fixed bond dimension
                    for L in ((1, 2) if model == 'tfi' else (2,)):
                        out.append(dict(kind='inf', model=model, L=L, ephc=ephc, site=kind, engine='SingleSiteVUMPSEngine', mixer=None, chi=12))
    for model in ('cxxz', 'cxy'):  # complex couplings; env_init='TM': environments from MPOTransferMatrix also for iDMRG
        kind = Z.INF_SITES[model][0]
        for ephc in ((False,) if tier == 'quick' else (False, True)):
            base = dict(kind='inf', model=model, L=2, ephc=ephc, site=kind, chi=16)
            out.append(dict(base, engine='TwoSiteVUMPSEngine', mixer=None))
            out.append(dict(base, engine='TwoSiteDMRGEngine', mixer=True, env_init='TM'))
            out.append(dict(base, engine='SingleSiteDMRGEngine', mixer=True))
            if kind == 'spin_none':
                out.append(dict(base, engine='SingleSiteVUMPSEngine', mixer=None, chi=8))
    return out


def units(tier, seed, label):
    us = [('dmrg', m, L, ephc, e, mx, ninit, sectors, og, seed) for m, L, ninit, sectors, og in plan(tier)
          for ephc in (False, True) for e in ENGINES for mx in MIXERS]
    ortho_models = [('xxz', 4)] if tier == 'quick' else [('xxz', 4), ('cfermi', 4), ('kitaev', 4), ('spin1', 3), ('expdecay', 5)]
    us += [('ortho', m, L, ephc, e, seed) for m, L in ortho_models for ephc in (False, True) for e in ENGINES]
    us += [('segment', m, ephc, e, seed) for m in (['xxz'] if tier == 'quick' else ['xxz', 'cfermi', 'j1j2']) for ephc in (False, True) for e in ENGINES]
    us += [('inf', tuple(sorted(c.items())), seed) for c in infinite_cases(tier)]
    return us


@functools.lru_cache(maxsize=4)
def reference(model, L, seed):
    return Z.Reference(model, L, seed)


def pick_inits(ref, sector, ninit):
    """Deterministic representatives of the product states of a sector: the middle one, then the first."""
    ps = ref.product_states(sector)
    return [list(p) for p in dict.fromkeys([ps[len(ps) // 2], ps[0]][:ninit])]


def dmrg_options(c):
    chi, sweeps = c['chi'], c['sweeps']
    long = sweeps == 'long'
    opt = dict(mixer=c['mixer'], diag_method=c['diag'], combine=c['combine'], max_trunc_err=None,
               max_sweeps=40 if long else 2, trunc_params=dict(chi_max=2 if chi == 'trunc' else 100))
    if chi == 'list':
        opt['chi_list'] = {0: 2, (3 if long else 1): 100}
        del opt['trunc_params']['chi_max']
    if c['diag'] == 'lanczos+E_shift':
        # documented eigensolver option: the spectrum is shifted during the Lanczos run only, the returned energy is not
        opt['diag_method'] = 'lanczos'
        opt['lanczos_params'] = dict(E_shift=-6.5)
    if c['diag'] == 'default':
        opt['max_N_for_ED'] = 10  # so that both branches (ED for small, Lanczos for larger effective H) occur
    return opt


# ---------------------------------------------------------------- oracle helpers

def exception_finding(e, engine):
    """Key = exception type @ innermost tenpy function (stable call-site name) : engine."""
    name = '?'
    for fs in traceback.extract_tb(e.__traceback__):
        if '/tenpy/' in fs.filename:
            name = fs.name
    return ('exception:%s@%s:%s' % (type(e).__name__, name, engine), '%s: %s\n%s' % (type(e).__name__, e, traceback.format_exc()[-1200:]))


def canonical_finding(psi, eng, c):
    nt = float(np.max(np.abs(psi.norm_test())))
    if nt <= TOL:
        return None
    if eng.mixer is not None:  # max_sweeps reached while the mixer was still enabled
        return ('canonical-form:mixer-on-at-end:%s:%s' % (c['engine'], c['mixer']), 'norm_test=%.3g after run (mixer still enabled)' % nt)
    return ('canonical-form:%s:%s:ephc=%s' % (c['engine'], c['mixer'], c['ephc']), 'norm_test=%.3g after run' % nt)


def last_E_trunc(eng, n_updates):
    """Largest |E_trunc| reported for the last sweep; 0 if that sweep reports that nothing was truncated."""
    if max(eng.trunc_err_list, default=0.0) <= 1e-13:
        return 0.0
    return max([abs(x) for x in eng.update_stats['E_trunc'][-n_updates:] if x is not None], default=0.0)


# ---------------------------------------------------------------- finite DMRG (ground state and first excited state)

@functools.lru_cache(maxsize=8)
def exact_ground_state(model, L, ephc, seed, sector, init):
    """Ground state of the sector as MPS + dense vector, from one fixed configuration, validated against the reference.
    (None, None) if that run fails -- such a failure is reported by the plain 'dmrg' units."""
    from tenpy.algorithms import dmrg
    from tenpy.networks.mps import MPS
    M, ref = Z.tenpy_model(model, L, ephc, seed), reference(model, L, seed)
    psi0 = MPS.from_product_state(M.lat.mps_sites(), list(init), 'finite', permute=False)
    dmrg.TwoSiteDMRGEngine(psi0, M, dict(mixer=True, max_sweeps=40, max_trunc_err=None)).run()
    v0 = Z.dense_state(psi0)
    if abs(np.real(np.vdot(v0, ref.H @ v0)) - ref.levels[sector][0]) > 1e-9:
        return None, None
    return psi0, v0


def run_dmrg_case(c, M=None):
    """Run one finite DMRG configuration on the real code and compare with the reference.

    -> (list of (key, msg), info).  c['level'] = 1 searches the first excited state with `orthogonal_to`."""
    from tenpy.algorithms import dmrg
    from tenpy.networks.mps import MPS
    ref = reference(c['model'], c['L'], c['seed'])
    if M is None:
        M = Z.tenpy_model(c['model'], c['L'], c['ephc'], c['seed'])
    sector = tuple(c['sector'])
    level = c.get('level', 0)
    tag = '%s:%s:ephc=%s' % (c['engine'], c['mixer'], c['ephc'])
    if level:
        tag = 'excited:' + tag
    bad = []
    kwargs = {}
    if level:
        psi0, v0 = exact_ground_state(c['model'], c['L'], c['ephc'], c['seed'], sector, tuple(c['init']))
        if psi0 is None:
            return [], dict(outcome='no-ground-state')  # (a failure of that run is reported by the plain 'dmrg' units)
        kwargs['orthogonal_to'] = [psi0]
    psi = MPS.from_product_state(M.lat.mps_sites(), list(c['init']), 'finite', permute=False)
    try:
        eng = getattr(dmrg, c['engine'])(psi, M, dmrg_options(c), **kwargs)
        E, psi_ret = eng.run()
        E_mpo = M.H_MPO.expectation_value(psi)
        q_after = tuple(int(x) for x in psi.chinfo.make_valid(psi.get_total_charge(True)))
    except Exception as e:  # noqa: BLE001
        return [exception_finding(e, c['engine'])], dict(outcome='exception')
    if psi_ret is not psi:
        bad.append(('not-in-place:' + tag, 'run() did not return the MPS it was given'))
    f = canonical_finding(psi, eng, c)
    if f is not None:  # the stored tensors do not define one state; nothing else can be compared
        return bad + [f], dict(outcome='not-canonical')
    try:
        v = Z.dense_state(psi)
    except ValueError as e:
        return bad + [('state-invalid:' + tag, str(e))], dict(outcome='invalid')
    nrm = np.linalg.norm(v)
    if abs(psi.norm - 1) > 1e-10 or abs(nrm - 1) > TOL:
        bad.append(('norm:' + tag, 'psi.norm=%r, |dense state|=%r' % (psi.norm, nrm)))
    free_sector = c['diag'] == 'ED_all'  # documented: may change the charge sector
    support = set(ref.charges[i] for i in np.nonzero(np.abs(v) > 1e-9)[0])
    if support != {q_after} or (q_after != sector and not free_sector):
        bad.append(('charge-sector:%s:%s' % (c['diag'], tag), 'initial sector %s, get_total_charge %s, dense support %s' % (sector, q_after, sorted(support))))
    E_dense = float(np.real(np.vdot(v, ref.H @ v)) / nrm**2)
    E_trunc = last_E_trunc(eng, 2 * (c['L'] - eng.n_optimize))
    unreliable = level and E > -1e-8  # documented (warning of the engine): projected-out state has eigenvalue 0, result unreliable
    if not abs(E - E_dense) <= TOL + E_trunc and not unreliable:
        bad.append(('energy-mismatch:' + tag, 'E=%.12f from run(), <psi|H|psi>=%.12f (dense), reported max E_trunc=%.3g' % (E, E_dense, E_trunc)))
    if not abs(E_mpo - E_dense) <= TOL:
        bad.append(('mpo-expectation:' + tag, 'H_MPO.expectation_value=%.12f, dense <psi|H|psi>=%.12f' % (E_mpo, E_dense)))
    E0 = ref.E_min if free_sector else ref.levels[sector][0]
    if not min(E, E_dense) >= E0 - 1e-9:
        bad.append(('below-ground-state:' + tag, 'E=%.12f, <H>=%.12f, exact E0(%s)=%.12f' % (E, E_dense, 'any' if free_sector else sector, E0)))
    can_orthogonalize = c['chi'] == 'full' and (c['mixer'] is not None or c['engine'].startswith('Two'))  # else truncated / stuck at chi=1
    if level and can_orthogonalize and abs(np.vdot(v0, v)) > 1e-6:
        bad.append(('not-orthogonal:' + tag, '|<psi0|psi>|=%.3g' % abs(np.vdot(v0, v))))
    target = ref.levels[sector][level]
    demand = c['engine'].startswith('Two') and c['mixer'] is not None and c['chi'] != 'trunc' and c['sweeps'] == 'long' and not free_sector
    conv = abs(E_dense - target) <= TOL
    if demand and q_after == sector:
        ov, gap, _ = ref.ground_overlap(sector, v / nrm, level)
        if not conv or (gap >= 1e-2 and ov < 1 - 1e-6):
            bad.append(('not-converged:%s:%s' % (c['diag'], tag), 'E-E%d=%.3g, weight in the exact eigenspace %.9f (gap %.3g) after %d sweeps, chi=%s' % (
                level, E_dense - target, ov, gap, eng.sweeps, psi.chi)))
    return bad, dict(outcome='%s:%s' % ('converged' if conv else 'above', 'mixer-on' if eng.mixer is not None else 'mixer-off'))


def collect(cases, runner, nontrivial):
    ev = nontriv = 0
    viol, outcomes, samples = [], set(), []
    for c in cases:
        bad, info = runner(c)
        ev += 1
        nontriv += bool(nontrivial(c))
        outcomes.add(info['outcome'])
        for key, msg in bad:
            if sum(v['key'] == key for v in viol) < 2:
                viol.append(dict(key=key, what='%s | %s' % (msg, c), case=c))
        if not samples:
            samples.append(c)
    return dict(evaluations=ev, nontrivial_count=nontriv, outcomes=outcomes, violations=viol, samples=samples)


def run_dmrg_unit(unit):
    _, model, L, ephc, engine, mixer, ninit, sectors, og, seed = unit
    ref = reference(model, L, seed)
    M = Z.tenpy_model(model, L, ephc, seed)
    mid = len(ref.sectors) // 2
    cases = [dict(kind='dmrg', model=model, L=L, ephc=ephc, seed=seed, engine=engine, mixer=mixer, diag=diag, combine=combine,
                  chi=chi, sweeps=sweeps, sector=list(sector), init=init)
             for sector in (ref.sectors if sectors == 'all' else ref.sectors[max(mid - 1, 0):mid + 2])
             for init in pick_inits(ref, sector, ninit) for diag, combine, chi, sweeps in option_grid(og)]
    return collect(cases, lambda c: run_dmrg_case(c, M), lambda c: len(ref.levels[tuple(c['sector'])]) > 1)


def run_ortho_unit(unit):
    """First excited state of every sector with >= 3 states; the spectrum is shifted to negative energies (documented
    requirement of `orthogonal_to`: the projected-out state has eigenvalue 0)."""
    _, model, L, ephc, engine, seed = unit
    model += '_neg'
    ref = reference(model, L, seed)
    assert max(w[-1] for w in ref.levels.values()) < -0.5
    M = Z.tenpy_model(model, L, ephc, seed)
    cases = [dict(kind='dmrg', level=1, model=model, L=L, ephc=ephc, seed=seed, engine=engine, mixer=mixer, diag=diag, combine=combine,
                  chi=chi, sweeps='long', sector=list(sector), init=pick_inits(ref, sector, 1)[0])
             for sector in ref.sectors if len(ref.levels[sector]) >= 3
             for mixer in (None, True) for diag in ('default', 'lanczos', 'arpack') for combine in (False, True) for chi in ('full', 'trunc')]
    return collect(cases, lambda c: run_dmrg_case(c, M), lambda c: True)


# ---------------------------------------------------------------- segment DMRG

def run_segment_case(c):
    """Sites 1..4 of a 6-site chain are optimised for H' (other couplings) in the frozen Schmidt bases of the ground state
    of H.  Reference: H' projected on (left Schmidt states) x (segment) x (right Schmidt states), per charge sector."""
    from tenpy.algorithms import dmrg
    from tenpy.networks.mpo import MPOEnvironment
    from tenpy.networks.mps import MPS
    L, first, last = 6, 1, 4
    ref = reference(c['model'], L, c['seed'])
    ref2 = reference(c['model'], L, c['seed'] + 1000)
    sector = ref.sectors[len(ref.sectors) // 2]
    M = Z.tenpy_model(c['model'], L, c['ephc'], c['seed'])
    M2 = Z.tenpy_model(c['model'], L, c['ephc'], c['seed'] + 1000)
    psi0, v0 = exact_ground_state(c['model'], L, c['ephc'], c['seed'], sector, tuple(pick_inits(ref, sector, 1)[0]))
    if psi0 is None:
        return [], dict(outcome='no-ground-state')
    psi0 = psi0.copy()
    psi0.canonical_form()
    # frozen bases: left Schmidt states from A tensors of sites < first, right ones from B tensors of sites > last
    d = ref.d
    left = np.ones((1, 1))
    for i in range(first):
        left = np.tensordot(left, psi0.get_B(i, 'A').transpose(['vL', 'p', 'vR']).to_ndarray(), axes=(-1, 0)).reshape(-1, psi0.chi[i])
    right = np.ones((1, 1))
    for i in range(L - 1, last, -1):
        right = np.tensordot(psi0.get_B(i, 'B').transpose(['vL', 'p', 'vR']).to_ndarray(), right, axes=(-1, 0)).reshape(psi0.chi[i - 1], -1)
    V = np.einsum('la,st,br->lsrabt', left, np.eye(d**(last - first + 1)), right)
    V = V.transpose(0, 1, 2, 3, 5, 4).reshape(d**L, -1)  # columns (a, s_segment, b)
    col_q = [ref.charges[int(np.argmax(np.abs(V[:, k])))] for k in range(V.shape[1])]
    cols = [k for k, q in enumerate(col_q) if q == sector]
    Vs = V[:, cols]
    E_ref = np.linalg.eigvalsh(Vs.conj().T @ ref2.H @ Vs)[0]
    tag = '%s:%s:ephc=%s' % (c['engine'], c['mixer'], c['ephc'])
    try:
        env = MPOEnvironment(psi0, M2.H_MPO, psi0)
        init_env = env.get_initialization_data(first, last)
        psi = psi0.extract_segment(first, last)
        eng = getattr(dmrg, c['engine'])(psi, M2.extract_segment(first, last), dmrg_options(c), resume_data={'init_env_data': init_env})
        E, _ = eng.run()
        nt = float(np.max(np.abs(psi.norm_test())))
    except Exception as e:  # noqa: BLE001
        return [exception_finding(e, c['engine'])], dict(outcome='exception')
    bad = []
    if nt > TOL:
        bad.append(('segment:canonical-form:' + tag, 'norm_test=%.3g' % nt))
    if not E >= E_ref - 1e-9:
        bad.append(('segment:below-ground-state:' + tag, 'E=%.12f < lowest eigenvalue %.12f of H projected on the segment space' % (E, E_ref)))
    conv = E - E_ref <= TOL
    if c['engine'].startswith('Two') and c['mixer'] is not None and c['chi'] == 'full' and not conv:
        bad.append(('segment:not-converged:%s:%s' % (c['diag'], tag), 'E-E_ref=%.3g after %d sweeps' % (E - E_ref, eng.sweeps)))
    return bad, dict(outcome='converged' if conv else 'above')


def run_segment_unit(unit):
    _, model, ephc, engine, seed = unit
    cases = [dict(kind='segment', model=model, ephc=ephc, seed=seed, engine=engine, mixer=mixer, diag=diag, combine=combine, chi=chi, sweeps='long')
             for mixer in MIXERS for diag in ('default', 'lanczos') for combine in (False, True) for chi in ('full', 'trunc')]
    return collect(cases, run_segment_case, lambda c: True)


# ---------------------------------------------------------------- infinite chains: iDMRG and VUMPS

def run_inf_case(c):
    from tenpy.algorithms import dmrg, vumps
    from tenpy.networks.mps import MPS
    M = Z.infinite_model(c['model'], c['L'], c['ephc'], c['site'])
    exact = Z.exact_density(c['model'])
    slack, conv_tol = Z.INF_TOL[c['model']]
    sites = M.lat.mps_sites()
    vu = 'VUMPS' in c['engine']
    tag = '%s:%s:%s:ephc=%s' % (c['engine'], c['mixer'], c['model'], c['ephc'])
    try:
        if c['engine'] == 'SingleSiteVUMPSEngine':
            np.random.seed(4321 + c['seed'])  # from_desired_bond_dimension draws from the global numpy generator
            psi = MPS.from_desired_bond_dimension(sites, c['chi'], bc='infinite')
        else:
            psi = MPS.from_product_state(sites, [0] * c['L'] if c['model'] == 'tfi' else [0, 1][:c['L']], 'infinite', permute=False)
        opt = dict(mixer=c['mixer'], trunc_params=dict(chi_max=c['chi'], svd_min=1e-10), max_sweeps=60 if vu else 200, max_trunc_err=None)
        if vu:
            opt.update(max_E_err=1e-12, max_S_err=1e-8)
        kwargs = {'resume_data': {'init_env_data': {'force_init_method': c['env_init']}}} if 'env_init' in c else {}
        eng = getattr(vumps if vu else dmrg, c['engine'])(psi, M, opt, **kwargs)
        E, psi = eng.run()
        nt = float(np.max(np.abs(psi.norm_test())))
        E_mpo = M.H_MPO.expectation_value(psi)
        E_own = Z.infinite_energy_density(c['model'], psi)
    except Exception as e:  # noqa: BLE001
        return [exception_finding(e, c['engine'])], dict(outcome='exception')
    bad = []
    if nt > TOL or abs(psi.norm - 1) > 1e-10:
        bad.append(('infinite:canonical-form:' + tag, 'norm_test=%.3g, psi.norm=%r' % (nt, psi.norm)))
        return bad, dict(outcome='not-canonical')
    if abs(np.imag(E)) > TOL or abs(np.imag(E_mpo)) > TOL:
        bad.append(('infinite:energy-not-real:' + tag, 'hermitian H, but run() returned E=%r, H_MPO.expectation_value=%r' % (E, E_mpo)))
    E, E_mpo = float(np.real(E)), float(np.real(E_mpo))
    E_trunc = 0.0 if vu else last_E_trunc(eng, 4 * c['L'])
    stopped_converged = eng.sweeps < opt['max_sweeps']  # (the iDMRG energy density is an estimate that is exact only at convergence)
    if stopped_converged and abs(E - E_own) > 1e-6 + E_trunc:
        bad.append(('infinite:energy-mismatch:' + tag, 'E=%.10f from run(), own bond-energy evaluation of the returned state %.10f' % (E, E_own)))
    if abs(E_mpo - E_own) > TOL:
        bad.append(('infinite:mpo-expectation:' + tag, 'H_MPO.expectation_value=%.10f, own evaluation %.10f' % (E_mpo, E_own)))
    if E_own < exact - slack:
        bad.append(('infinite:below-ground-state:' + tag, 'energy density %.12f < exact %.12f' % (E_own, exact)))
    conv = E_own - exact <= conv_tol
    if not conv and (vu or (c['engine'].startswith('Two') and c['mixer'] is not None)):
        bad.append(('infinite:not-converged:' + tag, 'energy density %.10f, exact %.10f, chi=%s after %d sweeps' % (E_own, exact, psi.chi, eng.sweeps)))
    return bad, dict(outcome='converged' if conv else 'above')


def run_inf_unit(unit):
    c = dict(unit[1], seed=unit[2])
    return collect([c], run_inf_case, lambda c: True)


RUNNERS = {'dmrg': run_dmrg_unit, 'ortho': run_ortho_unit, 'segment': run_segment_unit, 'inf': run_inf_unit}
CASE_RUNNERS = {'dmrg': run_dmrg_case, 'segment': run_segment_case, 'inf': run_inf_case}


def run_unit(unit):
    logging.getLogger('tenpy').setLevel(logging.ERROR)  # (run_unit must not print)
    with warnings.catch_warnings():
        warnings.simplefilter('ignore')
        return RUNNERS[unit[0]](unit)


def replay(case):
    logging.getLogger('tenpy').setLevel(logging.ERROR)
    with warnings.catch_warnings():
        warnings.simplefilter('ignore')
        bad, _ = CASE_RUNNERS[case['kind']](case)
    return dict(evaluations=1, violations=[dict(key=k, what=m, case=case) for k, m in bad])
