"""C13 -- variational ground-state search (DMRG, VUMPS) is sound and converges on small systems.

Grid: model zoo (c13_models) x L x explicit_plus_hc x engine x mixer (one unit each) x every charge sector x initial
product states x diag_method x combine x chi schedule x sweep budget.  Reference: dense kron/Jordan-Wigner
Hamiltonian + numpy eigh per charge sector; the returned MPS is contracted to a dense vector by our own code.
Further unit kinds: excited states (orthogonal_to), segment DMRG, iDMRG and VUMPS against closed-form densities.
"""
import functools
import traceback
import warnings

import numpy as np

from checks import c13_models as Z

UNIT_TIMEOUT = 1500.0
ENGINES = ['TwoSiteDMRGEngine', 'SingleSiteDMRGEngine']
MIXERS = [None, True, 'DensityMatrixMixer', 'SubspaceExpansion']
DIAGS = ['default', 'lanczos', 'arpack', 'ED_block', 'ED_all']
SCHEDULES = [('full', 'long'), ('list', 'long'), ('trunc', 'short'), ('full', 'short')]  # (chi, sweeps)
TOL = 1e-8


def option_grid(name):
    """(diag, combine, chi, sweeps) tuples: 'full' = whole product; 'checker' = every (diag, schedule) pair with combine
    alternating on the checkerboard (all pairs of option values covered); 'mini' = two eigensolvers only."""
    out = []
    for i, diag in enumerate(DIAGS):
        for j, (chi, sweeps) in enumerate(SCHEDULES):
            for combine in (False, True):
                if name == 'full' or (combine == bool((i + j) % 2) and (name == 'checker' or diag in ('default', 'lanczos'))):
                    out.append((diag, combine, chi, sweeps))
    return out


def plan(tier):
    """(model, L, #initial product states per sector, sectors 'all'|'central', option grid) entries."""
    if tier == 'quick':
        return [('xxz', 4, 1, 'all', 'checker'), ('cfermi', 4, 1, 'all', 'checker'), ('spin1', 3, 1, 'all', 'checker')]
    p = [(m, 4, 2 if m in ('xxz', 'cfermi') else 1, 'all', 'full') for m in Z.MODELS if m not in ('spin1', 'bose')]
    p += [(m, 3, 1, 'all', 'full') for m in ('spin1', 'bose', 'xxz', 'cfermi', 'kitaev')]
    p += [(m, 6, 1, 'central', 'checker') for m in ('xxz', 'cfermi', 'expdecay')]
    p += [(m, 8, 1, 'central', 'mini') for m in ('xxz', 'cfermi')]
    return p + [('xxz', 10, 1, 'central', 'mini')]


def units(tier, seed, label):
    us = [('dmrg', m, L, ephc, e, mx, ninit, sectors, og, seed) for m, L, ninit, sectors, og in plan(tier)
          for ephc in (False, True) for e in ENGINES for mx in MIXERS]
    return us


@functools.lru_cache(maxsize=4)
def reference(model, L, seed):
    return Z.Reference(model, L, seed)


def pick_inits(ref, sector, ninit):
    """Deterministic representatives of the product states of a sector: the middle one, then the first."""
    ps = ref.product_states(sector)
    return [list(p) for p in dict.fromkeys([ps[len(ps) // 2], ps[0]][:ninit])]


def dmrg_options(c):
    chi, sweeps = c['chi'], c['sweeps']
    long = sweeps == 'long'
    opt = dict(mixer=c['mixer'], diag_method=c['diag'], combine=c['combine'], max_trunc_err=None,
               max_sweeps=40 if long else 2, trunc_params=dict(chi_max=2 if chi == 'trunc' else 100))
    if chi == 'list':
        opt['chi_list'] = {0: 2, (3 if long else 1): 100}
        del opt['trunc_params']['chi_max']
    if c['diag'] == 'default':
        opt['max_N_for_ED'] = 10  # so that both branches (ED for small, Lanczos for larger effective H) occur
    return opt


def tenpy_frame(tb):
    """Innermost tenpy function of a traceback (stable call-site name for violation keys)."""
    name = '?'
    for fs in traceback.extract_tb(tb):
        if '/tenpy/' in fs.filename:
            name = fs.name
    return name


def run_dmrg_case(c, M=None):
    """Run one DMRG configuration on the real code and compare with the reference. -> (list of (key, msg), info)."""
    from tenpy.algorithms import dmrg
    from tenpy.networks.mps import MPS
    ref = reference(c['model'], c['L'], c['seed'])
    if M is None:
        M = Z.tenpy_model(c['model'], c['L'], c['ephc'], c['seed'])
    sector = tuple(c['sector'])
    tag = '%s:%s:ephc=%s' % (c['engine'], c['mixer'], c['ephc'])
    bad = []
    psi = MPS.from_product_state(M.lat.mps_sites(), list(c['init']), 'finite', permute=False)
    try:
        eng = getattr(dmrg, c['engine'])(psi, M, dmrg_options(c))
        E, psi_ret = eng.run()
    except Exception as e:  # noqa: BLE001
        return [('exception:%s@%s:%s' % (type(e).__name__, tenpy_frame(e.__traceback__), tag),
                 '%s: %s\n%s' % (type(e).__name__, e, traceback.format_exc()[-1200:]))], dict(outcome='exception')
    E_mpo = M.H_MPO.expectation_value(psi)
    q_after = tuple(int(x) for x in psi.chinfo.make_valid(psi.get_total_charge(True)))
    if psi_ret is not psi:
        bad.append(('not-in-place:' + tag, 'run() did not return the MPS it was given'))
    nt = float(np.max(np.abs(psi.norm_test())))
    if not nt <= TOL:
        bad.append(('canonical-form:' + tag, 'norm_test=%.3g after run' % nt))
    try:
        v = Z.dense_state(psi)
    except ValueError as e:
        return bad + [('state-invalid:' + tag, str(e))], dict(outcome='invalid')
    nrm = np.linalg.norm(v)
    if abs(psi.norm - 1) > 1e-10 or abs(nrm - 1) > TOL:
        bad.append(('norm:' + tag, 'psi.norm=%r, |dense state|=%r' % (psi.norm, nrm)))
    free_sector = c['diag'] == 'ED_all'  # documented: may change the charge sector
    support = set(ref.charges[i] for i in np.nonzero(np.abs(v) > 1e-9)[0])
    if support != {q_after} or (q_after != sector and not free_sector):
        bad.append(('charge-sector:%s:%s' % (c['diag'], tag), 'initial sector %s, get_total_charge %s, dense support %s' % (sector, q_after, sorted(support))))
    E_dense = float(np.real(np.vdot(v, ref.H @ v)) / nrm**2)
    nsw = 2 * (c['L'] - (2 if c['engine'].startswith('Two') else 1))
    E_trunc = max([abs(x) for x in eng.update_stats['E_trunc'][-nsw:] if x is not None], default=0.0)
    if not abs(E - E_dense) <= TOL + E_trunc:
        bad.append(('energy-mismatch:' + tag, 'E=%.12f from run(), <psi|H|psi>=%.12f (dense), reported max E_trunc=%.3g' % (E, E_dense, E_trunc)))
    if not abs(E_mpo - E_dense) <= TOL:
        bad.append(('mpo-expectation:' + tag, 'H_MPO.expectation_value=%.12f, dense <psi|H|psi>=%.12f' % (E_mpo, E_dense)))
    E0 = ref.E_min if free_sector else ref.levels[sector][0]
    if not min(E, E_dense) >= E0 - 1e-9:
        bad.append(('below-ground-state:' + tag, 'E=%.12f, <H>=%.12f, exact E0(%s)=%.12f' % (E, E_dense, 'any' if free_sector else sector, E0)))
    dim = len(ref.levels[sector])
    demand = c['engine'].startswith('Two') and c['mixer'] is not None and c['chi'] != 'trunc' and c['sweeps'] == 'long' and not free_sector
    conv = E_dense - E0 <= TOL
    if demand and q_after == sector:
        ov, gap, _ = ref.ground_overlap(sector, v / nrm)
        if not conv or (gap >= 1e-2 and ov < 1 - 1e-6):
            bad.append(('not-converged:%s:%s' % (c['diag'], tag), 'E-E0=%.3g, ground space weight %.9f (gap %.3g) after %d sweeps, chi=%s' % (
                E_dense - E0, ov, gap, eng.sweeps, psi.chi)))
    return bad, dict(outcome='%s:%s' % ('converged' if conv else 'above', 'mixer-on' if eng.mixer is not None else 'mixer-off'), dim=dim)


def run_dmrg_unit(unit):
    _, model, L, ephc, engine, mixer, ninit, sectors, og, seed = unit
    ref = reference(model, L, seed)
    M = Z.tenpy_model(model, L, ephc, seed)
    ev = nontriv = 0
    viol, outcomes, samples = [], set(), []
    mid = len(ref.sectors) // 2
    for sector in (ref.sectors if sectors == 'all' else ref.sectors[max(mid - 1, 0):mid + 2]):
        for init in pick_inits(ref, sector, ninit):
            for diag, combine, chi, sweeps in option_grid(og):
                c = dict(kind='dmrg', model=model, L=L, ephc=ephc, seed=seed, engine=engine, mixer=mixer, diag=diag,
                         combine=combine, chi=chi, sweeps=sweeps, sector=list(sector), init=init)
                bad, info = run_dmrg_case(c, M)
                ev += 1
                nontriv += len(ref.levels[sector]) > 1
                outcomes.add(info['outcome'])
                for key, msg in bad:
                    if sum(v['key'] == key for v in viol) < 2:
                        viol.append(dict(key=key, what='%s | %s' % (msg, c), case=c))
                if not samples:
                    samples.append(c)
    return dict(evaluations=ev, nontrivial_count=nontriv, outcomes=outcomes, violations=viol, samples=samples)


def run_unit(unit):
    with warnings.catch_warnings():
        warnings.simplefilter('ignore')
        return {'dmrg': run_dmrg_unit}[unit[0]](unit)


def replay(case):
    with warnings.catch_warnings():
        warnings.simplefilter('ignore')
        bad, _ = {'dmrg': run_dmrg_case}[case['kind']](case)
    return dict(evaluations=1, violations=[dict(key=k, what=m, case=case) for k, m in bad])
