"""Compare the digest streams of the CY and PY runs of C04 step by step (no tenpy import here)."""


def _close(a, b):
    if isinstance(a, tuple) and isinstance(b, tuple) and len(a) == 2 and a[0] == 'float' == b[0]:
        return len(a[1]) == len(b[1]) and all(abs(x - y) <= 1e-5 * (1 + abs(y)) for x, y in zip(a[1], b[1]))
    return a == b


def finalize(by_label, tier, seed):
    labels = sorted(by_label)
    viol = []
    only_one = [0]
    ev = 0
    keys = set()
    if len(labels) < 2:
        return dict(violations=[dict(key='finalize:missing-configuration', what='only configurations %r ran' % (labels,), case={})])
    ref, other = by_label[labels[0]], by_label[labels[1]]
    runits = {idx: res for idx, st, res in ref['results'] if st == 'ok'}
    ounits = {idx: res for idx, st, res in other['results'] if st == 'ok'}
    for idx in sorted(set(runits) & set(ounits)):
        a, b = runits[idx].get('digests', []), ounits[idx].get('digests', [])
        da, db = dict(a), dict(b)
        for name in sorted(set(da) | set(db), key=str):
            ev += 1
            if name not in da or name not in db:
                # Histories of length >= 2 are expanded only from states that are new w.r.t. the canonical key, which
                # contains unobservable internals (block order, cached flags) that may legitimately differ between
                # the two implementations: such steps are simply not compared.  Single steps must exist in both.
                if str(name).count("), (") >= 1 or not str(name).split(':', 1)[-1].startswith('(('):
                    only_one[0] += 1
                    continue
                k = 'step-missing-in-one-configuration'
                what = 'step %s only present in %s' % (name, labels[0] if name in da else labels[1])
            elif _close(da[name], db[name]):
                continue
            else:
                x, y = da[name], db[name]
                opname = str(name).split("('")[-1].split("'")[0] if "('" in str(name) else str(name).split(':')[0]
                if isinstance(x, str) and x.startswith('exc') or isinstance(y, str) and y.startswith('exc') or (isinstance(x, tuple) and x and x[0] == 'exc') or (isinstance(y, tuple) and y and y[0] == 'exc'):
                    k = 'differs:%s:error-class' % opname
                else:
                    k = 'differs:%s' % opname
                what = 'step %s: %s gives %r, %s gives %r' % (name, labels[0], _short(x), labels[1], _short(y))
            if len(viol) < 40:
                viol.append(dict(key=k, what=what, label='both', case=dict(unit=runits[idx].get('unit'), step=name)))
    return dict(evaluations=0, violations=viol, extra=dict(steps_only_in_one_configuration_not_compared=only_one[0], steps_compared=ev, programs=len(set(runits) & set(ounits)), disagreements_checked=len(viol)))


def _short(x):
    s = repr(x)
    return s if len(s) < 300 else s[:300] + '...'
