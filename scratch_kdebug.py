import sys; sys.path.insert(0,'/verif')
import warnings; warnings.simplefilter('ignore')
from vk import kseeds, kernel as K, kengine, kops
import time, collections
step=int(sys.argv[1]) if len(sys.argv)>1 else 97
depth=int(sys.argv[2]) if len(sys.argv)>2 else 1
chs=sys.argv[3].split(',') if len(sys.argv)>3 else ['U1','none','Z3','U1xZ2']
t=time.time()
tot=collections.Counter(); vk=collections.OrderedDict()
for ch in chs:
    s=kseeds.seeds(ch,'quick')
    for seed,fam in s[::step]:
        stats,viol,keys,outs=kengine.bfs(seed,depth,{'C01','C02','C03'},'quick')
        tot['ev']+=stats['evaluations']; tot['states']+=stats['states']
        for v in viol:
            vk.setdefault((v['cat'],v['key']),[]).append((ch,fam,v))
print(tot, time.time()-t)
for k,vs in vk.items():
    print(k, len(vs)); v=vs[0][2]; print('   ', vs[0][0], vs[0][1], v['ops'], '\n     ', v['msg'][:900].replace('\n','\n      '))
